/-
C01 — the frame theorem: a kind whose objects are read only where `IsReferenced` says so, and whose watch
predicate only filters updates the build cannot see, satisfies the hypotheses of `converges_of_sound`.
-/
import NGF.Model.Footprint
import NGF.Proofs.Store

set_option linter.unusedSimpArgs false

namespace NGF.Footprint
open NGF.Store

variable {Core ObjK View : Type}

theorem upd_same {β : Type} (f : NN → Option β) (k : NN) (v : Option β) : upd f k v k = v := by simp [upd]
theorem upd_other {β : Type} (f : NN → Option β) (k j : NN) (v : Option β) (h : j ≠ k) : upd f k v j = f j := by
  simp [upd, h]

theorem gr_ext {g h : Gr Core View} (h1 : g.core = h.core) (h2 : ∀ k, g.seen k = h.seen k) : g = h := by
  cases g; cases h
  simp only [Gr.mk.injEq]
  exact ⟨h1, funext h2⟩

theorem eqv_refl (F : Frame Core ObjK View) (a : ObjK) : Eqv F a a := fun _ _ => ⟨rfl, rfl⟩

theorem eqv_trans (F : Frame Core ObjK View) {a b c : ObjK} (h1 : Eqv F a b) (h2 : Eqv F b c) : Eqv F a c :=
  fun core k => ⟨(h1 core k).1.trans (h2 core k).1, (h1 core k).2.trans (h2 core k).2⟩

theorem relOpt_refl (F : Frame Core ObjK View) : ∀ x : Option ObjK, RelOpt F x x
  | none => trivial
  | some a => eqv_refl F a

theorem relOpt_none_left (F : Frame Core ObjK View) {y : Option ObjK} (h : RelOpt F none y) : y = none := by
  cases y <;> simp_all [RelOpt]

theorem relOpt_some_right (F : Frame Core ObjK View) {x : Option ObjK} {b : ObjK} (h : RelOpt F x (some b)) :
    ∃ a, x = some a ∧ Eqv F a b := by
  cases x with
  | none => simp [RelOpt] at h
  | some a => exact ⟨a, rfl, h⟩

theorem R_refl (F : Frame Core ObjK View) (c : Cl Core ObjK) : R F c c := ⟨rfl, fun k => relOpt_refl F _⟩

/-- `R` is preserved when both sides change at `key` to related values. -/
theorem R_upd (F : Frame Core ObjK View) {s t : Cl Core ObjK} (h : R F s t) (key : NN) (x y : Option ObjK)
    (hxy : RelOpt F x y) :
    R F { s with objs := upd s.objs key x } { t with objs := upd t.objs key y } := by
  refine ⟨h.1, fun k => ?_⟩
  by_cases hk : k = key
  · subst hk; simp only [upd_same]; exact hxy
  · simp only [upd_other _ _ _ _ hk]; exact h.2 k

theorem seen_congr (F : Frame Core ObjK View) (core : Core) (k : NN) {x y : Option ObjK} (h : RelOpt F x y) :
    (x.bind fun o => if F.reads core k o then some (F.view core o) else none) =
    (y.bind fun o => if F.reads core k o then some (F.view core o) else none) := by
  cases x <;> cases y <;> simp only [RelOpt] at h
  · rfl
  · simp only [Option.bind_some]; rw [(h core k).1, (h core k).2]

theorem build_eq_of_R (F : Frame Core ObjK View) {s t : Cl Core ObjK} (h : R F s t) : build F s = build F t := by
  apply gr_ext
  · exact h.1
  · intro k
    simp only [build]
    rw [h.1]
    exact seen_congr F t.core k (h.2 k)

/-- The two conditions a kind has to meet. -/
structure FrameOK (F : Frame Core ObjK View) (admCore : Core → Bool) (admU : ObjK → ObjK → Bool) : Prop where
  /-- footprint: the build reads an object only if `IsReferenced` holds for it -/
  reads_isRef : ∀ core k o, admCore core = true → F.reads core k o = true → F.isRef core k o = true
  /-- an update the watch predicate filters is invisible to the build -/
  watch_ok : ∀ o n, admU o n = true → F.watchU o n = false → Eqv F o n

theorem not_read (F : Frame Core ObjK View) {admCore admU} (ok : FrameOK F admCore admU) {core : Core} {k : NN}
    {o : ObjK} (hc : admCore core = true) (h : F.isRef core k o = false) : F.reads core k o = false := by
  cases hr : F.reads core k o with
  | false => rfl
  | true => rw [ok.reads_isRef _ _ _ hc hr] at h; cases h

/-- writing an unread value over an unread (or absent) one does not change the build -/
theorem build_upd_unread (F : Frame Core ObjK View) (s : Cl Core ObjK) (key : NN) (x : Option ObjK)
    (hold : ∀ o, s.objs key = some o → F.reads s.core key o = false)
    (hnew : ∀ o, x = some o → F.reads s.core key o = false) :
    build F { s with objs := upd s.objs key x } = build F s := by
  apply gr_ext
  · rfl
  · intro k
    simp only [build]
    by_cases hk : k = key
    · subst hk
      simp only [upd_same]
      have h1 : (x.bind fun o => if F.reads s.core k o then some (F.view s.core o) else none) = none := by
        cases x with
        | none => rfl
        | some o => simp [hnew o rfl]
      have h2 : ((s.objs k).bind fun o => if F.reads s.core k o then some (F.view s.core o) else none) = none := by
        cases ho : s.objs k with
        | none => rfl
        | some o => simp [hold o ho]
      rw [h1, h2]
    · simp only [upd_other _ _ _ _ hk]

theorem frame_sound (F : Frame Core ObjK View) (admCore : Core → Bool) (admU : ObjK → ObjK → Bool)
    (ok : FrameOK F admCore admU) :
    Sound (ops (Core := Core) (ObjK := ObjK)) (build F) (rel F) (watch F) (R F) (adm admCore admU) where
  refl := R_refl F
  build_eq _ _ h := build_eq_of_R F h
  sim_delivered s t e hR _ _ := by
    obtain ⟨kind, key, obj, orc⟩ := e
    cases kind with
    | core =>
      cases obj with
      | none => simpa [storeAfter, applyW, ops, storeF] using hR
      | some p =>
        cases p with
        | inl nc => exact ⟨by simp [storeAfter, applyW, ops, storeF], by simpa [storeAfter, applyW, ops, storeF] using hR.2⟩
        | inr o => simpa [storeAfter, applyW, ops, storeF] using hR
    | obj =>
      cases obj with
      | some p =>
        cases p with
        | inl nc => simpa [storeAfter, applyW, ops, storeF] using hR
        | inr o =>
          simpa [storeAfter, applyW, ops, storeF] using R_upd F hR key (some o) (some o) (eqv_refl F o)
      | none =>
        simp only [storeAfter, applyW, ops, storeF]
        rcases Option.eq_none_or_eq_some (s.objs key) with hs | ⟨a, hs⟩
        · have ht : t.objs key = none := relOpt_none_left F (by simpa [hs] using hR.2 key)
          simp only [hs, Option.map_none, Option.isNone_none, if_true]
          refine ⟨hR.1, fun k => ?_⟩
          by_cases hk : k = key
          · subst hk; simp [upd_same, hs, RelOpt]
          · simp only [upd_other _ _ _ _ hk]; exact hR.2 k
        · simpa [hs] using R_upd F hR key none none trivial
  sim_filtered s t e hR ha hw := by
    obtain ⟨kind, key, obj, orc⟩ := e
    cases kind with
    | core => simp [watch] at hw
    | obj =>
      cases obj with
      | none => simp [watch] at hw
      | some p =>
        cases p with
        | inl nc => simp [watch] at hw
        | inr n =>
          simp only [watch] at hw
          cases ht : t.objs key with
          | none => simp [ht] at hw
          | some o =>
            simp only [ht] at hw
            have hau : admU o n = true := by
              simp only [adm, ht, Bool.and_eq_true] at ha; exact ha.2
            have hon := ok.watch_ok o n hau hw
            obtain ⟨a, hsa, hao⟩ := relOpt_some_right F (by simpa [ht] using hR.2 key)
            refine ⟨by simp [ops, applyW, storeF, hR.1], fun k => ?_⟩
            simp only [ops, applyW, storeF]
            by_cases hk : k = key
            · subst hk; simp only [upd_same, hsa]; exact eqv_trans F hao hon
            · simp only [upd_other _ _ _ _ hk]; exact hR.2 k
  watch_inert t e ha hw := by
    obtain ⟨kind, key, obj, orc⟩ := e
    cases kind with
    | core => simp [watch] at hw
    | obj =>
      cases obj with
      | none => simp [watch] at hw
      | some p =>
        cases p with
        | inl nc => simp [watch] at hw
        | inr n =>
          simp only [watch] at hw
          cases ht : t.objs key with
          | none => simp [ht] at hw
          | some o =>
            simp only [ht] at hw
            have hau : admU o n = true := by
              simp only [adm, ht, Bool.and_eq_true] at ha; exact ha.2
            have hon := ok.watch_ok o n hau hw
            have hR : R F { t with objs := upd t.objs key (some n) } t := by
              refine ⟨rfl, fun k => ?_⟩
              by_cases hk : k = key
              · subst hk; simp only [upd_same, ht]
                exact fun core k' => ⟨(hon core k').1.symm, (hon core k').2.symm⟩
              · simp only [upd_other _ _ _ _ hk]; exact relOpt_refl F _
            simpa [ops, applyW, storeF] using build_eq_of_R F hR
  rel_sound s t e hR ha _ hv := by
    obtain ⟨kind, key, obj, orc⟩ := e
    cases kind with
    | core =>
      cases obj with
      | none => simp [verdict, ops] at hv
      | some p => simp [verdict, ops] at hv
    | obj =>
      have hcore : admCore s.core = true := by
        simp only [adm, Bool.and_eq_true] at ha; rw [hR.1]; exact ha.1
      cases obj with
      | some p =>
        cases p with
        | inl nc => simp [verdict, ops, rel] at hv
        | inr n =>
          have hfk : (FK.obj == FK.obj) = true := rfl
          simp only [verdict, ops, rel, build, refOf, hfk, if_true, Bool.or_eq_false_iff] at hv
          have hn := not_read F ok hcore (by simpa using hv.1.2)
          simp only [storeAfter, ops, storeF]
          apply build_upd_unread
          · intro o ho
            have h2 := hv.2
            simp only [ho, Option.map_some, if_true, refOf] at h2
            exact not_read F ok hcore (by simpa using h2)
          · intro o ho; cases ho; exact hn
      | none =>
        simp only [storeAfter, ops]
        rcases Option.eq_none_or_eq_some (s.objs key) with ho | ⟨o, ho⟩
        · simp [ho]
        · simp only [verdict, ops, rel, build, refOf, ho, Option.map_some, Option.isNone_some] at hv
          have hro : F.isRef s.core key o = false := by
            have := hv
            simp at this
            exact this.2
          simp only [ho, storeF, Option.map_some, Option.isNone_some, Bool.false_eq_true, if_false]
          apply build_upd_unread
          · intro o' ho'; rw [ho] at ho'; cases ho'; exact not_read F ok hcore hro
          · intro _ h; cases h

end NGF.Footprint

/-! ### The kinds meet the two conditions -/
namespace NGF.Footprint
open NGF.Store

theorem adm_true {Core ObjK : Type} (w : Cl Core ObjK) (e : FEvent Core ObjK) :
    adm (fun _ => true) (fun _ _ => true) w e = true := by
  obtain ⟨kind, key, obj, orc⟩ := e
  cases kind
  · rfl
  · simp only [adm, Bool.true_and]
    split <;> rfl

theorem watch_true {Core ObjK View : Type} (F : Frame Core ObjK View) (h : ∀ o n, F.watchU o n = true)
    (w : Cl Core ObjK) (e : FEvent Core ObjK) : watch F w e = true := by
  obtain ⟨kind, key, obj, orc⟩ := e
  simp only [watch]
  split
  · split
    · exact h _ _
    · rfl
  · rfl

theorem contains_of_all {l m : List NN} (h : l.all (m.contains ·) = true) {k : NN} (hk : l.contains k = true) :
    m.contains k = true := by
  simp only [List.all_eq_true, List.contains_iff_mem] at *
  exact h k hk

/-- Services, current code: sound outside the two excluded regions. -/
theorem svc_ok : FrameOK svcFrame svcAdmCore svcAdmU where
  reads_isRef core k _ hc hr := contains_of_all hc hr
  watch_ok o n ha hw := by
    simp only [svcAdmU, Bool.or_eq_true, beq_iff_eq] at ha
    rcases ha with h | h
    · subst h; exact eqv_refl _ _
    · rw [show svcFrame.watchU o n = watchSvc o n from rfl, h] at hw; cases hw

/-- Services, repaired (`ReferencedServices` without the winning-Gateway filter, predicate compares all that is
read): sound for every mutation. -/
theorem svc_ok_repaired : FrameOK svcFrameR (fun _ => true) (fun _ _ => true) where
  reads_isRef _ _ _ _ hr := hr
  watch_ok o n _ hw := by
    have : o = n := by simpa [svcFrameR, watchSvcR] using hw
    subst this; exact eqv_refl _ _

theorem slice_ok : FrameOK sliceFrame (fun _ => true) (fun _ _ => true) where
  reads_isRef _ _ _ _ hr := hr
  watch_ok _ _ _ hw := by simp [sliceFrame] at hw

theorem ns_ok : FrameOK nsFrame (fun _ => true) (fun _ _ => true) where
  reads_isRef _ _ _ _ hr := hr
  watch_ok o n _ hw := by
    have : o = n := by simpa [nsFrame] using hw
    subst this; exact eqv_refl _ _

theorem np_ok : FrameOK nginxProxyFrame (fun _ => true) (fun _ _ => true) where
  reads_isRef _ _ _ _ hr := hr
  watch_ok o n _ hw := by
    have : o = n := by simpa [nginxProxyFrame] using hw
    subst this; exact eqv_refl _ _

/-- NGF policies: in the graph (`processPolicies`: winner ∧ some targetRef resolves) ⇒ relevant (some targetRef
resolves); the controller's watch predicate delivers every spec change. -/
theorem policy_ok : FrameOK policyFrame (fun _ => true) (fun _ _ => true) where
  reads_isRef c _ p _ hr := by
    simp only [policyFrame, policyInGraph, Bool.and_eq_true] at hr
    exact hr.2
  watch_ok o n _ hw := by
    have : o = n := by simpa [policyFrame] using hw
    subst this; exact eqv_refl _ _

theorem byName_ok {Core : Type} (refs : Core → List NN) : FrameOK (byName refs) (fun _ => true) (fun _ _ => true) where
  reads_isRef _ _ _ _ hr := hr
  watch_ok _ _ _ hw := by simp [byName] at hw

end NGF.Footprint
