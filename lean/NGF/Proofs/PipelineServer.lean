/-
C02 refinement proof, part 1 (server stage): for a concrete request host, the server NGINX selects among the generated
server names of a port is the one whose entries are EXACTLY the specification's pool — the covering candidates of maximal
specificity (`pool_iff_server_entries`). Glue pieces (i) and (ii) of notes/C02.md: an owned host selects the server named
by the most specific accepted hostname, and `specificity` of the listener/route intersection = `nameSpec` of that name.
-/
import NGF.Proofs.PipelineBase
import NGF.Model.PipelineHyp

namespace NGF.Pipeline
open NGF.Hostname (hmatch moreSpecific accepted)
open NGF.NginxEval (catchAll isWildName wildCovers)

/-! ### specificity of accepted hostnames -/

theorem nameSpec_eq {h : Str} (hne : h ≠ []) (hc : h ≠ catchAll) : nameSpec h = specificity h := by
  have h1 : (h == catchAll) = false := by simpa using hc
  have h2 : h.isEmpty = false := by cases h <;> simp_all
  simp [nameSpec, specificity, h1, h2, isWildName, isWild]

theorem wild_labels_lt {ta tb q : Str} (ha : ('.' :: ta) <:+ q) (hb : ('.' :: tb) <:+ q) (hlen : tb.length < ta.length) :
    NGF.Hostname.labels ('*' :: '.' :: tb) < NGF.Hostname.labels ('*' :: '.' :: ta) := by
  have hsuf : ('.' :: tb) <:+ ('.' :: ta) := by
    refine List.suffix_of_suffix_length_le hb ha ?_
    simp; omega
  have hne : tb ≠ ta := fun e => by rw [e] at hlen; omega
  rcases NGF.Hostname.suffix_dots hsuf with e | lt
  · exact absurd e hne
  · rw [NGF.Hostname.labels_eq, NGF.Hostname.labels_eq, NGF.Hostname.dots_star_dot, NGF.Hostname.dots_star_dot]; omega

theorem spec_exact {h : Str} (hne : h.isEmpty = false) (hw : NGF.Hostname.isWild h = false) :
    specificity h = 100000 + h.length := by
  have : isWild h = false := hw
  simp [specificity, hne, this]

theorem spec_wild (t : Str) : specificity ('*' :: '.' :: t) = 1 + (t.length + 2) := by
  simp [specificity, isWild]

/-- a wildcard hostname that stands for a concrete host is at most one character longer -/
theorem wild_covers_len {t q : Str} (hq : NGF.Hostname.isWild q = false)
    (h : NGF.Hostname.covers ('*' :: '.' :: t) q = true) : ('.' :: t) <:+ q := by
  rcases covers_wild h with e | e
  · rw [e] at hq; simp [NGF.Hostname.isWild] at hq
  · exact e

/-- glue (ii): the accepted hostname of two hostnames that both stand for a concrete host is as specific as the more
specific of the two -/
theorem spec_moreSpecific {l r q : Str} (hr : r ≠ []) (hq : NGF.Hostname.isWild q = false)
    (hl : NGF.Hostname.covers l q = true) (hrq : NGF.Hostname.covers r q = true) :
    specificity (moreSpecific l r) = max (specificity l) (specificity r) := by
  by_cases hlr : l = r
  · subst hlr; simp [moreSpecific]
  have b1 : (l == r) = false := by simpa using hlr
  have hre : r.isEmpty = false := by cases r <;> simp_all
  cases hle : l.isEmpty with
  | true =>
    have : l = [] := by simpa using hle
    subst this
    have : moreSpecific [] r = r := by simp [moreSpecific, b1]
    rw [this]; simp [specificity]
  | false =>
    cases hwl : NGF.Hostname.isWild l with
    | false =>
      have e1 := covers_exact hle hwl hl
      cases hwr : NGF.Hostname.isWild r with
      | false => exact absurd (e1.trans (covers_exact hre hwr hrq).symm) hlr
      | true =>
        obtain ⟨t, rfl⟩ := NGF.Hostname.isWild_eq hwr
        have hpick : moreSpecific l ('*' :: '.' :: t) = l := by
          unfold moreSpecific
          simp [b1, hle, hwl, NGF.Hostname.isWild_cons]
        have hs := (wild_covers_len hq hrq).length_le
        rw [hpick, spec_exact hle hwl, spec_wild, e1]
        simp at hs; omega
    | true =>
      obtain ⟨tl, rfl⟩ := NGF.Hostname.isWild_eq hwl
      have hsl := wild_covers_len hq hl
      cases hwr : NGF.Hostname.isWild r with
      | false =>
        have e2 := covers_exact hre hwr hrq
        have hpick : moreSpecific ('*' :: '.' :: tl) r = r := by
          unfold moreSpecific
          simp [b1, hre, NGF.Hostname.isWild_cons, hwr]
        have hs := hsl.length_le
        rw [hpick, spec_exact hre hwr, spec_wild, e2]
        simp at hs; omega
      | true =>
        obtain ⟨tr, rfl⟩ := NGF.Hostname.isWild_eq hwr
        have hsr := wild_covers_len hq hrq
        have hne : tl ≠ tr := fun e => hlr (by rw [e])
        rcases Nat.lt_trichotomy tl.length tr.length with hlt | heq | hgt
        · have hlab := wild_labels_lt hsr hsl hlt
          have hpick : moreSpecific ('*' :: '.' :: tl) ('*' :: '.' :: tr) = '*' :: '.' :: tr := by
            unfold moreSpecific
            have : ¬ NGF.Hostname.labels ('*' :: '.' :: tl) > NGF.Hostname.labels ('*' :: '.' :: tr) := by omega
            simp [b1, NGF.Hostname.isWild_cons, this]
          rw [hpick, spec_wild, spec_wild]; omega
        · exfalso
          have h1 : ('.' :: tl) <:+ ('.' :: tr) := List.suffix_of_suffix_length_le hsl hsr (by simp; omega)
          have := h1.eq_of_length (by simp; omega)
          simp at this; exact hne this
        · have hlab := wild_labels_lt hsl hsr hgt
          have hpick : moreSpecific ('*' :: '.' :: tl) ('*' :: '.' :: tr) = '*' :: '.' :: tl := by
            unfold moreSpecific
            simp [b1, NGF.Hostname.isWild_cons, hlab]
          rw [hpick, spec_wild, spec_wild]; omega

/-- two generated names that stand for the same concrete host and are equally specific are the same name -/
theorem nameSpec_inj {a b q : Str} (hq : isWildName q = false ∧ q ≠ catchAll)
    (ha : nameCovers a q = true) (hb : nameCovers b q = true) (he : nameSpec a = nameSpec b) : a = b := by
  have key : ∀ {x : Str}, nameCovers x q = true → x ≠ catchAll → isWildName x = false → x = q := by
    intro x hx hc hw
    have h1 : (x == catchAll) = false := by simpa using hc
    simpa [nameCovers, h1, wildCovers, hw] using hx
  have wlen : ∀ {x : Str}, nameCovers x q = true → isWildName x = true → x.length ≤ q.length + 1 ∧ (x.drop 1) <:+ q := by
    intro x hx hw
    have hxq : x ≠ q := fun e => by rw [e, hq.1] at hw; cases hw
    have hxc : x ≠ catchAll := fun e => by rw [e] at hw; simp [isWildName, catchAll] at hw
    have h1 : (x == catchAll) = false := by simpa using hxc
    have h2 : (x == q) = false := by simpa using hxq
    simp only [nameCovers, h1, h2, Bool.false_or, wildCovers, hw, Bool.true_and] at hx
    have hs := List.isSuffixOf_iff_suffix.mp hx
    have := hs.length_le
    simp at this
    exact ⟨by omega, hs⟩
  by_cases hac : a = catchAll
  · by_cases hbc : b = catchAll
    · rw [hac, hbc]
    · have h1 : (b == catchAll) = false := by simpa using hbc
      subst hac
      simp only [nameSpec, beq_self_eq_true, ↓reduceIte, h1, Bool.false_eq_true] at he
      split at he <;> omega
  · by_cases hbc : b = catchAll
    · have h1 : (a == catchAll) = false := by simpa using hac
      subst hbc
      simp only [nameSpec, beq_self_eq_true, ↓reduceIte, h1, Bool.false_eq_true] at he
      split at he <;> omega
    · have h1 : (a == catchAll) = false := by simpa using hac
      have h2 : (b == catchAll) = false := by simpa using hbc
      simp only [nameSpec, h1, h2, Bool.false_eq_true, ↓reduceIte] at he
      cases hwa : isWildName a with
      | false =>
        have ea := key ha hac hwa
        cases hwb : isWildName b with
        | false => exact ea.trans (key hb hbc hwb).symm
        | true =>
          have := (wlen hb hwb).1
          simp only [hwa, hwb, Bool.false_eq_true, ↓reduceIte] at he
          rw [ea] at he; omega
      | true =>
        cases hwb : isWildName b with
        | false =>
          have eb := key hb hbc hwb
          have := (wlen ha hwa).1
          simp only [hwa, hwb, Bool.false_eq_true, ↓reduceIte] at he
          rw [eb] at he; omega
        | true =>
          simp only [hwa, hwb, ↓reduceIte] at he
          obtain ⟨ta, rfl⟩ := NGF.Hostname.isWild_eq hwa
          obtain ⟨tb, rfl⟩ := NGF.Hostname.isWild_eq hwb
          have sa := (wlen ha hwa).2
          have sb := (wlen hb hwb).2
          simp only [List.drop_succ_cons, List.drop_zero] at sa sb
          have h3 : ('.' :: ta) <:+ ('.' :: tb) := List.suffix_of_suffix_length_le sa sb (by simp at he ⊢; omega)
          have := h3.eq_of_length (by simp at he ⊢; omega)
          simp at this; rw [this]

/-! ### accepted hostname pairs -/

/-- hostnames as the fragment allows them, plus `namesPlain` -/
structure HostsOK (l : Str) (rs : List Str) : Prop where
  lcat : l ≠ catchAll
  rne : ∀ r ∈ rs, r ≠ []
  rcat : ∀ r ∈ rs, r ≠ catchAll

theorem acceptedX_name {l : Str} {rs : List Str} (ok : HostsOK l rs) {hh : Str × Str} (h : hh ∈ acceptedX l rs) :
    (hh.1 = catchAll ∧ l = [] ∧ rs = [] ∧ hh.2 = []) ∨
    (hh.1 ≠ [] ∧ hh.1 ≠ catchAll ∧
      ((rs = [] ∧ hh.2 = [] ∧ hh.1 = l) ∨ (hh.2 ∈ rs ∧ hmatch l hh.2 = true ∧ hh.1 = moreSpecific l hh.2))) := by
  unfold acceptedX at h
  by_cases hrs : rs.isEmpty = true
  · have hrs' : rs = [] := by simpa using hrs
    simp only [hrs, ↓reduceIte, List.mem_singleton] at h
    by_cases hl : l.isEmpty = true
    · left
      simp only [hl, ↓reduceIte] at h
      exact ⟨by rw [h]; rfl, by simpa using hl, hrs', by rw [h]⟩
    · right
      simp only [hl, Bool.false_eq_true, ↓reduceIte] at h
      have hl' : l ≠ [] := by intro e; simp [e] at hl
      refine ⟨by rw [h]; exact hl', by rw [h]; exact ok.lcat, Or.inl ⟨hrs', by rw [h], by rw [h]⟩⟩
  · right
    simp only [hrs, Bool.false_eq_true, ↓reduceIte, List.mem_filterMap] at h
    obtain ⟨r, hr, hx⟩ := h
    by_cases hm : hmatch l r = true
    · simp only [hm, ↓reduceIte, Option.some.injEq] at hx
      subst hx
      have hrne := ok.rne r hr
      have hne : moreSpecific l r ≠ [] := by
        by_cases hl0 : l = []
        · have hb : (([] : Str) == r) = false := by cases r <;> simp_all
          rw [hl0]; simp only [moreSpecific, hb, Bool.false_eq_true, ↓reduceIte, List.isEmpty_nil]; exact hrne
        · rcases moreSpecific_mem hm with e | e
          · rw [e]; exact hl0
          · rw [e]; exact hrne
      have hcat : moreSpecific l r ≠ catchAll := by
        rcases moreSpecific_mem hm with e | e
        · rw [e]; exact ok.lcat
        · rw [e]; exact ok.rcat r hr
      exact ⟨hne, hcat, Or.inr ⟨hr, hm, rfl⟩⟩
    · simp [hm] at hx

/-- an accepted hostname stands for a concrete host iff the listener's and the route's hostname both do, and then it
is as specific as the more specific of the two -/
theorem acceptedX_covers {l : Str} {rs : List Str} (ok : HostsOK l rs) {q : Str}
    (hq : NGF.Hostname.isWild q = false) {hh : Str × Str} (h : hh ∈ acceptedX l rs) :
    nameCovers hh.1 q = (covers l q && covers hh.2 q) ∧
    (nameCovers hh.1 q = true → nameSpec hh.1 = max (specificity l) (specificity hh.2)) := by
  rcases acceptedX_name ok h with ⟨e1, e2, _, e4⟩ | ⟨hne, hcat, hcase⟩
  · rw [e1, e2, e4]
    simp [nameCovers, covers, nameSpec, specificity]
  · rw [nameCovers_eq hne hcat, nameSpec_eq hne hcat]
    rcases hcase with ⟨_, e2, e3⟩ | ⟨hr, hm, e3⟩
    · rw [e2, e3]
      constructor
      · simp only [covers_eq_hostname]
        simp [NGF.Hostname.covers]
      · intro _; simp [specificity]
    · rw [e3]
      have hrne := ok.rne _ hr
      constructor
      · cases hc : NGF.Hostname.covers (moreSpecific l hh.2) q with
        | true =>
          have := NGF.Hostname.moreSpecific_covers hm q hc
          simp only [covers_eq_hostname, this.1, this.2, Bool.and_self]
        | false =>
          cases h1 : NGF.Hostname.covers l q with
          | false => simp [covers_eq_hostname, h1]
          | true =>
            cases h2 : NGF.Hostname.covers hh.2 q with
            | false => simp [covers_eq_hostname, h2]
            | true =>
              exfalso
              by_cases hl0 : l = []
              · have hb : (([] : Str) == hh.2) = false := by cases hx : hh.2 <;> simp_all
                rw [hl0] at hc
                simp only [moreSpecific, hb, Bool.false_eq_true, ↓reduceIte, List.isEmpty_nil] at hc
                rw [hc] at h2; cases h2
              · rcases moreSpecific_mem hm with e | e <;> rw [e] at hc
                · rw [hc] at h1; cases h1
                · rw [hc] at h2; cases h2
      · intro hc
        have := NGF.Hostname.moreSpecific_covers hm q hc
        exact spec_moreSpecific hrne hq this.1 this.2

/-- a candidate's route hostname, when both hostnames stand for a concrete host, is accepted -/
theorem acceptedX_of_covers {l : Str} {rs : List Str} (ok : HostsOK l rs) {q : Str}
    (hq : NGF.Hostname.isWild q = false) {rh : Str} (hrh : rh ∈ (if rs.isEmpty then [[]] else rs))
    (hl : covers l q = true) (hr : covers rh q = true) : ∃ h, (h, rh) ∈ acceptedX l rs := by
  unfold acceptedX
  by_cases hrs : rs.isEmpty = true
  · simp only [hrs, ↓reduceIte, List.mem_singleton] at hrh ⊢
    exact ⟨_, by rw [hrh]⟩
  · simp only [hrs, Bool.false_eq_true, ↓reduceIte, List.mem_filterMap] at hrh ⊢
    have hm := covers_both_hmatch (ok.rne rh hrh) hq hl hr
    exact ⟨moreSpecific l rh, rh, hrh, by simp [hm]⟩

theorem acceptedX_snd_mem {l : Str} {rs : List Str} {hh : Str × Str} (h : hh ∈ acceptedX l rs) :
    hh.2 ∈ (if rs.isEmpty then [[]] else rs) := by
  unfold acceptedX at h
  by_cases hrs : rs.isEmpty = true
  · simp only [hrs, ↓reduceIte, List.mem_singleton] at h ⊢
    rw [h]
  · simp only [hrs, Bool.false_eq_true, ↓reduceIte, List.mem_filterMap] at h ⊢
    obtain ⟨r, hr, hx⟩ := h
    by_cases hm : hmatch l r = true
    · simp only [hm, ↓reduceIte, Option.some.injEq] at hx
      rw [← hx]; exact hr
    · simp [hm] at hx

/-! ### the scenario-level side conditions, unpacked -/

structure ScenOK (g : Gateway) (routes : List Route) : Prop where
  hosts : ∀ l ∈ g.listeners, ∀ r ∈ routes, HostsOK l.host r.hostnames
  rules : ∀ r ∈ routes, r.valid = true → ∃ rule ∈ r.rules, rule.ms ≠ []
  ids : nodup (routes.map fun r => (r.ns, r.name)) = true
  matches_ : ∀ r ∈ routes, ∀ rule ∈ r.rules, ∀ m ∈ rule.ms, matchOK m = true

theorem scenOK_of {s : Scenario} {g : Gateway} (hw : winner s = some g) (hf : inFragment s = true)
    (hp : namesPlain s = true) (hr : routesHaveRules s = true) : ScenOK g s.routes := by
  simp only [inFragment, hw, Bool.and_eq_true, List.all_eq_true] at hf
  simp only [namesPlain, hw, Bool.and_eq_true, List.all_eq_true, bne_iff_ne, ne_eq] at hp
  simp only [routesHaveRules, List.all_eq_true, Bool.or_eq_true, Bool.not_eq_true', List.any_eq_true] at hr
  refine ⟨?_, ?_, hf.1.1, ?_⟩
  · intro l hl r hr'
    refine ⟨hp.2 l hl, ?_, hp.1 r hr'⟩
    intro rh hrh e
    have := hf.1.2 r hr'
    simp only [routeOK, Bool.and_eq_true, List.all_eq_true] at this
    have := this.1.1 rh hrh
    simp [hostOK, e] at this
  · intro r hr' hv
    rcases hr r hr' with h | ⟨rule, h1, h2⟩
    · rw [hv] at h; cases h
    · exact ⟨rule, h1, by intro e; simp [e] at h2⟩
  · intro r hr' rule hrule m hm
    have := hf.1.2 r hr'
    simp only [routeOK, Bool.and_eq_true, List.all_eq_true] at this
    exact this.2 rule hrule m hm

/-! ### candidates ↔ annotated entries ↔ generated hosts -/

theorem xe_of_cand {g : Gateway} {routes : List Route} (ok : ScenOK g routes) {p : Nat} {q : Str}
    (hq : NGF.Hostname.isWild q = false) {c : Cand} (hc : c ∈ specCands g routes p) (hcov : candCovers c q = true) :
    ∃ h, (⟨p, h, c⟩ : XE) ∈ xentries g routes ∧ nameCovers h q = true ∧ nameSpec h = candSpec c := by
  obtain ⟨l, hl, hp, r, hr, hv, h1, h2, rh, hrh, ir, hir, jm, hjm, rfl⟩ := mem_specCands.mp hc
  simp only [candCovers, mkCand, Bool.and_eq_true] at hcov
  obtain ⟨h, hh⟩ := acceptedX_of_covers (ok.hosts l hl r hr) hq hrh hcov.1 hcov.2
  have hcv := acceptedX_covers (ok.hosts l hl r hr) hq hh
  simp only [hcov.1, hcov.2, Bool.and_self] at hcv
  refine ⟨h, mem_xentries.mpr ⟨l, hl, r, hr, hv, h1, h2, (h, rh), hh, ir, hir, jm, hjm, ?_⟩, hcv.1, ?_⟩
  · simp [mkX, hp]
  · rw [hcv.2 hcv.1]; rfl

theorem cand_of_xe {g : Gateway} {routes : List Route} (ok : ScenOK g routes) {q : Str}
    (hq : NGF.Hostname.isWild q = false) {x : XE} (hx : x ∈ xentries g routes) :
    x.c ∈ specCands g routes x.port ∧ nameCovers x.host q = candCovers x.c q ∧
    (nameCovers x.host q = true → nameSpec x.host = candSpec x.c) := by
  obtain ⟨l, hl, r, hr, hv, h1, h2, hh, hhh, ir, hir, jm, hjm, rfl⟩ := mem_xentries.mp hx
  have hcv := acceptedX_covers (ok.hosts l hl r hr) hq hhh
  refine ⟨mem_specCands.mpr ⟨l, hl, rfl, r, hr, hv, h1, h2, hh.2, acceptedX_snd_mem hhh, ir, hir, jm, hjm, rfl⟩, ?_, ?_⟩
  · exact hcv.1
  · exact hcv.2

theorem mem_hostsOf_iff {g : Gateway} {routes : List Route} {p : Nat} {h : Str} :
    (p, h) ∈ hostsOf g routes ↔
    ∃ l ∈ g.listeners, l.port = p ∧ ∃ r ∈ routes, r.valid = true ∧ h ∈ acceptedAt g l r := by
  constructor
  · exact mem_hostsOf
  · rintro ⟨l, hl, hp, r, hr, hv, hh⟩
    unfold hostsOf
    rw [List.mem_eraseDups]
    refine List.mem_flatMap.mpr ⟨l, hl, List.mem_flatMap.mpr ⟨r, hr, ?_⟩⟩
    simp only [hv, ↓reduceIte, List.mem_map, Prod.mk.injEq]
    exact ⟨h, hh, hp, rfl⟩

theorem host_of_xe {g : Gateway} {routes : List Route} {x : XE} (hx : x ∈ xentries g routes) :
    (x.port, x.host) ∈ hostsOf g routes := by
  obtain ⟨l, hl, r, hr, hv, h1, h2, hh, hhh, ir, hir, jm, hjm, rfl⟩ := mem_xentries.mp hx
  refine mem_hostsOf_iff.mpr ⟨l, hl, rfl, r, hr, hv, ?_⟩
  rw [acceptedAt_eq_map]
  simp only [acceptedXAt, h1, h2, Bool.and_self, ↓reduceIte]
  exact List.mem_map.mpr ⟨hh, hhh, rfl⟩

/-- every generated server has an entry (this is where `routesHaveRules` is needed) -/
theorem xe_of_host {g : Gateway} {routes : List Route} (ok : ScenOK g routes) {p : Nat} {h : Str}
    (hm : (p, h) ∈ hostsOf g routes) : ∃ c, (⟨p, h, c⟩ : XE) ∈ xentries g routes := by
  obtain ⟨l, hl, hp, r, hr, hv, hh⟩ := mem_hostsOf_iff.mp hm
  rw [acceptedAt_eq_map] at hh
  obtain ⟨hh', hhh, rfl⟩ := List.mem_map.mp hh
  unfold acceptedXAt at hhh
  by_cases ha : (refersTo g l r && nsAllowed g l r) = true
  · simp only [ha, ↓reduceIte] at hhh
    simp only [Bool.and_eq_true] at ha
    obtain ⟨rule, hrule, hms⟩ := ok.rules r hr hv
    obtain ⟨i, hi⟩ := mem_enumFrom_of_mem hrule 0
    obtain ⟨m, hm'⟩ := List.exists_mem_of_ne_nil _ hms
    obtain ⟨j, hj⟩ := mem_enumFrom_of_mem hm' 0
    refine ⟨mkCand l r hh'.2 i rule j m, mem_xentries.mpr ⟨l, hl, r, hr, hv, ha.1, ha.2, hh', hhh, (i, rule), hi, (j, m), hj, ?_⟩⟩
    simp [mkX, hp]
  · simp [ha] at hhh

/-! ### the pool of the specification = the entries of the selected server -/

theorem foldl_max_ge {α} (f : α → Nat) : ∀ (l : List α) (a : Nat), a ≤ l.foldl (fun acc c => max acc (f c)) a ∧
    ∀ c ∈ l, f c ≤ l.foldl (fun acc c => max acc (f c)) a
  | [], a => by simp
  | x :: xs, a => by
    have ih := foldl_max_ge f xs (max a (f x))
    simp only [List.foldl_cons, List.mem_cons, forall_eq_or_imp]
    refine ⟨by omega, by omega, ih.2⟩

theorem foldl_max_attained {α} (f : α → Nat) : ∀ (l : List α) (a : Nat),
    l.foldl (fun acc c => max acc (f c)) a = a ∨ ∃ c ∈ l, f c = l.foldl (fun acc c => max acc (f c)) a
  | [], a => by simp
  | x :: xs, a => by
    simp only [List.foldl_cons, List.mem_cons, exists_eq_or_imp]
    rcases foldl_max_attained f xs (max a (f x)) with h | ⟨c, hc, h⟩
    · rw [h]
      by_cases hax : a ≤ f x
      · right; left; omega
      · left; omega
    · right; right; exact ⟨c, hc, h⟩

/-- Server stage, composed: if `n` is the most specific generated server name of port `p` that stands for the
concrete host `q` (what NGINX selects, `server_select_most_specific`), then the specification's pool — the covering
candidates of maximal specificity — consists exactly of the candidates behind the entries of server `(p, n)`. -/
theorem pool_iff_server_entries {g : Gateway} {routes : List Route} (ok : ScenOK g routes) {p : Nat} {q n : Str}
    (hq : isWildName q = false ∧ q ≠ catchAll) (hn : (p, n) ∈ hostsOf g routes) (hcov : nameCovers n q = true)
    (hmax : ∀ m, (p, m) ∈ hostsOf g routes → nameCovers m q = true → nameSpec m ≤ nameSpec n) (c : Cand) :
    c ∈ ((specCands g routes p).filter (candCovers · q)).filter
        (fun c => candSpec c == ((specCands g routes p).filter (candCovers · q)).foldl (fun acc c => max acc (candSpec c)) 0) ↔
    (⟨p, n, c⟩ : XE) ∈ xentries g routes := by
  have hq' : NGF.Hostname.isWild q = false := hq.1
  generalize hcv : (specCands g routes p).filter (candCovers · q) = covering
  generalize htop : covering.foldl (fun acc c => max acc (candSpec c)) 0 = top
  have hge := (foldl_max_ge candSpec covering 0).2
  rw [htop] at hge
  -- the top specificity is that of `n`
  have htopn : top = nameSpec n := by
    obtain ⟨c0, hc0⟩ := xe_of_host ok hn
    have h0 := cand_of_xe ok hq' hc0
    have hc0cov : candCovers c0 q = true := by rw [← h0.2.1]; exact hcov
    have hc0mem : c0 ∈ covering := by rw [← hcv]; exact List.mem_filter.mpr ⟨h0.1, hc0cov⟩
    have h1 : nameSpec n ≤ top := by rw [h0.2.2 hcov]; exact hge c0 hc0mem
    rcases foldl_max_attained candSpec covering 0 with h | ⟨c1, hc1, h⟩
    · rw [htop] at h; omega
    · rw [htop] at h
      rw [← hcv] at hc1
      have hc1' := List.mem_filter.mp hc1
      obtain ⟨h', hx, hcv', hsp⟩ := xe_of_cand ok hq' hc1'.1 hc1'.2
      have := hmax h' (host_of_xe hx) hcv'
      omega
  simp only [List.mem_filter, beq_iff_eq]
  constructor
  · rintro ⟨hc, hs⟩
    rw [← hcv] at hc
    have hc' := List.mem_filter.mp hc
    obtain ⟨h', hx, hcv', hsp⟩ := xe_of_cand ok hq' hc'.1 hc'.2
    have : h' = n := nameSpec_inj hq hcv' hcov (by omega)
    rw [← this]; exact hx
  · intro hx
    have h0 := cand_of_xe ok hq' hx
    have hcc : candCovers c q = true := by rw [← h0.2.1]; exact hcov
    refine ⟨by rw [← hcv]; exact List.mem_filter.mpr ⟨h0.1, hcc⟩, ?_⟩
    rw [htopn]; exact (h0.2.2 hcov).symm

/-- … and when NGINX falls to the default server, no candidate stands for the host -/
theorem no_covering_of_unselected {g : Gateway} {routes : List Route} (ok : ScenOK g routes) {p : Nat} {q : Str}
    (hq : NGF.Hostname.isWild q = false)
    (hnone : ∀ m, (p, m) ∈ hostsOf g routes → nameCovers m q = false) :
    (specCands g routes p).filter (candCovers · q) = [] := by
  rw [List.filter_eq_nil_iff]
  intro c hc hcov
  obtain ⟨h, hx, hcv, _⟩ := xe_of_cand ok hq hc hcov
  rw [hnone h (host_of_xe hx)] at hcv; cases hcv

end NGF.Pipeline
