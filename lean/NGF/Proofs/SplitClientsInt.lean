import NGF.Model.SplitClients
/-
Proofs about the REPAIRED variant `intCents` (candidate fix; integer arithmetic only).
-/
namespace NGF.SplitClients

theorem floorCents_spec (T w : Nat) (hT : 0 < T) :
    floorCents T w * T ≤ 10000 * w ∧ 10000 * w + 1 ≤ (floorCents T w + 1) * T := by
  unfold floorCents
  have h1 := Nat.div_mul_le_self (10000 * w) T
  have h2 := Nat.lt_mul_div_succ (10000 * w) hT
  rw [Nat.mul_comm T] at h2
  omega

theorem floorCents_zero (T : Nat) : floorCents T 0 = 0 := by simp [floorCents]

theorem floors_sum (T : Nat) (hT : 0 < T) (ws : List Nat) :
    (ws.map (floorCents T)).sum * T ≤ 10000 * ws.sum ∧
    10000 * ws.sum + ws.length ≤ ((ws.map (floorCents T)).sum + ws.length) * T := by
  induction ws with
  | nil => simp
  | cons w t ih =>
    have := floorCents_spec T w hT
    simp only [List.map_cons, List.sum_cons, List.length_cons, Nat.add_mul, Nat.mul_add, Nat.one_mul] at *
    omega

/-- what `addToLastNonZero r` does position by position -/
def Bumped (r : Nat) : List Nat → List Nat → List Nat → Prop
  | [], [], [] => True
  | w :: ws, c :: cs, d :: ds => (d = c ∨ (d = c + r ∧ w ≠ 0)) ∧ Bumped r ws cs ds
  | _, _, _ => False

theorem bumped_refl (r : Nat) : ∀ (ws cs : List Nat), ws.length = cs.length → Bumped r ws cs cs
  | [], [], _ => trivial
  | w :: ws, c :: cs, h => ⟨Or.inl rfl, bumped_refl r ws cs (by simpa using h)⟩
  | [], _ :: _, h => by simp at h
  | _ :: _, [], h => by simp at h

theorem addToLastNonZero_bumped (r : Nat) : ∀ (ws cs : List Nat), ws.length = cs.length →
    Bumped r ws cs (addToLastNonZero r ws cs)
  | [], [], _ => by simp [addToLastNonZero, Bumped]
  | w :: ws, c :: cs, h => by
    simp only [addToLastNonZero]
    split
    · rename_i hc
      simp only [Bool.and_eq_true, bne_iff_ne, ne_eq] at hc
      exact ⟨Or.inr ⟨rfl, hc.2⟩, bumped_refl r ws cs (by simpa using h)⟩
    · exact ⟨Or.inl rfl, addToLastNonZero_bumped r ws cs (by simpa using h)⟩
  | [], _ :: _, h => by simp at h
  | _ :: _, [], h => by simp at h

theorem all_zero_of_sum_zero : ∀ (ws : List Nat), ws.sum = 0 → ws.all (· == 0) = true
  | [], _ => rfl
  | w :: ws, h => by
    simp only [List.sum_cons] at h
    have := all_zero_of_sum_zero ws (by omega)
    simp only [List.all_cons, this, Bool.and_true, beq_iff_eq]; omega

theorem addToLastNonZero_sum (r : Nat) : ∀ (ws cs : List Nat), ws.length = cs.length → 0 < ws.sum →
    (addToLastNonZero r ws cs).sum = cs.sum + r
  | [], [], _, h => by simp at h
  | w :: ws, c :: cs, hl, h => by
    simp only [addToLastNonZero]
    split
    · simp only [List.sum_cons]; omega
    · rename_i hc
      simp only [Bool.and_eq_true, bne_iff_ne, ne_eq, not_and, Decidable.not_not] at hc
      have hpos : 0 < ws.sum := by
        by_cases hall : ws.all (· == 0) = true
        · have hw := hc hall
          subst hw
          simpa using h
        · have : ws.sum ≠ 0 := fun h0 => hall (all_zero_of_sum_zero ws h0)
          omega
      have := addToLastNonZero_sum r ws cs (by simpa using hl) hpos
      simp only [List.sum_cons, this]; omega
  | [], _ :: _, h, _ => by simp at h
  | _ :: _, [], h, _ => by simp at h

end NGF.SplitClients

namespace NGF.SplitClients

theorem bumped_get {r : Nat} : ∀ {ws cs ds : List Nat}, Bumped r ws cs ds →
    ∀ (i : Nat) (hi : i < ws.length), ∃ c d, cs[i]? = some c ∧ ds[i]? = some d ∧
      (d = c ∨ (d = c + r ∧ ws[i] ≠ 0))
  | w :: ws, c :: cs, d :: ds, h, 0, _ => ⟨c, d, by simp, by simp, h.1⟩
  | w :: ws, c :: cs, d :: ds, h, i + 1, hi => by
    obtain ⟨c', d', h1, h2, h3⟩ := bumped_get h.2 i (by simpa using hi)
    exact ⟨c', d', by simpa using h1, by simpa using h2, by simpa using h3⟩
  | [], [], [], _, i, hi => by simp at hi
  | [], _ :: _, _, h, _, _ => by simp [Bumped] at h
  | [], [], _ :: _, h, _, _ => by simp [Bumped] at h
  | _ :: _, [], _, h, _, _ => by simp [Bumped] at h
  | _ :: _, _ :: _, [], h, _, _ => by simp [Bumped] at h

theorem bumped_length {r : Nat} : ∀ {ws cs ds : List Nat}, Bumped r ws cs ds → ds.length = ws.length
  | w :: ws, c :: cs, d :: ds, h => by simp [bumped_length h.2]
  | [], [], [], _ => rfl
  | [], _ :: _, _, h => by simp [Bumped] at h
  | [], [], _ :: _, h => by simp [Bumped] at h
  | _ :: _, [], _, h => by simp [Bumped] at h
  | _ :: _, _ :: _, [], h => by simp [Bumped] at h

/-- all clauses of C15 hold for every weight vector with a positive total
(no bound on the number of backends or on the weights is needed). -/
theorem intCents_main (ws : List Nat) (hpos : 0 < ws.sum) :
    (intCents ws).length = ws.length ∧ (intCents ws).sum = 10000 ∧
    ∀ (i : Nat) (hi : i < ws.length), ∃ c, (intCents ws)[i]? = some c ∧
      (ws[i] = 0 → c = 0) ∧
      10000 * ws[i] < (c + 1) * ws.sum ∧
      c * ws.sum ≤ 10000 * ws[i] + (ws.length - 1) * ws.sum := by
  have hb := addToLastNonZero_bumped (10000 - (ws.map (floorCents ws.sum)).sum) ws
    (ws.map (floorCents ws.sum)) (by simp)
  have hs := addToLastNonZero_sum (10000 - (ws.map (floorCents ws.sum)).sum) ws
    (ws.map (floorCents ws.sum)) (by simp) hpos
  obtain ⟨f1, f2⟩ := floors_sum ws.sum hpos ws
  have hS : (ws.map (floorCents ws.sum)).sum ≤ 10000 :=
    Nat.le_of_mul_le_mul_right f1 hpos
  have hn : 1 ≤ ws.length := by
    cases ws with
    | nil => simp at hpos
    | cons _ _ => simp
  generalize hR : 10000 - (ws.map (floorCents ws.sum)).sum = R at *
  have hRT : R * ws.sum + (ws.map (floorCents ws.sum)).sum * ws.sum = 10000 * ws.sum := by
    rw [← Nat.add_mul]; congr 1; omega
  rw [Nat.add_mul] at f2
  have hRn : R ≤ ws.length - 1 := by
    have : R * ws.sum < ws.length * ws.sum := by omega
    have := Nat.lt_of_mul_lt_mul_right this
    omega
  have hRn' : R * ws.sum ≤ (ws.length - 1) * ws.sum := Nat.mul_le_mul_right _ hRn
  refine ⟨?_, ?_, ?_⟩
  · simp only [intCents, hR]; exact bumped_length hb
  · simp only [intCents, hR, hs]; omega
  · intro i hi
    obtain ⟨c, d, h1, h2, h3⟩ := bumped_get hb i hi
    have hc : c = floorCents ws.sum ws[i] := by
      simp only [List.getElem?_map, List.getElem?_eq_getElem hi, Option.map_some,
        Option.some.injEq] at h1
      exact h1.symm
    obtain ⟨g1, g2⟩ := floorCents_spec ws.sum ws[i] hpos
    rw [← hc] at g1 g2
    refine ⟨d, by simpa only [intCents, hR] using h2, ?_, ?_, ?_⟩
    · intro hz
      rcases h3 with e | ⟨_, e⟩
      · rw [e, hc, hz, floorCents_zero]
      · exact absurd hz e
    · rcases h3 with e | ⟨e, _⟩ <;> subst e
      · omega
      · rw [Nat.add_mul] at g2 ⊢; simp only [Nat.add_mul] at *; omega
    · rcases h3 with e | ⟨e, _⟩ <;> subst e
      · omega
      · simp only [Nat.add_mul]; omega

end NGF.SplitClients

namespace NGF.SplitClients

theorem mkDists_spec : ∀ (bs : List Backend) (cs : List Nat), bs.length = cs.length →
    (mkDists bs cs).map (·.value) = bs.map value ∧
    (mkDists bs cs).map (·.pct) = (cs.map centsDec).map Pct.dec
  | [], [], _ => by simp [mkDists]
  | b :: bs, c :: cs, h => by
    have ih := mkDists_spec bs cs (by simpa using h)
    simp only [mkDists, List.map_cons, ih.1, ih.2, and_self]
  | [], _ :: _, h => by simp at h
  | _ :: _, [], h => by simp at h

end NGF.SplitClients

namespace NGF.SplitClients

/-- the spec weight of a backendRef as the Gateway API defines it: 1 when unset -/
def SpecRef.specWeight (s : SpecRef) : Nat := (s.weight.getD 1).toNat

/-- the spec is inside the quantifier of C15: every weight is unset or in [0, 10⁶] -/
def SpecRef.admissible (s : SpecRef) : Prop :=
  match s.weight with
  | none => True
  | some w => 0 ≤ w ∧ w ≤ 1000000

/-- `newBackendGroup` is a map: length, order, weights and validity of the graph refs are preserved, and a
backend's target is its Service port iff the ref is valid (else the 500 upstream) -/
theorem newBackendGroup_preserves (refs : List GraphRef) :
    (newBackendGroup refs).length = refs.length ∧
    (newBackendGroup refs).map (·.weight) = refs.map (·.weight.toNat) ∧
    (newBackendGroup refs).map (·.valid) = refs.map (·.valid) ∧
    (newBackendGroup refs).map value = refs.map (fun g => if g.valid then g.svcPort else invalidBackendRef) := by
  induction refs with
  | nil => simp [newBackendGroup]
  | cons g t ih =>
    obtain ⟨h1, h2, h3, h4⟩ := ih
    simp only [newBackendGroup, List.map_cons, List.length_cons, List.length_map, List.map_map] at *
    refine ⟨trivial, ?_, ?_, ?_⟩
    · rw [h2]
    · rw [h3]
    · rw [h4]
      cases hv : g.valid <;> simp [value, GraphRef.servicePortReference, hv]

theorem createBackendRef_admissible (s : SpecRef) (h : s.admissible) :
    (createBackendRef s).weight.toNat = s.specWeight ∧ (createBackendRef s).valid = s.resolves ∧
    (createBackendRef s).svcPort = s.target := by
  obtain ⟨w, r, t⟩ := s
  cases w with
  | none => simp [createBackendRef, effectiveWeight, SpecRef.specWeight]
  | some w =>
    simp only [SpecRef.admissible] at h
    simp [createBackendRef, effectiveWeight, SpecRef.specWeight, h]

/-- from the route spec to the backend group: one backend per backendRef, in order, with the spec weight
(1 if unset); invalid refs are kept, with their weight, and target the 500 upstream -/
theorem ruleBackends_spec (spec : List SpecRef) (h : ∀ s ∈ spec, s.admissible) :
    (ruleBackends spec).length = spec.length ∧
    (ruleBackends spec).map (·.weight) = spec.map (·.specWeight) ∧
    (ruleBackends spec).map (·.valid) = spec.map (·.resolves) ∧
    (ruleBackends spec).map value = spec.map (fun s => if s.resolves then s.target else invalidBackendRef) := by
  obtain ⟨h1, h2, h3, h4⟩ := newBackendGroup_preserves (spec.map createBackendRef)
  unfold ruleBackends
  refine ⟨by simpa using h1, ?_, ?_, ?_⟩
  · rw [h2, List.map_map]
    apply List.map_congr_left
    intro s hs; exact (createBackendRef_admissible s (h s hs)).1
  · rw [h3, List.map_map]
    apply List.map_congr_left
    intro s hs; exact (createBackendRef_admissible s (h s hs)).2.1
  · rw [h4, List.map_map]
    apply List.map_congr_left
    intro s hs
    obtain ⟨_, a, b⟩ := createBackendRef_admissible s (h s hs)
    simp [a, b]

end NGF.SplitClients
