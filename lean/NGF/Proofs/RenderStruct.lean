/-
Where the entries of `genR` come from (Model/Render.entriesR), and what the decidable hypotheses `inFragment` /
`namesSafe` say about them. Core Lean only.
-/
import NGF.Proofs.RenderLists

namespace NGF.Render
open NGF.Pipeline

/-! ### origin of an entry -/

/-- an entry stems from rule `i` of route `r`, attached through listener port `port` under one of `hosts` -/
structure FromRule (x : REntry) (r : Route) (port : Nat) (hosts : List Str) : Prop where
  ex : ∃ i rule, r.rules[i]? = some rule ∧ x.src = ⟨r.ns, r.name, i⟩ ∧ x.e.action = rule.action ∧ x.e.m ∈ rule.ms
  host : x.e.host ∈ hosts
  port : x.e.port = port

theorem mem_routeEntriesR {port : Nat} {hosts : List Str} {r : Route} {x : REntry}
    (h : x ∈ routeEntriesR port hosts r) : FromRule x r port hosts := by
  unfold routeEntriesR at h
  simp only [List.mem_flatMap, List.mem_map] at h
  obtain ⟨ir, hir, hst, hh, m, hm, rfl⟩ := h
  obtain ⟨_, hget⟩ := mem_enumFrom (j := ir.1) (x := ir.2) hir
  exact ⟨⟨ir.1, ir.2, by simpa using hget, rfl, rfl, hm⟩, hh, rfl⟩

theorem mem_entriesR {g : Gateway} {routes : List Route} {x : REntry} (h : x ∈ entriesR g routes) :
    ∃ l ∈ g.listeners, ∃ r ∈ routes, r.valid = true ∧ FromRule x r l.port (acceptedAt g l r) := by
  unfold entriesR at h
  simp only [List.mem_flatMap] at h
  obtain ⟨l, hl, r, hr, hx⟩ := h
  by_cases hv : r.valid = true
  · simp only [hv, ↓reduceIte] at hx
    exact ⟨l, hl, r, hr, hv, mem_routeEntriesR hx⟩
  · simp [hv] at hx

/-! ### the Bool `nodup` of Model/Pipeline -/

theorem eraseDups_length_le {α} [BEq α] [LawfulBEq α] : ∀ (l : List α), l.eraseDups.length ≤ l.length
  | [] => by simp
  | a :: as => by
    rw [List.eraseDups_cons]
    have h1 := List.length_filter_le (fun b => !b == a) as
    have : (as.filter fun b => !b == a).length < (a :: as).length := by simp only [List.length_cons]; omega
    have h2 := eraseDups_length_le (as.filter fun b => !b == a)
    simp only [List.length_cons]; omega
termination_by l => l.length

theorem nodup_of_nodupB {α} [BEq α] [LawfulBEq α] : ∀ {l : List α}, Pipeline.nodup l = true → l.Nodup
  | [], _ => by simp
  | a :: as, h => by
    unfold Pipeline.nodup at h
    rw [List.eraseDups_cons] at h
    simp only [List.length_cons, beq_iff_eq, Nat.add_right_cancel_iff] at h
    have h1 := List.length_filter_le (fun b => !b == a) as
    have h2 := eraseDups_length_le (as.filter fun b => !b == a)
    have hf : (as.filter fun b => !b == a).length = as.length := by omega
    have hfe : as.filter (fun b => !b == a) = as := by
      have := List.filter_sublist (p := fun b => !b == a) (l := as)
      exact this.eq_of_length hf
    rw [hfe] at h
    rw [List.nodup_cons]
    refine ⟨?_, nodup_of_nodupB (by unfold Pipeline.nodup; simp [h])⟩
    intro hm
    have := (List.filter_eq_self.mp hfe) a hm
    simp at this

/-! ### a BackendGroup source determines its rule (routes are distinct objects) -/

theorem eq_of_nodup_map {α β} (f : α → β) : ∀ {l : List α}, (l.map f).Nodup → ∀ {a b : α}, a ∈ l → b ∈ l → f a = f b → a = b
  | [], _, _, _, ha, _, _ => by simp at ha
  | x :: xs, h, a, b, ha, hb, e => by
    simp only [List.map_cons, List.nodup_cons, List.mem_map, not_exists, not_and] at h
    rcases List.mem_cons.mp ha with rfl | ha' <;> rcases List.mem_cons.mp hb with rfl | hb'
    · rfl
    · exact absurd e.symm (h.1 b hb')
    · exact absurd e (h.1 a ha')
    · exact eq_of_nodup_map f h.2 ha' hb' e

theorem routes_nodup {s : Scenario} (h : inFragment s = true) : (s.routes.map fun r => (r.ns, r.name)).Nodup := by
  unfold inFragment at h
  simp only [Bool.and_eq_true] at h
  exact nodup_of_nodupB h.1.1

theorem src_determines_action {s : Scenario} {g : Gateway} (hf : inFragment s = true) {x y : REntry}
    (hx : x ∈ entriesR g s.routes) (hy : y ∈ entriesR g s.routes) (e : x.src = y.src) : x.e.action = y.e.action := by
  obtain ⟨_, _, r, hr, _, ⟨⟨i, rule, hi, hsx, hax, _⟩, _, _⟩⟩ := mem_entriesR hx
  obtain ⟨_, _, r', hr', _, ⟨⟨j, rule', hj, hsy, hay, _⟩, _, _⟩⟩ := mem_entriesR hy
  rw [hsx, hsy] at e
  simp only [Src.mk.injEq] at e
  have hrr : r = r' := eq_of_nodup_map (fun r : Route => (r.ns, r.name)) (routes_nodup hf) hr hr' (by simp [e.1, e.2.1])
  subst hrr
  rw [e.2.2] at hi
  rw [hi] at hj
  rw [hax, hay, Option.some.inj hj]

/-! ### what `namesSafe` and `inFragment` say about an entry -/

structure SafeEntry (x : REntry) : Prop where
  ns : x.src.ns.all nameChar = true
  name : x.src.name.all nameChar = true
  nsHyphen : noDoubleHyphen x.src.ns = true
  targets : ∀ b ∈ backendsOf x.e.action, '$' ∉ b.target

theorem safe_of_namesSafe {s : Scenario} {g : Gateway} (h : namesSafe s = true) {x : REntry}
    (hx : x ∈ entriesR g s.routes) : SafeEntry x := by
  obtain ⟨_, _, r, hr, _, ⟨⟨i, rule, hi, hsx, hax, _⟩, _, _⟩⟩ := mem_entriesR hx
  unfold namesSafe at h
  rw [List.all_eq_true] at h
  have := h r hr
  simp only [Bool.and_eq_true, List.all_eq_true] at this
  obtain ⟨⟨⟨h1, h2⟩, h3⟩, h4⟩ := this
  have hmem : rule ∈ r.rules := List.mem_of_getElem? hi
  refine ⟨by rw [hsx]; exact List.all_eq_true.mpr h1, by rw [hsx]; exact List.all_eq_true.mpr h2, by rw [hsx]; exact h3, ?_⟩
  intro b hb
  rw [hax] at hb
  have := h4 rule hmem b hb
  simpa using this

theorem path_ne_nil_of_inFragment {s : Scenario} {g : Gateway} (h : inFragment s = true) {x : REntry}
    (hx : x ∈ entriesR g s.routes) : x.e.m.path.head? = some '/' := by
  obtain ⟨_, _, r, hr, _, ⟨⟨i, rule, hi, _, _, hm⟩, _, _⟩⟩ := mem_entriesR hx
  unfold inFragment at h
  simp only [Bool.and_eq_true, List.all_eq_true] at h
  have hro := h.1.2 r hr
  unfold routeOK at hro
  simp only [Bool.and_eq_true, List.all_eq_true] at hro
  have := hro.2 rule (List.mem_of_getElem? hi) x.e.m hm
  unfold matchOK at this
  simp only [Bool.and_eq_true, beq_iff_eq] at this
  exact this.1.1.1

end NGF.Render
