/-
Helper lemmas about the binary64 model `NGF.F64`: rounding error of `rhe`/`rn`, exactness on small integers.
Core Lean only.
-/
import NGF.Model.F64

namespace NGF.F64

theorem rhe_le (q : Rat) : (rhe q : Rat) ≤ q + 1/2 := by
  have h1 := Rat.floor_le q
  have h2 := Rat.lt_floor_add_one q
  simp only [Rat.intCast_add, Rat.intCast_one] at h2
  unfold rhe
  simp only
  split
  · grind
  · split
    · simp only [Rat.intCast_add, Rat.intCast_one]; grind
    · split
      · grind
      · simp only [Rat.intCast_add, Rat.intCast_one]; grind

theorem le_rhe (q : Rat) : q - 1/2 ≤ (rhe q : Rat) := by
  have h1 := Rat.floor_le q
  have h2 := Rat.lt_floor_add_one q
  simp only [Rat.intCast_add, Rat.intCast_one] at h2
  unfold rhe
  simp only
  split
  · grind
  · split
    · simp only [Rat.intCast_add, Rat.intCast_one]; grind
    · split
      · grind
      · simp only [Rat.intCast_add, Rat.intCast_one]; grind

/-- a rational strictly within 1/2 of an integer rounds to that integer -/
theorem rhe_eq_of_near (q : Rat) (n : Int) (h1 : (n : Rat) - 1/2 < q) (h2 : q < (n : Rat) + 1/2) :
    rhe q = n := by
  have a := rhe_le q
  have b := le_rhe q
  have c1 : ((rhe q : Int) : Rat) < ((n + 1 : Int) : Rat) := by
    simp only [Rat.intCast_add, Rat.intCast_one]; grind
  have c2 : ((n - 1 : Int) : Rat) < ((rhe q : Int) : Rat) := by
    simp only [Rat.intCast_sub, Rat.intCast_one]; grind
  have d1 := Rat.intCast_lt_intCast.mp c1
  have d2 := Rat.intCast_lt_intCast.mp c2
  omega

theorem rhe_intCast (n : Int) : rhe (n : Rat) = n :=
  rhe_eq_of_near _ n (by grind) (by grind)

end NGF.F64

namespace NGF.F64

/-! ### order lemmas with cleared denominators -/

theorem rat_eq_num_div_den (a : Rat) : a = (a.num : Rat) / (a.den : Rat) := by
  have h := Rat.num_divInt_den a
  rw [Rat.divInt_eq_div, Rat.intCast_natCast] at h
  exact h.symm

theorem div_le_div_of_mul_le {a b c d : Rat} (hb : 0 < b) (hd : 0 < d) (h : a * d ≤ c * b) :
    a / b ≤ c / d := by
  have hbne : b ≠ 0 := by grind
  have hdne : d ≠ 0 := by grind
  have e1 : a / b * (b * d) = a * d := by grind
  have e2 : c / d * (b * d) = c * b := by grind
  apply Rat.le_of_mul_le_mul_right (c := b * d) _ (Rat.mul_pos hb hd)
  rw [e1, e2]; exact h

theorem div_lt_div_of_mul_lt {a b c d : Rat} (hb : 0 < b) (hd : 0 < d) (h : a * d < c * b) :
    a / b < c / d := by
  have hbne : b ≠ 0 := by grind
  have hdne : d ≠ 0 := by grind
  have e1 : a / b * (b * d) = a * d := by grind
  have e2 : c / d * (b * d) = c * b := by grind
  apply Rat.lt_of_mul_lt_mul_right (c := b * d) _ (Rat.le_of_lt (Rat.mul_pos hb hd))
  rw [e1, e2]; exact h

theorem div_pos' {a b : Rat} (ha : 0 < a) (hb : 0 < b) : 0 < a / b := by
  rw [Rat.div_def]; exact Rat.mul_pos ha (Rat.inv_pos.mpr hb)

theorem pow2_pos (k : Nat) : (0 : Rat) < ((2 ^ k : Nat) : Rat) :=
  Rat.natCast_pos.mpr (Nat.two_pow_pos k)

/-! ### `binade a` is the power of two with `binade a ≤ a < 2·binade a` -/

theorem binade_spec (a : Rat) (ha : 0 < a) :
    0 < binade a ∧ binade a ≤ a ∧ a < 2 * binade a := by
  have hnum : 0 < a.num := by
    have h1 : 0 ≤ a.num := Rat.num_nonneg.mpr (Rat.le_of_lt ha)
    have h2 : a.num ≠ 0 := by
      intro h; have := Rat.num_eq_zero.mp h; grind
    omega
  have hn0 : a.num.natAbs ≠ 0 := by omega
  have hd0 : a.den ≠ 0 := a.den_nz
  have n1 := Nat.log2_self_le hn0
  have n2 := @Nat.lt_log2_self a.num.natAbs
  have d1 := Nat.log2_self_le hd0
  have d2 := @Nat.lt_log2_self a.den
  have hcast : (a.num : Rat) = ((a.num.natAbs : Nat) : Rat) := by
    rw [← Rat.intCast_natCast]; congr 1; omega
  have ea : a = ((a.num.natAbs : Nat) : Rat) / (a.den : Rat) := by
    rw [← hcast]; exact rat_eq_num_div_den a
  -- abbreviations in Rat
  generalize hP : ((2 ^ a.num.natAbs.log2 : Nat) : Rat) = P at *
  generalize hQ : ((2 ^ a.den.log2 : Nat) : Rat) = Q at *
  have P0 : 0 < P := hP ▸ pow2_pos _
  have Q0 : 0 < Q := hQ ▸ pow2_pos _
  have N1 : P ≤ ((a.num.natAbs : Nat) : Rat) := hP ▸ Rat.natCast_le_natCast.mpr n1
  have N2 : ((a.num.natAbs : Nat) : Rat) < 2 * P := by
    have := Rat.natCast_lt_natCast.mpr n2
    rw [Nat.pow_succ, Rat.natCast_mul, hP] at this
    simpa [Rat.mul_comm] using this
  have D1 : Q ≤ ((a.den : Nat) : Rat) := hQ ▸ Rat.natCast_le_natCast.mpr d1
  have D2 : ((a.den : Nat) : Rat) < 2 * Q := by
    have := Rat.natCast_lt_natCast.mpr d2
    rw [Nat.pow_succ, Rat.natCast_mul, hQ] at this
    simpa [Rat.mul_comm] using this
  generalize ((a.num.natAbs : Nat) : Rat) = n at *
  generalize ((a.den : Nat) : Rat) = d at *
  have dpos : 0 < d := by grind
  have npos : 0 < n := by grind
  have hbin : binade a = if P / Q ≤ a then P / Q else P / Q / 2 := by
    simp only [binade, hP, hQ]
  rw [hbin]
  have cpos : 0 < P / Q := div_pos' P0 Q0
  split
  · rename_i hc
    refine ⟨cpos, hc, ?_⟩
    have e : 2 * (P / Q) = (2 * P) / Q := by grind
    rw [e, ea]
    apply div_lt_div_of_mul_lt dpos Q0
    have := Rat.mul_lt_mul_of_pos_right N2 Q0
    have := Rat.mul_le_mul_of_nonneg_left D1 (Rat.le_of_lt (show 0 < 2 * P by grind))
    grind
  · rename_i hc
    refine ⟨by grind, ?_, by grind⟩
    have e : P / Q / 2 = P / (Q * 2) := by grind
    rw [e, ea]
    apply div_le_div_of_mul_le (by grind) dpos
    have := Rat.mul_le_mul_of_nonneg_right N1 (Rat.le_of_lt Q0)
    have := Rat.mul_lt_mul_of_pos_left D2 P0
    grind

end NGF.F64

namespace NGF.F64

theorem abs_nonneg (q : Rat) : 0 ≤ abs q := by unfold abs; split <;> grind
theorem abs_pos {q : Rat} (h : q ≠ 0) : 0 < abs q := by unfold abs; split <;> grind
theorem abs_of_nonneg {q : Rat} (h : 0 ≤ q) : abs q = q := by unfold abs; split <;> grind

theorem ulp_eq (q : Rat) : ulp q = binade (abs q) / 4503599627370496 := by
  simp [ulp]

theorem ulp_pos {q : Rat} (h : q ≠ 0) : 0 < ulp q := by
  have := (binade_spec (abs q) (abs_pos h)).1
  rw [ulp_eq]; grind

/-- the rounding error of `rn` is at most half an ulp, hence at most `|q|·2⁻⁵³` -/
theorem rn_err (q : Rat) :
    rn q - q ≤ abs q / 9007199254740992 ∧ q - rn q ≤ abs q / 9007199254740992 := by
  by_cases h : q = 0
  · subst h
    have : rn 0 = 0 := by simp [rn]
    have : abs 0 = 0 := by simp [abs]
    constructor <;> grind
  · have hb := binade_spec (abs q) (abs_pos h)
    have hu := ulp_pos h
    have hune : ulp q ≠ 0 := by grind
    have e : q / ulp q * ulp q = q := Rat.div_mul_cancel hune
    have a1 := Rat.mul_le_mul_of_nonneg_right (rhe_le (q / ulp q)) (Rat.le_of_lt hu)
    have a2 := Rat.mul_le_mul_of_nonneg_right (le_rhe (q / ulp q)) (Rat.le_of_lt hu)
    have hr : rn q = (rhe (q / ulp q) : Rat) * ulp q := by simp [rn, h]
    have hue := ulp_eq q
    generalize (rhe (q / ulp q) : Rat) = m at *
    generalize q / ulp q = x at *
    generalize ulp q = u at *
    generalize binade (abs q) = b at *
    generalize abs q = A at *
    rw [hr]
    constructor <;> grind

theorem rn_zero : rn 0 = 0 := by simp [rn]

theorem rn_nonneg {q : Rat} (h : 0 ≤ q) : 0 ≤ rn q := by
  have := (rn_err q).2
  rw [abs_of_nonneg h] at this
  grind

end NGF.F64

namespace NGF.F64


theorem rn_of_int_mul_ulp {q : Rat} (m : Int) (h0 : q ≠ 0) (h : q = (m : Rat) * ulp q) : rn q = q := by
  have hu := ulp_pos h0
  have hune : ulp q ≠ 0 := by grind
  have e : q / ulp q = (m : Rat) := by
    generalize ulp q = u at *
    rw [h]; grind
  simp only [rn, h0, if_false, e, rhe_intCast]
  exact h.symm

theorem log2_one : Nat.log2 1 = 0 := by decide +kernel

theorem binade_natCast {n : Nat} (hn : n ≠ 0) : binade (n : Rat) = ((2 ^ n.log2 : Nat) : Rat) := by
  have h1 := Nat.log2_self_le hn
  have h2 : ((2 ^ n.log2 : Nat) : Rat) ≤ (n : Rat) := Rat.natCast_le_natCast.mpr h1
  simp only [binade, Rat.num_natCast, Rat.den_natCast, Int.natAbs_natCast, log2_one, Nat.pow_zero]
  have e1 : ((1 : Nat) : Rat) = 1 := rfl
  have e2 : ((2 ^ n.log2 : Nat) : Rat) / 1 = ((2 ^ n.log2 : Nat) : Rat) := by grind
  rw [e1, e2, if_pos h2]

/-- integers below 2^53 are binary64 values: `float64(n)` is exact -/
theorem rn_natCast {n : Nat} (h : n < 2 ^ 53) : rn (n : Rat) = (n : Rat) := by
  by_cases hn : n = 0
  · subst hn; exact rn_zero
  · have hq : (n : Rat) ≠ 0 := by
      intro h0; have := Rat.natCast_pos.mpr (Nat.pos_of_ne_zero hn); grind
    have hl : n.log2 < 53 := (Nat.log2_lt hn).mpr h
    have hp : 2 ^ (52 - n.log2) * 2 ^ n.log2 = 2 ^ 52 := by
      rw [← Nat.pow_add]; congr 1; omega
    have hpr : ((2 ^ (52 - n.log2) : Nat) : Rat) * ((2 ^ n.log2 : Nat) : Rat) = ((2 ^ 52 : Nat) : Rat) := by
      rw [← Rat.natCast_mul, hp]
    apply rn_of_int_mul_ulp ((n * 2 ^ (52 - n.log2) : Nat) : Int) hq
    have habs : abs (n : Rat) = (n : Rat) :=
      abs_of_nonneg (Rat.le_of_lt (Rat.natCast_pos.mpr (Nat.pos_of_ne_zero hn)))
    have hB := pow2_pos n.log2
    rw [Rat.intCast_natCast, Rat.natCast_mul, ulp, habs, binade_natCast hn]
    generalize ((2 ^ (52 - n.log2) : Nat) : Rat) = A at *
    generalize ((2 ^ n.log2 : Nat) : Rat) = B at *
    have h52 := pow2_pos 52
    generalize ((2 ^ 52 : Nat) : Rat) = C at *
    subst hpr
    have : A * B ≠ 0 := by grind
    grind

end NGF.F64
