/-
Helper lemmas for C05 (about the definitions of `NGF.Model.PanicSites`; core Lean only).
-/
import NGF.Model.PanicSites

namespace NGF.PanicSites

/-! ### binding -/

/-- no listener of the gateway has a nil `From` pointer (admissible: the CRD defaults it to `Same`). -/
def FromSet (ls : List Listener) : Prop := ∀ l ∈ ls, l.from_ ≠ .nilPtr

theorem nsAllowed_ok {m : String → String → Bool} {l : Listener} {routeNS gwNS : String}
    {nss : List String} (hf : l.from_ ≠ .nilPtr) (hn : routeNS ∈ nss) :
    ∃ b, nsAllowedPre m l routeNS gwNS nss = .ok b := by
  unfold nsAllowedPre
  cases hfr : l.from_ with
  | absent => exact ⟨_, rfl⟩
  | nilPtr => exact absurd hfr hf
  | all => exact ⟨_, rfl⟩
  | same => exact ⟨_, rfl⟩
  | other => exact ⟨_, rfl⟩
  | selector =>
    by_cases hs : l.hasSelector = true
    · simp [hs, hn]
    · simp [hs]

/-- whatever the namespaces: the only errors of `nsAllowedPre` are the two mirrored sites. -/
theorem nsAllowed_error {m : String → String → Bool} {l : Listener} {routeNS gwNS : String}
    {nss : List String} {s : Site} (h : nsAllowedPre m l routeNS gwNS nss = .error s) :
    (s = .nsLookup ∧ l.from_ = .selector ∧ l.hasSelector = true ∧ routeNS ∉ nss)
      ∨ (s = .nilFrom ∧ l.from_ = .nilPtr) := by
  unfold nsAllowedPre at h
  cases hfr : l.from_ <;> simp [hfr] at h
  · -- selector
    by_cases hs : l.hasSelector = true
    · by_cases hn : routeNS ∈ nss
      · simp [hs, hn] at h
      · simp [hs, hn] at h
        exact Or.inl ⟨h.symm, rfl, hs, hn⟩
    · simp [hs] at h
  · exact Or.inr ⟨h.symm, rfl⟩

theorem findAttachable_sub (sec : String) (ls : List Listener) :
    ∀ l ∈ (findAttachable sec ls).1, l ∈ ls := by
  intro l hl
  unfold findAttachable at hl
  by_cases hsec : (sec != "") = true
  · simp only [hsec, if_true] at hl
    cases hf : ls.find? (fun l => l.name == sec) with
    | none => simp [hf] at hl
    | some x =>
      simp only [hf] at hl
      by_cases ha : x.attachable = true
      · simp [ha] at hl
        subst hl
        exact List.mem_of_find?_eq_some hf
      · simp [ha] at hl
  · simp only [hsec] at hl
    simp at hl
    exact hl.1

theorem validateParentRef_sub {ref : ParentRef} {gw : Gateway} {att : List Listener}
    (h : validateParentRef ref gw = some att) : ∀ l ∈ att, l ∈ gw.listeners := by
  unfold validateParentRef at h
  have hs := findAttachable_sub ref.section_ gw.listeners
  generalize findAttachable ref.section_ gw.listeners = p at h hs
  obtain ⟨a, e⟩ := p
  simp only at h hs
  split at h
  · cases h
  · split at h
    · cases h
    · split at h
      · cases h
      · split at h
        · cases h
        · cases h; exact hs

theorem tryAttach_ok {m : String → String → Bool} {routeNS gwNS : String} {nss : List String}
    (hn : routeNS ∈ nss) :
    ∀ (ls : List Listener), FromSet ls → tryAttachPre m routeNS gwNS nss ls = .ok ()
  | [], _ => rfl
  | l :: ls, hf => by
    obtain ⟨b, hb⟩ := nsAllowed_ok (m := m) (gwNS := gwNS) (hf l (List.mem_cons_self ..)) hn
    simp only [tryAttachPre, hb]
    exact tryAttach_ok hn ls (fun x hx => hf x (List.mem_cons_of_mem _ hx))

theorem bindRefs_ok {m : String → String → Bool} {gw : Gateway} {nss : List String} {routeNS : String}
    (hf : FromSet gw.listeners) (hn : routeNS ∈ nss) :
    ∀ (refs : List ParentRef), bindRefsPre m gw nss routeNS refs = .ok ()
  | [] => rfl
  | ref :: rest => by
    unfold bindRefsPre
    cases hv : validateParentRef ref gw with
    | none => simpa using bindRefs_ok hf hn rest
    | some att =>
      have hsub := validateParentRef_sub hv
      have : tryAttachPre m routeNS gw.ns nss att = .ok () :=
        tryAttach_ok hn att (fun l hl => hf l (hsub l hl))
      simp only [this]
      exact bindRefs_ok hf hn rest

/-- every attachable route lives in a namespace whose Namespace object is in the store -/
def NsClosed (nss : List String) (routes : List Route) : Prop :=
  ∀ r ∈ routes, r.attachable = true → r.ns ∈ nss

theorem bindRoutes_ok {m : String → String → Bool} {gw : Gateway} {nss : List String}
    (hf : FromSet gw.listeners) :
    ∀ (rs : List Route), NsClosed nss rs → bindRoutesPre m gw nss rs = .ok ()
  | [], _ => rfl
  | r :: rs, hc => by
    have hr : bindRoutePre m gw nss r = .ok () := by
      unfold bindRoutePre
      by_cases ha : r.attachable = true
      · simp only [ha, Bool.not_true, Bool.false_eq_true, if_false]
        exact bindRefs_ok hf (hc r (List.mem_cons_self ..) ha) r.refs
      · simp [ha]
    simp only [bindRoutesPre, hr]
    exact bindRoutes_ok hf rs (fun x hx => hc x (List.mem_cons_of_mem _ hx))

/-! errors of the binding are only ever the two mirrored sites -/

theorem tryAttach_error {m : String → String → Bool} {routeNS gwNS : String} {nss : List String} {s : Site} :
    ∀ (ls : List Listener), tryAttachPre m routeNS gwNS nss ls = .error s →
      (s = .nsLookup ∧ routeNS ∉ nss) ∨ (s = .nilFrom ∧ ∃ l ∈ ls, l.from_ = .nilPtr)
  | [], h => by simp [tryAttachPre] at h
  | l :: ls, h => by
    unfold tryAttachPre at h
    cases hn : nsAllowedPre m l routeNS gwNS nss with
    | error e =>
      simp only [hn] at h
      cases h
      rcases nsAllowed_error hn with ⟨h1, _, _, h4⟩ | ⟨h1, h2⟩
      · exact Or.inl ⟨h1, h4⟩
      · exact Or.inr ⟨h1, l, List.mem_cons_self .., h2⟩
    | ok b =>
      simp only [hn] at h
      rcases tryAttach_error ls h with h' | ⟨h1, x, hx, hx2⟩
      · exact Or.inl h'
      · exact Or.inr ⟨h1, x, List.mem_cons_of_mem _ hx, hx2⟩

/-! ### the selector-match oracle does not influence panics -/

theorem nsAllowed_indep (m m' : String → String → Bool) (l : Listener) (routeNS gwNS : String)
    (nss : List String) :
    (nsAllowedPre m l routeNS gwNS nss).toBool = (nsAllowedPre m' l routeNS gwNS nss).toBool
      ∧ ∀ s, nsAllowedPre m l routeNS gwNS nss = .error s ↔ nsAllowedPre m' l routeNS gwNS nss = .error s := by
  unfold nsAllowedPre
  cases l.from_ <;> simp [Except.toBool]
  by_cases hs : l.hasSelector = true <;> by_cases hn : routeNS ∈ nss <;> simp [hs, hn]

theorem tryAttach_indep (m m' : String → String → Bool) (routeNS gwNS : String) (nss : List String) :
    ∀ ls, tryAttachPre m routeNS gwNS nss ls = tryAttachPre m' routeNS gwNS nss ls
  | [] => rfl
  | l :: ls => by
    have h := (nsAllowed_indep m m' l routeNS gwNS nss).2
    unfold tryAttachPre
    cases h1 : nsAllowedPre m l routeNS gwNS nss with
    | error e =>
      have := (h e).1 h1
      simp [this]
    | ok b =>
      cases h2 : nsAllowedPre m' l routeNS gwNS nss with
      | error e =>
        have := (h e).2 h2
        rw [h1] at this; cases this
      | ok b' => simpa using tryAttach_indep m m' routeNS gwNS nss ls

theorem bindRefs_indep (m m' : String → String → Bool) (gw : Gateway) (nss : List String) (routeNS : String) :
    ∀ refs, bindRefsPre m gw nss routeNS refs = bindRefsPre m' gw nss routeNS refs
  | [] => rfl
  | ref :: rest => by
    unfold bindRefsPre
    cases validateParentRef ref gw with
    | none => simpa using bindRefs_indep m m' gw nss routeNS rest
    | some att =>
      simp only [tryAttach_indep m m' routeNS gw.ns nss att, bindRefs_indep m m' gw nss routeNS rest]

theorem bindRoutes_indep (m m' : String → String → Bool) (gw : Gateway) (nss : List String) :
    ∀ rs, bindRoutesPre m gw nss rs = bindRoutesPre m' gw nss rs
  | [] => rfl
  | r :: rs => by
    simp only [bindRoutesPre, bindRoutePre, bindRefs_indep m m' gw nss r.ns r.refs, bindRoutes_indep m m' gw nss rs]

/-! ### host path rules -/

theorem mem_addKey (k x : String) (l : List String) : x ∈ addKey k l ↔ x = k ∨ x ∈ l := by
  unfold addKey
  by_cases hk : k ∈ l
  · simp [hk]
    intro h; subst h; exact hk
  · simp [hk]
    exact Or.comm

/-- the invariant: every key of `rulesPerHost` is a key of `listenersForHost` -/
def Hpr.Inv (s : Hpr) : Prop := ∀ h, h ∈ s.rulesPerHost → h ∈ s.listenersForHost

theorem Hpr.inv_upsertRoute : ∀ (hs : List String) (s : Hpr), s.Inv → (s.upsertRoute hs).Inv
  | [], s, hi => hi
  | h :: hs, s, hi => by
    unfold Hpr.upsertRoute
    apply Hpr.inv_upsertRoute hs
    intro x hx
    simp only [mem_addKey] at hx ⊢
    rcases hx with rfl | hx'
    · exact Or.inl rfl
    · exact Or.inr (hi x hx')

theorem Hpr.inv_upsertAll : ∀ (ops : List (List String)) (s : Hpr), s.Inv → (s.upsertAll ops).Inv
  | [], s, hi => hi
  | r :: rs, s, hi => by
    unfold Hpr.upsertAll
    exact Hpr.inv_upsertAll rs _ (Hpr.inv_upsertRoute r s hi)

theorem lookupAll_ok (ls : List String) :
    ∀ (ks : List String), (∀ h, h ∈ ks → h ∈ ls) → lookupAll ls ks = .ok ()
  | [], _ => rfl
  | k :: ks, hi => by
    have hk : k ∈ ls := hi k (List.mem_cons_self ..)
    simp only [lookupAll, List.contains_iff_mem, hk, if_true]
    exact lookupAll_ok ls ks (fun h hh => hi h (List.mem_cons_of_mem _ hh))

/-! ### path types -/

theorem validatePathMatch_zero {valueOk : String → Bool} {pm : PathMatch}
    (h : validatePathMatch valueOk (some pm) = 0) :
    ∃ t, pm.type = some t ∧ (t = "PathPrefix" ∨ t = "Exact") := by
  unfold validatePathMatch at h
  cases ht : pm.type with
  | none => simp [ht] at h
  | some t =>
    cases hv : pm.value with
    | none => simp [ht, hv] at h
    | some v =>
      simp only [ht, hv] at h
      by_cases hp : v.startsWith internalPrefix = true
      · simp [hp] at h
      · simp only [hp] at h
        refine ⟨t, rfl, ?_⟩
        by_cases h1 : t = "PathPrefix"
        · exact Or.inl h1
        · by_cases h2 : t = "Exact"
          · exact Or.inr h2
          · simp [h1, h2] at h

theorem convertPathType_ok {t : String} (h : t = "PathPrefix" ∨ t = "Exact") :
    ∃ p, convertPathType t = .ok p := by
  rcases h with rfl | rfl
  · exact ⟨.prefix_, by simp [convertPathType]⟩
  · exact ⟨.exact, by simp [convertPathType]⟩

end NGF.PanicSites
