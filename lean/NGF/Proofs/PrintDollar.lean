/-
`$` in the rendered tree of the fragment (C04, text step): if no guarded field except a match path contains `$`
(`PrintGuards.noDollarOutsidePaths`; the validators give that: DNS names, the `$`-free redirect hostname, the scheme enum),
then in `render (genR s order)` a `$` occurs in an argument only where the TEMPLATE wrote a variable
(`$scheme`, `$host`, `$request_uri`, `$group_…`, the fixed proxy headers, `$match_key`, `$request_id`), or in a `location`
argument (which NGINX does not interpolate); `server_name` arguments contain none (`Print.dollarsOK`).
The `$`-free instance of the generic dataflow theorem Proofs/PrintFlow, then the walk over the templates. Core Lean only.
-/
import NGF.Model.PrintGuards
import NGF.Proofs.PrintFlow
import NGF.Proofs.PrintLex
import NGF.Proofs.Mangle

namespace NGF.Print
open NGF.Nginx NGF.Pipeline NGF.Render NGF.Mangle NGF.PrintGuards

/-! ### words -/

theorem tmplDollar_of_noDollar : ∀ {a : List Char}, '$' ∉ a → tmplDollar a = true
  | [], _ => rfl
  | c :: t, h => by
    have hc : c ≠ '$' := fun e => h (e ▸ List.mem_cons_self ..)
    have ht : '$' ∉ t := fun hm => h (List.mem_cons_of_mem _ hm)
    simp [tmplDollar, hc, tmplDollar_of_noDollar ht]

theorem isPrefixOf_append {p t : List Char} (b : List Char) (h : p.isPrefixOf t = true) : p.isPrefixOf (t ++ b) = true := by
  rw [List.isPrefixOf_iff_prefix] at h ⊢
  exact h.trans (List.prefix_append t b)

theorem tmplDollar_append : ∀ {a b : List Char}, tmplDollar a = true → tmplDollar b = true → tmplDollar (a ++ b) = true
  | [], _, _, hb => hb
  | c :: t, b, ha, hb => by
    simp only [tmplDollar, Bool.and_eq_true, Bool.or_eq_true, List.any_eq_true] at ha
    simp only [List.cons_append, tmplDollar, Bool.and_eq_true, Bool.or_eq_true, List.any_eq_true]
    refine ⟨ha.1.imp id ?_, tmplDollar_append ha.2 hb⟩
    rintro ⟨p, hp, hpre⟩
    exact ⟨p, hp, isPrefixOf_append b hpre⟩

theorem noDollar_digits (n : Nat) : '$' ∉ digits n := fun h => by
  have := digits_isDigit h
  simp [Char.isDigit] at this

theorem noDollar_append {a b : List Char} (ha : '$' ∉ a) (hb : '$' ∉ b) : '$' ∉ a ++ b := by
  intro h; rcases List.mem_append.mp h with h | h
  · exact ha h
  · exact hb h

theorem noDollar_safeVar {l : List Char} (h : '$' ∉ l) : '$' ∉ safeVar l := by
  intro hm
  simp only [safeVar, List.mem_map] at hm
  obtain ⟨c, hc, e⟩ := hm
  by_cases hd : c = '-'
  · simp [hd] at e
  · simp only [hd, if_false] at e
    exact h (e ▸ hc)

theorem safeVar_append (a b : List Char) : safeVar (a ++ b) = safeVar a ++ safeVar b := by simp [safeVar]

/-- `$group_<ns>__<name>_rule<i>`: one template variable, no further `$` -/
theorem tmplDollar_groupVar {ns name : List Char} (h1 : '$' ∉ ns) (h2 : '$' ∉ name) (i : Nat) :
    tmplDollar ('$' :: groupVar ns name i) = true := by
  have hrest : '$' ∉ groupVar ns name i := by
    apply noDollar_safeVar
    simp only [groupName, lit]
    exact noDollar_append (noDollar_append (noDollar_append (noDollar_append (by decide) h1) (by decide)) h2) (by decide)
      |> fun h => noDollar_append h (noDollar_digits i)
  have hpre : "group_".toList.isPrefixOf (groupVar ns name i) = true := by
    simp only [groupVar, groupName, lit, List.append_assoc, safeVar_append]
    rw [List.isPrefixOf_iff_prefix]
    exact List.prefix_append _ _
  simp only [tmplDollar, Bool.and_eq_true, Bool.or_eq_true, List.any_eq_true]
  exact ⟨.inr ⟨_, by decide, hpre⟩, tmplDollar_of_noDollar hrest⟩

/-! ### the `$`-free instance of the field predicates -/

def ndP : Preds :=
  { host := fun h => '$' ∉ h, path := fun _ => True, name := fun n => '$' ∉ n, target := fun t => '$' ∉ t,
    dq := fun x => '$' ∉ x }

theorem fieldsP_of_noDollar {s : Scenario} (hs : noDollarOutsidePaths s = true) : FieldsP ndP s := by
  simp only [noDollarOutsidePaths, Bool.and_eq_true, List.all_eq_true, Bool.not_eq_true', List.contains_eq_mem,
    decide_eq_false_iff_not] at hs
  refine ⟨fun g hg l hl => .inr (hs.1 g hg l hl), ?_⟩
  intro r hr hv
  have := hs.2 r hr
  simp only [hv, Bool.not_true, Bool.false_or, Bool.and_eq_true, Bool.not_eq_true', decide_eq_false_iff_not,
    List.all_eq_true] at this
  refine ⟨this.1.1.1, this.1.1.2, this.1.2, ?_⟩
  intro rule hrule
  refine ⟨fun _ _ => trivial, ?_⟩
  have ha := this.2 rule hrule
  cases hact : rule.action with
  | redirect code sch host port =>
    rw [hact] at ha
    simp only [actionNoDollar, Bool.and_eq_true] at ha
    refine ⟨?_, ?_⟩
    · intro x hx; subst hx; show '$' ∉ x; simpa using ha.1
    · intro x hx; subst hx; show '$' ∉ x; simpa using ha.2
  | forward bs =>
    rw [hact] at ha
    simp only [actionNoDollar, List.all_eq_true, Bool.or_eq_true, Bool.not_eq_true', List.contains_eq_mem,
      decide_eq_false_iff_not] at ha
    intro b hb hv'
    rcases ha b hb with e | e
    · rw [hv'] at e; cases e
    · exact e

theorem confND_genR {s : Scenario} (hs : noDollarOutsidePaths s = true) (order : List Nat) : ConfP ndP (genR s order) :=
  confP_genR (P := ndP) (by show '$' ∉ Hostname.wildcardHostname; decide) (fun _ _ => trivial) (fieldsP_of_noDollar hs) order

/-! ### the walk over the templates -/

theorem dollarsOK_iff (ds : List Dir) : dollarsOK ds = true ↔ ∀ d ∈ ds, dollarOK d = true := by
  induction ds with
  | nil => simp [dollarsOK]
  | cons d ds ih => simp [dollarsOK, ih]

theorem dollarOK_dir {n : String} {args : List Render.Arg} (h : argsDollarOK n.toList args = true) :
    dollarOK (dir n args) = true := by simpa [dir, dollarOK] using h

theorem dollarOK_blk {n : String} {args : List Render.Arg} {ch : List Dir} (h : argsDollarOK n.toList args = true)
    (hc : ∀ d ∈ ch, dollarOK d = true) : dollarOK (blk n args ch) = true := by
  simp only [blk, dollarOK, Bool.and_eq_true]
  exact ⟨h, (dollarsOK_iff ch).mpr hc⟩

/-- a directive that is neither `location` nor `server_name`: every argument has template dollars only -/
theorem argsDollarOK_of {n : List Char} {args : List Render.Arg} (h1 : (n == "location".toList) = false)
    (h2 : (n == "server_name".toList) = false) (h : ∀ a ∈ args, tmplDollar a.1 = true) : argsDollarOK n args = true := by
  simp only [argsDollarOK, h1, h2, Bool.false_eq_true, if_false, List.all_eq_true]
  exact h

theorem listenDirs_nd (port : Nat) (extra : List String) (he : ∀ e ∈ extra, tmplDollar e.toList = true) :
    ∀ d ∈ listenDirs port extra, dollarOK d = true := by
  intro d hd
  simp only [listenDirs, List.mem_cons, List.not_mem_nil, or_false] at hd
  have hex : ∀ a ∈ extra.map w, tmplDollar a.1 = true := by
    intro a ha
    obtain ⟨e, hee, rfl⟩ := List.mem_map.mp ha
    exact he e hee
  rcases hd with rfl | rfl
  · refine dollarOK_dir (argsDollarOK_of (by decide) (by decide) ?_)
    intro a ha
    rcases List.mem_cons.mp ha with rfl | ha
    · exact tmplDollar_of_noDollar (noDollar_digits port)
    · exact hex a ha
  · refine dollarOK_dir (argsDollarOK_of (by decide) (by decide) ?_)
    intro a ha
    rcases List.mem_cons.mp ha with rfl | ha
    · exact tmplDollar_of_noDollar (noDollar_append (by decide) (noDollar_digits port))
    · exact hex a ha

theorem renderDefault_nd (port : Nat) : dollarOK (renderDefault port) = true := by
  refine dollarOK_blk (by decide) ?_
  intro d hd
  rcases List.mem_append.mp hd with hd | hd
  · exact listenDirs_nd port _ (by intro e he; simp at he; subst he; decide) d hd
  · simp only [List.mem_cons, List.not_mem_nil, or_false] at hd
    rcases hd with rfl | rfl <;> decide

theorem passTarget_nd {src : Src} {bs : List Backend} (hs : SrcP ndP src) (hb : BsP ndP bs) :
    tmplDollar (passTarget src bs) = true := by
  unfold passTarget
  refine tmplDollar_append (tmplDollar_append (by decide) ?_) (by decide)
  unfold passHost
  split
  · decide
  · rename_i b
    split
    · decide
    · rename_i hv
      simp only [Bool.or_eq_true, beq_iff_eq, Bool.not_eq_true', not_or, Bool.not_eq_false] at hv
      exact tmplDollar_of_noDollar (hb b (by simp) hv.2)
  · exact tmplDollar_groupVar hs.1 hs.2 _

theorem redirectBody_nd {sch host : Option Str} {port : Option Nat} (h1 : ∀ x, sch = some x → '$' ∉ x)
    (h2 : ∀ x, host = some x → '$' ∉ x) : tmplDollar (redirectBody sch host port) = true := by
  unfold redirectBody
  refine tmplDollar_append (tmplDollar_append (tmplDollar_append (tmplDollar_append ?_ (by decide)) ?_) ?_) (by decide)
  · cases sch with
    | none => decide
    | some x => exact tmplDollar_of_noDollar (h1 x rfl)
  · cases host with
    | none => decide
    | some x => exact tmplDollar_of_noDollar (h2 x rfl)
  · cases port with
    | none => decide
    | some p =>
      show tmplDollar (':' :: digits p) = true
      exact tmplDollar_of_noDollar (noDollar_append (a := [':']) (by decide) (noDollar_digits p))

theorem actDirs_nd {a : RAct} (h : ActP ndP a) : ∀ d ∈ actDirs a, dollarOK d = true := by
  intro d hd
  cases a with
  | proxy src bs =>
    simp only [actDirs, List.mem_cons, List.mem_append, List.mem_map, List.not_mem_nil, or_false] at hd
    rcases hd with (rfl | ⟨hh, hmem, rfl⟩) | rfl
    · decide
    · have : ∀ hh ∈ baseHeaders, dollarOK (dir "proxy_set_header" [w hh.1, q hh.2.toList]) = true := by decide
      exact this hh hmem
    · refine dollarOK_dir (argsDollarOK_of (by decide) (by decide) ?_)
      intro x hx
      simp only [List.mem_cons, List.not_mem_nil, or_false] at hx
      subst hx
      exact passTarget_nd h.1 h.2
  | redirect code sch host port =>
    simp only [actDirs, List.mem_cons, List.not_mem_nil, or_false] at hd
    rcases hd with rfl | rfl
    · refine dollarOK_dir (argsDollarOK_of (by decide) (by decide) ?_)
      intro x hx
      simp only [List.mem_cons, List.not_mem_nil, or_false] at hx
      rcases hx with rfl | rfl
      · exact tmplDollar_of_noDollar (noDollar_digits code)
      · exact redirectBody_nd h.1 h.2
    · decide
  | status code =>
    simp only [actDirs, List.mem_cons, List.not_mem_nil, or_false] at hd
    rcases hd with rfl | rfl
    · refine dollarOK_dir (argsDollarOK_of (by decide) (by decide) ?_)
      intro x hx
      simp only [List.mem_cons, List.not_mem_nil, or_false] at hx
      rcases hx with rfl | rfl
      · exact tmplDollar_of_noDollar (noDollar_digits code)
      · decide
    · decide

theorem njsDirs_nd (sid idx : Nat) : ∀ d ∈ njsDirs sid idx, dollarOK d = true := by
  intro d hd
  simp only [njsDirs, List.mem_cons, List.not_mem_nil, or_false] at hd
  rcases hd with rfl | rfl | rfl
  · refine dollarOK_dir (argsDollarOK_of (by decide) (by decide) ?_)
    intro x hx
    simp only [List.mem_cons, List.not_mem_nil, or_false] at hx
    rcases hx with rfl | rfl
    · decide
    · refine tmplDollar_of_noDollar (noDollar_append (noDollar_digits sid) ?_)
      exact noDollar_append (a := ['_']) (by decide) (noDollar_digits idx)
  · decide
  · decide

theorem renderRule_nd (sid : Nat) {r : RRule} (h : RuleP ndP r) : ∀ d ∈ renderRule sid r, dollarOK d = true := by
  intro d hd
  unfold renderRule at hd
  obtain ⟨_, hact⟩ := h
  split at hd
  · rename_i a ha
    rw [ha] at hact
    obtain ⟨k, hk, rfl⟩ := List.mem_map.mp hd
    exact dollarOK_blk (by simp [argsDollarOK]) (actDirs_nd hact)
  · rename_i ms hms
    rw [hms] at hact
    rcases List.mem_append.mp hd with hd | hd
    · obtain ⟨k, hk, rfl⟩ := List.mem_map.mp hd
      exact dollarOK_blk (by simp [argsDollarOK]) (njsDirs_nd sid r.idx)
    · obtain ⟨jm, hjm, rfl⟩ := List.mem_map.mp hd
      refine dollarOK_blk (by simp [argsDollarOK]) ?_
      intro x hx
      rcases List.mem_cons.mp hx with rfl | hx
      · decide
      · exact actDirs_nd (hact jm.2 (enumFrom_mem_snd hjm)) x hx

theorem renderServer_nd {sv : RServer} (h : ServerP ndP sv) : dollarOK (renderServer sv) = true := by
  refine dollarOK_blk (by decide) ?_
  intro d hd
  simp only [List.mem_append, List.mem_flatMap] at hd
  rcases hd with ((hd | hd) | ⟨r, hr, hd⟩) | hd
  · exact listenDirs_nd sv.port [] (by simp) d hd
  · simp only [List.mem_cons, List.not_mem_nil, or_false] at hd
    subst hd
    -- `server_name`: no `$` at all
    have : '$' ∉ sv.name := h.1
    simp [dir, dollarOK, argsDollarOK, wl, this]
  · have : r ∈ sv.rules := by
      unfold sortRules at hr
      exact List.mem_mergeSort.mp hr
    exact renderRule_nd sv.sid (h.2 r this) d hd
  · split at hd
    · simp only [List.mem_cons, List.not_mem_nil, or_false] at hd
      subst hd
      exact dollarOK_blk (by decide) (actDirs_nd (a := .status 404) trivial)
    · simp at hd

theorem valueOf_nd {bs : List Backend} (h : BsP ndP bs) {b : Backend} (hb : b ∈ bs) : '$' ∉ valueOf b := by
  unfold valueOf
  split
  · rename_i hv; exact h b hb hv
  · decide

theorem zipDist_mem' : ∀ {bs : List Backend} {cs : List Nat} {vc : Str × Nat}, vc ∈ zipDist bs cs → ∃ b ∈ bs, vc.1 = valueOf b
  | [], _, _, h => by simp [zipDist] at h
  | _ :: _, [], _, h => by simp [zipDist] at h
  | b :: bs, c :: cs, vc, h => by
    simp only [zipDist, List.mem_cons] at h
    rcases h with rfl | h
    · exact ⟨b, by simp, rfl⟩
    · obtain ⟨b', hb', e⟩ := zipDist_mem' h
      exact ⟨b', List.mem_cons_of_mem _ hb', e⟩

theorem pctName_not (c : Nat) : (pctName c == "location".toList) = false ∧ (pctName c == "server_name".toList) = false := by
  have hl : (pctName c).getLast? = some '%' := by simp [pctName]
  constructor
  · cases h : pctName c == "location".toList with
    | false => rfl
    | true => rw [beq_iff_eq.mp h] at hl; revert hl; decide
  · cases h : pctName c == "server_name".toList with
    | false => rfl
    | true => rw [beq_iff_eq.mp h] at hl; revert hl; decide

theorem splitEntries_nd {bs : List Backend} (h : BsP ndP bs) : ∀ d ∈ splitEntries bs, dollarOK d = true := by
  intro d hd
  unfold splitEntries at hd
  simp only at hd
  split at hd
  · simp only [List.mem_cons, List.not_mem_nil, or_false] at hd
    subst hd; decide
  · obtain ⟨vc, hvc, hsome⟩ := List.mem_filterMap.mp hd
    split at hsome
    · cases hsome
    · simp only [Option.some.injEq] at hsome
      subst hsome
      obtain ⟨b, hb, e⟩ := zipDist_mem' hvc
      simp only [dollarOK]
      refine argsDollarOK_of (pctName_not _).1 (pctName_not _).2 ?_
      intro a ha
      simp only [List.mem_cons, List.not_mem_nil, or_false] at ha
      subst ha
      show tmplDollar vc.1 = true
      rw [e]; exact tmplDollar_of_noDollar (valueOf_nd h hb)

theorem splitBlock_nd {g : Src × List Backend} (hs : SrcP ndP g.1) (hb : BsP ndP g.2) : dollarOK (splitBlock g) = true := by
  refine dollarOK_blk (argsDollarOK_of (by decide) (by decide) ?_) (splitEntries_nd hb)
  intro a ha
  simp only [List.mem_cons, List.not_mem_nil, or_false] at ha
  rcases ha with rfl | rfl
  · decide
  · exact tmplDollar_groupVar hs.1 hs.2 _

/-- **`$` only from the template** (or in `location`), for every configuration whose strings are `$`-free. -/
theorem dollarsOK_render {c : ConfR} (h : ConfP ndP c) : dollarsOK (render c) = true := by
  rw [dollarsOK_iff]
  intro d hd
  simp only [render, List.mem_cons, List.mem_append] at hd
  rcases hd with ((rfl | hd) | hd) | hd
  · decide
  · unfold serverDirs at hd
    obtain ⟨p, hp, rfl⟩ := List.mem_map.mp hd
    have hp := List.mem_mergeSort.mp hp
    rcases List.mem_append.mp hp with hp | hp
    · obtain ⟨x, _, rfl⟩ := List.mem_map.mp hp
      exact renderDefault_nd _
    · obtain ⟨sv, hsv, rfl⟩ := List.mem_map.mp hp
      exact renderServer_nd (h.1 sv hsv)
  · have : ∀ d ∈ tailServers, dollarOK d = true := by decide
    exact this d hd
  · unfold splitDirs at hd
    obtain ⟨g, hg, rfl⟩ := List.mem_map.mp hd
    have := h.2 g (List.mem_filter.mp hg).1
    exact splitBlock_nd this.1 this.2

theorem dollarsOK_render_genR {s : Scenario} (hs : noDollarOutsidePaths s = true) (order : List Nat) :
    dollarsOK (render (genR s order)) = true := dollarsOK_render (confND_genR hs order)

/-! ### reading `dollarsOK` directive by directive -/

mutual
theorem dollarOK_flat : ∀ (d : Dir), dollarOK d = true → ∀ x ∈ flatDir d, argsDollarOK x.name x.args = true
  | .mk n args none, h, x, hx => by
    simp only [flatDir, List.mem_cons, List.not_mem_nil, or_false] at hx
    subst hx; simpa [dollarOK, Dir.name, Dir.args] using h
  | .mk n args (some ch), h, x, hx => by
    simp only [dollarOK, Bool.and_eq_true] at h
    simp only [flatDir, List.mem_cons] at hx
    rcases hx with rfl | hx
    · simpa [Dir.name, Dir.args] using h.1
    · exact dollarsOK_flat ch h.2 x hx
theorem dollarsOK_flat : ∀ (ds : List Dir), dollarsOK ds = true → ∀ x ∈ flatDirs ds, argsDollarOK x.name x.args = true
  | [], _, x, hx => by simp [flatDirs] at hx
  | d :: ds, h, x, hx => by
    simp only [dollarsOK, Bool.and_eq_true] at h
    simp only [flatDirs, List.mem_append] at hx
    rcases hx with hx | hx
    · exact dollarOK_flat d h.1 x hx
    · exact dollarsOK_flat ds h.2 x hx
end

end NGF.Print
