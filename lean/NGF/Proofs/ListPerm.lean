/-
Generic list lemmas for the permutation-invariance proofs of C14 (core Lean only):
`eraseDups` (Nodup, sublist, permutation), `flatMap` under permutations, `find?` under permutations when the
predicate has at most one solution, lists related element-wise (`Rel₂`) and up to a permutation (`PermRel`).
-/
namespace NGF.ListPerm

variable {α β γ : Type _}

/-! ### eraseDups -/

theorem nodup_eraseDups [BEq α] [LawfulBEq α] : ∀ (l : List α), l.eraseDups.Nodup
  | [] => by simp
  | a :: as => by
    rw [List.eraseDups_cons]
    have : (as.filter fun b => !b == a).length < as.length + 1 := Nat.lt_succ_of_le (List.length_filter_le _ _)
    refine List.nodup_cons.mpr ⟨?_, nodup_eraseDups _⟩
    simp [List.mem_eraseDups]
termination_by l => l.length

theorem eraseDups_sublist [BEq α] [LawfulBEq α] : ∀ (l : List α), l.eraseDups.Sublist l
  | [] => by simp
  | a :: as => by
    rw [List.eraseDups_cons]
    have : (as.filter fun b => !b == a).length < as.length + 1 := Nat.lt_succ_of_le (List.length_filter_le _ _)
    exact List.Sublist.cons_cons a ((eraseDups_sublist _).trans List.filter_sublist)
termination_by l => l.length

/-- the Bool test `eraseDups.length == length` used by the fragment predicates means `Nodup` -/
theorem nodup_of_eraseDups_length [BEq α] [LawfulBEq α] {l : List α} (h : l.eraseDups.length = l.length) : l.Nodup := by
  have := (eraseDups_sublist l).eq_of_length h
  rw [← this]; exact nodup_eraseDups l

theorem eraseDups_perm [BEq α] [LawfulBEq α] {l l' : List α} (h : l.Perm l') : l.eraseDups.Perm l'.eraseDups := by
  rw [List.perm_ext_iff_of_nodup (nodup_eraseDups l) (nodup_eraseDups l')]
  intro a
  rw [List.mem_eraseDups, List.mem_eraseDups]
  exact h.mem_iff

/-! ### Nodup through a key function -/

theorem inj_of_nodup_map {f : α → β} : ∀ {l : List α}, (l.map f).Nodup → ∀ a ∈ l, ∀ b ∈ l, f a = f b → a = b
  | [], _, a, ha, _, _, _ => by cases ha
  | x :: xs, h, a, ha, b, hb, e => by
    rw [List.map_cons, List.nodup_cons] at h
    rcases List.mem_cons.mp ha with ea | ha'
    · rcases List.mem_cons.mp hb with eb | hb'
      · rw [ea, eb]
      · exfalso; apply h.1; rw [← ea, e]; exact List.mem_map_of_mem hb'
    · rcases List.mem_cons.mp hb with eb | hb'
      · exfalso; apply h.1; rw [← eb, ← e]; exact List.mem_map_of_mem ha'
      · exact inj_of_nodup_map h.2 a ha' b hb' e

theorem nodup_of_nodup_map {f : α → β} {l : List α} (h : (l.map f).Nodup) : l.Nodup := by
  induction l with
  | nil => simp
  | cons x xs ih =>
    rw [List.map_cons, List.nodup_cons] at h
    exact List.nodup_cons.mpr ⟨fun hm => h.1 (List.mem_map_of_mem hm), ih h.2⟩

theorem nodup_map_of_inj {f : α → β} {l : List α} (hl : l.Nodup) (hf : ∀ a ∈ l, ∀ b ∈ l, f a = f b → a = b) :
    (l.map f).Nodup := by
  induction l with
  | nil => simp
  | cons x xs ih =>
    rw [List.nodup_cons] at hl
    rw [List.map_cons, List.nodup_cons]
    refine ⟨?_, ih hl.2 (fun a ha b hb => hf a (List.mem_cons_of_mem _ ha) b (List.mem_cons_of_mem _ hb))⟩
    intro hm
    obtain ⟨y, hy, e⟩ := List.mem_map.mp hm
    have := hf y (List.mem_cons_of_mem _ hy) x List.mem_cons_self e
    subst this; exact hl.1 hy

/-! ### flatMap under permutations -/

theorem flatMap_perm_congr {l : List α} {f g : α → List β} (h : ∀ a ∈ l, (f a).Perm (g a)) :
    (l.flatMap f).Perm (l.flatMap g) := by
  induction l with
  | nil => simp
  | cons x xs ih =>
    simp only [List.flatMap_cons]
    exact (h x List.mem_cons_self).append (ih fun a ha => h a (List.mem_cons_of_mem _ ha))

/-- when at most one element of the list contributes anything, the flatMap does not depend on the order at all -/
theorem flatMap_eq_of_perm_of_at_most_one {l l' : List α} {f : α → List β} (hp : l.Perm l')
    (h : ∀ a ∈ l, ∀ b ∈ l, f a ≠ [] → f b ≠ [] → a = b) : l.flatMap f = l'.flatMap f := by
  induction hp with
  | nil => rfl
  | cons x _ ih =>
    simp only [List.flatMap_cons]
    rw [ih fun a ha b hb => h a (List.mem_cons_of_mem _ ha) b (List.mem_cons_of_mem _ hb)]
  | swap x y l =>
    simp only [List.flatMap_cons, ← List.append_assoc]
    congr 1
    by_cases hx : f x = []
    · simp [hx]
    · by_cases hy : f y = []
      · simp [hy]
      · have := h y (by simp) x (by simp) hy hx
        rw [this]
  | trans p₁ _ ih₁ ih₂ =>
    rw [ih₁ h]
    exact ih₂ fun a ha b hb => h a (p₁.mem_iff.mpr ha) b (p₁.mem_iff.mpr hb)

/-! ### find? with a predicate that has at most one solution -/

theorem find?_eq_some_of_unique {p : α → Bool} {l : List α} {a : α} (ha : a ∈ l) (hpa : p a = true)
    (hu : ∀ b ∈ l, p b = true → b = a) : l.find? p = some a := by
  cases hf : l.find? p with
  | none => exact absurd hpa (by simpa using (List.find?_eq_none.mp hf) a ha)
  | some b => rw [hu b (List.mem_of_find?_eq_some hf) (List.find?_some hf)]

theorem find?_perm_of_unique {p : α → Bool} {l l' : List α} (hp : l.Perm l')
    (hu : ∀ a ∈ l, ∀ b ∈ l, p a = true → p b = true → a = b) : l.find? p = l'.find? p := by
  cases hf : l.find? p with
  | none =>
    symm; rw [List.find?_eq_none]
    intro x hx
    exact (List.find?_eq_none.mp hf) x (hp.mem_iff.mpr hx)
  | some a =>
    symm
    have ha := List.mem_of_find?_eq_some hf
    have hpa := List.find?_some hf
    exact find?_eq_some_of_unique (hp.mem_iff.mp ha) hpa
      (fun b hb hpb => hu b (hp.mem_iff.mpr hb) a ha hpb hpa)

/-! ### element-wise related lists, and related up to a permutation -/

inductive Rel₂ (R : α → β → Prop) : List α → List β → Prop
  | nil : Rel₂ R [] []
  | cons {a b as bs} : R a b → Rel₂ R as bs → Rel₂ R (a :: as) (b :: bs)

theorem Rel₂.map_map {R : β → γ → Prop} {f : α → β} {g : α → γ} : ∀ (l : List α), (∀ a ∈ l, R (f a) (g a)) →
    Rel₂ R (l.map f) (l.map g)
  | [], _ => .nil
  | x :: xs, h => .cons (h x List.mem_cons_self) (Rel₂.map_map xs fun a ha => h a (List.mem_cons_of_mem _ ha))

theorem Rel₂.mem_left {R : α → β → Prop} {l : List α} {l' : List β} (h : Rel₂ R l l') :
    ∀ a ∈ l, ∃ b ∈ l', R a b := by
  induction h with
  | nil => intro a ha; cases ha
  | cons hab _ ih =>
    intro x hx
    rcases List.mem_cons.mp hx with e | e
    · subst e; exact ⟨_, List.mem_cons_self, hab⟩
    · obtain ⟨b, hb, r⟩ := ih x e; exact ⟨b, List.mem_cons_of_mem _ hb, r⟩

theorem Rel₂.mem_right {R : α → β → Prop} {l : List α} {l' : List β} (h : Rel₂ R l l') :
    ∀ b ∈ l', ∃ a ∈ l, R a b := by
  induction h with
  | nil => intro a ha; cases ha
  | cons hab _ ih =>
    intro x hx
    rcases List.mem_cons.mp hx with e | e
    · subst e; exact ⟨_, List.mem_cons_self, hab⟩
    · obtain ⟨b, hb, r⟩ := ih x e; exact ⟨b, List.mem_cons_of_mem _ hb, r⟩

theorem Rel₂.map_eq {R : α → β → Prop} {f : α → γ} {g : β → γ} {l : List α} {l' : List β} (h : Rel₂ R l l')
    (hfg : ∀ a b, R a b → f a = g b) : l.map f = l'.map g := by
  induction h with
  | nil => rfl
  | cons hab _ ih => simp only [List.map_cons, hfg _ _ hab, ih]

/-- `l` and `l'` agree up to a permutation and, element by element, up to `R` -/
def PermRel (R : α → β → Prop) (l : List α) (l' : List β) : Prop := ∃ m, l.Perm m ∧ Rel₂ R m l'

theorem PermRel.of_map {R : β → γ → Prop} {f : α → β} {g : α → γ} {l l' : List α} (hp : l.Perm l')
    (h : ∀ a ∈ l', R (f a) (g a)) : PermRel R (l.map f) (l'.map g) :=
  ⟨l'.map f, hp.map f, Rel₂.map_map l' h⟩

theorem PermRel.mem_left {R : α → β → Prop} {l : List α} {l' : List β} (h : PermRel R l l') :
    ∀ a ∈ l, ∃ b ∈ l', R a b := by
  obtain ⟨m, hp, hr⟩ := h
  intro a ha; exact hr.mem_left a (hp.mem_iff.mp ha)

theorem PermRel.mem_right {R : α → β → Prop} {l : List α} {l' : List β} (h : PermRel R l l') :
    ∀ b ∈ l', ∃ a ∈ l, R a b := by
  obtain ⟨m, hp, hr⟩ := h
  intro b hb
  obtain ⟨a, ha, r⟩ := hr.mem_right b hb
  exact ⟨a, hp.mem_iff.mpr ha, r⟩

theorem PermRel.map_perm {R : α → β → Prop} {f : α → γ} {g : β → γ} {l : List α} {l' : List β} (h : PermRel R l l')
    (hfg : ∀ a b, R a b → f a = g b) : (l.map f).Perm (l'.map g) := by
  obtain ⟨m, hp, hr⟩ := h
  rw [← hr.map_eq hfg]; exact hp.map f

theorem Rel₂.refl_of {R : α → α → Prop} (hR : ∀ a, R a a) : ∀ (l : List α), Rel₂ R l l
  | [] => .nil
  | x :: xs => .cons (hR x) (Rel₂.refl_of hR xs)

theorem Rel₂.append {R : α → β → Prop} {a : List α} {b : List β} {c : List α} {d : List β} (h1 : Rel₂ R a b)
    (h2 : Rel₂ R c d) : Rel₂ R (a ++ c) (b ++ d) := by
  induction h1 with
  | nil => exact h2
  | cons hab _ ih => exact .cons hab ih

theorem Rel₂.map {R : α → β → Prop} {γ' δ' : Type _} {S : γ' → δ' → Prop} {f : α → γ'} {g : β → δ'} {l : List α}
    {l' : List β} (h : Rel₂ R l l') (hfg : ∀ a b, R a b → S (f a) (g b)) : Rel₂ S (l.map f) (l'.map g) := by
  induction h with
  | nil => exact .nil
  | cons hab _ ih => exact .cons (hfg _ _ hab) ih

theorem PermRel.map {R : α → β → Prop} {γ' δ' : Type _} {S : γ' → δ' → Prop} {f : α → γ'} {g : β → δ'} {l : List α}
    {l' : List β} (h : PermRel R l l') (hfg : ∀ a b, R a b → S (f a) (g b)) : PermRel S (l.map f) (l'.map g) := by
  obtain ⟨m, hp, hr⟩ := h
  exact ⟨m.map f, hp.map f, hr.map hfg⟩

theorem PermRel.append {R : α → β → Prop} {a : List α} {b : List β} {c : List α} {d : List β} (h1 : PermRel R a b)
    (h2 : PermRel R c d) : PermRel R (a ++ c) (b ++ d) := by
  obtain ⟨m1, p1, r1⟩ := h1
  obtain ⟨m2, p2, r2⟩ := h2
  exact ⟨m1 ++ m2, p1.append p2, r1.append r2⟩

theorem PermRel.refl_of {R : α → α → Prop} (hR : ∀ a, R a a) (l : List α) : PermRel R l l :=
  ⟨l, List.Perm.refl _, Rel₂.refl_of hR l⟩

end NGF.ListPerm
