/-
The enriched configuration of Model/Render projects onto C02's abstract configuration:
`(genR s order).forget = Pipeline.gen s` for every scenario and every port order. Core Lean only.
-/
import NGF.Model.Render

namespace NGF.Render
open NGF.Pipeline
open NGF.Precedence (PathRule GenLoc extLocs extLocsFrom genLocs hasExact hasPrefix endsSlash)

/-! ### enumFrom -/

theorem enumFrom_flatMap_snd {α β} (f : α → List β) : ∀ (l : List α) (i : Nat),
    (enumFrom i l).flatMap (fun ix => f ix.2) = l.flatMap f
  | [], _ => rfl
  | x :: xs, i => by simp [enumFrom, enumFrom_flatMap_snd f xs (i + 1)]

theorem enumFrom_map_snd {α} : ∀ (l : List α) (i : Nat), (enumFrom i l).map (·.2) = l
  | [], _ => rfl
  | x :: xs, i => by simp [enumFrom, enumFrom_map_snd xs (i + 1)]

theorem mem_enumFrom {α} : ∀ {l : List α} {i j : Nat} {x : α}, (j, x) ∈ enumFrom i l → i ≤ j ∧ l[j - i]? = some x
  | [], _, _, _, h => by simp [enumFrom] at h
  | y :: ys, i, j, x, h => by
    simp only [enumFrom, List.mem_cons, Prod.mk.injEq] at h
    rcases h with ⟨rfl, rfl⟩ | h
    · simp
    · obtain ⟨h1, h2⟩ := mem_enumFrom h
      refine ⟨by omega, ?_⟩
      have : j - i = (j - (i + 1)) + 1 := by omega
      rw [this]; simpa using h2

/-! ### entries -/

theorem routeEntriesR_map (port : Nat) (hosts : List Str) (r : Route) :
    (routeEntriesR port hosts r).map (·.e) = routeEntries port hosts r := by
  unfold routeEntriesR routeEntries
  rw [List.map_flatMap]
  have : (fun ir : Nat × Rule => (hosts.flatMap fun h => ir.2.ms.map fun m =>
      ({ e := { port := port, host := h, m := m, key := keyOf r m, action := ir.2.action },
         src := ⟨r.ns, r.name, ir.1⟩ } : REntry)).map (·.e)) =
      fun ir => (fun rule : Rule => hosts.flatMap fun h => rule.ms.map fun m =>
        ({ port := port, host := h, m := m, key := keyOf r m, action := rule.action } : Entry)) ir.2 := by
    funext ir
    simp [List.map_flatMap, List.map_map, Function.comp_def]
  rw [this]
  exact enumFrom_flatMap_snd (fun rule : Rule => hosts.flatMap fun h => rule.ms.map fun m =>
    ({ port := port, host := h, m := m, key := keyOf r m, action := rule.action } : Entry)) r.rules 0

theorem entriesR_map (g : Gateway) (routes : List Route) : (entriesR g routes).map (·.e) = entries g routes := by
  unfold entriesR entries
  simp only [List.map_flatMap]
  congr 1; funext l
  congr 1; funext r
  by_cases hv : r.valid = true
  · simp [hv, routeEntriesR_map]
  · simp [hv]

/-! ### one server -/

theorem actOfR_forget (port : Nat) (src : Src) (a : Action) : (actOfR port src a).forget = actOf port a := by
  cases a <;> rfl

theorem ruleActR_forget (port : Nat) (mrs : List REntry) : (ruleActR port mrs).forget = ruleAct port (mrs.map (·.e)) := by
  match mrs with
  | [] => rfl
  | [x] =>
    simp only [ruleActR, ruleAct, List.map_cons, List.map_nil]
    by_cases h : isPathOnly x.e.m = true
    · simp [h, RLocAct.forget, actOfR_forget]
    · simp [h, RLocAct.forget, rmatchOf, actOfR_forget]
  | x :: y :: rest =>
    simp [ruleActR, ruleAct, RLocAct.forget, rmatchOf, actOfR_forget, List.map_map, Function.comp_def]

theorem sortR_map (l : List REntry) : (sortR l).map (·.e) = sortEntries (l.map (·.e)) := by
  unfold sortR sortEntries
  exact List.map_mergeSort (fun _ _ _ _ => rfl)

theorem mem_extLocs_rule {R : List PathRule} {i : Nat} {r : PathRule} {gl : GenLoc} (h : gl ∈ extLocs R i r) : gl.rule = i := by
  unfold extLocs at h
  by_cases hc : (r.isPrefix && !endsSlash r.path) = true
  · simp only [hc, ↓reduceIte] at h
    by_cases h2 : (hasExact R r.path && hasPrefix R (r.path ++ ['/'])) = true
    · simp [h2] at h
    · simp only [h2, Bool.false_eq_true, ↓reduceIte, List.mem_append] at h
      rcases h with h | h
      · by_cases h3 : hasPrefix R (r.path ++ ['/']) = true
        · simp [h3] at h
        · simp [h3] at h; subst h; rfl
      · by_cases h4 : hasExact R r.path = true
        · simp [h4] at h
        · simp [h4] at h; subst h; rfl
  · have hc' : (r.isPrefix && !endsSlash r.path) = false := Bool.eq_false_iff.mpr hc
    simp only [hc', Bool.false_eq_true, ↓reduceIte, List.mem_singleton] at h
    subst h; rfl

def toRule (k : Bool × Str) : PathRule := ⟨k.2, !k.1⟩

theorem extLocsFrom_map (R : List PathRule) (keys : List (Bool × Str)) (G : GenLoc → CLoc) (A : Bool × Str → LocAct)
    (hG : ∀ i k, keys[i]? = some k → ∀ gl ∈ extLocs R i (toRule k), G gl = ⟨gl.exact, gl.path, A k⟩) :
    ∀ (suf pre : List (Bool × Str)), keys = pre ++ suf →
      (extLocsFrom R pre.length (suf.map toRule)).map G =
        (enumFrom pre.length suf).flatMap fun ik =>
          (extLocs R ik.1 (toRule ik.2)).map fun gl => (⟨gl.exact, gl.path, A ik.2⟩ : CLoc)
  | [], _, _ => rfl
  | k :: suf, pre, hk => by
    simp only [List.map_cons, extLocsFrom, List.map_append, enumFrom, List.flatMap_cons]
    congr 1
    · apply List.map_congr_left
      intro gl hgl
      exact hG pre.length k (by rw [hk]; simp) gl hgl
    · have := extLocsFrom_map R keys G A hG suf (pre ++ [k]) (by rw [hk]; simp)
      simpa using this

/-- `Pipeline.serverOf` with the entries of the server given -/
def serverCore (mine : List Entry) (port : Nat) (h : Str) : CServer :=
  let keys := (mine.map pathKey).eraseDups
  let rules : List PathRule := keys.map fun k => ⟨k.2, !k.1⟩
  let locs := (genLocs rules).map fun gl =>
    match keys[gl.rule]? with
    | some k => { exact := gl.exact, path := gl.path,
                  act := ruleAct port (sortEntries (mine.filter fun e => pathKey e == k)) : CLoc }
    | none => { exact := gl.exact, path := gl.path, act := .direct (.status 404) }
  { port := port, name := h, locs := locs }

theorem serverOf_eq_core (es : List Entry) (port : Nat) (h : Str) :
    serverOf es port h = serverCore (es.filter fun e => e.port == port && e.host == h) port h := rfl

/-- `serverOfR` with the entries of the server and its path keys given -/
def serverCoreR (mine : List REntry) (keys : List (Bool × Str)) (sid port : Nat) (h : Str) : RServer :=
  { sid := sid, port := port, name := h,
    rules := (enumFrom 0 keys).map fun ik =>
      { idx := rank ruleLt keys ik.2, exact := ik.2.1, path := ik.2.2,
        ext := (extLocs (keys.map toRule) ik.1 (toRule ik.2)).map fun gl => (gl.exact, gl.path),
        act := ruleActR port (sortR (mine.filter fun x => pathKeyR x == ik.2)) },
    root404 := !((keys.map toRule).any fun r => r.path == ['/']) }

theorem serverOfR_eq_core (es : List REntry) (sid port : Nat) (h : Str) :
    serverOfR es sid port h =
      serverCoreR (es.filter fun x => x.e.port == port && x.e.host == h)
        (((es.filter fun x => x.e.port == port && x.e.host == h).map pathKeyR).eraseDups) sid port h := rfl

theorem forget_serverCoreR (mine : List REntry) (keys : List (Bool × Str)) (sid port : Nat) (h : Str)
    (hK : (mine.map pathKeyR).eraseDups = keys) :
    (serverCoreR mine keys sid port h).forget = serverCore (mine.map (·.e)) port h := by
  have hkeys : (mine.map (·.e)).map pathKey = mine.map pathKeyR := by
    simp [List.map_map, Function.comp_def, pathKeyR]
  unfold serverCoreR serverCore RServer.forget
  simp only [hkeys, hK]
  have hrules : (keys.map fun k => (⟨k.2, !k.1⟩ : PathRule)) = keys.map toRule := rfl
  simp only [hrules]
  generalize hR : keys.map toRule = R
  have hlen : R.length = keys.length := by rw [← hR]; simp
  -- the action attached to a key
  have hA : ∀ k : Bool × Str,
      (ruleActR port (sortR (mine.filter fun x => pathKeyR x == k))).forget =
        ruleAct port (sortEntries ((mine.map (·.e)).filter fun e => pathKey e == k)) := by
    intro k
    rw [ruleActR_forget, sortR_map, List.filter_map]; rfl
  unfold genLocs
  simp only [List.map_append, CServer.mk.injEq, true_and]
  congr 1
  · -- the external locations
    rw [List.flatMap_map]
    have hmain := extLocsFrom_map R keys
      (fun gl => match keys[gl.rule]? with
        | some k => ({ exact := gl.exact, path := gl.path,
                       act := ruleAct port (sortEntries ((mine.map (·.e)).filter fun e => pathKey e == k)) } : CLoc)
        | none => { exact := gl.exact, path := gl.path, act := .direct (.status 404) })
      (fun k => ruleAct port (sortEntries ((mine.map (·.e)).filter fun e => pathKey e == k)))
      (by
        intro i k hk gl hgl
        have := mem_extLocs_rule hgl
        simp only [this, hk])
      keys [] (by simp)
    simp only [List.length_nil, hR] at hmain
    rw [hmain]
    congr 1
    funext ik
    simp only [List.map_map, Function.comp_def, hA]
  · -- the default root location
    by_cases hroot : (R.any fun r => r.path == ['/']) = true
    · simp [hroot]
    · simp only [hroot, Bool.false_eq_true, ↓reduceIte, List.map_cons, List.map_nil, Bool.not_false]
      have : keys[R.length]? = none := by rw [hlen]; simp
      simp [this]

theorem forget_serverOfR (es : List REntry) (sid port : Nat) (h : Str) :
    (serverOfR es sid port h).forget = serverOf (es.map (·.e)) port h := by
  rw [serverOfR_eq_core, serverOf_eq_core, forget_serverCoreR _ _ _ _ _ rfl, List.filter_map]
  rfl

/-! ### the whole configuration -/

theorem forget_genR (s : Scenario) (order : List Nat) : (genR s order).forget = gen s := by
  unfold genR gen
  cases hw : winner s with
  | none => rfl
  | some g =>
    simp only [ConfR.forget, List.map_map, Function.comp_def, forget_serverOfR, entriesR_map]
    simp

end NGF.Render
