/-
Order-theoretic helper lemmas for C14 (core Lean only).

* `SWO lt`  : `lt` is a strict weak order (asymmetric + negatively transitive), the exact requirement
  Go's `sort` package puts on a `less` function.
* `leOf lt` : the induced total preorder `a ≤ b := ¬ b < a`, the relation handed to `List.mergeSort`.
* `SWO.lex`, `SWO.ofMeasure`, `SWO.ofStrictTotal`, `SWO.comap` : building blocks for comparison chains
  of the shape `if k1 differs then … else if k2 differs then … else less`.
* `sorted_perm_unique` : for an antisymmetric order the sorted permutation is unique, so ANY correct
  sorting algorithm (Go's unstable `sort.Slice` included) returns the same slice.
* `stable_sort_perm_invariant` (DESIGN.md Appendix A.10): two lists whose restrictions to every
  equivalence class of the preorder coincide are sorted to the same list by a stable sort.
-/
set_option linter.unusedSectionVars false
namespace NGF.Sort

variable {α : Type _}

/-- strict weak order, Bool-valued -/
structure SWO (lt : α → α → Bool) : Prop where
  asymm : ∀ a b, lt a b = true → lt b a = false
  negtrans : ∀ a b c, lt a c = true → lt a b = true ∨ lt b c = true

/-- the total preorder induced by a strict weak order: `a ≤ b` iff not `b < a` -/
def leOf (lt : α → α → Bool) (a b : α) : Bool := !lt b a

theorem SWO.irrefl {lt : α → α → Bool} (h : SWO lt) (a : α) : lt a a = false := by
  cases hh : lt a a with
  | false => rfl
  | true => have := h.asymm a a hh; rw [hh] at this; exact this

theorem SWO.trans {lt : α → α → Bool} (h : SWO lt) {a b c : α}
    (hab : lt a b = true) (hbc : lt b c = true) : lt a c = true := by
  rcases h.negtrans a c b hab with h1 | h1
  · exact h1
  · have := h.asymm b c hbc; rw [h1] at this; cases this

theorem SWO.le_total {lt : α → α → Bool} (h : SWO lt) (a b : α) :
    (leOf lt a b || leOf lt b a) = true := by
  unfold leOf
  cases hba : lt b a with
  | false => simp
  | true => have := h.asymm b a hba; simp [this]

theorem SWO.le_trans {lt : α → α → Bool} (h : SWO lt) (a b c : α)
    (hab : leOf lt a b = true) (hbc : leOf lt b c = true) : leOf lt a c = true := by
  unfold leOf at *
  cases hca : lt c a with
  | false => rfl
  | true =>
    rcases h.negtrans c b a hca with h1 | h1
    · rw [h1] at hbc; cases hbc
    · rw [h1] at hab; cases hab

/-- lexicographic combination, written the way Go comparison chains are written:
`if a <₁ b {return true}; if b <₁ a {return false}; return a <₂ b` -/
def lexLt (lt1 lt2 : α → α → Bool) (a b : α) : Bool := lt1 a b || (!lt1 b a && lt2 a b)

theorem SWO.lex {lt1 lt2 : α → α → Bool} (h1 : SWO lt1) (h2 : SWO lt2) : SWO (lexLt lt1 lt2) where
  asymm := by
    intro a b hab
    unfold lexLt at *
    cases h1ab : lt1 a b with
    | true => have := h1.asymm a b h1ab; simp [this]
    | false =>
      simp [h1ab] at hab
      obtain ⟨hba, h2ab⟩ := hab
      have := h2.asymm a b h2ab
      simp [hba, this]
  negtrans := by
    intro a b c hac
    unfold lexLt at *
    cases h1ac : lt1 a c with
    | true =>
      rcases h1.negtrans a b c h1ac with h | h
      · left; simp [h]
      · right; simp [h]
    | false =>
      simp [h1ac] at hac
      obtain ⟨hca, h2ac⟩ := hac
      cases h1ab : lt1 a b with
      | true => left; simp
      | false =>
        cases h1bc : lt1 b c with
        | true => right; simp
        | false =>
          have hba : lt1 b a = false := by
            cases hh : lt1 b a with
            | false => rfl
            | true =>
              rcases h1.negtrans b c a hh with h | h
              · rw [h] at h1bc; cases h1bc
              · rw [h] at hca; cases hca
          have hcb : lt1 c b = false := by
            cases hh : lt1 c b with
            | false => rfl
            | true =>
              rcases h1.negtrans c a b hh with h | h
              · rw [h] at hca; cases hca
              · rw [h] at h1ab; cases h1ab
          rcases h2.negtrans a b c h2ac with h | h
          · left; simp [hba, h]
          · right; simp [hcb, h]

theorem SWO.ofMeasure (f : α → Int) : SWO (fun a b => decide (f a < f b)) where
  asymm := by intro a b h; simp at *; omega
  negtrans := by
    intro a b c h
    simp at *
    omega

theorem SWO.ofStrictTotal {lt : α → α → Bool}
    (irr : ∀ a, lt a a = false)
    (tr : ∀ a b c, lt a b = true → lt b c = true → lt a c = true)
    (tri : ∀ a b, lt a b = true ∨ a = b ∨ lt b a = true) : SWO lt where
  asymm := by
    intro a b hab
    cases hba : lt b a with
    | false => rfl
    | true => have := tr a b a hab hba; rw [irr a] at this; cases this
  negtrans := by
    intro a b c hac
    rcases tri a b with h | h | h
    · exact Or.inl h
    · subst h; exact Or.inr hac
    · exact Or.inr (tr b a c h hac)

theorem SWO.comap {β : Type _} {lt : α → α → Bool} (g : β → α) (h : SWO lt) :
    SWO (fun a b => lt (g a) (g b)) where
  asymm := fun a b => h.asymm (g a) (g b)
  negtrans := fun a b c => h.negtrans (g a) (g b) (g c)

/-! ### uniqueness of the sorted permutation (any sorting algorithm gives the same answer) -/

theorem sorted_perm_unique {le : α → α → Bool} :
    ∀ (s1 s2 : List α), s1.Perm s2 →
      List.Pairwise (fun a b => le a b = true) s1 → List.Pairwise (fun a b => le a b = true) s2 →
      (∀ a b, a ∈ s1 → b ∈ s1 → le a b = true → le b a = true → a = b) → s1 = s2
  | [], s2, hp, _, _, _ => by simpa using hp.symm.eq_nil
  | x :: t1, [], hp, _, _, _ => by simpa using hp.eq_nil
  | x :: t1, y :: t2, hp, p1, p2, anti => by
    have hxy : x = y := by
      have hx : x ∈ y :: t2 := hp.mem_iff.mp (List.mem_cons_self)
      have hy : y ∈ x :: t1 := hp.mem_iff.mpr (List.mem_cons_self)
      rcases List.mem_cons.mp hx with h | h
      · exact h
      · rcases List.mem_cons.mp hy with h' | h'
        · exact h'.symm
        · have lyx : le y x = true := (List.pairwise_cons.mp p2).1 x h
          have lxy : le x y = true := (List.pairwise_cons.mp p1).1 y h'
          exact anti x y List.mem_cons_self hy lxy lyx
    subst hxy
    have ht : t1.Perm t2 := List.Perm.cons_inv hp
    have := sorted_perm_unique t1 t2 ht (List.pairwise_cons.mp p1).2 (List.pairwise_cons.mp p2).2
      (fun a b ha hb => anti a b (List.mem_cons_of_mem _ ha) (List.mem_cons_of_mem _ hb))
    rw [this]

/-! ### stable sort: permutation invariance up to the order inside equivalence classes -/

/-- `a` and `b` are equivalent for the preorder `le` -/
def equivB (le : α → α → Bool) (a b : α) : Bool := le a b && le b a

section stable
variable {le : α → α → Bool}
  (tr : ∀ a b c, le a b = true → le b c = true → le a c = true)
  (tot : ∀ a b, (le a b || le b a) = true)
include tr tot

theorem le_refl' (a : α) : le a a = true := by
  have := tot a a; simpa using this

theorem class_pairwise (a : α) (l : List α) :
    List.Pairwise (fun x y => le x y = true) (l.filter (equivB le a)) := by
  induction l with
  | nil => simp
  | cons x t ih =>
    by_cases hx : equivB le a x = true
    · rw [List.filter_cons_of_pos hx]
      refine List.pairwise_cons.mpr ⟨?_, ih⟩
      intro y hy
      have hy' := (List.mem_filter.mp hy).2
      unfold equivB at hx hy'
      simp at hx hy'
      exact tr x a y hx.2 hy'.1
    · rw [List.filter_cons_of_neg hx]; exact ih

/-- stability: sorting does not change the restriction of the list to an equivalence class -/
theorem filter_mergeSort_class (l : List α) (a : α) :
    (l.mergeSort le).filter (equivB le a) = l.filter (equivB le a) := by
  have hsub : (l.filter (equivB le a)).Sublist (l.mergeSort le) :=
    List.sublist_mergeSort tr tot (class_pairwise tr tot a l) List.filter_sublist
  have h2 := List.Sublist.filter (equivB le a) hsub
  rw [List.filter_filter] at h2
  simp only [Bool.and_self] at h2
  have hlen : ((l.mergeSort le).filter (equivB le a)).length = (l.filter (equivB le a)).length :=
    ((List.mergeSort_perm l le).filter _).length_eq
  exact (h2.eq_of_length hlen.symm).symm

theorem sorted_eq_of_class_eq :
    ∀ (s1 s2 : List α),
      List.Pairwise (fun a b => le a b = true) s1 → List.Pairwise (fun a b => le a b = true) s2 →
      (∀ a, s1.filter (equivB le a) = s2.filter (equivB le a)) → s1 = s2
  | [], [], _, _, _ => rfl
  | [], y :: t2, _, _, h => by
    have := h y
    have hy : equivB le y y = true := by unfold equivB; simp [le_refl' tr tot y]
    rw [List.filter_cons_of_pos hy] at this
    simp at this
  | x :: t1, [], _, _, h => by
    have := h x
    have hx : equivB le x x = true := by unfold equivB; simp [le_refl' tr tot x]
    rw [List.filter_cons_of_pos hx] at this
    simp at this
  | x :: t1, y :: t2, p1, p2, h => by
    have hxx : equivB le x x = true := by unfold equivB; simp [le_refl' tr tot x]
    have hyy : equivB le y y = true := by unfold equivB; simp [le_refl' tr tot y]
    have hxy : x = y := by
      by_cases hxy' : equivB le x y = true
      · have := h x
        rw [List.filter_cons_of_pos hxx, List.filter_cons_of_pos hxy'] at this
        exact (List.cons.inj this).1
      · -- x occurs in s2 and y occurs in s1, so le y x and le x y: contradiction
        have hx2 : x ∈ (y :: t2).filter (equivB le x) := by
          rw [← h x, List.filter_cons_of_pos hxx]; exact List.mem_cons_self
        have hx2' : x ∈ y :: t2 := (List.mem_filter.mp hx2).1
        have hy1 : y ∈ (x :: t1).filter (equivB le y) := by
          rw [h y, List.filter_cons_of_pos hyy]; exact List.mem_cons_self
        have hy1' : y ∈ x :: t1 := (List.mem_filter.mp hy1).1
        rcases List.mem_cons.mp hx2' with e | hxin
        · exact e
        · rcases List.mem_cons.mp hy1' with e | hyin
          · exact e.symm
          · have lyx : le y x = true := (List.pairwise_cons.mp p2).1 x hxin
            have lxy : le x y = true := (List.pairwise_cons.mp p1).1 y hyin
            exact absurd (by unfold equivB; simp [lxy, lyx]) hxy'
    subst hxy
    have ht : t1 = t2 := by
      apply sorted_eq_of_class_eq t1 t2 (List.pairwise_cons.mp p1).2 (List.pairwise_cons.mp p2).2
      intro a
      have := h a
      by_cases ha : equivB le a x = true
      · rw [List.filter_cons_of_pos ha, List.filter_cons_of_pos ha] at this
        exact (List.cons.inj this).2
      · rw [List.filter_cons_of_neg ha, List.filter_cons_of_neg ha] at this
        exact this
    rw [ht]

/-- DESIGN.md Appendix A.10. Two lists whose restrictions to every equivalence class of the preorder
are equal (same elements in the same relative order) are sorted to the same list by a stable sort.
Duplicated elements are allowed. -/
theorem stable_sort_perm_invariant (l1 l2 : List α)
    (h : ∀ a, l1.filter (equivB le a) = l2.filter (equivB le a)) :
    l1.mergeSort le = l2.mergeSort le := by
  apply sorted_eq_of_class_eq tr tot _ _ (List.pairwise_mergeSort tr tot l1) (List.pairwise_mergeSort tr tot l2)
  intro a
  rw [filter_mergeSort_class tr tot l1 a, filter_mergeSort_class tr tot l2 a, h a]

end stable

/-- for an antisymmetric total preorder any two permutations sort to the same list -/
theorem mergeSort_perm_invariant {le : α → α → Bool}
    (tr : ∀ a b c, le a b = true → le b c = true → le a c = true)
    (tot : ∀ a b, (le a b || le b a) = true)
    (l1 l2 : List α) (hp : l1.Perm l2)
    (anti : ∀ a b, a ∈ l1 → b ∈ l1 → le a b = true → le b a = true → a = b) :
    l1.mergeSort le = l2.mergeSort le := by
  apply sorted_perm_unique _ _ (((List.mergeSort_perm l1 le).trans hp).trans (List.mergeSort_perm l2 le).symm)
    (List.pairwise_mergeSort tr tot l1) (List.pairwise_mergeSort tr tot l2)
  intro a b ha hb
  exact anti a b ((List.mergeSort_perm l1 le).mem_iff.mp ha) ((List.mergeSort_perm l1 le).mem_iff.mp hb)

/-- ANY function returning a sorted permutation (the contract of Go's `sort.Slice`) agrees with
`mergeSort` when the order is antisymmetric on the elements. -/
theorem any_sort_eq_mergeSort {le : α → α → Bool}
    (tr : ∀ a b c, le a b = true → le b c = true → le a c = true)
    (tot : ∀ a b, (le a b || le b a) = true)
    (l s : List α) (hp : s.Perm l) (hs : List.Pairwise (fun a b => le a b = true) s)
    (anti : ∀ a b, a ∈ l → b ∈ l → le a b = true → le b a = true → a = b) :
    s = l.mergeSort le := by
  apply sorted_perm_unique _ _ (hp.trans (List.mergeSort_perm l le).symm) hs (List.pairwise_mergeSort tr tot l)
  intro a b ha hb
  exact anti a b (hp.mem_iff.mp ha) (hp.mem_iff.mp hb)

end NGF.Sort
