/-
C18 helper lemmas for the argument rewriting of `prepareDeployment` (`prepareArgs`): closed form of the
loop, substring (`strings.Contains`) lemmas, shape of the static manifest's args, DNS-1123 names contain
no '/', decoding of the `--gateway=<ns>/<name>` value.
-/
import NGF.Proofs.ProvisionerNames

namespace NGF.Prov

/-! ### `strings.Contains` -/

theorem isInfix_cons {p s : Str} (c : Char) (h : isInfix p s = true) : isInfix p (c :: s) = true := by
  simp [isInfix, h]

theorem isInfix_prefix (p b : Str) : isInfix p (p ++ b) = true := by
  cases h : p ++ b with
  | nil =>
    have : p = [] := (List.append_eq_nil_iff.mp h).1
    simp [isInfix, this]
  | cons c cs =>
    simp only [isInfix, Bool.or_eq_true]
    left
    rw [← h]
    exact List.isPrefixOf_iff_prefix.mpr (List.prefix_append _ _)

theorem isInfix_append_left (a : Str) {p s : Str} (h : isInfix p s = true) : isInfix p (a ++ s) = true := by
  induction a with
  | nil => simpa
  | cons c t ih => exact isInfix_cons c ih

/-- `strings.Contains(a ++ p ++ b, p)` -/
theorem isInfix_mid (a p b : Str) : isInfix p (a ++ (p ++ b)) = true :=
  isInfix_append_left a (isInfix_prefix p b)

/-- every arg that starts with `--leader-election-lock-name=` contains the needle -/
theorem isInfix_of_lockFlag_prefix {a : Str} (h : lockFlag.isPrefixOf a = true) : isInfix lockNeedle a = true := by
  obtain ⟨t, rfl⟩ := List.isPrefixOf_iff_prefix.mp h
  have : lockFlag ++ t = ['-','-'] ++ (lockNeedle ++ ('=' :: t)) := by simp [lockFlag]
  rw [this]
  exact isInfix_mid _ _ _

theorem needle_in_lockArg (x : Str) : isInfix lockNeedle (lockFlag ++ x) = true :=
  isInfix_of_lockFlag_prefix (List.isPrefixOf_iff_prefix.mpr (List.prefix_append _ _))

theorem lockFlag_not_prefix_gw (x : Str) : lockFlag.isPrefixOf (gwFlag ++ x) = false := by
  simp [gwFlag, lockFlag, lockNeedle, List.isPrefixOf]

theorem lockFlag_not_prefix_upd : lockFlag.isPrefixOf updFlag = false := by decide

theorem needle_not_in_upd : isInfix lockNeedle updFlag = false := by decide

theorem lockFlag_isPrefixOf_self (x : Str) : lockFlag.isPrefixOf (lockFlag ++ x) = true :=
  List.isPrefixOf_iff_prefix.mpr (List.prefix_append _ _)

theorem gwFlag_isPrefixOf_self (x : Str) : gwFlag.isPrefixOf (gwFlag ++ x) = true :=
  List.isPrefixOf_iff_prefix.mpr (List.prefix_append _ _)

/-! ### shape of the static manifest's args -/

/-- `--update-gatewayclass-status=` -/
def updPrefix : Str := updFlag.take 29

/-- what `prepareDeployment` relies on in the manifest: no `--gateway=` / `--update-gatewayclass-status=` arg of
its own; the substring test and the prefix test `--leader-election-lock-name=` select the same args; exactly one
such arg -/
def manifestShape (tmpl : List Str) : Bool :=
  tmpl.all (fun a => !gwFlag.isPrefixOf a) && tmpl.all (fun a => !updPrefix.isPrefixOf a) &&
  tmpl.all (fun a => isInfix lockNeedle a == lockFlag.isPrefixOf a) &&
  (tmpl.filter (isInfix lockNeedle)).length == 1

theorem manifestShape_tmplOK {tmpl : List Str} (h : manifestShape tmpl = true) : TmplOK tmpl := by
  simp only [manifestShape, Bool.and_eq_true] at h
  exact tmplOK_of_all h.1.1.1

theorem manifestShape_noUpd {tmpl : List Str} (h : manifestShape tmpl = true) :
    ∀ a ∈ tmpl, updPrefix.isPrefixOf a = false := by
  simp only [manifestShape, Bool.and_eq_true] at h
  intro a ha
  simpa using List.all_eq_true.mp h.1.1.2 a ha

theorem manifestShape_sub_eq_prefix {tmpl : List Str} (h : manifestShape tmpl = true) :
    ∀ a ∈ tmpl, isInfix lockNeedle a = lockFlag.isPrefixOf a := by
  simp only [manifestShape, Bool.and_eq_true] at h
  intro a ha
  simpa using List.all_eq_true.mp h.1.2 a ha

theorem manifestShape_one {tmpl : List Str} (h : manifestShape tmpl = true) :
    (tmpl.filter (isInfix lockNeedle)).length = 1 := by
  simp only [manifestShape, Bool.and_eq_true] at h
  simpa using h.2

/-- a list with exactly one element satisfying `q` splits around it -/
theorem split_of_filter_length_one {α} (q : α → Bool) (l : List α) (h : (l.filter q).length = 1) :
    ∃ pre x post, l = pre ++ x :: post ∧ q x = true ∧ (∀ a ∈ pre, q a = false) ∧ (∀ a ∈ post, q a = false) := by
  induction l with
  | nil => simp at h
  | cons a t ih =>
    by_cases ha : q a = true
    · refine ⟨[], a, t, rfl, ha, by simp, ?_⟩
      simp only [List.filter_cons, ha, if_true, List.length_cons, Nat.add_eq_right,
        List.length_eq_zero_iff] at h
      intro b hb
      have := List.filter_eq_nil_iff.mp h b hb
      simpa using this
    · have ha' : q a = false := by simpa using ha
      simp only [List.filter_cons, ha', Bool.false_eq_true, if_false] at h
      obtain ⟨pre, x, post, e, hx, hpre, hpost⟩ := ih h
      refine ⟨a :: pre, x, post, by simp [e], hx, ?_, hpost⟩
      intro b hb
      rcases List.mem_cons.mp hb with rfl | hb
      · exact ha'
      · exact hpre b hb

theorem map_rewriteArg_of_none (k : Key) (l : List Str) (h : ∀ a ∈ l, isInfix lockNeedle a = false) :
    l.map (rewriteArg k) = l := by
  induction l with
  | nil => rfl
  | cons a t ih =>
    simp only [List.map_cons, rewriteArg, h a (by simp), Bool.false_eq_true, if_false]
    rw [ih (fun b hb => h b (List.mem_cons_of_mem _ hb))]

theorem filter_eq_nil_of_all_false {α} (q : α → Bool) (l : List α) (h : ∀ a ∈ l, q a = false) : l.filter q = [] := by
  apply List.filter_eq_nil_iff.mpr
  intro a ha
  simp [h a ha]

theorem filter_map_rewriteArg (k : Key) (l : List Str) :
    (l.map (rewriteArg k)).filter (fun a => !isInfix lockNeedle a) = l.filter (fun a => !isInfix lockNeedle a) := by
  induction l with
  | nil => rfl
  | cons a t ih =>
    by_cases h : isInfix lockNeedle a = true
    · simp [rewriteArg, h, needle_in_lockArg, ih]
    · have h' : isInfix lockNeedle a = false := by simpa using h
      simp [rewriteArg, h', ih]

theorem nodup_map_of_injective {α β} {f : α → β} (hf : ∀ a b, f a = f b → a = b) {l : List α} (h : l.Nodup) :
    (l.map f).Nodup := by
  induction l with
  | nil => simp
  | cons a t ih =>
    have := List.nodup_cons.mp h
    simp only [List.map_cons, List.nodup_cons, List.mem_map, not_exists, not_and]
    exact ⟨fun b hb e => this.1 (hf _ _ e ▸ hb), ih this.2⟩

/-! ### DNS-1123 names -/

theorem mem_of_splitDots {q : Char → Bool} (s : Str) (h : (splitDots s).all (fun l => l.all q) = true) :
    ∀ c ∈ s, c = '.' ∨ q c = true := by
  induction s with
  | nil => simp
  | cons c cs ih =>
    simp only [splitDots] at h
    cases hs : splitDots cs with
    | nil =>
      rw [hs] at ih
      intro d hd
      rcases List.mem_cons.mp hd with rfl | hd
      · rw [hs] at h; simp at h; exact Or.inr h
      · exact ih (by simp) d hd
    | cons p ps =>
      rw [hs] at h ih
      simp only at h
      by_cases hc : c = '.'
      · subst hc
        simp only [beq_self_eq_true, if_true, List.all_cons, List.all_nil, Bool.true_and] at h
        intro d hd
        rcases List.mem_cons.mp hd with rfl | hd
        · exact Or.inl rfl
        · exact ih (by simpa using h) d hd
      · have : (c == '.') = false := by simpa using hc
        simp only [this, Bool.false_eq_true, if_false, List.all_cons, Bool.and_eq_true] at h
        intro d hd
        rcases List.mem_cons.mp hd with rfl | hd
        · exact Or.inr h.1.1
        · exact ih (by simp only [List.all_cons, Bool.and_eq_true]; exact ⟨h.1.2, h.2⟩) d hd

theorem dnsChar_ne_slash {c : Char} (h : (isAlnumLower c || c == '-') = true) : c ≠ '/' := by
  rintro rfl
  revert h
  decide

theorem dnsLabel_no_slash {s : Str} (h : dnsLabel s = true) : '/' ∉ s := by
  simp only [dnsLabel, Bool.and_eq_true] at h
  intro hm
  exact dnsChar_ne_slash (List.all_eq_true.mp h.1.1.2 _ hm) rfl

theorem dnsSubdomain_no_slash {s : Str} (h : dnsSubdomain s = true) : '/' ∉ s := by
  simp only [dnsSubdomain, Bool.and_eq_true] at h
  have hall : (splitDots s).all (fun l => l.all (fun c => isAlnumLower c || c == '-')) = true := by
    apply List.all_eq_true.mpr
    intro l hl
    have := List.all_eq_true.mp h.2 l hl
    simp only [Bool.and_eq_true] at this
    exact this.1.1.2
  intro hm
  rcases mem_of_splitDots s hall _ hm with e | e
  · revert e; decide
  · exact dnsChar_ne_slash e rfl

/-! ### decoding `--gateway=<ns>/<name>` the way the static-mode binary does (exactly two '/'-separated parts) -/

/-- split at the first '/' -/
def splitSlash : Str → Option (Str × Str)
  | [] => none
  | c :: cs => if c == '/' then some ([], cs) else (splitSlash cs).map (fun p => (c :: p.1, p.2))

/-- the Gateway named by a `--gateway=` value: `<ns>/<name>` with no further '/' -/
def parseGwValue (v : Str) : Option Key :=
  match splitSlash v with
  | some (a, b) => if b.contains '/' then none else some ⟨a, b⟩
  | none => none

theorem splitSlash_gwString (ns name : Str) (h : '/' ∉ ns) : splitSlash (ns ++ '/' :: name) = some (ns, name) := by
  induction ns with
  | nil => simp [splitSlash]
  | cons c t ih =>
    have hc : (c == '/') = false := by
      have : c ≠ '/' := fun e => h (e ▸ List.mem_cons_self)
      simpa using this
    simp only [List.cons_append, splitSlash, hc, Bool.false_eq_true, if_false,
      ih (fun m => h (List.mem_cons_of_mem _ m)), Option.map_some]

theorem parseGwValue_gwString (k : Key) (h1 : '/' ∉ k.ns) (h2 : '/' ∉ k.name) : parseGwValue (gwString k) = some k := by
  simp [parseGwValue, gwString, splitSlash_gwString _ _ h1, h2]

theorem parseGwValue_of_dnsKey {k : Key} (h : dnsKey k = true) : parseGwValue (gwString k) = some k := by
  simp only [dnsKey, Bool.and_eq_true] at h
  exact parseGwValue_gwString k (dnsLabel_no_slash h.1) (dnsSubdomain_no_slash h.2)

end NGF.Prov
