/-
C01 — soundness of the relevance predicates of the concrete instance `NGF.Store.Mini`
(footprint lemmas: `build` reads a Service only through a route that references it, a slice only
through a route that references its owner).
-/
import NGF.Model.StoreMini
import NGF.Proofs.Store

set_option linter.unusedSimpArgs false

namespace NGF.Store.Mini

theorem gr_ext {g h : Gr} (h1 : ∀ r, g.rv r = h.rv r) (h2 : ∀ r sl, g.ep r sl = h.ep r sl)
    (h3 : ∀ k, g.refd k = h.refd k) : g = h := by
  cases g; cases h
  simp only [Gr.mk.injEq]
  exact ⟨funext h1, funext fun r => funext (h2 r), funext h3⟩

theorem lookup_refd : ∀ (rs : List (Nat × Nat)) (r k : Nat),
    rs.lookup r = some k → rs.any (·.2 == k) = true
  | [], _, _, h => by simp at h
  | (a, b) :: rs, r, k, h => by
    simp only [List.lookup] at h
    simp only [List.any_cons, Bool.or_eq_true]
    split at h
    · left; simp at h; simp [h]
    · right; exact lookup_refd rs r k h

theorem filter_of_lookup_none : ∀ (rs : List (Nat × Nat)) (r : Nat),
    rs.lookup r = none → rs.filter (·.1 != r) = rs
  | [], _, _ => rfl
  | (a, b) :: rs, r, h => by
    simp only [List.lookup] at h
    split at h
    · simp at h
    · next hne =>
      have : (a != r) = true := by
        simp only [bne_iff_ne, ne_eq]
        intro hab; subst hab; simp at hne
      simp [List.filter, this, filter_of_lookup_none rs r h]

theorem upd_same {β : Type} (f : Nat → Option β) (k : Nat) (h : f k = none) : upd f k none = f := by
  funext j
  simp only [upd]
  split
  · next hj => rw [hj, h]
  · rfl

/-- `build` reads Service `key` only through a route that references it. -/
theorem build_svc_irrelevant (c : Cl) (key : Nat) (v : Option Nat)
    (h : (build c).refd key = false) :
    build { c with svcs := upd c.svcs key v } = build c := by
  apply gr_ext
  · intro r
    simp only [build]
    cases hl : c.routes.lookup r with
    | none => rfl
    | some k =>
      have hk : (build c).refd k = true := lookup_refd _ _ _ hl
      have : k ≠ key := by intro hkk; rw [hkk, h] at hk; cases hk
      simp [upd, this]
  · intro r sl; rfl
  · intro k; rfl

/-- `build` reads slice `key` only through a route that references its owner. -/
theorem build_slice_irrelevant (c : Cl) (key : Nat) (new : Option (Nat × Nat))
    (hnew : ∀ o a, new = some (o, a) → (build c).refd o = false)
    (hold : ∀ o a, c.slices key = some (o, a) → (build c).refd o = false ∨ new = some (o, a) ∨
      (∃ a', new = some (o, a') ∧ (build c).refd o = false)) :
    build { c with slices := upd c.slices key new } = build c := by
  apply gr_ext
  · intro r; rfl
  · intro r sl
    simp only [build, upd]
    by_cases hsl : sl = key
    · subst hsl
      simp only [if_true]
      cases hl : c.routes.lookup r with
      | none => rfl
      | some k =>
        have hk : (build c).refd k = true := lookup_refd _ _ _ hl
        have hL : epOf (some k) new = none := by
          cases hn : new with
          | none => rfl
          | some p =>
            obtain ⟨o, a⟩ := p
            have := hnew o a hn
            have hne : o ≠ k := by intro h; rw [h, hk] at this; cases this
            simp [epOf, hne]
        rw [hL]
        cases ho : c.slices sl with
        | none => rfl
        | some p =>
          obtain ⟨o, a⟩ := p
          rcases hold o a ho with h | h | ⟨a', _, h⟩
          · have hne : o ≠ k := by intro hh; rw [hh, hk] at h; cases h
            simp [epOf, hne]
          · have := hnew o a h
            have hne : o ≠ k := by intro hh; rw [hh, hk] at this; cases this
            simp [epOf, hne]
          · have hne : o ≠ k := by intro hh; rw [hh, hk] at h; cases h
            simp [epOf, hne]
    · simp [hsl]
  · intro k; rfl


/-- deleting an absent object leaves the store as it is (`storeAfter` returns early, the cluster agrees) -/
theorem storeRS_delete_absent (t : Cl) (e : Ev) (ho : e.obj = none) (hk : e.kind ≠ .slice)
    (hn : (getRS t e.kind e.key).isNone = true) : storeRS e t = t := by
  obtain ⟨kind, key, obj, orc⟩ := e
  simp only at ho hk hn
  subst ho
  cases kind with
  | slice => exact absurd rfl hk
  | route =>
    simp only [getRS, Option.isNone_map, Option.isNone_iff_eq_none] at hn
    simp [storeRS, delRoute, filter_of_lookup_none _ _ hn]
  | svc =>
    simp only [getRS, Option.isNone_map, Option.isNone_iff_eq_none] at hn
    simp [storeRS, upd_same _ _ hn]

/-- Current code: the relevance predicates are sound for every mutation except those that take a slice
away from a referenced Service (delete, or owner label change). -/
theorem sound_current : Sound ops build rel watchAll Eq adm where
  refl _ := rfl
  build_eq _ _ h := by rw [h]
  sim_filtered _ _ _ _ _ hw := by simp [watchAll] at hw
  watch_inert _ _ _ hw := by simp [watchAll] at hw
  sim_delivered s t e hst _ _ := by
    subst hst
    obtain ⟨kind, key, obj, orc⟩ := e
    cases kind with
    | slice => simp [storeAfter, applyW, ops, storeRS]
    | route =>
      cases obj with
      | some o => simp [storeAfter, applyW, ops, sliceApply]
      | none =>
        simp only [storeAfter, applyW, ops, sliceApply]
        by_cases hn : (getRS s .route key).isNone = true
        · simpa [hn] using (storeRS_delete_absent s ⟨.route, key, none, orc⟩ rfl (by simp) hn).symm
        · simp [hn]
    | svc =>
      cases obj with
      | some o => simp [storeAfter, applyW, ops, sliceApply]
      | none =>
        simp only [storeAfter, applyW, ops, sliceApply]
        by_cases hn : (getRS s .svc key).isNone = true
        · simpa [hn] using (storeRS_delete_absent s ⟨.svc, key, none, orc⟩ rfl (by simp) hn).symm
        · simp [hn]
  rel_sound s t e hst ha _ hv := by
    subst hst
    obtain ⟨kind, key, obj, orc⟩ := e
    cases kind with
    | route =>
      cases obj with
      | some o => simp [verdict, ops] at hv
      | none =>
        simp only [verdict, ops, sliceApply] at hv
        simp only [storeAfter, ops, sliceApply]
        by_cases hn : (getRS s .route key).isNone = true
        · simp [hn]
        · simp [hn] at hv
    | svc =>
      cases obj with
      | some o =>
        simp only [verdict, ops, sliceApply, rel] at hv
        simp only [storeAfter, ops, sliceApply, storeRS]
        exact build_svc_irrelevant s key _ (by simpa using hv)
      | none =>
        simp only [verdict, ops, sliceApply, rel] at hv
        simp only [storeAfter, ops, sliceApply]
        by_cases hn : (getRS s .svc key).isNone = true
        · simp [hn]
        · have hr : (build s).refd key = false := by simpa [hn] using hv
          simpa [hn, storeRS] using build_svc_irrelevant s key none hr
    | slice =>
      simp only [storeAfter, ops, sliceApply]
      simp only [adm] at ha
      apply build_slice_irrelevant
      · intro o a hnew
        cases obj with
        | none => simp at hnew
        | some ob =>
          simp only [Option.map_some, Option.some.injEq, Prod.mk.injEq] at hnew
          simp only [verdict, ops, sliceApply, rel] at hv
          rw [← hnew.1]
          simpa using hv
      · intro o a hold
        simp only [hold] at ha
        cases obj with
        | none =>
          left; simpa using ha
        | some ob =>
          simp only [Option.map_some, beq_iff_eq, Option.some.injEq, Bool.or_eq_true,
            Bool.not_eq_true'] at ha
          rcases ha with h | h
          · right; right
            refine ⟨ob.val, by simp [h], ?_⟩
            simp only [verdict, ops, sliceApply, rel] at hv
            rw [← h]; simpa using hv
          · left; exact h


theorem sliceApply_other (e : Ev) (c : Cl) (h : e.kind ≠ .slice) : sliceApply e c = c := by
  obtain ⟨kind, key, obj, orc⟩ := e
  cases kind <;> simp_all [sliceApply]

/-- Repaired variant (slices persisted, predicate sees stored and new object): sound for EVERY mutation. -/
theorem sound_repaired : Sound opsR build relR watchAll Eq (fun _ _ => true) where
  refl _ := rfl
  build_eq _ _ h := by rw [h]
  sim_filtered _ _ _ _ _ hw := by simp [watchAll] at hw
  watch_inert _ _ _ hw := by simp [watchAll] at hw
  sim_delivered s t e hst _ _ := by
    subst hst
    obtain ⟨kind, key, obj, orc⟩ := e
    cases obj with
    | some o => simp [storeAfter, applyW, opsR]
    | none =>
      simp only [storeAfter, applyW, opsR]
      cases kind with
      | slice =>
        by_cases hn : ((s.slices key).map fun (x : Nat × Nat) => (⟨x.1, x.2⟩ : Obj)).isNone = true
        · have h0 : s.slices key = none := by simpa using hn
          simp [hn, storeRS, sliceApply, upd_same _ _ h0]
        · simp [hn]
      | route =>
        by_cases hn : (getRS s .route key).isNone = true
        · simp [hn, sliceApply, storeRS_delete_absent s ⟨.route, key, none, orc⟩ rfl (by simp) hn]
        · simp [hn]
      | svc =>
        by_cases hn : (getRS s .svc key).isNone = true
        · simp [hn, sliceApply, storeRS_delete_absent s ⟨.svc, key, none, orc⟩ rfl (by simp) hn]
        · simp [hn]
  rel_sound s t e hst _ _ hv := by
    subst hst
    obtain ⟨kind, key, obj, orc⟩ := e
    cases kind with
    | route =>
      cases obj with
      | some o => simp [verdict, opsR] at hv
      | none =>
        simp only [verdict, opsR] at hv
        simp only [storeAfter, opsR]
        by_cases hn : (getRS s .route key).isNone = true
        · simp [hn]
        · simp [hn] at hv
    | svc =>
      cases obj with
      | some o =>
        simp only [verdict, opsR, relR] at hv
        simp only [storeAfter, opsR, sliceApply, storeRS]
        exact build_svc_irrelevant s key _ (by simpa using hv)
      | none =>
        simp only [verdict, opsR, relR] at hv
        simp only [storeAfter, opsR]
        by_cases hn : (getRS s .svc key).isNone = true
        · simp [hn]
        · have hr : (build s).refd key = false := by simpa [hn] using hv
          simpa [hn, storeRS, sliceApply] using build_svc_irrelevant s key none hr
    | slice =>
      cases obj with
      | some o =>
        have hne : (Kind.slice != Kind.route) = true := by decide
        simp only [verdict, opsR, relR, hne, if_true, Bool.or_eq_false_iff] at hv
        simp only [storeAfter, opsR, sliceApply, storeRS]
        apply build_slice_irrelevant
        · intro o' a hnew
          simp only [Option.map_some, Option.some.injEq, Prod.mk.injEq] at hnew
          rw [← hnew.1]; exact hv.1
        · intro o' a hold
          left
          simpa [hold] using hv.2
      | none =>
        cases hs : s.slices key with
        | none => simp [storeAfter, opsR, hs]
        | some p =>
          obtain ⟨o', a⟩ := p
          have hr : (build s).refd o' = false := by simpa [verdict, opsR, relR, hs] using hv
          have hst : storeAfter opsR (opsR.cache ⟨.slice, key, none, orc⟩ s) ⟨.slice, key, none, orc⟩ =
              { s with slices := upd s.slices key none } := by
            simp [storeAfter, opsR, hs, sliceApply, storeRS]
          rw [hst]
          apply build_slice_irrelevant
          · intro _ _ h; cases h
          · intro o'' a' hold
            left
            rw [hs] at hold
            simp only [Option.some.injEq, Prod.mk.injEq] at hold
            rw [← hold.1]; exact hr

end NGF.Store.Mini
