/-
Hole lemmas for the NGINX tokeniser model (`NGF.Nginx.step` / `lexFrom`): a value that satisfies the
safety predicate of its lexical context (inside "…", inside '…', inside / at the start of a bare
argument) is consumed without emitting a token and without leaving that context; together with the
delimiter that follows the hole in the template it yields exactly one `word` token that contains the
(unescaped) value, and the lexer continues in a state that does not depend on the value.
Core Lean only.
-/
import NGF.Model.NginxLex

namespace NGF.Nginx

/-- characters that end the token (or are special) when read in mode `m` outside an escape -/
def isTerm (m : Mode) (c : Char) : Bool :=
  match m with
  | .dq => c == '"'
  | .sq => c == '\''
  | .bare => isWs c || c == ';' || c == '{'
  | _ => true

/-- `Inert m v`: `v` is a sequence of non-terminating characters and backslash pairs (a backslash is
always followed by one more character *inside* `v`). -/
inductive Inert (m : Mode) : List Char → Prop
  | nil : Inert m []
  | plain {c : Char} {t : List Char} : isTerm m c = false → c ≠ '\\' → Inert m t → Inert m (c :: t)
  | esc {c : Char} {t : List Char} : Inert m t → Inert m ('\\' :: c :: t)

def tokenMode (m : Mode) : Prop := m = .dq ∨ m = .sq ∨ m = .bare

theorem step_plain {st : LexSt} {m : Mode} {c : Char} (hm : st.mode = m) (htm : tokenMode m)
    (he : st.esc = false) (ht : isTerm m c = false) (hb : c ≠ '\\') :
    ∃ d, step st c = .ok ({ st with cur := st.cur ++ [c], dollar := d }, []) := by
  obtain ⟨mode, esc, dollar, cur, pending⟩ := st
  simp only at hm he
  subst hm he
  rcases htm with h | h | h <;> subst h
  · -- dq
    simp only [isTerm, beq_eq_false_iff_ne, ne_eq] at ht
    by_cases h1 : c = '{' ∧ dollar = true
    · obtain ⟨rfl, rfl⟩ := h1
      exact ⟨true, by simp [step]⟩
    · by_cases h2 : c = '$'
      · subst h2; exact ⟨true, by simp [step]⟩
      · refine ⟨false, ?_⟩
        have h1' : ¬ (c = '{' ∧ dollar = true) := h1
        simp [step, hb, h2, ht, h1']
  · -- sq
    simp only [isTerm, beq_eq_false_iff_ne, ne_eq] at ht
    by_cases h1 : c = '{' ∧ dollar = true
    · obtain ⟨rfl, rfl⟩ := h1
      exact ⟨true, by simp [step]⟩
    · by_cases h2 : c = '$'
      · subst h2; exact ⟨true, by simp [step]⟩
      · refine ⟨false, ?_⟩
        simp [step, hb, h2, ht, h1]
  · -- bare
    simp only [isTerm, Bool.or_eq_false_iff, beq_eq_false_iff_ne, ne_eq] at ht
    obtain ⟨⟨hws, hsemi⟩, hopen⟩ := ht
    by_cases h2 : c = '$'
    · subst h2; exact ⟨true, by simp [step, hws]⟩
    · refine ⟨false, ?_⟩
      simp [step, hb, h2, hws, hsemi, hopen]

theorem step_backslash {st : LexSt} {m : Mode} (hm : st.mode = m) (htm : tokenMode m)
    (he : st.esc = false) :
    step st '\\' = .ok ({ st with esc := true, dollar := false, cur := st.cur ++ ['\\'] }, []) := by
  obtain ⟨mode, esc, dollar, cur, pending⟩ := st
  simp only at hm he
  subst hm he
  rcases htm with h | h | h <;> subst h <;> simp [step]

theorem step_escaped {st : LexSt} {m : Mode} {c : Char} (hm : st.mode = m) (htm : tokenMode m)
    (he : st.esc = true) :
    step st c = .ok ({ st with esc := false, cur := st.cur ++ [c] }, []) := by
  obtain ⟨mode, esc, dollar, cur, pending⟩ := st
  simp only at hm he
  subst hm he
  rcases htm with h | h | h <;> subst h <;> simp [step]

/-- An inert value is swallowed into the current token: no token is emitted, the mode is kept. -/
theorem lexFrom_inert {m : Mode} (htm : tokenMode m) {v : List Char} (hv : Inert m v) :
    ∀ (st : LexSt), st.mode = m → st.esc = false →
      ∃ d, lexFrom st v = .ok ({ st with cur := st.cur ++ v, dollar := d }, []) := by
  induction hv with
  | nil => intro st _ _; exact ⟨st.dollar, by simp [lexFrom]⟩
  | @plain c t ht hb _ ih =>
    intro st hm he
    obtain ⟨d1, h1⟩ := step_plain hm htm he ht hb
    obtain ⟨d2, h2⟩ := ih { st with cur := st.cur ++ [c], dollar := d1 } hm he
    refine ⟨d2, ?_⟩
    simp only [lexFrom, h1, h2]
    simp [List.append_assoc]
  | @esc c t _ ih =>
    intro st hm he
    have h1 := step_backslash hm htm he
    have h2 := step_escaped (c := c)
      (st := { st with esc := true, dollar := false, cur := st.cur ++ ['\\'] }) hm htm rfl
    obtain ⟨d3, h3⟩ := ih { st with esc := false, dollar := false, cur := st.cur ++ ['\\'] ++ [c] } hm rfl
    refine ⟨d3, ?_⟩
    simp only [lexFrom, h1, h2, h3]
    simp [List.append_assoc, he]

/-! ### the delimiter after the hole -/

theorem step_dq_close {st : LexSt} (hm : st.mode = .dq) (he : st.esc = false) :
    step st '"' = .ok ({ st with mode := .needSpace, dollar := false, cur := [], pending := st.pending + 1 },
      [.word (unescape st.cur) true]) := by
  obtain ⟨mode, esc, dollar, cur, pending⟩ := st
  simp only at hm he
  subst hm he
  simp [step, emitWord]

theorem step_bare_semi {st : LexSt} (hm : st.mode = .bare) (he : st.esc = false) :
    step st ';' = .ok ({ st with mode := .space, dollar := false, cur := [], pending := 0 },
      [.word (unescape st.cur) false, .semi]) := by
  obtain ⟨mode, esc, dollar, cur, pending⟩ := st
  simp only at hm he
  subst hm he
  simp [step, emitWord, isWs]

theorem step_bare_ws {st : LexSt} {c : Char} (hm : st.mode = .bare) (he : st.esc = false)
    (hc : isWs c = true) :
    step st c = .ok ({ st with mode := .space, dollar := false, cur := [], pending := st.pending + 1 },
      [.word (unescape st.cur) false]) := by
  obtain ⟨mode, esc, dollar, cur, pending⟩ := st
  simp only at hm he
  subst hm he
  have h1 : c ≠ '{' := by intro h; subst h; simp [isWs] at hc
  have h2 : c ≠ '\\' := by intro h; subst h; simp [isWs] at hc
  have h3 : c ≠ '$' := by intro h; subst h; simp [isWs] at hc
  simp [step, emitWord, hc, h1, h2, h3]

/-- token start: a character that is neither white space nor special opens a bare token -/
def startOK (c : Char) : Bool :=
  !(isWs c || c == ';' || c == '{' || c == '}' || c == '#' || c == '\\' || c == '"' || c == '\'')

theorem step_space_start {st : LexSt} {c : Char} (hm : st.mode = .space) (he : st.esc = false)
    (hc : startOK c = true) :
    step st c = .ok ({ st with mode := .bare, cur := [c], dollar := (c == '$') }, []) := by
  obtain ⟨mode, esc, dollar, cur, pending⟩ := st
  simp only at hm he
  subst hm he
  simp only [startOK, Bool.not_eq_true', Bool.or_eq_false_iff, beq_eq_false_iff_ne, ne_eq] at hc
  obtain ⟨⟨⟨⟨⟨⟨⟨h1, h2⟩, h3⟩, h4⟩, h5⟩, h6⟩, h7⟩, h8⟩ := hc
  by_cases hd : c = '$'
  · subst hd; simp [step, isWs]
  · simp [step, h1, h2, h3, h4, h5, h6, h7, h8, hd]

/-! ### headline statements -/

/-- prepend tokens to a lexing result -/
def prepend (ts : List Tok) : Except LexErr (LexSt × List Tok) → Except LexErr (LexSt × List Tok)
  | .error e => .error e
  | .ok (s, t) => .ok (s, ts ++ t)

theorem prepend_prepend (a b : List Tok) (x : Except LexErr (LexSt × List Tok)) :
    prepend a (prepend b x) = prepend (a ++ b) x := by
  cases x with
  | error e => rfl
  | ok p => obtain ⟨s, t⟩ := p; simp [prepend, List.append_assoc]

theorem lexFrom_cons_ok {st s1 : LexSt} {c : Char} {t1 : List Tok} {rest : List Char}
    (h : step st c = .ok (s1, t1)) : lexFrom st (c :: rest) = prepend t1 (lexFrom s1 rest) := by
  simp only [lexFrom, h, prepend]
  cases lexFrom s1 rest with
  | error e => rfl
  | ok p => rfl

theorem lexFrom_append_ok {st s1 : LexSt} {a b : List Char} {t1 : List Tok}
    (h : lexFrom st a = .ok (s1, t1)) : lexFrom st (a ++ b) = prepend t1 (lexFrom s1 b) := by
  rw [lexFrom_append, h]
  simp only [prepend]
  cases lexFrom s1 b with
  | error e => rfl
  | ok p => rfl

/-- **Quoted hole.** Inside `"…"`, a value accepted by the escaped-string shape, followed by the closing
quote of the template, produces exactly one quoted word (the unescaped prefix ++ value); the lexer then
continues from a state that does not depend on the value. -/
theorem hole_dquoted {st : LexSt} {v post : List Char} (hm : st.mode = .dq) (he : st.esc = false)
    (hv : Inert .dq v) :
    lexFrom st (v ++ '"' :: post) =
      prepend [.word (unescape (st.cur ++ v)) true]
        (lexFrom { st with mode := .needSpace, dollar := false, cur := [], pending := st.pending + 1 } post) := by
  obtain ⟨d, h1⟩ := lexFrom_inert (.inl rfl) hv st hm he
  rw [lexFrom_append_ok h1]
  have h2 := step_dq_close (st := { st with cur := st.cur ++ v, dollar := d }) hm he
  rw [lexFrom_cons_ok h2, prepend_prepend]
  rfl

/-- **Tail of a bare argument, `;` follows.** -/
theorem hole_bare_tail_semi {st : LexSt} {v post : List Char} (hm : st.mode = .bare) (he : st.esc = false)
    (hv : Inert .bare v) :
    lexFrom st (v ++ ';' :: post) =
      prepend [.word (unescape (st.cur ++ v)) false, .semi]
        (lexFrom { st with mode := .space, dollar := false, cur := [], pending := 0 } post) := by
  obtain ⟨d, h1⟩ := lexFrom_inert (.inr (.inr rfl)) hv st hm he
  rw [lexFrom_append_ok h1]
  have h2 := step_bare_semi (st := { st with cur := st.cur ++ v, dollar := d }) hm he
  rw [lexFrom_cons_ok h2, prepend_prepend]
  rfl

/-- **Tail of a bare argument, white space follows.** -/
theorem hole_bare_tail_ws {st : LexSt} {v post : List Char} {w : Char} (hm : st.mode = .bare)
    (he : st.esc = false) (hv : Inert .bare v) (hw : isWs w = true) :
    lexFrom st (v ++ w :: post) =
      prepend [.word (unescape (st.cur ++ v)) false]
        (lexFrom { st with mode := .space, dollar := false, cur := [], pending := st.pending + 1 } post) := by
  obtain ⟨d, h1⟩ := lexFrom_inert (.inr (.inr rfl)) hv st hm he
  rw [lexFrom_append_ok h1]
  have h2 := step_bare_ws (st := { st with cur := st.cur ++ v, dollar := d }) hm he hw
  rw [lexFrom_cons_ok h2, prepend_prepend]
  rfl

/-- **Whole bare argument, `;` follows.** -/
theorem hole_bare_semi {st : LexSt} {c : Char} {t post : List Char} (hm : st.mode = .space)
    (he : st.esc = false) (hc : startOK c = true) (ht : Inert .bare t) :
    lexFrom st (c :: t ++ ';' :: post) =
      prepend [.word (unescape (c :: t)) false, .semi]
        (lexFrom { st with mode := .space, dollar := false, cur := [], pending := 0 } post) := by
  have h0 := step_space_start hm he hc
  rw [List.cons_append, lexFrom_cons_ok h0]
  have := hole_bare_tail_semi (st := { st with mode := .bare, cur := [c], dollar := (c == '$') })
    (post := post) rfl he ht
  rw [this, prepend_prepend]
  rfl

/-- **Whole bare argument, white space follows.** -/
theorem hole_bare_ws {st : LexSt} {c w : Char} {t post : List Char} (hm : st.mode = .space)
    (he : st.esc = false) (hc : startOK c = true) (ht : Inert .bare t) (hw : isWs w = true) :
    lexFrom st (c :: t ++ w :: post) =
      prepend [.word (unescape (c :: t)) false]
        (lexFrom { st with mode := .space, dollar := false, cur := [], pending := st.pending + 1 } post) := by
  have h0 := step_space_start hm he hc
  rw [List.cons_append, lexFrom_cons_ok h0]
  have := hole_bare_tail_ws (st := { st with mode := .bare, cur := [c], dollar := (c == '$') })
    (post := post) rfl he ht hw
  rw [this, prepend_prepend]
  rfl

/-! ### shapes from character sets -/

/-- all characters plain (no backslash at all) -/
theorem inert_of_all_plain {m : Mode} {v : List Char}
    (h : ∀ c ∈ v, isTerm m c = false ∧ c ≠ '\\') : Inert m v := by
  induction v with
  | nil => exact .nil
  | cons c t ih =>
    have hc := h c (List.mem_cons_self ..)
    exact .plain hc.1 hc.2 (ih (fun c' hc' => h c' (List.mem_cons_of_mem _ hc')))

/-! ### bare arguments that may contain backslashes (match paths) -/

theorem step_bare_open {st : LexSt} (hm : st.mode = .bare) (he : st.esc = false) (hd : st.dollar = false) :
    step st '{' = .ok ({ st with mode := .space, dollar := false, cur := [], pending := 0 },
      [.word (unescape st.cur) false, .open]) := by
  obtain ⟨mode, esc, dollar, cur, pending⟩ := st
  simp only at hm he hd
  subst hm he hd
  simp [step, emitWord, isWs]

theorem step_space_open {st : LexSt} (hm : st.mode = .space) (he : st.esc = false) (hp : st.pending ≠ 0) :
    step st '{' = .ok ({ st with pending := 0 }, [.open]) := by
  obtain ⟨mode, esc, dollar, cur, pending⟩ := st
  simp only at hm he hp
  subst hm he
  simp [step, isWs, hp]

/-- A string without white space, `;`, `{` (backslashes allowed) is swallowed into the current bare token; at its
end the lexer is either between characters (`esc = false`) or has a pending backslash (then `dollar = false`). -/
theorem lexFrom_nonterm_bare {v : List Char} (hv : ∀ c ∈ v, isTerm .bare c = false) :
    ∀ (st : LexSt), st.mode = .bare → (st.esc = true → st.dollar = false) →
      ∃ e d, lexFrom st v = .ok ({ st with cur := st.cur ++ v, esc := e, dollar := d }, []) ∧
        (e = true → d = false) := by
  induction v with
  | nil =>
    intro st _ hinv
    exact ⟨st.esc, st.dollar, by simp [lexFrom], hinv⟩
  | cons c t ih =>
    intro st hm hinv
    have hc := hv c (List.mem_cons_self ..)
    have ht : ∀ c' ∈ t, isTerm .bare c' = false := fun c' h' => hv c' (List.mem_cons_of_mem _ h')
    by_cases he : st.esc = true
    · have h1 := step_escaped (c := c) hm (.inr (.inr rfl)) he
      obtain ⟨e, d, h2, hinv2⟩ := ih ht { st with esc := false, cur := st.cur ++ [c] } hm (by simp)
      refine ⟨e, d, ?_, hinv2⟩
      simp only [lexFrom, h1, h2]
      simp [List.append_assoc]
    · have he' : st.esc = false := by simpa using he
      by_cases hb : c = '\\'
      · subst hb
        have h1 := step_backslash hm (.inr (.inr rfl)) he'
        obtain ⟨e, d, h2, hinv2⟩ :=
          ih ht { st with esc := true, dollar := false, cur := st.cur ++ ['\\'] } hm (fun _ => rfl)
        refine ⟨e, d, ?_, hinv2⟩
        simp only [lexFrom, h1, h2]
        simp [List.append_assoc]
      · obtain ⟨d1, h1⟩ := step_plain hm (.inr (.inr rfl)) he' hc hb
        obtain ⟨e, d, h2, hinv2⟩ :=
          ih ht { st with cur := st.cur ++ [c], dollar := d1 } hm (by simp [he'])
        refine ⟨e, d, ?_, hinv2⟩
        simp only [lexFrom, h1, h2]
        simp [List.append_assoc]

/-- **Location path hole** (`location {{ path }} {`): a value that starts a token and contains no white space,
`;`, `{` — backslashes allowed, even a trailing one — followed by the template's ` {` is exactly one word and the
opening brace; the word is the value, or the value with the swallowed space; the state afterwards does not
depend on the value. -/
theorem hole_bare_path_open {st : LexSt} {c : Char} {t post : List Char} (hm : st.mode = .space)
    (he : st.esc = false) (hc : startOK c = true) (ht : ∀ c' ∈ t, isTerm .bare c' = false) :
    ∃ w, lexFrom st (c :: t ++ ' ' :: '{' :: post) =
        prepend [.word w false, .open]
          (lexFrom { st with mode := .space, dollar := false, cur := [], pending := 0 } post) ∧
      (w = unescape (c :: t) ∨ w = unescape (c :: t ++ [' '])) := by
  have h0 := step_space_start hm he hc
  obtain ⟨e, d, h1, hinv⟩ := lexFrom_nonterm_bare ht
    { st with mode := .bare, cur := [c], dollar := (c == '$') } rfl (by simp [he])
  rw [List.cons_append, lexFrom_cons_ok h0, lexFrom_append_ok h1, prepend_prepend]
  cases e with
  | false =>
    have h2 := step_bare_ws (c := ' ')
      (st := { st with mode := .bare, cur := [c] ++ t, esc := false, dollar := d }) rfl rfl (by decide)
    have h3 := step_space_open
      (st := { st with mode := .space, esc := false, dollar := false, cur := [], pending := st.pending + 1 })
      rfl rfl (by simp)
    refine ⟨unescape (c :: t), ?_, .inl rfl⟩
    rw [lexFrom_cons_ok h2, lexFrom_cons_ok h3, prepend_prepend, prepend_prepend]
    simp [he]
  | true =>
    have hd : d = false := hinv rfl
    subst hd
    have h2 := step_escaped (c := ' ')
      (st := { st with mode := .bare, cur := [c] ++ t, esc := true, dollar := false }) (m := .bare) rfl
      (.inr (.inr rfl)) rfl
    have h3 := step_bare_open
      (st := { st with mode := .bare, cur := [c] ++ t ++ [' '], esc := false, dollar := false }) rfl rfl rfl
    refine ⟨unescape (c :: t ++ [' ']), ?_, .inr rfl⟩
    rw [lexFrom_cons_ok h2, lexFrom_cons_ok h3, prepend_prepend, prepend_prepend]
    simp [he]

/-- a non-terminating string followed by an inert non-empty... literal: the backslashes of the value can only
escape characters of the value or the first character of the literal, so the concatenation is inert when the
literal is plain and has at least two characters -/
theorem inert_nonterm_append {v l : List Char} (hv : ∀ c ∈ v, isTerm .bare c = false)
    (hl : ∀ c ∈ l, isTerm .bare c = false ∧ c ≠ '\\') (hlen : 2 ≤ l.length) : Inert .bare (v ++ l) := by
  have hl' : Inert .bare l := inert_of_all_plain hl
  -- strong induction on the length of v (two characters may be consumed at once)
  suffices h : ∀ n (v : List Char), v.length ≤ n → (∀ c ∈ v, isTerm .bare c = false) → Inert .bare (v ++ l) from
    h v.length v (Nat.le_refl _) hv
  intro n
  induction n with
  | zero =>
    intro v hn _
    have : v = [] := List.eq_nil_of_length_eq_zero (Nat.le_zero.mp hn)
    subst this; simpa using hl'
  | succ n ih =>
    intro v hn hv
    cases v with
    | nil => simpa using hl'
    | cons c t =>
      have hc := hv c (List.mem_cons_self ..)
      have ht : ∀ c' ∈ t, isTerm .bare c' = false := fun c' h' => hv c' (List.mem_cons_of_mem _ h')
      by_cases hb : c = '\\'
      · subst hb
        cases t with
        | nil =>
          -- the backslash escapes the first character of the literal
          match l, hl, hlen with
          | a :: b :: r, hl, _ =>
            exact .esc (inert_of_all_plain (fun c' h' => hl c' (List.mem_cons_of_mem _ h')))
        | cons d t' =>
          have : Inert .bare (t' ++ l) :=
            ih t' (by simp at hn; omega) (fun c' h' => ht c' (List.mem_cons_of_mem _ h'))
          exact .esc this
      · exact .plain hc hb (ih t (by simp at hn; omega) ht)

/-! ### no variable interpolation -/

/-- `unescape` only drops backslashes or maps `\\t \\r \\n` to control characters: it never creates a `$` -/
theorem dollar_of_unescape (s : List Char) : '$' ∈ unescape s → '$' ∈ s := by
  fun_induction unescape s with
  | case1 => intro h; exact h
  | case2 c rest hq ih =>
    intro h
    simp only [List.mem_cons] at h ⊢
    rcases h with h | h
    · exact .inr (.inl h)
    · exact .inr (.inr (ih h))
  | case3 c rest hq ht ih =>
    intro h
    simp only [List.mem_cons] at h ⊢
    rcases h with h | h
    · exact absurd h (by decide)
    · exact .inr (.inr (ih h))
  | case4 c rest hq ht hr ih =>
    intro h
    simp only [List.mem_cons] at h ⊢
    rcases h with h | h
    · exact absurd h (by decide)
    · exact .inr (.inr (ih h))
  | case5 c rest hq ht hr hn ih =>
    intro h
    simp only [List.mem_cons] at h ⊢
    rcases h with h | h
    · exact absurd h (by decide)
    · exact .inr (.inr (ih h))
  | case6 c rest hq ht hr hn ih =>
    intro h
    simp only [List.mem_cons] at h ⊢
    rcases h with h | h | h
    · exact absurd h (by decide)
    · exact .inr (.inl h)
    · exact .inr (.inr (ih h))
  | case7 c rest hne ih =>
    intro h
    simp only [List.mem_cons] at h ⊢
    rcases h with h | h
    · exact .inl h
    · exact .inr (ih h)

/-- **No interpolation.** If neither the literal prefix of the argument nor the value contains `$`, the
argument NGINX sees contains no `$` (so no variable can be expanded in it). -/
theorem novar {pre v : List Char} (hp : '$' ∉ pre) (hv : '$' ∉ v) : '$' ∉ unescape (pre ++ v) := by
  intro h
  rcases List.mem_append.mp (dollar_of_unescape _ h) with h | h
  · exact hp h
  · exact hv h

end NGF.Nginx
