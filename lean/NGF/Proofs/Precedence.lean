/-
Helper lemmas for C02: `higherPriority` is a strict weak order (a lexicographic chain of measures and the
byte-wise string order), hence the stable sort by it is sorted, a permutation and stable.
Uses the order toolkit of NGF/Proofs/Sort.lean (DESIGN Appendix A.10).
-/
import NGF.Model.Precedence
import NGF.Proofs.Sort

namespace NGF.Precedence
open NGF.Sort (SWO)

/-! ### the byte-wise order on strings -/

theorem lexLt_irrefl : ∀ a : List Nat, lexLt a a = false
  | [] => rfl
  | x :: xs => by simp [lexLt, lexLt_irrefl xs]

theorem lexLt_trans : ∀ a b c : List Nat, lexLt a b = true → lexLt b c = true → lexLt a c = true
  | [], [], _, h, _ => by simp [lexLt] at h
  | [], _ :: _, [], _, h => by simp [lexLt] at h
  | [], _ :: _, _ :: _, _, _ => by simp [lexLt]
  | _ :: _, [], _, h, _ => by simp [lexLt] at h
  | _ :: _, _ :: _, [], _, h => by simp [lexLt] at h
  | x :: xs, y :: ys, z :: zs, h1, h2 => by
    simp only [lexLt, Bool.or_eq_true, Bool.and_eq_true, decide_eq_true_eq, beq_iff_eq] at *
    rcases h1 with h1 | ⟨e1, h1⟩ <;> rcases h2 with h2 | ⟨e2, h2⟩
    · left; omega
    · left; omega
    · left; omega
    · right; exact ⟨by omega, lexLt_trans xs ys zs h1 h2⟩

theorem lexLt_tri : ∀ a b : List Nat, lexLt a b = true ∨ a = b ∨ lexLt b a = true
  | [], [] => Or.inr (Or.inl rfl)
  | [], _ :: _ => Or.inl rfl
  | _ :: _, [] => Or.inr (Or.inr rfl)
  | x :: xs, y :: ys => by
    simp only [lexLt, Bool.or_eq_true, Bool.and_eq_true, decide_eq_true_eq, beq_iff_eq, List.cons.injEq]
    rcases Nat.lt_trichotomy x y with h | h | h
    · left; left; exact h
    · rcases lexLt_tri xs ys with t | t | t
      · left; right; exact ⟨h, t⟩
      · right; left; exact ⟨h, t⟩
      · right; right; right; exact ⟨h.symm, t⟩
    · right; right; left; exact h

theorem lexLt_swo : SWO lexLt := SWO.ofStrictTotal lexLt_irrefl lexLt_trans lexLt_tri

/-! ### `higherPriority` as a lexicographic chain -/

def ltMethod (a b : MatchKey) : Bool := decide ((if a.hasMethod then (0 : Int) else 1) < (if b.hasMethod then 0 else 1))
def ltHeaders (a b : MatchKey) : Bool := decide (-(a.nHeaders : Int) < -(b.nHeaders : Int))
def ltQuery (a b : MatchKey) : Bool := decide (-(a.nQuery : Int) < -(b.nQuery : Int))
def ltAge (a b : MatchKey) : Bool := decide (a.age < b.age)
def ltNs (a b : MatchKey) : Bool := lexLt a.ns b.ns
def ltName (a b : MatchKey) : Bool := lexLt a.name b.name

def chain : MatchKey → MatchKey → Bool :=
  NGF.Sort.lexLt ltMethod (NGF.Sort.lexLt ltHeaders (NGF.Sort.lexLt ltQuery (NGF.Sort.lexLt ltAge (NGF.Sort.lexLt ltNs ltName))))

theorem chain_swo : SWO chain :=
  SWO.lex (SWO.ofMeasure _) (SWO.lex (SWO.ofMeasure _) (SWO.lex (SWO.ofMeasure _)
    (SWO.lex (SWO.ofMeasure _) (SWO.lex (SWO.comap (fun k : MatchKey => k.ns) lexLt_swo)
      (SWO.comap (fun k : MatchKey => k.name) lexLt_swo)))))

theorem lessMeta_eq (a b : MatchKey) :
    lessMeta a b = NGF.Sort.lexLt ltAge (NGF.Sort.lexLt ltNs ltName) a b := by
  unfold lessMeta NGF.Sort.lexLt ltAge ltNs ltName
  by_cases hage : a.age = b.age
  · have h1 : ¬ a.age < b.age := by omega
    have h2 : ¬ b.age < a.age := by omega
    by_cases hns : a.ns = b.ns
    · simp [hage, hns, lexLt_irrefl]
    · have hne : (a.ns == b.ns) = false := by simpa using hns
      rcases lexLt_tri a.ns b.ns with t | t | t
      · simp [hage, hne, t]
      · exact absurd t hns
      · have : lexLt a.ns b.ns = false := lexLt_swo.asymm _ _ t
        simp [hage, hne, t, this]
  · have hne : (a.age == b.age) = false := by simpa using hage
    by_cases hlt : a.age < b.age
    · simp [hne, hlt]
    · have : b.age < a.age := by omega
      simp [hne, hlt, this]

theorem higherPriority_eq_chain (a b : MatchKey) : higherPriority a b = chain a b := by
  unfold higherPriority chain
  rw [lessMeta_eq]
  generalize NGF.Sort.lexLt ltAge (NGF.Sort.lexLt ltNs ltName) = tail
  unfold NGF.Sort.lexLt ltMethod ltHeaders ltQuery
  cases hma : a.hasMethod <;> cases hmb : b.hasMethod <;>
    by_cases hh : a.nHeaders = b.nHeaders <;> by_cases hq : a.nQuery = b.nQuery <;>
    simp [hh, hq] <;> omega

theorem higherPriority_swo : SWO higherPriority := by
  have : higherPriority = chain := funext fun a => funext fun b => higherPriority_eq_chain a b
  rw [this]; exact chain_swo

theorem le_trans' (a b c : MatchKey) : le a b = true → le b c = true → le a c = true :=
  higherPriority_swo.le_trans a b c

theorem le_total' (a b : MatchKey) : (le a b || le b a) = true := higherPriority_swo.le_total a b

end NGF.Precedence
