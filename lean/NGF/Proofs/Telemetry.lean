/-
Helper lemmas for C19 about `NGF.Model.Telemetry`: the split/trim pipeline on tidy chunks, the
counting map, the sort, the resource-count loops.
-/
import NGF.Model.Telemetry
import NGF.Proofs.SnippetLex

set_option linter.unusedSimpArgs false

namespace NGF.Telemetry
open NGF.SnippetLex

/-! ### character classes -/

theorem ngx_is_go_space {c : Char} (h : isNgxSpace c = true) : isGoSpace c = true := by
  simp only [isNgxSpace, Bool.or_eq_true, beq_iff_eq] at h
  rcases h with ((rfl | rfl) | rfl) | rfl <;> decide

theorem plain_not_space {c : Char} (h : plainChar c = true) : isGoSpace c = false := by
  simp only [plainChar, Bool.and_eq_true, Bool.not_eq_true'] at h
  exact h.1.1.1.1.1.1.1.1

theorem plain_ne_space {c : Char} (h : plainChar c = true) : c ≠ ' ' := by
  intro hc
  have := plain_not_space h
  rw [hc] at this
  exact absurd this (by decide)

theorem plain_ne_semi {c : Char} (h : plainChar c = true) : c ≠ ';' := by
  simp only [plainChar, Bool.and_eq_true, bne_iff_ne, ne_eq] at h
  exact h.1.1.1.1.1.1.1.2

theorem plain_wordChar {c : Char} (h : plainChar c = true) : wordChar c = true := by
  have hs := plain_not_space h
  have hn : isNgxSpace c = false := by
    cases hx : isNgxSpace c with
    | false => rfl
    | true => rw [ngx_is_go_space hx] at hs; exact absurd hs (by decide)
  simp only [plainChar, Bool.and_eq_true] at h
  simp only [wordChar, hn, Bool.not_false, Bool.true_and, Bool.and_eq_true]
  simp_all

theorem arg_restChar {c : Char} (h : argChar c = true) : restChar c = true := by
  simp only [argChar, Bool.or_eq_true] at h
  simp only [restChar, Bool.or_eq_true]
  rcases h with (h | h) | h
  · exact Or.inl (Or.inl (plain_wordChar h))
  · exact Or.inl (Or.inr h)
  · exact Or.inr h

theorem arg_ne_semi {c : Char} (h : argChar c = true) : c ≠ ';' := by
  simp only [argChar, Bool.or_eq_true, beq_iff_eq] at h
  rcases h with (h | rfl) | h
  · exact plain_ne_semi h
  · decide
  · intro hc; rw [hc] at h; exact absurd h (by decide)

/-! ### split / trim on one tidy chunk -/

theorem trimRight_cons_nonspace {c : Char} (h : isGoSpace c = false) (cs : Str) :
    trimRight (c :: cs) = c :: trimRight cs := by
  simp only [trimRight]
  split <;> simp_all

theorem trimRight_plain_append : ∀ (name : Str), (∀ c ∈ name, plainChar c = true) → ∀ rest,
    trimRight (name ++ rest) = name ++ trimRight rest := by
  intro name
  induction name with
  | nil => intros; rfl
  | cons c cs ih =>
    intro h rest
    rw [List.cons_append, trimRight_cons_nonspace (plain_not_space (h c (by simp)))]
    rw [ih (fun y hy => h y (by simp [hy]))]
    rfl

theorem trimRight_space_head (r : Str) : trimRight (' ' :: r) = [] ∨ ∃ r', trimRight (' ' :: r) = ' ' :: r' := by
  simp only [trimRight]
  split
  · left; simp [isGoSpace]
  · right; exact ⟨_, rfl⟩

theorem firstField_name : ∀ (name : Str), (∀ c ∈ name, plainChar c = true) → ∀ y,
    (y = [] ∨ ∃ r, y = ' ' :: r) → firstField (name ++ y) = name := by
  intro name
  induction name with
  | nil =>
    intro _ y hy
    rcases hy with rfl | ⟨r, rfl⟩ <;> simp [firstField]
  | cons c cs ih =>
    intro h y hy
    have hc : c ≠ ' ' := plain_ne_space (h c (by simp))
    have := ih (fun z hz => h z (by simp [hz])) y hy
    simp only [firstField] at this
    simp [firstField, hc, this]

theorem dropWhile_lead : ∀ (lead : Str), (∀ c ∈ lead, isNgxSpace c = true) → ∀ (c : Char) cs,
    isGoSpace c = false → (lead ++ c :: cs).dropWhile isGoSpace = c :: cs := by
  intro lead
  induction lead with
  | nil => intro _ c cs hc; simp [hc]
  | cons a as ih =>
    intro h c cs hc
    have ha := ngx_is_go_space (h a (by simp))
    simp only [List.cons_append, List.dropWhile_cons, ha, if_true]
    exact ih (fun y hy => h y (by simp [hy])) c cs hc

/-- the collector extracts exactly the name from a tidy chunk -/
theorem chunkDirective_tidy {t : TidyStmt} (h : t.ok = true) : chunkDirective t.render = t.name := by
  simp only [TidyStmt.ok, Bool.and_eq_true, List.all_eq_true, Bool.or_eq_true, Bool.not_eq_true',
    List.isEmpty_eq_false_iff, beq_iff_eq] at h
  obtain ⟨⟨⟨⟨hl, hne⟩, hn⟩, hr0⟩, _⟩ := h
  cases hname : t.name with
  | nil => exact absurd hname hne
  | cons c cs =>
    have hn' : ∀ x ∈ c :: cs, plainChar x = true := by rw [← hname]; exact hn
    have hc := plain_not_space (hn' c (by simp))
    simp only [chunkDirective, trimSpace, trimLeft, TidyStmt.render, hname, List.cons_append]
    rw [dropWhile_lead t.lead hl c _ hc, ← List.cons_append, trimRight_plain_append _ hn']
    apply firstField_name _ hn'
    rcases hr0 with hr0 | hr0
    · left; simp [List.isEmpty_iff.mp hr0, trimRight]
    · cases hrest : t.rest with
      | nil => left; simp [trimRight]
      | cons a r =>
        rw [hrest] at hr0
        simp only [List.head?_cons, Option.some.injEq] at hr0
        subst hr0
        rcases trimRight_space_head r with h | ⟨r', h⟩
        · left; exact h
        · right; exact ⟨r', h⟩

theorem dropWhile_all {p : Char → Bool} : ∀ l : Str, (∀ c ∈ l, p c = true) → l.dropWhile p = [] := by
  intro l
  induction l with
  | nil => intro _; rfl
  | cons a as ih =>
    intro h
    simp only [List.dropWhile_cons, h a (by simp), if_true]
    exact ih (fun y hy => h y (by simp [hy]))

theorem chunkDirective_space {l : Str} (h : ∀ c ∈ l, isNgxSpace c = true) : chunkDirective l = [] := by
  have : l.dropWhile isGoSpace = [] := dropWhile_all l (fun c hc => ngx_is_go_space (h c hc))
  simp [chunkDirective, trimSpace, trimLeft, this, trimRight, firstField]

theorem tidyChunk_render (c : Str) : (tidyChunk c).render = c := by
  simp [tidyChunk, TidyStmt.render, List.takeWhile_append_dropWhile]

/-! ### joining the chunks back -/

def joinSemi : List Str → Str
  | [] => []
  | [a] => a
  | a :: b :: t => a ++ ';' :: joinSemi (b :: t)

theorem splitOn_ne_nil (sep : Char) (s : Str) : splitOn sep s ≠ [] := by
  cases s with
  | nil => simp [splitOn]
  | cons c cs =>
    simp only [splitOn]
    split
    · simp
    · split <;> simp

theorem joinSemi_splitOn : ∀ s : Str, joinSemi (splitOn ';' s) = s := by
  intro s
  induction s with
  | nil => simp [splitOn, joinSemi]
  | cons c cs ih =>
    simp only [splitOn]
    split
    · rename_i hc
      have : c = ';' := by simpa using hc
      subst this
      cases h : splitOn ';' cs with
      | nil => exact absurd h (splitOn_ne_nil _ _)
      | cons a t => rw [h] at ih; simp [joinSemi, ih]
    · cases h : splitOn ';' cs with
      | nil => exact absurd h (splitOn_ne_nil _ _)
      | cons a t =>
        rw [h] at ih
        cases t with
        | nil => simp_all [joinSemi]
        | cons b t' => simp_all [joinSemi]


/-! ### the collector agrees with the lexer on tidy chunk lists -/

theorem ok_parts {t : TidyStmt} (h : t.ok = true) :
    (∀ c ∈ t.lead, isNgxSpace c = true) ∧ t.name ≠ [] ∧ (∀ c ∈ t.name, plainChar c = true) ∧
    (t.rest = [] ∨ ∃ r, t.rest = ' ' :: r) ∧ (∀ c ∈ t.rest, argChar c = true) := by
  simp only [TidyStmt.ok, Bool.and_eq_true, List.all_eq_true, Bool.or_eq_true, Bool.not_eq_true',
    List.isEmpty_eq_false_iff, beq_iff_eq] at h
  obtain ⟨⟨⟨⟨hl, hne⟩, hn⟩, hr0⟩, hr⟩ := h
  refine ⟨hl, hne, hn, ?_, hr⟩
  rcases hr0 with hr0 | hr0
  · left; exact List.isEmpty_iff.mp hr0
  · cases hrest : t.rest with
    | nil => left; rfl
    | cons a r =>
      rw [hrest] at hr0
      simp only [List.head?_cons, Option.some.injEq] at hr0
      right; exact ⟨r, by rw [hr0]⟩

theorem names_tidy_semi {t : TidyStmt} (h : t.ok = true) (more : Str) :
    namesFrom 0 true (run .gap (t.render ++ ';' :: more)) = t.name :: namesFrom 0 true (run .gap more) := by
  obtain ⟨hl, hne, hn, hr0, hr⟩ := ok_parts h
  simp only [TidyStmt.render, List.append_assoc]
  rw [names_lead t.lead hl]
  exact names_stmt_semi hne (fun x hx => plain_wordChar (hn x hx)) hr0
    (fun x hx => arg_restChar (hr x hx)) more

theorem names_tidy_end {t : TidyStmt} (h : t.ok = true) :
    namesFrom 0 true (run .gap t.render) = [t.name] := by
  obtain ⟨hl, hne, hn, hr0, hr⟩ := ok_parts h
  simp only [TidyStmt.render]
  rw [names_lead t.lead hl]
  exact names_stmt_end hne (fun x hx => plain_wordChar (hn x hx)) hr0
    (fun x hx => arg_restChar (hr x hx))

theorem names_joinSemi : ∀ chunks : List Str, tidyChunksOk chunks = true →
    namesFrom 0 true (run .gap (joinSemi chunks)) = (chunks.map chunkDirective).filter (· != []) := by
  intro chunks
  induction chunks with
  | nil => intro h; simp [tidyChunksOk] at h
  | cons c cs ih =>
    cases cs with
    | nil =>
      intro h
      simp only [tidyChunksOk, Bool.or_eq_true, List.all_eq_true] at h
      simp only [joinSemi, List.map_cons, List.map_nil]
      rcases h with h | h
      · rw [names_space_only c h, chunkDirective_space h]; simp
      · have hne := (ok_parts h).2.1
        have hd := chunkDirective_tidy h
        have hl := names_tidy_end h
        rw [tidyChunk_render] at hd hl
        rw [hl, hd]
        simp [hne]
    | cons c' cs' =>
      intro h
      simp only [tidyChunksOk, Bool.and_eq_true] at h
      have hne := (ok_parts h.1).2.1
      have hd := chunkDirective_tidy h.1
      have hl := names_tidy_semi h.1 (joinSemi (c' :: cs'))
      rw [tidyChunk_render] at hd hl
      simp only [joinSemi, List.map_cons]
      rw [hl, ih h.2, hd]
      simp [hne]

/-- on a tidy snippet the collector reports exactly the depth-0 directive names, in order -/
theorem parse_eq_names_of_tidy (s : Str) (h : isTidy s = true) : parseSnippetSplit s = directiveNames s := by
  have := names_joinSemi (splitOn ';' s) h
  rw [joinSemi_splitOn] at this
  simp only [parseSnippetSplit, directiveNames, names0, lex]
  exact this.symm


/-! ### the counting map `directiveContextMap[k]++` -/

def lookup (k : Key) : List (Key × Nat) → Nat
  | [] => 0
  | (k', n) :: rest => if k' = k then n else lookup k rest

theorem lookup_bump (k k' : Key) : ∀ m, lookup k' (bump k m) = lookup k' m + (if k = k' then 1 else 0) := by
  intro m
  induction m with
  | nil => simp [bump, lookup]
  | cons e rest ih =>
    obtain ⟨h, n⟩ := e
    by_cases hk : h = k
    · subst hk
      by_cases hk' : h = k' <;> simp [bump, lookup, hk']
    · by_cases hk' : h = k'
      · subst hk'
        simp [bump, lookup, hk, Ne.symm hk]
      · simp [bump, lookup, hk, hk', ih]

theorem keys_bump (k : Key) : ∀ m : List (Key × Nat), ∀ x, x ∈ (bump k m).map (·.1) ↔ x = k ∨ x ∈ m.map (·.1) := by
  intro m
  induction m with
  | nil => intro x; simp [bump]
  | cons e rest ih =>
    obtain ⟨h, n⟩ := e
    intro x
    by_cases hk : h = k
    · subst hk; simp [bump]
    · simp only [bump, hk, if_false, List.map_cons, List.mem_cons, ih]
      constructor
      · rintro (h1 | h1 | h1) <;> simp [h1]
      · rintro (h1 | h1 | h1) <;> simp [h1]

theorem nodup_bump (k : Key) : ∀ m : List (Key × Nat), (m.map (·.1)).Nodup → ((bump k m).map (·.1)).Nodup := by
  intro m
  induction m with
  | nil => intro _; simp [bump]
  | cons e rest ih =>
    obtain ⟨h, n⟩ := e
    intro hnd
    by_cases hk : h = k
    · subst hk; simpa [bump] using hnd
    · simp only [List.map_cons, List.nodup_cons] at hnd
      simp only [bump, hk, if_false, List.map_cons, List.nodup_cons]
      refine ⟨?_, ih hnd.2⟩
      intro hmem
      rcases (keys_bump k rest h).mp hmem with h1 | h1
      · exact hk h1
      · exact hnd.1 h1

theorem pos_bump (k : Key) : ∀ m : List (Key × Nat), (∀ e ∈ m, 1 ≤ e.2) → ∀ e ∈ bump k m, 1 ≤ e.2 := by
  intro m
  induction m with
  | nil => intro _ e he; simp [bump] at he; simp [he]
  | cons e0 rest ih =>
    obtain ⟨h, n⟩ := e0
    intro hp e he
    by_cases hk : h = k
    · simp only [bump, hk, if_true, List.mem_cons] at he
      rcases he with rfl | he
      · simp
      · exact hp e (by simp [he])
    · simp only [bump, hk, if_false, List.mem_cons] at he
      rcases he with rfl | he
      · exact hp _ (by simp)
      · exact ih (fun x hx => hp x (by simp [hx])) e he

theorem foldl_bump_spec : ∀ (ks : List Key) (m : List (Key × Nat)),
    (m.map (·.1)).Nodup → (∀ e ∈ m, 1 ≤ e.2) →
    let r := ks.foldl (fun m k => bump k m) m
    (r.map (·.1)).Nodup ∧ (∀ e ∈ r, 1 ≤ e.2) ∧ (∀ k, lookup k r = lookup k m + ks.count k) ∧
    (∀ x, x ∈ r.map (·.1) ↔ x ∈ ks ∨ x ∈ m.map (·.1)) := by
  intro ks
  induction ks with
  | nil => intro m hnd hp; exact ⟨hnd, hp, by simp, by simp⟩
  | cons k ks ih =>
    intro m hnd hp
    have := ih (bump k m) (nodup_bump k m hnd) (pos_bump k m hp)
    simp only [List.foldl_cons]
    refine ⟨this.1, this.2.1, ?_, ?_⟩
    · intro k'
      rw [this.2.2.1 k', lookup_bump, List.count_cons]
      by_cases h : k = k'
      · subst h; simp; omega
      · have h2 : (k' == k) = false := by simpa using Ne.symm h
        simp [h]
    · intro x
      rw [this.2.2.2 x, keys_bump]
      simp only [List.mem_cons]
      constructor
      · rintro (h | h | h) <;> simp [h]
      · rintro ((h | h) | h) <;> simp [h]

theorem lookup_of_mem : ∀ (m : List (Key × Nat)), (m.map (·.1)).Nodup → ∀ e ∈ m, lookup e.1 m = e.2 := by
  intro m
  induction m with
  | nil => intro _ e he; simp at he
  | cons e0 rest ih =>
    obtain ⟨h, n⟩ := e0
    intro hnd e he
    simp only [List.map_cons, List.nodup_cons] at hnd
    simp only [List.mem_cons] at he
    rcases he with rfl | he
    · simp [lookup]
    · have hne : h ≠ e.1 := by
        intro heq
        apply hnd.1
        rw [heq]
        exact List.mem_map_of_mem he
      simp [lookup, hne, ih hnd.2 e he]

/-- the map built by the collector: distinct keys, exact positive multiplicities, exactly the keys seen -/
theorem countMap_spec (ks : List Key) :
    ((countMap ks).map (·.1)).Nodup ∧
    (∀ e ∈ countMap ks, e.2 = ks.count e.1 ∧ 1 ≤ e.2 ∧ e.1 ∈ ks) ∧
    (∀ k ∈ ks, k ∈ (countMap ks).map (·.1)) := by
  have h := foldl_bump_spec ks [] (by simp) (by simp)
  simp only [List.map_nil, List.not_mem_nil, or_false, lookup, Nat.zero_add] at h
  obtain ⟨hnd, hp, hl, hk⟩ := h
  refine ⟨hnd, ?_, fun k hk' => (hk k).mpr hk'⟩
  intro e he
  refine ⟨?_, hp e he, (hk e.1).mp (List.mem_map_of_mem he)⟩
  rw [← hl e.1]
  exact (lookup_of_mem _ hnd e he).symm


/-! ### the order of `sort.Slice` -/

theorem strLe_refl : ∀ a : Str, strLe a a = true := by
  intro a
  induction a with
  | nil => rfl
  | cons c cs ih => simp [strLe, ih]

theorem strLe_total : ∀ a b : Str, strLe a b = true ∨ strLe b a = true := by
  intro a
  induction a with
  | nil => intro b; left; cases b <;> rfl
  | cons c cs ih =>
    intro b
    cases b with
    | nil => right; rfl
    | cons d ds =>
      simp only [strLe, Bool.or_eq_true, decide_eq_true_eq, Bool.and_eq_true, beq_iff_eq]
      rcases Nat.lt_trichotomy c.toNat d.toNat with h | h | h
      · left; left; exact h
      · have hcd : c = d := Char.toNat_inj.mp h
        subst hcd
        rcases ih ds with h' | h'
        · left; right; exact ⟨rfl, h'⟩
        · right; right; exact ⟨rfl, h'⟩
      · right; left; exact h

theorem strLe_trans : ∀ a b c : Str, strLe a b = true → strLe b c = true → strLe a c = true := by
  intro a
  induction a with
  | nil => intro b c _ _; cases c <;> rfl
  | cons x xs ih =>
    intro b c hab hbc
    cases b with
    | nil => simp [strLe] at hab
    | cons y ys =>
      cases c with
      | nil => simp [strLe] at hbc
      | cons z zs =>
        simp only [strLe, Bool.or_eq_true, decide_eq_true_eq, Bool.and_eq_true, beq_iff_eq] at hab hbc ⊢
        rcases hab with h1 | ⟨rfl, h1⟩
        · rcases hbc with h2 | ⟨rfl, _⟩
          · left; omega
          · left; exact h1
        · rcases hbc with h2 | ⟨rfl, h2⟩
          · left; exact h2
          · right; exact ⟨rfl, ih ys zs h1 h2⟩

theorem strLe_antisymm : ∀ a b : Str, strLe a b = true → strLe b a = true → a = b := by
  intro a
  induction a with
  | nil => intro b h1 h2; cases b with
    | nil => rfl
    | cons d ds => simp [strLe] at h2
  | cons x xs ih =>
    intro b hab hba
    cases b with
    | nil => simp [strLe] at hab
    | cons y ys =>
      simp only [strLe, Bool.or_eq_true, decide_eq_true_eq, Bool.and_eq_true, beq_iff_eq] at hab hba
      rcases hab with h1 | ⟨rfl, h1⟩
      · rcases hba with h2 | ⟨rfl, _⟩
        · omega
        · omega
      · rcases hba with h2 | ⟨_, h2⟩
        · omega
        · rw [ih ys h1 h2]

theorem entryLe_total (a b : Key × Nat) : entryLe a b = true ∨ entryLe b a = true := by
  obtain ⟨⟨d1, x1⟩, n1⟩ := a
  obtain ⟨⟨d2, x2⟩, n2⟩ := b
  simp only [entryLe, beq_iff_eq]
  by_cases hn : n1 = n2
  · subst hn
    by_cases hc : x1 = x2
    · subst hc
      simp only [if_true]
      exact strLe_total _ _
    · have hc' : ¬ x2 = x1 := fun h => hc h.symm
      simp only [if_true, hc, hc', if_false]
      exact strLe_total _ _
  · have hn' : ¬ n2 = n1 := fun h => hn h.symm
    simp only [hn, hn', if_false, decide_eq_true_eq]
    omega

theorem entryLe_trans (a b c : Key × Nat) (hab : entryLe a b = true) (hbc : entryLe b c = true) :
    entryLe a c = true := by
  obtain ⟨⟨d1, x1⟩, n1⟩ := a
  obtain ⟨⟨d2, x2⟩, n2⟩ := b
  obtain ⟨⟨d3, x3⟩, n3⟩ := c
  simp only [entryLe, beq_iff_eq] at hab hbc ⊢
  by_cases h1 : n1 = n2
  · subst h1
    by_cases h2 : n1 = n3
    · subst h2
      simp only [if_true] at hab hbc ⊢
      by_cases c1 : x1 = x2
      · subst c1
        by_cases c2 : x1 = x3
        · subst c2
          simp only [if_true] at hab hbc ⊢
          exact strLe_trans _ _ _ hab hbc
        · simp only [c2, if_true, if_false] at hab hbc ⊢
          exact hbc
      · by_cases c2 : x2 = x3
        · subst c2
          simp only [c1, if_true, if_false] at hab hbc ⊢
          exact hab
        · simp only [c1, c2, if_false] at hab hbc
          have hac := strLe_trans _ _ _ hab hbc
          by_cases c3 : x1 = x3
          · subst c3
            exact absurd (strLe_antisymm _ _ hab hbc) c1
          · simp only [c3, if_false]; exact hac
    · simp only [h2, if_true, if_false, decide_eq_true_eq] at hab hbc ⊢
      exact hbc
  · by_cases h2 : n2 = n3
    · subst h2
      simp only [h1, if_false, decide_eq_true_eq] at hab ⊢
      exact hab
    · simp only [h1, h2, if_false, decide_eq_true_eq] at hab hbc
      have h3 : ¬ n1 = n3 := by omega
      simp only [h3, if_false, decide_eq_true_eq]
      omega

/-- two entries that are each "not after" the other are equal -/
theorem entryLe_antisymm (a b : Key × Nat) (hab : entryLe a b = true) (hba : entryLe b a = true) : a = b := by
  obtain ⟨⟨d1, x1⟩, n1⟩ := a
  obtain ⟨⟨d2, x2⟩, n2⟩ := b
  simp only [entryLe, beq_iff_eq] at hab hba
  by_cases h1 : n1 = n2
  · subst h1
    by_cases c1 : x1 = x2
    · subst c1
      simp only [if_true] at hab hba
      rw [strLe_antisymm _ _ hab hba]
    · have c1' : ¬ x2 = x1 := fun h => c1 h.symm
      simp only [c1, c1', if_true, if_false] at hab hba
      exact absurd (strLe_antisymm _ _ hab hba) c1
  · have h1' : ¬ n2 = n1 := fun h => h1 h.symm
    simp only [h1, h1', if_false, decide_eq_true_eq] at hab hba
    omega

/-! ### insertion sort -/

theorem mem_insertSorted (x : Key × Nat) : ∀ l y, y ∈ insertSorted x l ↔ y = x ∨ y ∈ l := by
  intro l
  induction l with
  | nil => intro y; simp [insertSorted]
  | cons a as ih =>
    intro y
    simp only [insertSorted]
    split
    · simp
    · simp only [List.mem_cons, ih]
      constructor
      · rintro (h | h | h) <;> simp [h]
      · rintro (h | h | h) <;> simp [h]

theorem perm_insertSorted (x : Key × Nat) : ∀ l, (insertSorted x l).Perm (x :: l) := by
  intro l
  induction l with
  | nil => simp [insertSorted]
  | cons a as ih =>
    simp only [insertSorted]
    split
    · exact List.Perm.refl _
    · exact (List.Perm.cons a ih).trans (List.Perm.swap x a as)

theorem perm_sortEntries : ∀ l, (sortEntries l).Perm l := by
  intro l
  induction l with
  | nil => exact List.Perm.refl _
  | cons a as ih =>
    simp only [sortEntries]
    exact (perm_insertSorted a _).trans (List.Perm.cons a ih)

theorem sorted_insertSorted (x : Key × Nat) : ∀ l, l.Pairwise (fun a b => entryLe a b = true) →
    (insertSorted x l).Pairwise (fun a b => entryLe a b = true) := by
  intro l
  induction l with
  | nil => intro _; simp [insertSorted]
  | cons a as ih =>
    intro h
    simp only [List.pairwise_cons] at h
    simp only [insertSorted]
    split
    · rename_i hxa
      simp only [List.pairwise_cons, List.mem_cons]
      refine ⟨?_, h.1, h.2⟩
      rintro y (rfl | hy)
      · exact hxa
      · exact entryLe_trans _ _ _ hxa (h.1 y hy)
    · rename_i hxa
      have hax : entryLe a x = true := by
        rcases entryLe_total x a with h' | h'
        · exact absurd h' hxa
        · exact h'
      simp only [List.pairwise_cons]
      refine ⟨?_, ih h.2⟩
      intro y hy
      rcases (mem_insertSorted x as y).mp hy with rfl | hy
      · exact hax
      · exact h.1 y hy

theorem sorted_sortEntries : ∀ l, (sortEntries l).Pairwise (fun a b => entryLe a b = true) := by
  intro l
  induction l with
  | nil => simp [sortEntries]
  | cons a as ih => exact sorted_insertSorted a _ ih


/-! ### resource-count loops = set sizes -/

theorem routeLoop_spec : ∀ (rs : List RouteType) (h g : Nat),
    routeLoop rs (h, g) = (h + (rs.filter (· == .http)).length, g + (rs.filter (· == .grpc)).length) := by
  intro rs
  induction rs with
  | nil => intro h g; simp [routeLoop]
  | cons r rs ih =>
    intro h g
    cases r <;> simp [routeLoop, ih] <;> omega

theorem endpointLoop_spec : ∀ (us : List UpstreamSummary) (acc : Nat),
    endpointLoop us acc = acc + ((us.filter (fun u => !u.hasError)).map (·.endpoints)).sum := by
  intro us
  induction us with
  | nil => intro acc; simp [endpointLoop]
  | cons u us ih =>
    intro acc
    cases hu : u.hasError <;> simp [endpointLoop, ih, hu] <;> omega

def isGwCSP (p : PolicySummary) : Bool := p.kind == .clientSettings && p.targetIsGateway.head? == some true
def isRouteCSP (p : PolicySummary) : Bool := p.kind == .clientSettings && p.targetIsGateway.head? == some false

theorem policyLoop_spec : ∀ (ps : List PolicySummary) (c : Counts),
    policyLoop ps c =
      { c with
        gwClientSettings := c.gwClientSettings + (ps.filter isGwCSP).length
        routeClientSettings := c.routeClientSettings + (ps.filter isRouteCSP).length
        observability := c.observability + (ps.filter (·.kind == .observability)).length
        upstreamSettings := c.upstreamSettings + (ps.filter (·.kind == .upstreamSettings)).length } := by
  intro ps
  induction ps with
  | nil => intro c; simp [policyLoop]
  | cons p ps ih =>
    intro c
    obtain ⟨kind, refs⟩ := p
    cases kind with
    | clientSettings =>
      cases refs with
      | nil => simp [policyLoop, ih, isGwCSP, isRouteCSP]
      | cons b bs =>
        cases b <;> simp [policyLoop, ih, isGwCSP, isRouteCSP, Nat.add_assoc, Nat.add_comm 1]
    | observability => simp [policyLoop, ih, isGwCSP, isRouteCSP, Nat.add_assoc, Nat.add_comm 1]
    | upstreamSettings => simp [policyLoop, ih, isGwCSP, isRouteCSP, Nat.add_assoc, Nat.add_comm 1]
    | other => simp [policyLoop, ih, isGwCSP, isRouteCSP]


/-! ### independence of the iteration order of the Go maps -/

theorem sorted_perm_eq : ∀ (l₁ l₂ : List (Key × Nat)),
    l₁.Pairwise (fun a b => entryLe a b = true) → l₂.Pairwise (fun a b => entryLe a b = true) →
    l₁.Perm l₂ → l₁ = l₂ := by
  intro l₁
  induction l₁ with
  | nil => intro l₂ _ _ hp; exact hp.nil_eq
  | cons a as ih =>
    intro l₂ h1 h2 hp
    cases l₂ with
    | nil => exact absurd hp.eq_nil (by simp)
    | cons b bs =>
      simp only [List.pairwise_cons] at h1 h2
      have hab : a = b := by
        have ha : a ∈ b :: bs := hp.mem_iff.mp (by simp)
        have hb : b ∈ a :: as := hp.mem_iff.mpr (by simp)
        simp only [List.mem_cons] at ha hb
        rcases ha with ha | ha
        · exact ha
        · rcases hb with hb | hb
          · exact hb.symm
          · exact entryLe_antisymm a b (h1.1 b hb) (h2.1 a ha)
      subst hab
      rw [ih bs h1.2 h2.2 hp.cons_inv]

theorem nodup_of_map_fst {m : List (Key × Nat)} (h : (m.map (·.1)).Nodup) : m.Nodup := by
  simp only [List.Nodup, List.pairwise_map] at h ⊢
  exact h.imp (fun hne heq => hne (by rw [heq]))

theorem countMap_perm {ks ks' : List Key} (hp : ks.Perm ks') : (countMap ks).Perm (countMap ks') := by
  obtain ⟨hnd, hsp, hall⟩ := countMap_spec ks
  obtain ⟨hnd', hsp', hall'⟩ := countMap_spec ks'
  rw [List.perm_ext_iff_of_nodup (nodup_of_map_fst hnd) (nodup_of_map_fst hnd')]
  have key : ∀ (a b : List Key), a.Perm b →
      ((countMap a).map (·.1)).Nodup → (∀ e ∈ countMap a, e.2 = a.count e.1 ∧ 1 ≤ e.2 ∧ e.1 ∈ a) →
      ((countMap b).map (·.1)).Nodup → (∀ e ∈ countMap b, e.2 = b.count e.1 ∧ 1 ≤ e.2 ∧ e.1 ∈ b) →
      (∀ k ∈ b, k ∈ (countMap b).map (·.1)) →
      ∀ e, e ∈ countMap a → e ∈ countMap b := by
    intro a b hab _ ha hndb hb hallb e he
    obtain ⟨hc, _, hm⟩ := ha e he
    have hm' : e.1 ∈ b := hab.mem_iff.mp hm
    obtain ⟨e', he', hk⟩ := List.mem_map.mp (hallb e.1 hm')
    have : e' = e := by
      obtain ⟨k', n'⟩ := e'
      obtain ⟨k, n⟩ := e
      simp only at hk hc
      subst hk
      have := (hb _ he').1
      simp only at this
      rw [this, hc, hab.count_eq]
    rw [← this]; exact he'
  intro e
  exact ⟨key ks ks' hp hnd hsp hnd' hsp' hall' e, key ks' ks hp.symm hnd' hsp' hnd hsp hall e⟩

/-- the collector's two lists do not depend on the order in which the keys were counted -/
theorem mapToLists_perm {ks ks' : List Key} (hp : ks.Perm ks') :
    mapToLists (countMap ks) = mapToLists (countMap ks') := by
  have h := sorted_perm_eq _ _ (sorted_sortEntries (countMap ks)) (sorted_sortEntries (countMap ks'))
    ((perm_sortEntries _).trans ((countMap_perm hp).trans (perm_sortEntries _).symm))
  simp only [mapToLists, h]


/-! ### `directive + "-" + context` is injective because no context name contains '-' -/

theorem append_sep_inj (x : Char) : ∀ (l₁ l₂ r₁ r₂ : Str), x ∉ l₁ → x ∉ l₂ →
    l₁ ++ x :: r₁ = l₂ ++ x :: r₂ → l₁ = l₂ ∧ r₁ = r₂ := by
  intro l₁
  induction l₁ with
  | nil =>
    intro l₂ r₁ r₂ _ h2 h
    cases l₂ with
    | nil => simpa using h
    | cons b bs =>
      simp only [List.nil_append, List.cons_append, List.cons.injEq] at h
      exact absurd (by simp [h.1]) h2
  | cons a as ih =>
    intro l₂ r₁ r₂ h1 h2 h
    cases l₂ with
    | nil =>
      simp only [List.nil_append, List.cons_append, List.cons.injEq] at h
      exact absurd (by simp [h.1]) h1
    | cons b bs =>
      simp only [List.cons_append, List.cons.injEq] at h
      have := ih bs r₁ r₂ (fun hm => h1 (by simp [hm])) (fun hm => h2 (by simp [hm])) h.2
      exact ⟨by rw [h.1, this.1], this.2⟩

theorem renderKey_inj {k₁ k₂ : Key} (h1 : '-' ∉ k₁.context) (h2 : '-' ∉ k₂.context)
    (h : renderKey k₁ = renderKey k₂) : k₁ = k₂ := by
  have hr : k₁.context.reverse ++ '-' :: k₁.directive.reverse = k₂.context.reverse ++ '-' :: k₂.directive.reverse := by
    have := congrArg List.reverse h
    simpa [renderKey] using this
  have := append_sep_inj '-' _ _ _ _ (by simpa using h1) (by simpa using h2) hr
  obtain ⟨d1, c1⟩ := k₁
  obtain ⟨d2, c2⟩ := k₂
  simp only [List.reverse_inj] at this
  simp [this.1, this.2]

theorem ctxName_no_dash (k : Str) : '-' ∉ ctxName k := by
  simp only [ctxName]
  repeat' split
  all_goals decide


/-! ### the one-pass tokenizer of the current code simulates lexer + statement structure -/

def absSt : Mode → TokSt
  | .gap => .gap
  | .comment _ => .comment
  | .bare acc e v => .bare acc.reverse e v
  | .quoted dq acc e => .quoted dq acc.reverse e

/-- effect of a few tokens on (depth, atStart, directives) -/
def applyToks : Nat × Bool × List Str → List Tok → Nat × Bool × List Str
  | x, [] => x
  | (d, st, out), .ws _ :: ts => applyToks (d, st, out) ts
  | (d, st, out), .comment _ :: ts => applyToks (d, st, out) ts
  | (d, st, out), .word r q :: ts =>
    applyToks (d, false, if d == 0 && st then out ++ [wordValue r q] else out) ts
  | (d, _, out), .semi :: ts => applyToks (d, true, out) ts
  | (d, _, out), .lb :: ts => applyToks (d + 1, true, out) ts
  | (d, _, out), .rb :: ts => applyToks (d - 1, true, out) ts

theorem applyToks_names : ∀ (toks : List Tok) (d : Nat) (st : Bool) (out : List Str) (T : List Tok),
    out ++ namesFrom d st (toks ++ T) =
      (applyToks (d, st, out) toks).2.2 ++
        namesFrom (applyToks (d, st, out) toks).1 (applyToks (d, st, out) toks).2.1 T := by
  intro toks
  induction toks with
  | nil => intros; rfl
  | cons t ts ih =>
    intro d st out T
    cases t with
    | ws c => simpa [namesFrom, applyToks] using ih d st out T
    | comment r => simpa [namesFrom, applyToks] using ih d st out T
    | word r q =>
      simp only [List.cons_append, namesFrom, applyToks]
      split
      · rw [← ih]; simp
      · rw [← ih]
    | semi => simpa [namesFrom, applyToks] using ih d true out T
    | lb => simpa [namesFrom, applyToks] using ih (d + 1) true out T
    | rb => simpa [namesFrom, applyToks] using ih (d - 1) true out T

theorem tokSpace_eq (c : Char) : tokSpace c = isNgxSpace c := rfl

/-- one character: the Go loop body does what the lexer step plus the statement bookkeeping do -/
theorem tokStep_sim (m : Mode) (c : Char) (d : Nat) (st : Bool) (out : List Str) :
    tokStep ⟨absSt m, d, st, out⟩ c =
      ⟨absSt (step m c).1, (applyToks (d, st, out) (step m c).2).1,
        (applyToks (d, st, out) (step m c).2).2.1, (applyToks (d, st, out) (step m c).2).2.2⟩ := by
  cases m with
  | gap =>
    by_cases h1 : isNgxSpace c = true
    · simp [tokStep, absSt, step, tokSpace_eq, h1, applyToks]
    have h1' : isNgxSpace c = false := by simpa using h1
    by_cases h2 : c = ';'
    · subst h2; simp [tokStep, absSt, step, tokSpace_eq, isNgxSpace, applyToks, punct]
    by_cases h3 : c = '{'
    · subst h3; simp [tokStep, absSt, step, tokSpace_eq, isNgxSpace, applyToks, punct]
    by_cases h4 : c = '}'
    · subst h4; simp [tokStep, absSt, step, tokSpace_eq, isNgxSpace, applyToks, punct]
    by_cases h5 : c = '#'
    · subst h5; simp [tokStep, absSt, step, tokSpace_eq, isNgxSpace, applyToks]
    by_cases h6 : c = '"'
    · subst h6; simp [tokStep, absSt, step, tokSpace_eq, isNgxSpace, applyToks]
    by_cases h7 : c = '\''
    · subst h7; simp [tokStep, absSt, step, tokSpace_eq, isNgxSpace, applyToks]
    by_cases h8 : c = '\\'
    · subst h8; simp [tokStep, absSt, step, tokSpace_eq, isNgxSpace, applyToks]
    by_cases h9 : c = '$'
    · subst h9; simp [tokStep, absSt, step, tokSpace_eq, isNgxSpace, applyToks]
    simp [tokStep, absSt, step, tokSpace_eq, h1', h2, h3, h4, h5, h6, h7, h8, h9, applyToks]
  | comment acc =>
    by_cases h : c = '\n'
    · subst h; simp [tokStep, absSt, step, applyToks]
    · simp [tokStep, absSt, step, applyToks, h]
  | bare acc esc var =>
    cases esc with
    | true => simp [tokStep, absSt, step, applyToks]
    | false =>
      by_cases h3 : c = '{'
      · subst h3
        cases var <;>
          simp [tokStep, absSt, step, tokSpace_eq, isNgxSpace, applyToks, punct, endWord, wordValue, unescapeWord]
      by_cases h8 : c = '\\'
      · subst h8; simp [tokStep, absSt, step, tokSpace_eq, isNgxSpace, applyToks]
      by_cases h9 : c = '$'
      · subst h9; simp [tokStep, absSt, step, tokSpace_eq, isNgxSpace, applyToks]
      by_cases h1 : isNgxSpace c = true
      · simp [tokStep, absSt, step, tokSpace_eq, h1, h3, h8, h9, applyToks, endWord, wordValue, unescapeWord]
      have h1' : isNgxSpace c = false := by simpa using h1
      by_cases h2 : c = ';'
      · subst h2
        simp [tokStep, absSt, step, tokSpace_eq, isNgxSpace, applyToks, punct, endWord, wordValue, unescapeWord]
      simp [tokStep, absSt, step, tokSpace_eq, h1', h2, h3, h8, h9, applyToks]
  | quoted dq acc esc =>
    cases esc with
    | true => simp [tokStep, absSt, step, applyToks]
    | false =>
      by_cases h8 : c = '\\'
      · subst h8; simp [tokStep, absSt, step, applyToks]
      cases dq with
      | true =>
        by_cases h6 : c = '"'
        · subst h6
          simp [tokStep, absSt, step, applyToks, endWord, wordValue, unescapeWord, quoteChar]
        · simp [tokStep, absSt, step, applyToks, quoteChar, h6, h8]
      | false =>
        by_cases h7 : c = '\''
        · subst h7
          simp [tokStep, absSt, step, applyToks, endWord, wordValue, unescapeWord, quoteChar]
        · simp [tokStep, absSt, step, applyToks, quoteChar, h7, h8]

theorem tokRun_sim : ∀ (s : Str) (m : Mode) (d : Nat) (st : Bool) (out : List Str),
    (tokRun ⟨absSt m, d, st, out⟩ s).directives = out ++ namesFrom d st (run m s) := by
  intro s
  induction s with
  | nil =>
    intro m d st out
    cases m with
    | gap => simp [tokRun, absSt, run, flush, namesFrom]
    | comment acc => simp [tokRun, absSt, run, flush, namesFrom]
    | bare acc e v =>
      simp only [tokRun, absSt, run, flush, namesFrom, endWord, wordValue, unescapeWord]
      split <;> simp_all
    | quoted dq acc e =>
      cases dq <;>
      · simp only [tokRun, absSt, run, flush, namesFrom, endWord, wordValue, unescapeWord]
        split <;> simp_all
  | cons c cs ih =>
    intro m d st out
    simp only [tokRun, run]
    rw [tokStep_sim, ih, applyToks_names]

/-- THE TIE between code model and reference: for EVERY snippet text the tokenizer of the current code
returns exactly the depth-0 directive names of the NGINX lexer, in order -/
theorem parseSnippet_eq_directiveNames (s : Str) : parseSnippet s = directiveNames s := by
  have := tokRun_sim s .gap 0 true []
  simpa [parseSnippet, tokInit, absSt, directiveNames, names0, lex] using this


/-- the sorted entries of any key list: exact positive multiplicities, only keys that were counted -/
theorem entries_spec (ks : List Key) : ∀ e ∈ sortEntries (countMap ks), e.2 = ks.count e.1 ∧ 1 ≤ e.2 ∧ e.1 ∈ ks := by
  intro e he
  exact (countMap_spec ks).2.1 e ((perm_sortEntries _).mem_iff.mp he)

theorem entries_complete (ks : List Key) (k : Key) (hk : k ∈ ks) : ∃ e ∈ sortEntries (countMap ks), e.1 = k := by
  obtain ⟨e, he, hk'⟩ := List.mem_map.mp ((countMap_spec ks).2.2 k hk)
  exact ⟨e, (perm_sortEntries _).mem_iff.mpr he, hk'⟩

theorem entries_keys_nodup (ks : List Key) : ((sortEntries (countMap ks)).map (·.1)).Nodup :=
  ((perm_sortEntries _).map (·.1)).nodup_iff.mpr (countMap_spec ks).1

end NGF.Telemetry
