/-
Helper lemmas for C20: the NGINX tokenizer model on the text of the mgmt template (`renderMgmt`).
Core Lean only.
-/
import NGF.Proofs.Cli

namespace NGF.Cli
open NGF.CliSpec

/-! ### the whole mgmt.conf -/

theorem lexFrom_append (l : Lex) (a b : Str) : lexFrom l (a ++ b) = lexFrom (lexFrom l a) b := by
  simp [lexFrom, List.foldl_append]

theorem seg_head (toks : List Tok) :
    lexFrom ⟨toks, .space⟩ "\nmgmt {".toList = ⟨.lbrace :: .word "mgmt".toList :: toks, .space⟩ := by
  simp [lexFrom, step, isWs, endBare, emit]

theorem seg_tail (toks : List Tok) :
    lexFrom ⟨toks, .space⟩ "\n\tlicense_token /etc/nginx/secrets/license.jwt;\n\tdeployment_context /etc/nginx/main-includes/deployment_ctx.json;\n}\n".toList
      = ⟨.rbrace :: .semi :: .word "/etc/nginx/main-includes/deployment_ctx.json".toList :: .word "deployment_context".toList ::
          .semi :: .word "/etc/nginx/secrets/license.jwt".toList :: .word "license_token".toList :: toks, .space⟩ := by
  simp [lexFrom, step, isWs, endBare, emit]

theorem seg_ep (toks : List Tok) {ep : Str} (hs : safeBareArg ep = true) :
    lexFrom ⟨toks, .space⟩ ("\n\tusage_report endpoint=".toList ++ ep ++ ";".toList)
      = ⟨.semi :: .word ("endpoint=".toList ++ ep) :: .word "usage_report".toList :: toks, .space⟩ := by
  have e1 : "\n\tusage_report endpoint=".toList ++ ep ++ ";".toList =
      '\n' :: '\t' :: ("usage_report".toList ++ ' ' :: (("endpoint=".toList ++ ep) ++ ';' :: [])) := by simp
  have hr : safeBareArg "usage_report".toList = true := by decide
  simp only [safeBareArg, Bool.and_eq_true] at hs
  have he : safeBareArg ("endpoint=".toList ++ ep) = true := safeBareArg_append (by decide) hs.2
  have s0 : lexFrom ⟨toks, .space⟩ ('\n' :: '\t' :: ("usage_report".toList ++ ' ' :: (("endpoint=".toList ++ ep) ++ ';' :: [])))
      = lexFrom ⟨toks, .space⟩ ("usage_report".toList ++ ' ' :: (("endpoint=".toList ++ ep) ++ ';' :: [])) := by
    simp [lexFrom, step, isWs]
  rw [e1, s0, lex_word_ws hr, lex_word_semi he]
  rfl

theorem seg_res (toks : List Tok) {res : Str} (hs : safeBareArg res = true) :
    lexFrom ⟨toks, .space⟩ ("\n\tresolver ".toList ++ res ++ ";".toList)
      = ⟨.semi :: .word res :: .word "resolver".toList :: toks, .space⟩ := by
  have e1 : "\n\tresolver ".toList ++ res ++ ";".toList =
      '\n' :: '\t' :: ("resolver".toList ++ ' ' :: (res ++ ';' :: [])) := by simp
  have hr : safeBareArg "resolver".toList = true := by decide
  have s0 : lexFrom ⟨toks, .space⟩ ('\n' :: '\t' :: ("resolver".toList ++ ' ' :: (res ++ ';' :: [])))
      = lexFrom ⟨toks, .space⟩ ("resolver".toList ++ ' ' :: (res ++ ';' :: [])) := by
    simp [lexFrom, step, isWs]
  rw [e1, s0, lex_word_ws hr, lex_word_semi hs]
  rfl

theorem safe_not_empty {s : Str} (h : safeBareArg s = true) : s.isEmpty = false := by
  simp only [safeBareArg, Bool.and_eq_true, Bool.not_eq_true'] at h; exact h.1

def tailToks : List Tok :=
  [.word "license_token".toList, .word "/etc/nginx/secrets/license.jwt".toList, .semi,
   .word "deployment_context".toList, .word "/etc/nginx/main-includes/deployment_ctx.json".toList, .semi, .rbrace]

def epToks (ep : Str) : List Tok :=
  if ep.isEmpty then [] else [.word "usage_report".toList, .word ("endpoint=".toList ++ ep), .semi]

def resToks (res : Str) : List Tok :=
  if res.isEmpty then [] else [.word "resolver".toList, .word res, .semi]

theorem seg_head' (toks : List Tok) (rest : Str) :
    lexFrom ⟨toks, .space⟩ ("\nmgmt {".toList ++ rest) = lexFrom ⟨.lbrace :: .word "mgmt".toList :: toks, .space⟩ rest := by
  rw [lexFrom_append, seg_head]

theorem seg_ep' (toks : List Tok) {ep : Str} (hs : safeBareArg ep = true) (rest : Str) :
    lexFrom ⟨toks, .space⟩ ("\n\tusage_report endpoint=".toList ++ (ep ++ (";".toList ++ rest)))
      = lexFrom ⟨.semi :: .word ("endpoint=".toList ++ ep) :: .word "usage_report".toList :: toks, .space⟩ rest := by
  have := lexFrom_append ⟨toks, .space⟩ ("\n\tusage_report endpoint=".toList ++ ep ++ ";".toList) rest
  rw [seg_ep _ hs] at this
  rw [← this]; simp only [List.append_assoc]

theorem seg_res' (toks : List Tok) {res : Str} (hs : safeBareArg res = true) (rest : Str) :
    lexFrom ⟨toks, .space⟩ ("\n\tresolver ".toList ++ (res ++ (";".toList ++ rest)))
      = lexFrom ⟨.semi :: .word res :: .word "resolver".toList :: toks, .space⟩ rest := by
  have := lexFrom_append ⟨toks, .space⟩ ("\n\tresolver ".toList ++ res ++ ";".toList) rest
  rw [seg_res _ hs] at this
  rw [← this]; simp only [List.append_assoc]

theorem tokens_render {ep res : Str} (hep : ep = [] ∨ safeBareArg ep = true)
    (hres : res = [] ∨ safeBareArg res = true) :
    tokens (renderMgmtRaw ep res) =
      some ([.word "mgmt".toList, .lbrace] ++ epToks ep ++ resToks res ++ tailToks) := by
  unfold tokens renderMgmtRaw epToks resToks
  rcases hep with rfl | hep <;> rcases hres with rfl | hres
  · simp only [List.isEmpty_nil, if_true, List.append_nil]
    rw [seg_head', seg_tail]; rfl
  · simp only [List.isEmpty_nil, if_true, List.append_nil, safe_not_empty hres, Bool.false_eq_true, if_false,
      List.append_assoc]
    rw [seg_head', seg_res' _ hres, seg_tail]; rfl
  · simp only [List.isEmpty_nil, if_true, List.append_nil, safe_not_empty hep, Bool.false_eq_true, if_false,
      List.append_assoc]
    rw [seg_head', seg_ep' _ hep, seg_tail]; rfl
  · simp only [safe_not_empty hep, safe_not_empty hres, Bool.false_eq_true, if_false, List.append_assoc]
    rw [seg_head', seg_ep' _ hep, seg_res' _ hres, seg_tail]; rfl

/-- The file the mgmt template produces for lexically safe (or absent) endpoint and resolver values
has exactly the intended directives with the values as single arguments. -/
theorem mgmtConfOK_render {ep res : Str} (hep : ep = [] ∨ safeBareArg ep = true)
    (hres : res = [] ∨ safeBareArg res = true) : mgmtConfOK (renderMgmtRaw ep res) ep res = true := by
  unfold mgmtConfOK parseConf
  rw [tokens_render hep hres]
  unfold epToks resToks tailToks
  rcases hep with rfl | hep <;> rcases hres with rfl | hres
  · decide +kernel
  · simp only [List.isEmpty_nil, if_true, safe_not_empty hres, Bool.false_eq_true, if_false]
    simp [directives]
  · simp only [List.isEmpty_nil, if_true, safe_not_empty hep, Bool.false_eq_true, if_false]
    simp [directives]
  · simp only [safe_not_empty hep, safe_not_empty hres, Bool.false_eq_true, if_false]
    simp [directives]

theorem nginxAddr_safe {v : Str} (h : v = [] ∨ safeBareArg v = true) :
    nginxAddr v = [] ∨ safeBareArg (nginxAddr v) = true := by
  unfold nginxAddr
  split
  · right
    rcases h with rfl | h
    · rename_i hc; simp at hc
    · simp only [safeBareArg, Bool.and_eq_true, Bool.not_eq_true', List.all_eq_true] at h ⊢
      refine ⟨rfl, ?_⟩
      intro c hc
      simp only [List.mem_cons, List.mem_append, List.not_mem_nil, or_false] at hc
      rcases hc with rfl | m | rfl
      · decide
      · exact h.2 c m
      · decide
  · exact h

/-- the file `generateMgmtFiles` produces (values through `nginxAddr`) has exactly the intended directives -/
theorem mgmtConfOK_generated {ep res : Str} (hep : ep = [] ∨ safeBareArg ep = true)
    (hres : res = [] ∨ safeBareArg res = true) :
    mgmtConfOK (renderMgmt ep res) (nginxAddr ep) (nginxAddr res) = true :=
  mgmtConfOK_render (nginxAddr_safe hep) (nginxAddr_safe hres)

end NGF.Cli
