/-
C08 — the retry loop against a changing object (`runLive`): loop rule, relation to `runRetry`,
and the invariants used by `NGF.Props.C08Drift`.
-/
import NGF.Proofs.StatusRetry
import NGF.Model.StatusDrift

namespace NGF.StatusWrite

theorem runLive_succ (inv : Invoke) (n : Nat) (r : Run) (script : List Step) :
    runLive inv (n + 1) r script =
      if (attemptLive inv r (script.headD .quiet)).2 then (attemptLive inv r (script.headD .quiet)).1
      else runLive inv n (attemptLive inv r (script.headD .quiet)).1 script.tail := rfl

theorem attemptLive_none (inv : Invoke) (r : Run) (op : Op) : attemptLive inv r ⟨none, op⟩ = attempt inv r op := rfl

/-- without edits `runLive` IS `runRetry`: every theorem about `runRetry` is a theorem about what the
driver executes on a schedule without `e<i>+` edits -/
theorem runLive_no_edits (inv : Invoke) : ∀ (n : Nat) (r : Run) (sched : List Op),
    runLive inv n r (sched.map fun op => ⟨none, op⟩) = runRetry inv n r sched
  | 0, _, _ => rfl
  | n + 1, r, [] => by
    have ih := runLive_no_edits inv n (attempt inv r .ok).1 []
    rw [runLive_succ, runRetry_succ]
    show (if (attempt inv r .ok).2 then (attempt inv r .ok).1 else runLive inv n (attempt inv r .ok).1 []) = _
    rw [show runLive inv n (attempt inv r .ok).1 [] = _ from ih]
    rfl
  | n + 1, r, op :: sched => by
    have ih := runLive_no_edits inv n (attempt inv r op).1 sched
    rw [runLive_succ, runRetry_succ]
    show (if (attempt inv r op).2 then (attempt inv r op).1
      else runLive inv n (attempt inv r op).1 (sched.map fun op => ⟨none, op⟩)) = _
    rw [ih]
    rfl

/-- Loop rule for `runLive`. -/
theorem runLive_inv (inv : Invoke) (I Q : Run → Prop) (hIQ : ∀ r, I r → Q r)
    (hstep : ∀ r st, I r →
      Q (attemptLive inv r st).1 ∧ ((attemptLive inv r st).2 = false → I (attemptLive inv r st).1)) :
    ∀ n r script, I r → Q (runLive inv n r script)
  | 0, r, _, h => by simpa [runLive] using hIQ r h
  | n + 1, r, script, h => by
    obtain ⟨hq, hi⟩ := hstep r (script.headD .quiet) h
    rw [runLive_succ]
    cases hd : (attemptLive inv r (script.headD .quiet)).2 with
    | true => simpa using hq
    | false => simpa using runLive_inv inv I Q hIQ hstep n _ script.tail (hi hd)

/-- Stateless invocation against a changing object: every submission (whatever other writers did
before, between and during the attempts) is the FIRST-invocation result of the original setter on the
object fetched in the same attempt. -/
theorem liveStateless_submissions (inv : Invoke) (s : Setter) (hst : ∀ p, (inv s p).1 = s)
    (n : Nat) (store : Status) (script : List Step) :
    ∀ prev sub ok, Call.update prev sub ok ∈ (runLive inv n (Run.init s store) script).calls →
      (inv s prev).2 = (sub, true) := by
  let I : Run → Prop := fun r =>
    r.setter = s ∧ ∀ prev sub ok, Call.update prev sub ok ∈ r.calls → (inv s prev).2 = (sub, true)
  have key : I (runLive inv n (Run.init s store) script) := by
    refine runLive_inv _ I I (fun _ h => h) ?_ n _ script ⟨rfl, by simp [Run.init]⟩
    intro r0 st ⟨hs0, hc0⟩
    -- the attempt runs on the run whose store is the live object
    let r : Run := { r0 with store := st.live r0.store }
    have hs : r.setter = s := hs0
    have hc : ∀ prev sub ok, Call.update prev sub ok ∈ r.calls → (inv s prev).2 = (sub, true) := hc0
    have hfst : (inv r.setter r.store).1 = s := by rw [hs]; exact hst _
    show I (attempt inv r st.op).1 ∧ ((attempt inv r st.op).2 = false → I (attempt inv r st.op).1)
    apply attempt_cases inv r st.op (fun x => I x.1 ∧ (x.2 = false → I x.1))
    · refine ⟨⟨hs, ?_⟩, fun _ => ⟨hs, ?_⟩⟩ <;> intro p sub ok hm <;> simp at hm <;> exact hc _ _ _ hm
    · refine ⟨⟨hs, ?_⟩, fun _ => ⟨hs, ?_⟩⟩ <;> intro p sub ok hm <;> simp at hm <;> exact hc _ _ _ hm
    · intro _
      refine ⟨⟨hfst, ?_⟩, fun _ => ⟨hfst, ?_⟩⟩ <;> intro p sub ok hm <;> simp at hm <;> exact hc _ _ _ hm
    · intro hw
      have : ∀ p sub ok, Call.update p sub ok ∈
          r.calls ++ [Call.get true] ++ [Call.update r.store (inv r.setter r.store).2.1 true] →
          (inv s p).2 = (sub, true) := by
        intro p sub ok hm
        simp at hm
        rcases hm with hm | ⟨rfl, rfl, rfl⟩
        · exact hc _ _ _ hm
        · rw [← hs]; exact Prod.ext rfl hw
      exact ⟨⟨hfst, this⟩, fun _ => ⟨hfst, this⟩⟩
    · intro poke hw
      have : ∀ p sub ok, Call.update p sub ok ∈
          r.calls ++ [Call.get true] ++ [Call.update r.store (inv r.setter r.store).2.1 false] →
          (inv s p).2 = (sub, true) := by
        intro p sub ok hm
        simp at hm
        rcases hm with hm | ⟨rfl, rfl, rfl⟩
        · exact hc _ _ _ hm
        · rw [← hs]; exact Prod.ext rfl hw
      exact ⟨⟨hfst, this⟩, fun _ => ⟨hfst, this⟩⟩
  exact key.2

/-- at most one successful write; it ends the loop and what it submitted is what is stored -/
theorem live_writes (inv : Invoke) (n : Nat) (r : Run) (script : List Step) (h0 : r.writes = 0) :
    let r' := runLive inv n r script
    r'.writes = 0 ∨ (r'.writes = 1 ∧ ∃ prev, r'.calls.getLast? = some (.update prev r'.store true)) := by
  refine runLive_inv inv (fun r => r.writes = 0)
    (fun r' => r'.writes = 0 ∨ (r'.writes = 1 ∧ ∃ prev, r'.calls.getLast? = some (.update prev r'.store true)))
    (fun _ h => Or.inl h) ?_ n r script h0
  intro r0 st h
  let r : Run := { r0 with store := st.live r0.store }
  have h : r.writes = 0 := h
  show (fun r' : Run => r'.writes = 0 ∨ (r'.writes = 1 ∧ ∃ prev, r'.calls.getLast? = some (.update prev r'.store true))) (attempt inv r st.op).1 ∧ ((attempt inv r st.op).2 = false → (attempt inv r st.op).1.writes = 0)
  apply attempt_cases inv r st.op (fun x =>
    (x.1.writes = 0 ∨ (x.1.writes = 1 ∧ ∃ prev, x.1.calls.getLast? = some (.update prev x.1.store true))) ∧
    (x.2 = false → x.1.writes = 0))
  · exact ⟨Or.inl h, fun _ => h⟩
  · exact ⟨Or.inl h, fun _ => h⟩
  · exact fun _ => ⟨Or.inl h, fun _ => h⟩
  · intro _
    refine ⟨Or.inr ⟨by simp [h], r.store, by simp⟩, fun hf => by simp at hf⟩
  · exact fun _ _ => ⟨Or.inl h, fun _ => h⟩

theorem liveSeq_succ (n : Nat) (store : Status) (script : List Step) :
    liveSeq (n + 1) store script =
      (script.headD .quiet).live store ::
        liveSeq n (afterAttempt ((script.headD .quiet).live store) (script.headD .quiet).op) script.tail := rfl

theorem liveSeq_length : ∀ (n : Nat) (store : Status) (script : List Step), (liveSeq n store script).length = n
  | 0, _, _ => rfl
  | n + 1, store, script => by rw [liveSeq_succ, List.length_cons, liveSeq_length n]

/-! ### the finally stored status is computed from the LAST fetched object, in closed form -/

theorem afterAttempt_updFail (live : Status) (poke : Option Status) :
    afterAttempt live (.updFail poke) = poke.getD live := by cases poke <;> rfl

theorem gets_store (r : Run) (st : Status) : ({ r with store := st } : Run).gets = r.gets := rfl

def LastFetched (n : Nat) (r : Run) (script : List Step) (r' : Run) : Prop :=
  r'.writes = 1 →
    ∃ i live, (liveSeq n r.store script)[i]? = some live ∧ r'.gets = r.gets + i + 1 ∧
      r'.calls.getLast? = some (.update live r'.store true)

theorem lastFetched_step (inv : Invoke) (n : Nat) (r : Run) (live : Status) (op : Op) (tail : List Step)
    (h0 : r.writes = 0)
    (ih : ∀ r1 : Run, r1.writes = 0 → LastFetched n r1 tail (runLive inv n r1 tail))
    (r' : Run)
    (hr' : r' = if (attempt inv { r with store := live } op).2 then (attempt inv { r with store := live } op).1
                else runLive inv n (attempt inv { r with store := live } op).1 tail)
    (h1 : r'.writes = 1) :
    ∃ i lv, (live :: liveSeq n (afterAttempt live op) tail)[i]? = some lv ∧ r'.gets = r.gets + i + 1 ∧
      r'.calls.getLast? = some (.update lv r'.store true) := by
  have hg : (attempt inv { r with store := live } op).1.gets = r.gets + 1 :=
    attempt_gets inv { r with store := live } op
  cases hd : (attempt inv { r with store := live } op).2 with
  | true =>
    rw [hd] at hr'
    simp only [if_true] at hr'
    subst hr'
    refine ⟨0, live, rfl, by omega, ?_⟩
    revert h1
    apply attempt_cases inv { r with store := live } op (fun x => x.1.writes = 1 →
      x.1.calls.getLast? = some (.update live x.1.store true))
    · intro h; simp [h0] at h
    · intro h; simp [h0] at h
    · intro _ h; simp [h0] at h
    · intro _ _; simp
    · intro _ _ h; simp [h0] at h
  | false =>
    rw [hd] at hr'
    simp only [Bool.false_eq_true, if_false] at hr'
    subst hr'
    have hw0 : (attempt inv { r with store := live } op).1.writes = 0 := by
      revert hd
      apply attempt_cases inv { r with store := live } op (fun x => x.2 = false → x.1.writes = 0)
      · intro _; exact h0
      · intro h; simp at h
      · intro _ h; simp at h
      · intro _ h; simp at h
      · intro _ _ _; exact h0
    have hst : (attempt inv { r with store := live } op).1.store = afterAttempt live op := by
      revert hd
      cases op with
      | getErr => intro _; rfl
      | notFound => intro h; simp [attempt] at h
      | ok =>
        cases hw : (inv ({ r with store := live } : Run).setter ({ r with store := live } : Run).store).2.2 with
        | false => rw [attempt_noop inv _ .ok (Or.inl rfl) hw]; intro h; simp at h
        | true => rw [attempt_ok_set inv _ hw]; intro h; simp at h
      | updFail poke =>
        cases hw : (inv ({ r with store := live } : Run).setter ({ r with store := live } : Run).store).2.2 with
        | false => rw [attempt_noop inv _ _ (Or.inr ⟨poke, rfl⟩) hw]; intro h; simp at h
        | true => rw [attempt_updFail_set inv _ poke hw, afterAttempt_updFail]; intro _; rfl
    obtain ⟨i, lv, hi, hgets, hlast⟩ := ih _ hw0 h1
    rw [hst] at hi
    exact ⟨i + 1, lv, by simpa using hi, by omega, hlast⟩

/-- The object whose merge is finally stored is the one the LAST Get returned: element `gets - 1` of
`liveSeq` (a function of the initial store and the script only). -/
theorem live_last_fetched (inv : Invoke) : ∀ (n : Nat) (r : Run) (script : List Step), r.writes = 0 →
    LastFetched n r script (runLive inv n r script)
  | 0, r, _, h0 => by intro h1; simp [runLive, h0] at h1
  | n + 1, r, script, h0 => by
    intro h1
    exact lastFetched_step inv n r ((script.headD .quiet).live r.store) (script.headD .quiet).op script.tail h0
      (fun r1 h => live_last_fetched inv n r1 script.tail h) _ (runLive_succ inv n r script) h1
end NGF.StatusWrite
