/-
Which directives `render` produces where: the `server` / `split_clients` blocks of `render c`, the `listen` /
`server_name` / `location` children of a rendered server, the children of a rendered location.
(What the small judge `wfDirs` reads of them.) Core Lean only.
-/
import NGF.Proofs.RenderSplit
import NGF.Proofs.RenderPos

namespace NGF.Render
open NGF.Pipeline NGF.Nginx NGF.Mangle

/-! ### filters by name -/

theorem named_append (n : String) (a b : List Dir) : named n (a ++ b) = named n a ++ named n b := by
  simp [named]

theorem blocksNamed_append (n : String) (a b : List Dir) : blocksNamed n (a ++ b) = blocksNamed n a ++ blocksNamed n b := by
  simp [blocksNamed]

theorem named_eq_nil {n : String} {l : List Dir} (h : ∀ d ∈ l, d.name ≠ n.toList) : named n l = [] := by
  unfold named
  rw [List.filter_eq_nil_iff]
  intro d hd
  simpa using h d hd

theorem blocksNamed_eq_nil {n : String} {l : List Dir} (h : ∀ d ∈ l, d.name ≠ n.toList) : blocksNamed n l = [] := by
  unfold blocksNamed
  rw [List.filter_eq_nil_iff]
  intro d hd
  simp [h d hd]

theorem blocksNamed_eq_self {n : String} {l : List Dir} (h : ∀ d ∈ l, d.name = n.toList ∧ d.block.isSome = true) :
    blocksNamed n l = l := by
  unfold blocksNamed
  rw [List.filter_eq_self]
  intro d hd
  simp [(h d hd).1, (h d hd).2]

@[simp] theorem dir_name (n : String) (a : List Arg) : (dir n a).name = n.toList := rfl
@[simp] theorem dir_args (n : String) (a : List Arg) : (dir n a).args = a := rfl
@[simp] theorem dir_block (n : String) (a : List Arg) : (dir n a).block = none := rfl
@[simp] theorem blk_name (n : String) (a : List Arg) (ch : List Dir) : (blk n a ch).name = n.toList := rfl
@[simp] theorem blk_args (n : String) (a : List Arg) (ch : List Dir) : (blk n a ch).args = a := rfl
@[simp] theorem blk_block (n : String) (a : List Arg) (ch : List Dir) : (blk n a ch).block = some ch := rfl
@[simp] theorem body_blk (n : String) (a : List Arg) (ch : List Dir) : body (blk n a ch) = ch := rfl

/-! ### locations -/

/-- the children of a rendered location that matter to the judge -/
theorem renderRule_loc {sid : Nat} {r : RRule} {d : Dir} (h : d ∈ renderRule sid r) :
    d.name = "location".toList ∧ d.block.isSome = true := by
  unfold renderRule at h
  cases hact : r.act with
  | direct a =>
    simp only [hact, List.mem_map] at h
    obtain ⟨k, _, rfl⟩ := h
    exact ⟨rfl, rfl⟩
  | njs ms =>
    simp only [hact, List.mem_append, List.mem_map] at h
    rcases h with ⟨k, _, rfl⟩ | ⟨jm, _, rfl⟩
    · exact ⟨rfl, rfl⟩
    · exact ⟨rfl, rfl⟩

theorem rootLoc_loc : rootLoc.name = "location".toList ∧ rootLoc.block.isSome = true := ⟨rfl, rfl⟩

def serverLocs (sv : RServer) : List Dir :=
  (sortRules sv.rules).flatMap (renderRule sv.sid) ++ (if sv.root404 then [rootLoc] else [])

theorem mem_serverLocs_loc {sv : RServer} {d : Dir} (h : d ∈ serverLocs sv) :
    d.name = "location".toList ∧ d.block.isSome = true := by
  unfold serverLocs at h
  rcases List.mem_append.mp h with h | h
  · obtain ⟨r, _, hd⟩ := List.mem_flatMap.mp h
    exact renderRule_loc hd
  · by_cases hr : sv.root404 = true
    · simp only [hr, ↓reduceIte, List.mem_singleton] at h
      subst h; exact rootLoc_loc
    · simp [hr] at h

theorem renderServer_body (sv : RServer) :
    body (renderServer sv) = listenDirs sv.port [] ++ [dir "server_name" [wl sv.name]] ++ serverLocs sv := by
  simp [renderServer, serverLocs, List.append_assoc]

theorem listenDirs_names (p : Nat) (extra : List String) : ∀ d ∈ listenDirs p extra, d.name = "listen".toList := by
  intro d hd
  simp only [listenDirs, List.mem_cons, List.mem_nil_iff, or_false] at hd
  rcases hd with rfl | rfl <;> rfl

theorem locs_of_renderServer (sv : RServer) : blocksNamed "location" (body (renderServer sv)) = serverLocs sv := by
  rw [renderServer_body, blocksNamed_append, blocksNamed_append,
    blocksNamed_eq_nil (fun d hd => by rw [listenDirs_names _ _ d hd]; decide),
    blocksNamed_eq_nil (l := [dir "server_name" [wl sv.name]]) (fun d hd => by
      rw [List.mem_singleton.mp hd, dir_name]; decide),
    blocksNamed_eq_self (fun d hd => mem_serverLocs_loc hd)]
  rfl

theorem listens_of_renderServer (sv : RServer) : named "listen" (body (renderServer sv)) = listenDirs sv.port [] := by
  rw [renderServer_body, named_append, named_append,
    named_eq_nil (l := serverLocs sv) (fun d hd => by rw [(mem_serverLocs_loc hd).1]; decide),
    named_eq_nil (l := [dir "server_name" [wl sv.name]]) (fun d hd => by rw [List.mem_singleton.mp hd, dir_name]; decide)]
  simp only [List.append_nil]
  unfold named
  rw [List.filter_eq_self]
  intro d hd
  simp [listenDirs_names _ _ d hd]

theorem names_of_renderServer (sv : RServer) :
    named "server_name" (body (renderServer sv)) = [dir "server_name" [wl sv.name]] := by
  rw [renderServer_body, named_append, named_append,
    named_eq_nil (l := serverLocs sv) (fun d hd => by rw [(mem_serverLocs_loc hd).1]; decide),
    named_eq_nil (l := listenDirs sv.port []) (fun d hd => by rw [listenDirs_names _ _ d hd]; decide)]
  rfl

/-! ### the blocks of `render c` -/

/-- the entries of `serverDirs` before sorting -/
def serverItems (c : ConfR) : List (Nat × Dir) :=
  (c.dports.map fun d => (d.2, renderDefault d.1)) ++ (c.servers.map fun sv => (sv.sid, renderServer sv))

theorem serverDirs_perm (c : ConfR) : (serverDirs c).Perm ((serverItems c).map (·.2)) := by
  unfold serverDirs
  exact (List.mergeSort_perm _ _).map _

theorem mem_serverDirs {c : ConfR} {d : Dir} :
    d ∈ serverDirs c ↔ (∃ p ∈ c.dports, d = renderDefault p.1) ∨ (∃ sv ∈ c.servers, d = renderServer sv) := by
  rw [(serverDirs_perm c).mem_iff]
  simp only [serverItems, List.map_append, List.map_map, List.mem_append, List.mem_map, Function.comp_def]
  constructor
  · rintro (⟨p, hp, rfl⟩ | ⟨sv, hs, rfl⟩)
    · exact Or.inl ⟨p, hp, rfl⟩
    · exact Or.inr ⟨sv, hs, rfl⟩
  · rintro (⟨p, hp, rfl⟩ | ⟨sv, hs, rfl⟩)
    · exact Or.inl ⟨p, hp, rfl⟩
    · exact Or.inr ⟨sv, hs, rfl⟩

theorem serverDirs_server {c : ConfR} {d : Dir} (h : d ∈ serverDirs c) :
    d.name = "server".toList ∧ d.block.isSome = true := by
  rcases mem_serverDirs.mp h with ⟨_, _, rfl⟩ | ⟨_, _, rfl⟩ <;> exact ⟨rfl, rfl⟩

theorem tailServers_server {d : Dir} (h : d ∈ tailServers) : d.name = "server".toList ∧ d.block.isSome = true := by
  simp only [tailServers, List.mem_cons, List.mem_nil_iff, or_false] at h
  rcases h with rfl | rfl <;> exact ⟨rfl, rfl⟩

theorem splitDirs_split {c : ConfR} {d : Dir} (h : d ∈ splitDirs c) :
    d.name = "split_clients".toList ∧ d.block.isSome = true := by
  obtain ⟨g, _, rfl⟩ := List.mem_map.mp h
  exact ⟨rfl, rfl⟩

theorem servers_of_render (c : ConfR) : blocksNamed "server" (render c) = serverDirs c ++ tailServers := by
  have e : render c = [preload] ++ (serverDirs c ++ tailServers) ++ splitDirs c := by
    simp [render, List.append_assoc]
  rw [e, blocksNamed_append, blocksNamed_append,
    blocksNamed_eq_nil (l := [preload]) (fun d hd => by rw [List.mem_singleton.mp hd]; decide),
    blocksNamed_eq_nil (l := splitDirs c) (fun d hd => by rw [(splitDirs_split hd).1]; decide),
    blocksNamed_eq_self (fun d hd => by
      rcases List.mem_append.mp hd with h | h
      · exact serverDirs_server h
      · exact tailServers_server h)]
  simp

theorem splits_of_render (c : ConfR) : blocksNamed "split_clients" (render c) = splitDirs c := by
  have e : render c = [preload] ++ (serverDirs c ++ tailServers) ++ splitDirs c := by
    simp [render, List.append_assoc]
  rw [e, blocksNamed_append, blocksNamed_append,
    blocksNamed_eq_nil (l := [preload]) (fun d hd => by rw [List.mem_singleton.mp hd]; decide),
    blocksNamed_eq_nil (l := serverDirs c ++ tailServers) (fun d hd => by
      rcases List.mem_append.mp hd with h | h
      · rw [(serverDirs_server h).1]; decide
      · rw [(tailServers_server h).1]; decide),
    blocksNamed_eq_self (fun d hd => splitDirs_split hd)]
  simp

end NGF.Render
