/-
Helper lemmas about the reference lexer (`NGF.Model.SnippetLex`): losslessness and the behaviour on
"tidy" statement text.
-/
import NGF.Model.SnippetLex

namespace NGF.SnippetLex

/-! ### losslessness: the raw texts of the tokens concatenate to the input -/

def pending : Mode → List Char
  | .gap => []
  | .comment acc => acc.reverse
  | .bare acc _ _ => acc.reverse
  | .quoted dq acc _ => quoteChar dq :: acc.reverse

def rawOf (ts : List Tok) : List Char := ts.flatMap Tok.raw

theorem rawOf_append (a b : List Tok) : rawOf (a ++ b) = rawOf a ++ rawOf b := by
  simp [rawOf]

theorem step_raw (m : Mode) (c : Char) :
    rawOf (step m c).2 ++ pending (step m c).1 = pending m ++ [c] := by
  cases m with
  | gap =>
    simp only [step]
    repeat' split
    all_goals simp_all [rawOf, Tok.raw, pending, quoteChar]
  | comment acc =>
    simp only [step]
    repeat' split
    all_goals simp_all [rawOf, Tok.raw, pending, quoteChar]
  | bare acc esc var =>
    simp only [step]
    repeat' split
    all_goals simp_all [rawOf, Tok.raw, pending, quoteChar]
  | quoted dq acc esc =>
    simp only [step]
    repeat' split
    all_goals simp_all [rawOf, Tok.raw, pending, quoteChar]

theorem flush_raw (m : Mode) : rawOf (flush m) = pending m := by
  cases m <;> simp [flush, rawOf, Tok.raw, pending]

theorem run_raw (s : List Char) : ∀ m, rawOf (run m s) = pending m ++ s := by
  induction s with
  | nil => intro m; simp [run, flush_raw]
  | cons c cs ih =>
    intro m
    simp only [run, rawOf_append, ih]
    rw [← List.append_assoc, step_raw]
    simp

end NGF.SnippetLex

namespace NGF.SnippetLex

theorem lex_lossless (s : List Char) : rawOf (lex s) = s := by
  simp [lex, run_raw, pending]

/-! ### tidy statement text -/

/-- characters of a tidy word: no NGINX whitespace, no special character -/
def wordChar (c : Char) : Bool :=
  !isNgxSpace c && c != ';' && c != '{' && c != '}' && c != '"' && c != '\'' && c != '#' &&
  c != '\\' && c != '$'

/-- characters of the argument part of a tidy statement -/
def restChar (c : Char) : Bool := wordChar c || c == '$' || isNgxSpace c

/-- between tokens, or inside an unescaped bare word -/
def Quiet (m : Mode) : Prop := m = .gap ∨ ∃ acc v, m = .bare acc false v

theorem unescape_plain : ∀ l : List Char, (∀ c ∈ l, c ≠ '\\') → unescape l = l := by
  intro l
  induction l with
  | nil => intro _; simp [unescape]
  | cons c cs ih =>
    intro h
    have hc : c ≠ '\\' := h c (by simp)
    have hcs : ∀ x ∈ cs, x ≠ '\\' := fun x hx => h x (by simp [hx])
    cases cs with
    | nil => 
      unfold unescape
      split
      · simp_all
      · simp_all [unescape]
      · simp_all
    | cons d ds =>
      unfold unescape
      split
      · simp_all
      · simp_all
      · simp_all


theorem namesFrom_ws (d : Nat) (st : Bool) (c : Char) (ts : List Tok) :
    namesFrom d st (.ws c :: ts) = namesFrom d st ts := by simp [namesFrom]

/-- one argument character in a quiet mode: the mode stays quiet and no name is produced -/
theorem quiet_step {m : Mode} (hm : Quiet m) {c : Char} (hc : restChar c = true) (ts : List Tok) :
    Quiet (step m c).1 ∧ namesFrom 0 false ((step m c).2 ++ ts) = namesFrom 0 false ts := by
  simp only [restChar, wordChar, Bool.or_eq_true, Bool.and_eq_true, Bool.not_eq_true',
    bne_iff_ne, ne_eq, beq_iff_eq] at hc
  rcases hm with rfl | ⟨acc, v, rfl⟩
  · simp only [step]
    repeat' split
    all_goals simp_all [Quiet, namesFrom, isNgxSpace]
  · simp only [step]
    repeat' split
    all_goals simp_all [Quiet, namesFrom, isNgxSpace]

theorem quiet_semi {m : Mode} (hm : Quiet m) (ts : List Tok) :
    (step m ';').1 = .gap ∧ namesFrom 0 false ((step m ';').2 ++ ts) = namesFrom 0 true ts := by
  rcases hm with rfl | ⟨acc, v, rfl⟩
  · simp [step, isNgxSpace, namesFrom]
  · cases v <;> simp [step, isNgxSpace, namesFrom]

theorem quiet_flush {m : Mode} (hm : Quiet m) : namesFrom 0 false (flush m) = [] := by
  rcases hm with rfl | ⟨acc, v, rfl⟩ <;> simp [flush, namesFrom]

theorem names_rest_semi : ∀ (rest : List Char) (m : Mode), Quiet m → (∀ c ∈ rest, restChar c = true) →
    ∀ more, namesFrom 0 false (run m (rest ++ ';' :: more)) = namesFrom 0 true (run .gap more) := by
  intro rest
  induction rest with
  | nil =>
    intro m hm _ more
    have h := quiet_semi hm (run (step m ';').1 more)
    simp only [List.nil_append, run]
    rw [h.2, h.1]
  | cons c cs ih =>
    intro m hm hr more
    have hc := hr c (by simp)
    have h := quiet_step hm hc (run (step m c).1 (cs ++ ';' :: more))
    simp only [List.cons_append, run]
    rw [h.2]
    exact ih _ h.1 (fun x hx => hr x (by simp [hx])) more

theorem names_rest_end : ∀ (rest : List Char) (m : Mode), Quiet m → (∀ c ∈ rest, restChar c = true) →
    namesFrom 0 false (run m rest) = [] := by
  intro rest
  induction rest with
  | nil => intro m hm _; simpa [run] using quiet_flush hm
  | cons c cs ih =>
    intro m hm hr
    have hc := hr c (by simp)
    have h := quiet_step hm hc (run (step m c).1 cs)
    simp only [run]
    rw [h.2]
    exact ih _ h.1 (fun x hx => hr x (by simp [hx]))

theorem names_lead : ∀ (lead : List Char), (∀ c ∈ lead, isNgxSpace c = true) → ∀ (d : Nat) (st : Bool) x,
    namesFrom d st (run .gap (lead ++ x)) = namesFrom d st (run .gap x) := by
  intro lead
  induction lead with
  | nil => intros; rfl
  | cons c cs ih =>
    intro h d st x
    have hc := h c (by simp)
    simp only [List.cons_append, run, step, hc, if_true, namesFrom_ws]
    exact ih (fun y hy => h y (by simp [hy])) d st x

theorem run_name : ∀ (name : List Char), (∀ c ∈ name, wordChar c = true) → ∀ acc x,
    run (.bare acc false false) (name ++ x) = run (.bare (name.reverse ++ acc) false false) x := by
  intro name
  induction name with
  | nil => intros; rfl
  | cons c cs ih =>
    intro h acc x
    have hc := h c (by simp)
    simp only [wordChar, Bool.and_eq_true, Bool.not_eq_true', bne_iff_ne, ne_eq] at hc
    have : step (.bare acc false false) c = (.bare (c :: acc) false false, []) := by
      simp [step, hc]
    simp only [List.cons_append, run, this, List.nil_append]
    rw [ih (fun y hy => h y (by simp [hy]))]
    simp

theorem wordChar_ne_backslash {c : Char} (h : wordChar c = true) : c ≠ '\\' := by
  simp only [wordChar, Bool.and_eq_true, bne_iff_ne, ne_eq] at h
  exact h.1.2


/-- entering a tidy name from the gap -/
theorem run_gap_name {c : Char} {cs : List Char} (h : ∀ x ∈ c :: cs, wordChar x = true) (x : List Char) :
    run .gap (c :: cs ++ x) = run (.bare (c :: cs).reverse false false) x := by
  have hc := h c (by simp)
  simp only [wordChar, Bool.and_eq_true, Bool.not_eq_true', bne_iff_ne, ne_eq] at hc
  have : step .gap c = (.bare [c] false false, []) := by simp [step, hc]
  simp only [List.cons_append, run, this, List.nil_append]
  rw [run_name cs (fun y hy => h y (by simp [hy]))]
  simp

theorem wordValue_plain {name : List Char} (h : ∀ x ∈ name, wordChar x = true) :
    wordValue name .none = name := by
  simp only [wordValue]
  exact unescape_plain name (fun c hc => wordChar_ne_backslash (h c hc))

/-- a tidy statement `name rest ;` contributes exactly its name -/
theorem names_stmt_semi {name rest : List Char} (hne : name ≠ []) (hn : ∀ x ∈ name, wordChar x = true)
    (hr0 : rest = [] ∨ ∃ r, rest = ' ' :: r) (hr : ∀ c ∈ rest, restChar c = true) (more : List Char) :
    namesFrom 0 true (run .gap (name ++ (rest ++ ';' :: more))) = name :: namesFrom 0 true (run .gap more) := by
  cases name with
  | nil => exact absurd rfl hne
  | cons c cs =>
    rw [run_gap_name hn]
    have hv := wordValue_plain hn
    rcases hr0 with rfl | ⟨r, rfl⟩
    · simp [run, step, isNgxSpace, namesFrom, hv]
    · have hrr : ∀ c ∈ r, restChar c = true := fun x hx => hr x (by simp [hx])
      have := names_rest_semi r .gap (Or.inl rfl) hrr more
      simp [run, step, isNgxSpace, namesFrom, hv, this]

/-- a trailing tidy statement without `;` contributes exactly its name -/
theorem names_stmt_end {name rest : List Char} (hne : name ≠ []) (hn : ∀ x ∈ name, wordChar x = true)
    (hr0 : rest = [] ∨ ∃ r, rest = ' ' :: r) (hr : ∀ c ∈ rest, restChar c = true) :
    namesFrom 0 true (run .gap (name ++ rest)) = [name] := by
  cases name with
  | nil => exact absurd rfl hne
  | cons c cs =>
    rw [run_gap_name hn]
    have hv := wordValue_plain hn
    rcases hr0 with rfl | ⟨r, rfl⟩
    · simp [run, flush, namesFrom, hv]
    · have hrr : ∀ c ∈ r, restChar c = true := fun x hx => hr x (by simp [hx])
      have := names_rest_end r .gap (Or.inl rfl) hrr
      simp [run, step, isNgxSpace, namesFrom, hv, this]

theorem names_space_only : ∀ (l : List Char), (∀ c ∈ l, isNgxSpace c = true) → ∀ d st,
    namesFrom d st (run .gap l) = [] := by
  intro l h d st
  have := names_lead l h d st []
  simpa [run, flush, namesFrom] using this

end NGF.SnippetLex
