/-
C07, fragment stage — the last link of "Accepted ⇔ served": a match rule in `Pipeline.entries` for (port, host) shows up as a
LOCATION of the generated server `Pipeline.serverOf entries port host` that carries the match and its action (directly, for a
single path-only match, or as an element of the njs match list). Uses the location scheme lemma `Locations.mem_genLocs`.
-/
import NGF.Model.PipelineStatus
import NGF.Proofs.Locations

namespace NGF.PipelineStatus
open NGF.Pipeline NGF.Precedence

/-- location `cl` (of a server on `port`) carries match `m` with action `a` -/
def locCarries (port : Nat) (cl : CLoc) (m : Match) (a : Action) : Prop :=
  (isPathOnly m = true ∧ cl.act = .direct (actOf port a)) ∨ ∃ ms, cl.act = .njs ms ∧ (njsMatchOf m, actOf port a) ∈ ms

theorem ruleAct_carries (port : Nat) (mrs : List Entry) (e : Entry) (he : e ∈ mrs) :
    (isPathOnly e.m = true ∧ ruleAct port mrs = .direct (actOf port e.action)) ∨
      ∃ ms, ruleAct port mrs = .njs ms ∧ (njsMatchOf e.m, actOf port e.action) ∈ ms := by
  unfold ruleAct
  match mrs, he with
  | [e'], he =>
    simp only [List.mem_singleton] at he
    subst he
    by_cases hp : isPathOnly e.m = true
    · left; simp [hp]
    · right; simp [hp]
  | [], he => cases he
  | a :: b :: rest, he =>
    right
    exact ⟨_, rfl, List.mem_map.mpr ⟨e, he, rfl⟩⟩

/-- a prefix path rule always gets a location when no prefix value ends in `/` (other than `/` itself) -/
theorem extLocs_nonempty (rules : List PathRule) (i : Nat) (r : PathRule)
    (hno : ∀ x ∈ rules, x.isPrefix = true → x.path ≠ r.path ++ ['/']) :
    ∃ gl ∈ extLocs rules i r, gl.rule = i ∧ (gl.path = r.path ∨ gl.path = r.path ++ ['/']) := by
  unfold extLocs
  by_cases h1 : (r.isPrefix && !endsSlash r.path) = true
  · simp only [h1, if_true]
    have hs : hasPrefix rules (r.path ++ ['/']) = false := by
      unfold hasPrefix
      rw [List.any_eq_false]
      intro x hx hc
      simp only [Bool.and_eq_true, beq_iff_eq] at hc
      exact hno x hx hc.1 hc.2
    simp only [hs, Bool.and_false, Bool.false_eq_true, if_false, Bool.not_false, if_true]
    exact ⟨⟨false, r.path ++ ['/'], i⟩, by simp, rfl, Or.inr rfl⟩
  · simp only [h1]
    exact ⟨_, List.mem_singleton.mpr rfl, rfl, Or.inl rfl⟩

/-- every match rule for (port, h) is carried by a location of the generated server, at the rule's path (or path + `/`) -/
theorem serverOf_carries (es : List Entry) (port : Nat) (h : Pipeline.Str) (e : Entry) (he : e ∈ es) (hport : e.port = port)
    (hhost : e.host = h)
    (hok : ∀ x ∈ es, x.m.exact = false → x.m.path ≠ e.m.path ++ ['/']) :
    ∃ cl ∈ (serverOf es port h).locs, locCarries port cl e.m e.action ∧ (cl.path = e.m.path ∨ cl.path = e.m.path ++ ['/']) := by
  unfold serverOf
  simp only
  -- names for the pieces
  generalize hmine : (es.filter fun x => x.port == port && x.host == h) = mine
  have hemine : e ∈ mine := by
    rw [← hmine]; exact List.mem_filter.mpr ⟨he, by simp [hport, hhost]⟩
  generalize hkeys : (mine.map pathKey).eraseDups = keys
  have hk : pathKey e ∈ keys := by
    rw [← hkeys, List.mem_eraseDups]; exact List.mem_map.mpr ⟨e, hemine, rfl⟩
  obtain ⟨i, hi⟩ := List.getElem?_of_mem hk
  let rules : List PathRule := keys.map fun k => ⟨k.2, !k.1⟩
  have hri : rules[i]? = some ⟨(pathKey e).2, !(pathKey e).1⟩ := by simp [rules, hi]
  have hno : ∀ x ∈ rules, x.isPrefix = true → x.path ≠ (⟨(pathKey e).2, !(pathKey e).1⟩ : PathRule).path ++ ['/'] := by
    intro x hx hpre
    obtain ⟨k, hkm, rfl⟩ := List.mem_map.mp hx
    rw [← hkeys, List.mem_eraseDups] at hkm
    obtain ⟨y, hy, rfl⟩ := List.mem_map.mp hkm
    have hyes : y ∈ es := by rw [← hmine] at hy; exact (List.mem_filter.mp hy).1
    simp only [pathKey, Bool.not_eq_eq_eq_not, Bool.not_true] at hpre
    exact hok y hyes hpre
  obtain ⟨gl, hgl, hrule, hpath⟩ := extLocs_nonempty rules i _ hno
  have hmem : gl ∈ genLocs rules := NGF.Locations.mem_genLocs.mpr (Or.inl ⟨i, _, hri, hgl⟩)
  refine ⟨_, List.mem_map.mpr ⟨gl, hmem, rfl⟩, ?_, ?_⟩
  · rw [hrule, hi]
    simp only
    have hin : e ∈ sortEntries (mine.filter fun x => pathKey x == pathKey e) := by
      unfold sortEntries
      rw [List.mem_mergeSort]
      exact List.mem_filter.mpr ⟨hemine, by simp⟩
    exact ruleAct_carries port _ e hin
  · rw [hrule, hi]
    simpa [pathKey] using hpath

end NGF.PipelineStatus
