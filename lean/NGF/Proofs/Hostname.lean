/-
Helper lemmas for C02 about the hostname functions of the graph package (Model/Hostname.lean).
-/
import NGF.Model.Hostname

namespace NGF.Hostname

theorem isWild_eq {h : Host} (hw : isWild h = true) : ∃ t, h = '*' :: '.' :: t := by
  unfold isWild at hw
  match h, hw with
  | [], hw => simp at hw
  | [_], hw => simp at hw
  | a :: b :: t, hw =>
    simp only [List.take_succ_cons, List.take_zero, beq_iff_eq, List.cons.injEq, and_true] at hw
    exact ⟨t, by rw [hw.1, hw.2]⟩

theorem isWild_cons (t : Host) : isWild ('*' :: '.' :: t) = true := by simp [isWild]

theorem wildTail_cons (t : Host) : wildTail ('*' :: '.' :: t) = '.' :: t := rfl

def dots (h : Host) : Nat := (h.filter (· == '.')).length

theorem labels_eq (h : Host) : labels h = dots h + 1 := rfl

theorem dots_append (a b : Host) : dots (a ++ b) = dots a + dots b := by simp [dots, List.filter_append]

theorem dots_star_dot (t : Host) : dots ('*' :: '.' :: t) = dots ('.' :: t) := by simp [dots, List.filter]

/-- a dot-led suffix of a dot-led string: equal, or strictly fewer dots -/
theorem suffix_dots {a b : Host} (h : ('.' :: a) <:+ ('.' :: b)) : a = b ∨ dots ('.' :: a) < dots ('.' :: b) := by
  obtain ⟨pre, hp⟩ := h
  cases pre with
  | nil => left; simpa using hp
  | cons c cs =>
    right
    have hc : c = '.' := by
      have := congrArg List.head? hp; simpa using this
    rw [← hp, dots_append]
    have : dots (c :: cs) ≥ 1 := by subst hc; simp [dots, List.filter]
    omega

/-- a dot-led suffix of `*.x` is a suffix of `.x` -/
theorem suffix_of_wild {a t : Host} (h : ('.' :: a) <:+ ('*' :: '.' :: t)) : ('.' :: a) <:+ ('.' :: t) := by
  obtain ⟨pre, hp⟩ := h
  cases pre with
  | nil => simp at hp
  | cons c cs =>
    simp only [List.cons_append, List.cons.injEq] at hp
    exact ⟨cs, hp.2⟩

theorem isSuffixOf_iff {a b : Host} : a.isSuffixOf b = true ↔ a <:+ b := List.isSuffixOf_iff_suffix

/-- `match` is symmetric once both hostnames are present -/
theorem hmatch_symm {l r : Host} (hl : l ≠ []) (hr : r ≠ []) : hmatch l r = hmatch r l := by
  unfold hmatch
  have e1 : l.isEmpty = false := by cases l <;> simp_all
  have e2 : r.isEmpty = false := by cases r <;> simp_all
  simp only [e1, e2, Bool.false_eq_true, ↓reduceIte]
  by_cases h : r = l
  · subst h; simp
  · have h' : ¬ l = r := fun e => h e.symm
    have b1 : (r == l) = false := by simpa using h
    have b2 : (l == r) = false := by simpa using h'
    simp only [b1, b2, Bool.false_eq_true, ↓reduceIte]
    cases wildcardMatch l r <;> cases wildcardMatch r l <;> simp

/-- two different wildcard hostnames that match: the one with more labels has the longer suffix -/
theorem wild_wild {tl tr : Host} (hne : tl ≠ tr) (h : ('.' :: tl) <:+ ('*' :: '.' :: tr)) :
    labels ('*' :: '.' :: tl) < labels ('*' :: '.' :: tr) := by
  have h' := suffix_of_wild h
  rcases suffix_dots h' with e | lt
  · exact absurd e hne
  · rw [labels_eq, labels_eq, dots_star_dot, dots_star_dot]; omega

/-- The accepted hostname of a matching pair stands for requests both hostnames stand for
("the intersection result matches both"). -/
theorem moreSpecific_covers {l r : Host} (hm : hmatch l r = true) (q : Host)
    (hq : covers (moreSpecific l r) q = true) : covers l q = true ∧ covers r q = true := by
  by_cases hlr : l = r
  · subst hlr; simp [moreSpecific] at hq; exact ⟨hq, hq⟩
  have b1 : (l == r) = false := by simpa using hlr
  have b2 : (r == l) = false := by simpa using (fun e : r = l => hlr e.symm)
  cases hle : l.isEmpty with
  | true =>
    have : l = [] := by simpa using hle
    subst this
    simp only [moreSpecific, b1] at hq
    simp at hq
    exact ⟨by simp [covers], hq⟩
  | false =>
    cases hre : r.isEmpty with
    | true =>
      have : r = [] := by simpa using hre
      subst this
      simp only [moreSpecific, b1, hle] at hq
      simp at hq
      exact ⟨hq, by simp [covers]⟩
    | false =>
      unfold hmatch at hm
      simp only [hle, b2, Bool.false_eq_true, ↓reduceIte] at hm
      cases hwl : isWild l with
      | true =>
        obtain ⟨tl, rfl⟩ := isWild_eq hwl
        cases hwr : isWild r with
        | true =>
          obtain ⟨tr, rfl⟩ := isWild_eq hwr
          have hne : tl ≠ tr := fun e => hlr (by rw [e])
          simp only [wildcardMatch, isWild_cons, wildTail_cons, Bool.true_and] at hm
          by_cases hA : (('.' :: tl).isSuffixOf ('*' :: '.' :: tr)) = true
          · -- l's suffix is a suffix of r: r is more specific
            have hlt := wild_wild hne (isSuffixOf_iff.mp hA)
            have hpick : moreSpecific ('*' :: '.' :: tl) ('*' :: '.' :: tr) = '*' :: '.' :: tr := by
              unfold moreSpecific
              simp only [b1, hle, hre, isWild_cons, Bool.false_eq_true, ↓reduceIte]
              have : ¬ labels ('*' :: '.' :: tl) > labels ('*' :: '.' :: tr) := by omega
              simp [this]
            rw [hpick] at hq
            refine ⟨?_, hq⟩
            simp only [covers, isWild_cons, wildTail_cons, Bool.true_and, Bool.or_eq_true, beq_iff_eq, List.isEmpty_cons,
              Bool.false_eq_true, false_or] at hq ⊢
            rcases hq with e | s
            · right; rw [← e]; exact hA
            · right
              exact isSuffixOf_iff.mpr ((suffix_of_wild (isSuffixOf_iff.mp hA)).trans (isSuffixOf_iff.mp s))
          · have hB : (('.' :: tr).isSuffixOf ('*' :: '.' :: tl)) = true := by
              cases hh : (('.' :: tl).isSuffixOf ('*' :: '.' :: tr)) with
              | true => exact absurd hh hA
              | false => simpa [hh] using hm
            have hlt := wild_wild (fun e => hne e.symm) (isSuffixOf_iff.mp hB)
            have hpick : moreSpecific ('*' :: '.' :: tl) ('*' :: '.' :: tr) = '*' :: '.' :: tl := by
              unfold moreSpecific
              simp only [b1, hle, hre, isWild_cons, Bool.false_eq_true, ↓reduceIte]
              have : labels ('*' :: '.' :: tl) > labels ('*' :: '.' :: tr) := by omega
              simp [this]
            rw [hpick] at hq
            refine ⟨hq, ?_⟩
            simp only [covers, isWild_cons, wildTail_cons, Bool.true_and, Bool.or_eq_true, beq_iff_eq, List.isEmpty_cons,
              Bool.false_eq_true, false_or] at hq ⊢
            rcases hq with e | s
            · right; rw [← e]; exact hB
            · right
              exact isSuffixOf_iff.mpr ((suffix_of_wild (isSuffixOf_iff.mp hB)).trans (isSuffixOf_iff.mp s))
        | false =>
          -- l wildcard, r exact: the accepted hostname is r
          have hpick : moreSpecific ('*' :: '.' :: tl) r = r := by
            unfold moreSpecific
            simp [b1, hre, isWild_cons, hwr]
          rw [hpick] at hq
          refine ⟨?_, hq⟩
          have hq' : q = r := by
            simp only [covers, hre, hwr, Bool.false_and, Bool.or_false, Bool.false_or, beq_iff_eq] at hq
            exact hq.symm
          subst hq'
          simp only [wildcardMatch, isWild_cons, wildTail_cons, Bool.true_and, hwr, Bool.false_and] at hm
          simp only [covers, isWild_cons, wildTail_cons, Bool.true_and, List.isEmpty_cons, Bool.false_or, b1]
          cases hh : (('.' :: tl).isSuffixOf q) with
          | true => rfl
          | false => simp [hh] at hm
      | false =>
        cases hwr : isWild r with
        | true =>
          obtain ⟨tr, rfl⟩ := isWild_eq hwr
          have hpick : moreSpecific l ('*' :: '.' :: tr) = l := by
            unfold moreSpecific
            simp [b1, hle, hwl, isWild_cons]
          rw [hpick] at hq
          refine ⟨hq, ?_⟩
          have hq' : q = l := by
            simp only [covers, hle, hwl, Bool.false_and, Bool.or_false, Bool.false_or, beq_iff_eq] at hq
            exact hq.symm
          subst hq'
          simp only [wildcardMatch, isWild_cons, wildTail_cons, Bool.true_and, hwl, Bool.false_and] at hm
          simp only [covers, isWild_cons, wildTail_cons, Bool.true_and, List.isEmpty_cons, Bool.false_or, b2]
          cases hh : (('.' :: tr).isSuffixOf q) with
          | true => rfl
          | false => simp [hh] at hm
        | false =>
          simp [wildcardMatch, hwl, hwr] at hm

end NGF.Hostname
