/-
C03 judge — "the file set is a configuration NGINX can load", evaluated on the REAL files produced
by the generator together with the static files of the image (nginx.conf, grpc-error-*.conf).

This is a specification of NGINX's configuration-time checks for the directives NGF emits (trusted
base, DESIGN §4): tokenisation/nesting (`NGF.Nginx.parse`), include expansion, directive table
(context, arity, "is duplicate"), duplicate locations / upstreams / variable definitions /
default servers / map keys, variable references (`ngx_http_script_compile`), upstream references,
the address and parameters of `listen` (`ngx_parse_url`), directives and variables of dynamic modules only after their
`load_module`,
included and certificate files, njs match keys, split_clients percentages, unix socket path length,
regular expressions (PCRE subset). It does not mention the generator model. Core Lean only.
-/
import NGF.Model.NginxParse

namespace NGF.WF
open NGF.Nginx

/-! ### small helpers -/

def str (cs : List Char) : String := String.ofList cs

def isVarChar (c : Char) : Bool := c.isAlphanum || c == '_'

def startsWithL : List Char → List Char → Bool
  | _, [] => true
  | [], _ :: _ => false
  | a :: as, b :: bs => a == b && startsWithL as bs

def endsWithL (s suf : List Char) : Bool := startsWithL s.reverse suf.reverse

def hasDup : List String → Option String
  | [] => none
  | x :: xs => if xs.contains x then some x else hasDup xs

/-! ### Regular expressions: a PCRE subset sufficient for what NGF emits -/

inductive ReVerdict
  | ok
  | bad (why : String)
  | unsupported (why : String)
  deriving Repr, DecidableEq

/-- skip a character class body (after `[` and an optional `^`); returns the rest after `]` -/
def skipClass : List Char → Bool → Option (List Char)
  | [], _ => none
  | ']' :: rest, first => if first then skipClass rest false else some rest
  | '\\' :: _ :: rest, _ => skipClass rest false
  | '\\' :: [], _ => none
  | _ :: rest, _ => skipClass rest false

def skipName : List Char → Nat → Char → Option (List Char)
  | [], _, _ => none
  | c :: rest, n, close =>
    if c == close then (if n == 0 then none else some rest)
    else if isVarChar c then skipName rest (n + 1) close
    else none

/-- `{n}`, `{n,}`, `{n,m}` after the `{`; none = not a quantifier (then `{` is a literal) -/
def skipBrace (cs : List Char) : Option (List Char) :=
  let d1 := cs.takeWhile Char.isDigit
  let r1 := cs.dropWhile Char.isDigit
  if d1.isEmpty then none
  else match r1 with
    | '}' :: rest => some rest
    | ',' :: r2 =>
      match r2.dropWhile Char.isDigit with
      | '}' :: rest => some rest
      | _ => none
    | _ => none

/-- `atom` = the previous item can be repeated; `assertion` = previous item was `^`/`$`. -/
def reScan : Nat → List Char → (depth : Nat) → (atom : Bool) → (assertion : Bool) → ReVerdict
  | 0, _, _, _, _ => .unsupported "fuel"
  | _, [], depth, _, _ => if depth == 0 then .ok else .bad "missing )"
  | fuel + 1, c :: cs, depth, atom, assertion =>
    if c == '\\' then
      match cs with
      | [] => .bad "\\ at end of pattern"
      | e :: rest =>
        if "QEpPcgkNoKRXCLlUuGbBAzZ".toList.contains e then .unsupported ("escape \\" ++ str [e])
        else reScan fuel rest depth true false
    else if c == '[' then
      let body := match cs with | '^' :: r => r | r => r
      if startsWithL body [':'] then .unsupported "posix class"
      else match skipClass body true with
        | none => .bad "missing terminating ] for character class"
        | some rest => reScan fuel rest depth true false
    else if c == '(' then
      match cs with
      | '?' :: r =>
        match r with
        | ':' :: r2 | '=' :: r2 | '!' :: r2 | '>' :: r2 | '|' :: r2 => reScan fuel r2 (depth + 1) false false
        | '<' :: '=' :: r2 | '<' :: '!' :: r2 => reScan fuel r2 (depth + 1) false false
        | 'P' :: '<' :: r2 | '<' :: r2 =>
          match skipName r2 0 '>' with
          | some r3 => reScan fuel r3 (depth + 1) false false
          | none => .bad "syntax error in subpattern name"
        | _ => .unsupported "(? construct"
      | '*' :: x :: _ =>
        -- pcre_compile: `(*` starts a verb only before a letter or ':'; otherwise `*` has nothing to repeat
        if x.isAlpha || x == ':' then .unsupported "(*VERB)" else reScan fuel cs (depth + 1) false false
      | _ => reScan fuel cs (depth + 1) false false
    else if c == ')' then
      if depth == 0 then .bad "unmatched parentheses" else reScan fuel cs (depth - 1) true false
    else if c == '*' || c == '+' || c == '?' then
      if assertion then .unsupported "quantified assertion"
      else if !atom then .bad "nothing to repeat"
      else match cs with
        | '+' :: r | '?' :: r => reScan fuel r depth false false
        | _ => reScan fuel cs depth false false
    else if c == '{' then
      match skipBrace cs with
      | some rest =>
        if assertion then .unsupported "quantified assertion"
        else if !atom then .bad "nothing to repeat"
        else match rest with
          | '+' :: r | '?' :: r => reScan fuel r depth false false
          | _ => reScan fuel rest depth false false
      | none => reScan fuel cs depth true false
    else if c == '|' then reScan fuel cs depth false false
    else if c == '^' || c == '$' then reScan fuel cs depth false true
    else reScan fuel cs depth true false

def regexVerdict (re : List Char) : ReVerdict := reScan (re.length + 1) re 0 false false

/-- named captures `(?P<n>` / `(?<n>` define variables -/
def namedCaptures : List Char → List String
  | [] => []
  | '(' :: '?' :: 'P' :: '<' :: r => str (r.takeWhile isVarChar) :: namedCaptures r
  | '(' :: '?' :: '<' :: r =>
    (if r.head? == some '=' || r.head? == some '!' then [] else [str (r.takeWhile isVarChar)]) ++ namedCaptures r
  | _ :: r => namedCaptures r

/-! ### Variable references in a script argument (`ngx_http_script_compile`) -/

inductive VarRef
  | name (n : String)
  | err (why : String)
  deriving Repr, DecidableEq

def scriptVarsF : Nat → List Char → List VarRef
  | 0, _ => []
  | _, [] => []
  | fuel + 1, '$' :: rest =>
    match rest with
    | [] => [.err "invalid variable name"]
    | '{' :: r =>
      let n := r.takeWhile isVarChar
      match r.dropWhile isVarChar with
      | '}' :: r2 => (if n.isEmpty then [.err "invalid variable name"] else [.name (str n)]) ++ scriptVarsF fuel r2
      | _ => [.err ("the closing bracket in \"" ++ str n ++ "\" variable is missing")]
    | c :: r =>
      if c.isDigit && c != '0' then scriptVarsF fuel r
      else
        let n := rest.takeWhile isVarChar
        if n.isEmpty then [.err "invalid variable name"]
        else .name (str n) :: scriptVarsF fuel (rest.dropWhile isVarChar)
  | fuel + 1, _ :: rest => scriptVarsF fuel rest

def scriptVars (cs : List Char) : List VarRef := scriptVarsF (cs.length + 1) cs

/-! ### Directive table -/

structure Spec where
  name : String
  ctxs : List String
  min : Nat := 1
  max : Nat := 1
  block : Bool := false
  single : Bool := true          -- a second occurrence in the same block is "is duplicate"
  scripts : List Nat := []       -- argument positions compiled as scripts (variables must exist)
  scriptFrom : Option Nat := none -- all arguments from this position are scripts
  kind : String := ""            -- extra syntactic check of argument 0: onoff | size | time | file | cert
  deriving Repr

def httpish : List String := ["http", "server", "location"]
def lif : List String := ["http", "server", "location", "lif"]
def many : Nat := 1000

def table : List Spec := [
  -- main
  { name := "load_module", ctxs := ["main"], single := false, kind := "modfile" },
  { name := "worker_processes", ctxs := ["main"] },
  { name := "pid", ctxs := ["main"] },
  { name := "error_log", ctxs := ["main", "http", "server", "location", "stream", "sserver"], max := many, single := false },
  { name := "events", ctxs := ["main"], min := 0, max := 0, block := true },
  { name := "http", ctxs := ["main"], min := 0, max := 0, block := true },
  { name := "stream", ctxs := ["main"], min := 0, max := 0, block := true },
  { name := "mgmt", ctxs := ["main"], min := 0, max := 0, block := true },
  { name := "worker_connections", ctxs := ["events"] },
  -- mgmt
  { name := "usage_report", ctxs := ["mgmt"], max := 2 },
  { name := "resolver", ctxs := ["mgmt", "http", "server", "location", "stream", "sserver"], max := many },
  { name := "license_token", ctxs := ["mgmt"], kind := "file" },
  { name := "deployment_context", ctxs := ["mgmt"] },
  { name := "ssl_verify", ctxs := ["mgmt"], kind := "onoff" },
  { name := "ssl_trusted_certificate", ctxs := ["mgmt", "http", "server"], kind := "file" },
  { name := "ssl_certificate", ctxs := ["mgmt", "http", "server", "stream", "sserver"], single := false, kind := "file" },
  { name := "ssl_certificate_key", ctxs := ["mgmt", "http", "server", "stream", "sserver"], single := false, kind := "file" },
  -- http
  { name := "js_import", ctxs := ["http", "server", "location", "stream", "sserver"], max := 3, single := false },
  { name := "js_preload_object", ctxs := ["http", "server", "location", "stream", "sserver"], max := 3, single := false },
  { name := "default_type", ctxs := httpish },
  { name := "proxy_headers_hash_bucket_size", ctxs := httpish, kind := "size" },
  { name := "proxy_headers_hash_max_size", ctxs := httpish, kind := "size" },
  { name := "server_names_hash_bucket_size", ctxs := ["http"], kind := "size" },
  { name := "server_names_hash_max_size", ctxs := ["http"], kind := "size" },
  { name := "variables_hash_bucket_size", ctxs := ["http", "stream"], kind := "size" },
  { name := "variables_hash_max_size", ctxs := ["http", "stream"], kind := "size" },
  { name := "map_hash_max_size", ctxs := ["http", "stream"], kind := "size" },
  { name := "map_hash_bucket_size", ctxs := ["http", "stream"], kind := "size" },
  { name := "sendfile", ctxs := lif, kind := "onoff" },
  { name := "tcp_nopush", ctxs := httpish, kind := "onoff" },
  { name := "server_tokens", ctxs := httpish },
  { name := "http2", ctxs := ["http", "server"], kind := "onoff" },
  { name := "server", ctxs := ["http", "stream"], min := 0, max := 0, block := true, single := false },
  { name := "server", ctxs := ["upstream", "supstream"], max := many, single := false, kind := "upserver" },
  { name := "upstream", ctxs := ["http", "stream"], block := true, single := false },
  { name := "map", ctxs := ["http", "stream"], min := 2, max := 2, block := true, single := false, scripts := [0] },
  { name := "split_clients", ctxs := ["http", "stream"], min := 2, max := 2, block := true, single := false, scripts := [0] },
  { name := "types", ctxs := httpish, min := 0, max := 0, block := true, single := false },
  { name := "otel_exporter", ctxs := ["http"], min := 0, max := 0, block := true },
  { name := "endpoint", ctxs := ["otel_exporter"] },
  { name := "interval", ctxs := ["otel_exporter"], kind := "time" },
  { name := "batch_size", ctxs := ["otel_exporter"], kind := "size" },
  { name := "batch_count", ctxs := ["otel_exporter"], kind := "size" },
  { name := "otel_service_name", ctxs := ["http"] },
  { name := "otel_trace", ctxs := httpish, scripts := [0] },
  { name := "otel_trace_context", ctxs := httpish },
  { name := "otel_span_name", ctxs := httpish, scripts := [0] },
  { name := "otel_span_attr", ctxs := httpish, min := 2, max := 2, single := false, scripts := [1] },
  { name := "log_format", ctxs := ["http", "stream"], min := 2, max := many, single := false, scriptFrom := some 1 },
  { name := "access_log", ctxs := ["http", "server", "location", "lif", "stream", "sserver"], max := many, single := false },
  -- server
  { name := "listen", ctxs := ["server", "sserver"], max := many, single := false, kind := "listen" },
  { name := "server_name", ctxs := ["server", "sserver"], max := many, single := false },
  { name := "status_zone", ctxs := ["server", "location", "lif", "sserver"] },
  { name := "ssl_reject_handshake", ctxs := ["http", "server"], kind := "onoff" },
  { name := "set_real_ip_from", ctxs := ["http", "server", "location", "stream", "sserver"], single := false },
  { name := "real_ip_header", ctxs := httpish },
  { name := "real_ip_recursive", ctxs := httpish, kind := "onoff" },
  { name := "root", ctxs := lif, scripts := [0] },
  { name := "allow", ctxs := ["http", "server", "location", "stream", "sserver"], single := false },
  { name := "deny", ctxs := ["http", "server", "location", "stream", "sserver"], single := false },
  { name := "if", ctxs := ["server", "location"], max := many, block := true, single := false, scriptFrom := some 0 },
  { name := "location", ctxs := ["server", "location"], max := 2, block := true, single := false },
  { name := "return", ctxs := ["server", "location", "sif", "lif"], max := 2, single := false, scriptFrom := some 0 },
  { name := "return", ctxs := ["sserver"], max := 1, scripts := [0] },
  -- location
  { name := "internal", ctxs := ["location"], min := 0, max := 0 },
  { name := "rewrite", ctxs := ["server", "location", "sif", "lif"], min := 2, max := 3, single := false, scripts := [1], kind := "regex" },
  { name := "set", ctxs := ["server", "location", "sif", "lif"], min := 2, max := 2, single := false, scripts := [1] },
  { name := "js_content", ctxs := ["location", "lif"] },
  { name := "proxy_http_version", ctxs := httpish },
  { name := "proxy_set_header", ctxs := httpish, min := 2, max := 2, single := false, scripts := [1] },
  { name := "grpc_set_header", ctxs := httpish, min := 2, max := 2, single := false, scripts := [1] },
  { name := "proxy_pass", ctxs := ["location", "lif"], scripts := [0], kind := "pass" },
  { name := "grpc_pass", ctxs := ["location", "lif"], scripts := [0], kind := "pass" },
  { name := "proxy_pass", ctxs := ["sserver"], scripts := [0], kind := "spass" },
  { name := "pass", ctxs := ["sserver"], scripts := [0] },
  { name := "ssl_preread", ctxs := ["stream", "sserver"], kind := "onoff" },
  { name := "add_header", ctxs := lif, min := 2, max := 3, single := false, scripts := [1] },
  { name := "proxy_hide_header", ctxs := httpish, single := false },
  { name := "proxy_ssl_server_name", ctxs := httpish, kind := "onoff" },
  { name := "proxy_ssl_verify", ctxs := httpish, kind := "onoff" },
  { name := "proxy_ssl_name", ctxs := httpish, scripts := [0] },
  { name := "proxy_ssl_trusted_certificate", ctxs := httpish, kind := "file" },
  { name := "grpc_ssl_server_name", ctxs := httpish, kind := "onoff" },
  { name := "grpc_ssl_verify", ctxs := httpish, kind := "onoff" },
  { name := "grpc_ssl_name", ctxs := httpish, scripts := [0] },
  { name := "grpc_ssl_trusted_certificate", ctxs := httpish, kind := "file" },
  { name := "error_page", ctxs := lif, min := 2, max := many, single := false },
  { name := "stub_status", ctxs := ["server", "location"], min := 0, max := 1 },
  { name := "api", ctxs := ["location"], min := 0, max := 1 },
  { name := "client_max_body_size", ctxs := httpish, kind := "size" },
  { name := "client_body_timeout", ctxs := httpish, kind := "time" },
  { name := "keepalive_requests", ctxs := httpish ++ ["upstream"], kind := "size" },
  { name := "keepalive_time", ctxs := httpish ++ ["upstream"], kind := "time" },
  { name := "keepalive_timeout", ctxs := httpish, max := 2, kind := "time" },
  { name := "keepalive_timeout", ctxs := ["upstream"], kind := "time" },
  -- upstream
  { name := "random", ctxs := ["upstream", "supstream"], min := 0, max := 2 },
  { name := "zone", ctxs := ["upstream", "supstream"], max := 2 },
  { name := "state", ctxs := ["upstream", "supstream"] },
  { name := "keepalive", ctxs := ["upstream"], kind := "size" }
]

def lookup (name ctx : String) : Option Spec := table.find? fun s => s.name == name && s.ctxs.contains ctx
def known (name : String) : Bool := table.any fun s => s.name == name

def childCtx (ctx name : String) : String :=
  if name == "map" then "map" else if name == "split_clients" then "split" else if name == "types" then "types"
  else match ctx, name with
  | "main", n => n
  | "http", "server" => "server"
  | "http", "upstream" => "upstream"
  | "http", n => n
  | "server", "location" => "location"
  | "server", "if" => "sif"
  | "location", "location" => "location"
  | "location", "if" => "lif"
  | "stream", "server" => "sserver"
  | "stream", "upstream" => "supstream"
  | _, n => n

/-- which variable namespace a context belongs to -/
def moduleOf (ctx : String) : String :=
  if ["stream", "sserver", "supstream"].contains ctx then "stream" else "http"

/-! ### Argument syntax -/

def allDigits (s : List Char) : Bool := !s.isEmpty && s.all Char.isDigit

def isOnOff (s : String) : Bool := s == "on" || s == "off"

/-- `ngx_parse_size`: digits with optional k/K/m/M/g/G (g only in offset parsing; accepted by both readings here) -/
def isSize (s : List Char) : Bool :=
  match s.reverse with
  | [] => false
  | c :: r => if "kKmMgG".toList.contains c then allDigits r.reverse else allDigits s

/-- `ngx_parse_time` for the single-unit forms NGF admits -/
def isTime (s : List Char) : Bool :=
  allDigits s || (endsWithL s "ms".toList && allDigits (s.take (s.length - 2))) ||
  ((s.getLast? == some 's' || s.getLast? == some 'm' || s.getLast? == some 'h' || s.getLast? == some 'd') &&
    allDigits (s.take (s.length - 1)))

def atofp2 : List Char → Nat → Bool → Nat → Option Nat
  | [], v, _, p => some (v * 10 ^ p)
  | c :: cs, v, dot, p =>
    if c == '.' then (if dot then none else atofp2 cs v true p)
    else if c.isDigit then (if dot && p == 0 then none else atofp2 cs (v * 10 + (c.toNat - 48)) dot (if dot then p - 1 else p))
    else none

/-- a `split_clients` percentage `12.34%` in hundredths of a percent (`ngx_atofp(value, len-1, 2)`; 0 is invalid) -/
def percentOf (s : List Char) : Option Nat :=
  match s.reverse with
  | '%' :: r => if r.isEmpty then none else
      match atofp2 r.reverse 0 false 2 with
      | some 0 => none
      | x => x
  | _ => none

def unixPathOf (arg : List Char) : Option (List Char) :=
  if startsWithL arg "unix:".toList then some ((arg.drop 5).takeWhile (· != ':')) else none

/-! ### The argument of `listen` (`ngx_parse_url` with `listen = 1`, `ngx_http_core_listen` / `ngx_stream_core_listen`) -/

/-- a decimal port 1..65535 (`ngx_atoi` + range check: "invalid port") -/
def portOK (cs : List Char) : Bool :=
  allDigits cs && decide (1 ≤ Nat.ofDigitChars 10 cs 0) && decide (Nat.ofDigitChars 10 cs 0 ≤ 65535)

/-- the text between `[` and `]`: an IPv6 address (`ngx_inet6_addr`; shape only: hex digits, `:` and `.`, with a `:`) -/
def v6OK (cs : List Char) : Bool :=
  !cs.isEmpty && cs.contains ':' && cs.all fun c => c.isDigit || ('a' ≤ c && c ≤ 'f') || ('A' ≤ c && c ≤ 'F') || c == ':' || c == '.'

/-- `*`, an IPv4 address or a host name -/
def hostOK (cs : List Char) : Bool :=
  !cs.isEmpty && cs.all fun c => c.isAlphanum || c == '.' || c == '-' || c == '_' || c == '*'

/-- the address of a `listen`: `unix:path` (only at the start), `[v6]` / `[v6]:port`, `host:port` (the port is what
follows the LAST colon), `port`, `host` -/
def listenAddrOK (a : List Char) : Bool :=
  if startsWithL a "unix:".toList then !(a.drop 5).isEmpty
  else if a.head? == some '[' then
    let inner := (a.drop 1).takeWhile (· != ']')
    match (a.drop 1).dropWhile (· != ']') with
    | [']'] => v6OK inner
    | ']' :: ':' :: port => v6OK inner && portOK port
    | _ => false
  else if a.contains ':' then
    portOK (a.reverse.takeWhile (· != ':')).reverse && hostOK ((a.reverse.dropWhile (· != ':')).drop 1).reverse
  else if allDigits a then portOK a
  else hostOK a

def listenFlags : List String :=
  ["default_server", "default", "ssl", "http2", "quic", "proxy_protocol", "deferred", "bind", "reuseport", "udp"]

def listenFlagPrefixes : List String :=
  ["setfib=", "fastopen=", "backlog=", "rcvbuf=", "sndbuf=", "accept_filter=", "ipv6only=", "so_keepalive="]

def listenFlagOK (f : List Char) : Bool :=
  listenFlags.any (fun k => k.toList == f) ||
  listenFlagPrefixes.any fun k => startsWithL f k.toList && f.length > k.length

/-- why NGINX rejects the arguments of a `listen` directive (none = accepted) -/
def listenWhy (args : List (List Char)) : Option String :=
  match args with
  | [] => some "no address"
  | a :: flags =>
    if !listenAddrOK a then some ("invalid address or port in \"" ++ str a ++ "\"")
    else match flags.find? (fun f => !listenFlagOK f) with
      | some f => some ("invalid parameter \"" ++ str f ++ "\"")
      | none => none

/-! ### The judge -/

structure Issue where
  clause : String
  detail : String
  deriving Repr, DecidableEq

structure FileSet where
  files : List (String × String)          -- path, text (text "" for secret / opaque files)
  imagePaths : List String                -- other paths that exist in the container image
  matchKeys : List (String × List String) -- matches.json: key -> redirectPaths

def FileSet.has (fs : FileSet) (p : String) : Bool := fs.files.any (·.1 == p) || fs.imagePaths.contains p

def globMatch (pat path : List Char) : Bool :=
  let pre := pat.takeWhile (· != '*')
  let suf := (pat.dropWhile (· != '*')).drop 1
  startsWithL path pre && endsWithL path suf && path.length ≥ pre.length + suf.length &&
    !((path.drop pre.length).take (path.length - pre.length - suf.length)).contains '/'

def insertSorted (x : String × String) : List (String × String) → List (String × String)
  | [] => [x]
  | y :: ys => if x.1 < y.1 then x :: y :: ys else y :: insertSorted x ys

def sortFiles (l : List (String × String)) : List (String × String) := l.foldr insertSorted []

/-- Replace every `include` by the directives of the included files (each parsed on its own, as NGINX does). -/
partial def expand (fs : FileSet) (depth : Nat) (ds : List Dir) : List Dir × List Issue :=
  ds.zipIdx.foldl (init := ([], [])) fun (acc, iss) (d, idx) =>
    match d with
    | .mk name args blk =>
      if str name == "include" && blk.isNone then
        match args with
        | [(pat, _)] =>
          if depth == 0 then (acc, iss ++ [⟨"include-depth", str pat⟩])
          else
            let targets :=
              if pat.contains '*' then sortFiles (fs.files.filter fun f => globMatch pat f.1.toList)
              else fs.files.filter fun f => f.1 == str pat
            -- the same file included a second time in this block: every single-valued directive of it "is duplicate"
            let repeated := (ds.take idx).any fun e => str e.name == "include" && e.block.isNone && e.argStrings == d.argStrings
            let firstSingle := targets.findSome? fun f =>
              match parse f.2.toList with
              | .ok sub => (sub.find? fun x => x.block.isNone && table.any fun sp => sp.name == str x.name && sp.single && !sp.block).map
                  fun x => str x.name
              | .error _ => none
            if repeated && firstSingle.isSome then
              (acc, iss ++ [⟨"duplicate-include", str pat ++ ": \"" ++ firstSingle.getD "" ++ "\" directive is duplicate"⟩])
            else if targets.isEmpty && !pat.contains '*' then
              if fs.imagePaths.contains (str pat) then (acc, iss)
              else (acc, iss ++ [⟨"include-missing", str pat⟩])
            else
              targets.foldl (init := (acc, iss)) fun (acc, iss) f =>
                match parse f.2.toList with
                | .error e => (acc, iss ++ [⟨"syntax", f.1 ++ ": " ++ reprStr e⟩])
                | .ok sub =>
                  let (sub', iss') := expand fs (depth - 1) sub
                  (acc ++ sub', iss ++ iss')
        | _ => (acc, iss ++ [⟨"arity", "include"⟩])
      else
        match blk with
        | none => (acc ++ [d], iss)
        | some ch =>
          let (ch', iss') := expand fs depth ch
          (acc ++ [.mk name args (some ch')], iss ++ iss')

/-- variable definitions `(module, name, definingDirective)` in document order -/
partial def collectDefs (ctx : String) (ds : List Dir) : List (String × String × String) :=
  ds.flatMap fun d =>
    let n := str d.name
    let here :=
      if (n == "map" || n == "split_clients" || n == "geo") && d.block.isSome then
        match d.args.getLast? with
        | some (v, _) => [(moduleOf ctx, str (v.drop 1), n)]
        | none => []
      else if n == "set" || n == "js_set" || n == "js_var" then
        match d.args.head? with
        | some (v, _) => [(moduleOf ctx, str (v.drop 1), n)]
        | none => []
      else []
    let caps :=
      if ctx == "map" then
        (match d.name with | '~' :: re => namedCaptures re | _ => []).map fun c => (moduleOf ctx, c, "capture")
      else if n == "location" || n == "server_name" || n == "rewrite" then
        (d.args.flatMap fun a => namedCaptures a.1).map fun c => (moduleOf ctx, c, "capture")
      else []
    let inner := match d.block with
      | some ch => collectDefs (if ctx == "map" then "map" else childCtx ctx n) ch
      | none => []
    here ++ caps ++ inner

def builtinHttp : List String := [
  "host", "uri", "args", "is_args", "scheme", "remote_addr", "remote_port", "server_port", "server_addr", "server_name",
  "request_uri", "request_id", "request_method", "request", "status", "proxy_add_x_forwarded_for", "proxy_host", "proxy_port",
  "ssl_server_name", "ssl_protocol", "ssl_cipher", "otel_trace_id", "otel_span_id", "otel_parent_id", "otel_parent_sampled",
  "time_local", "body_bytes_sent", "bytes_sent", "request_time", "upstream_addr", "upstream_status", "query_string",
  "document_uri", "hostname", "pid", "msec", "nginx_version", "content_type", "content_length", "https", "request_length",
  "binary_remote_addr", "upstream_response_time", "realip_remote_addr", "proxy_protocol_addr", "proxy_protocol_port"]

def builtinStream : List String := [
  "remote_addr", "remote_port", "server_port", "server_addr", "time_local", "protocol", "status", "bytes_sent", "bytes_received",
  "session_time", "ssl_preread_server_name", "ssl_preread_protocol", "ssl_preread_alpn_protocols", "hostname", "pid", "msec",
  "nginx_version", "upstream_addr", "binary_remote_addr", "connection", "realip_remote_addr", "proxy_protocol_addr",
  "proxy_protocol_port", "ssl_server_name", "time_iso8601"]

def prefixVars : List String := ["http_", "sent_http_", "upstream_http_", "cookie_", "arg_", "sent_trailer_", "upstream_trailer_", "upstream_cookie_"]

def varDefined (defs : List (String × String × String)) (module name : String) : Bool :=
  defs.any (fun d => d.1 == module && d.2.1 == name) ||
  (if module == "http" then builtinHttp.contains name || prefixVars.any (fun p => name.startsWith p && name.length > p.length)
   else builtinStream.contains name)

structure Env where
  fs : FileSet
  defs : List (String × String × String)
  httpUpstreams : List String
  streamUpstreams : List String
  splitValues : List (String × List String)   -- http split_clients variable -> values
  modules : List String := []                 -- arguments of the `load_module` directives of the main context

/-! ### Dynamically loaded modules: their directives and variables exist only after `load_module` -/

/-- the shared object that provides a directive, for the dynamic modules of the NGF image
(`ngx_otel_module`: `otel_*`; `ngx_http_js_module` / `ngx_stream_js_module`: `js_*`) -/
def moduleOfDirective (name ctx : String) : Option String :=
  if name.startsWith "otel_" then some "ngx_otel_module"
  else if name.startsWith "js_" then some (if moduleOf ctx == "stream" then "ngx_stream_js_module" else "ngx_http_js_module")
  else none

/-- variables registered by a dynamic module -/
def moduleOfVariable (name : String) : Option String :=
  if name.startsWith "otel_" then some "ngx_otel_module" else none

def moduleLoaded (mods : List String) (m : String) : Bool := mods.any fun a => (a.splitOn m).length > 1

def checkScript (env : Env) (ctx dname : String) (arg : List Char) : List Issue :=
  (scriptVars arg).flatMap fun
    | .err why => [⟨"bad-variable-syntax", dname ++ " " ++ str arg ++ ": " ++ why⟩]
    | .name n =>
      -- a definition in the file set counts; a built-in of a dynamic module only when that module is loaded
      let definedHere := env.defs.any fun d => d.1 == moduleOf ctx && d.2.1 == n
      let modOK := match moduleOfVariable n with
        | some m => definedHere || moduleLoaded env.modules m
        | none => true
      if varDefined env.defs (moduleOf ctx) n && modOK then []
      else [⟨"unknown-variable", dname ++ " " ++ str arg ++ ": unknown \"" ++ n ++ "\" variable"⟩]

/-- what follows `scheme://` in a pass URL -/
def passHostRaw (arg : List Char) : Option (List Char) :=
  let rec go : List Char → Option (List Char)
    | ':' :: '/' :: '/' :: r => some r
    | _ :: r => go r
    | [] => none
  go arg

def checkPass (env : Env) (dname : String) (arg : List Char) : List Issue :=
  match passHostRaw arg with
  | none => [⟨"bad-pass-url", dname ++ " " ++ str arg⟩]
  | some r =>
    match r with
    | '$' :: v =>
      let name := str (v.takeWhile isVarChar)
      match env.splitValues.find? (·.1 == name) with
      | some (_, vals) =>
        (vals.filter fun u => !env.httpUpstreams.contains u).map fun u =>
          ⟨"undefined-upstream", dname ++ " " ++ str arg ++ ": split_clients value " ++ u⟩
      | none => []   -- an unknown variable is reported by checkScript
    | _ =>
      if startsWithL r "unix:".toList then []
      else
        let host := str (r.takeWhile fun c => c != '/' && c != '$' && c != ':')
        if env.httpUpstreams.contains host then []
        else [⟨"undefined-upstream", dname ++ " " ++ str arg ++ ": " ++ host⟩]

def checkKind (env : Env) (sp : Spec) (d : Dir) : List Issue :=
  let n := sp.name
  let a0 := (d.args.head?.map (·.1)).getD []
  let bad (c : String) : List Issue := [⟨c, n ++ " " ++ " ".intercalate d.argStrings⟩]
  match sp.kind with
  | "onoff" => if isOnOff (str a0) then [] else bad "bad-flag"
  | "size" => if isSize a0 then [] else bad "bad-size"
  | "time" => if d.args.all (fun a => isTime a.1) then [] else bad "bad-time"
  | "file" => if env.fs.has (str a0) then [] else bad "file-missing"
  | "modfile" => []
  | "regex" =>
    match regexVerdict a0 with
    | .ok => []
    | .bad why => [⟨"bad-regex", n ++ " " ++ str a0 ++ ": " ++ why⟩]
    | .unsupported why => [⟨"regex-unsupported", n ++ " " ++ str a0 ++ ": " ++ why⟩]
  | "pass" => checkPass env n a0
  | "spass" =>
    if startsWithL a0 ['$'] || startsWithL a0 "unix:".toList || env.streamUpstreams.contains (str a0) then []
    else [⟨"undefined-upstream", n ++ " " ++ str a0⟩]
  | "listen" =>
    (match unixPathOf a0 with
      | some p => if (str p).utf8ByteSize > 107 then [⟨"unix-socket-path-too-long", n ++ " " ++ str a0⟩] else []
      | none => []) ++
    (match listenWhy (d.args.map (·.1)) with
      | some why => [⟨"bad-listen", n ++ " " ++ " ".intercalate d.argStrings ++ ": " ++ why⟩]
      | none => [])
  | "upserver" =>
    match unixPathOf a0 with
    | some p => if (str p).utf8ByteSize > 107 then [⟨"unix-socket-path-too-long", n ++ " " ++ str a0⟩] else []
    | none => []
  | _ => []

/-- location identity as NGINX compares them: (modifier, path) with the 1-argument forms normalised -/
def locKey (d : Dir) : String :=
  match d.args with
  | [(p, _)] =>
    if startsWithL p ['='] then "= " ++ str (p.drop 1)
    else if startsWithL p ['^', '~'] then "^~ " ++ str (p.drop 2)
    else if startsWithL p ['~', '*'] then "~* " ++ str (p.drop 2)
    else if startsWithL p ['~'] then "~ " ++ str (p.drop 1)
    else if startsWithL p ['@'] then "@ " ++ str p
    else "P " ++ str p
  | [(m, _), (p, _)] => (if str m == "^~" then "P" else str m) ++ " " ++ str p
  | _ => "?"

def listenKey (d : Dir) : String := (d.args.head?.map fun a => str a.1).getD ""

partial def checkBlock (env : Env) (ctx : String) (ds : List Dir) : List Issue :=
  if ctx == "types" then []
  else if ctx == "map" then
    let entries := ds.filter fun d => !["hostnames", "volatile", "include"].contains (str d.name)
    let arity := entries.flatMap fun d =>
      if d.args.length != 1 || d.block.isSome then [⟨"bad-map-entry", " ".intercalate (str d.name :: d.argStrings)⟩] else []
    let keys := entries.map fun d => (str d.name).toLower
    let dup := match hasDup (keys.filter fun k => !k.startsWith "~") with
      | some k => [⟨"duplicate-map-key", k⟩] | none => []
    let res := entries.flatMap fun d =>
      (match d.name with
        | '~' :: re => (match regexVerdict (if startsWithL re ['*'] then re.drop 1 else re) with
            | .bad why => [⟨"bad-regex", "map " ++ str re ++ ": " ++ why⟩] | _ => [])
        | _ => []) ++
      d.args.flatMap fun a => if a.1.contains '$' then checkScript env "http" "map-value" a.1 else []
    arity ++ dup ++ res
  else if ctx == "split" then
    let arity := ds.flatMap fun d =>
      if d.args.length != 1 || d.block.isSome then [⟨"bad-split-entry", " ".intercalate (str d.name :: d.argStrings)⟩] else []
    let pcts := ds.map fun d => if str d.name == "*" then some 0 else percentOf d.name
    let bad := (ds.zip pcts).flatMap fun (d, p) =>
      if p.isNone then [⟨"bad-percent", str d.name ++ " " ++ " ".intercalate d.argStrings⟩] else []
    let total : Nat := (pcts.map fun p => p.getD 0).foldl (· + ·) 0
    arity ++ bad ++ (if total > 10000 then [⟨"percent-total", toString total⟩] else [])
  else
    let perDir := ds.flatMap fun d =>
      let n := str d.name
      match lookup n ctx with
      | none =>
        if known n then [⟨"bad-context", n ++ " in " ++ ctx⟩] else [⟨"unknown-directive", n ++ " in " ++ ctx⟩]
      | some sp =>
        let modIss := match moduleOfDirective n ctx with
          | some m => if moduleLoaded env.modules m then [] else [⟨"module-not-loaded", n ++ " in " ++ ctx ++ ": " ++ m ++ " is not loaded (unknown directive)"⟩]
          | none => []
        let ar := if d.args.length < sp.min || d.args.length > sp.max then [⟨"arity", n ++ " " ++ " ".intercalate d.argStrings⟩] else []
        let blk := if sp.block != d.block.isSome then [⟨"block-mismatch", n⟩] else []
        let scr := (d.args.zipIdx.flatMap fun (a, i) =>
          if sp.scripts.contains i || (match sp.scriptFrom with | some k => i ≥ k | none => false)
          then checkScript env ctx n a.1 else [])
        let kd := if ar.isEmpty then checkKind env sp d else []
        let loc := if n == "location" then
            (match d.args with
              | [(m, _), (re, _)] =>
                if str m == "~" || str m == "~*" then
                  (match regexVerdict re with | .bad why => [⟨"bad-regex", "location " ++ str re ++ ": " ++ why⟩] | _ => [])
                else if str m == "=" || str m == "^~" then [] else [⟨"bad-location-modifier", str m⟩]
              | _ => [])
          else []
        let mk := if n == "set" && (d.args.head?.map fun a => str a.1) == some "$match_key" then
            (match d.args with
              | [_, (k, _)] => if env.fs.matchKeys.any (·.1 == str k) then [] else [⟨"match-key-missing", str k⟩]
              | _ => [])
          else []
        let inner := match d.block with
          | some ch => checkBlock env (childCtx ctx n) ch
          | none => []
        modIss ++ ar ++ blk ++ scr ++ kd ++ loc ++ mk ++ inner
    -- duplicates inside this block
    let singles := ds.filter fun d => match lookup (str d.name) ctx with | some sp => sp.single | none => false
    let dupDir := match hasDup (singles.map fun d => str d.name) with
      | some n => [⟨"duplicate-directive", n ++ " in " ++ ctx⟩] | none => []
    let locs := ds.filter fun d => str d.name == "location"
    let dupLoc := match hasDup (locs.map locKey) with
      | some k => [⟨"duplicate-location", k⟩] | none => []
    let ups := ds.filter fun d => str d.name == "upstream" && d.block.isSome
    let dupUp := match hasDup (ups.map listenKey) with
      | some k => [⟨"duplicate-upstream", k⟩] | none => []
    let dupListen := if ctx == "server" || ctx == "sserver" then
        (match hasDup ((ds.filter fun d => str d.name == "listen").map listenKey) with
          | some k => [⟨"duplicate-listen", k⟩] | none => [])
      else []
    -- njs redirect targets must be internal locations of the same server
    let redirect := if ctx == "server" then
        let internalLocs := locs.filterMap fun d =>
          match d.block with
          | some ch => if ch.any (fun c => str c.name == "internal") then some (locKey d) else none
          | none => none
        let keysUsed := locs.flatMap fun d => (d.block.getD []).filterMap fun c =>
          if str c.name == "set" && (c.args.head?.map fun a => str a.1) == some "$match_key"
          then (c.args.getLast?.map fun a => str a.1) else none
        keysUsed.flatMap fun k =>
          match env.fs.matchKeys.find? (·.1 == k) with
          | some (_, paths) => (paths.filter fun p => !internalLocs.contains ("P " ++ p)).map fun p =>
              ⟨"redirect-target-missing", k ++ " -> " ++ p⟩
          | none => []
      else []
    -- servers of an http/stream block: default_server and (listen, server_name) uniqueness
    let servers := ds.filter fun d => str d.name == "server" && d.block.isSome
    let srvPairs := servers.flatMap fun s =>
      let ch := s.block.getD []
      let listens := (ch.filter fun c => str c.name == "listen").map listenKey
      let names := (ch.filter fun c => str c.name == "server_name").flatMap fun c => c.argStrings
      let names := if names.isEmpty then [""] else names
      listens.flatMap fun l => names.map fun n => l ++ " " ++ n
    let dupPair := if ctx == "http" then
        (match hasDup srvPairs with | some k => [⟨"duplicate-listen-server-name", k⟩] | none => [])
      else if ctx == "stream" then
        (match hasDup (servers.flatMap fun s => ((s.block.getD []).filter fun c => str c.name == "listen").map listenKey) with
          | some k => [⟨"duplicate-stream-listen", k⟩] | none => [])
      else []
    let defaults := servers.flatMap fun s =>
      ((s.block.getD []).filter fun c => str c.name == "listen" && c.argStrings.contains "default_server").map listenKey
    let dupDefault := match hasDup defaults with
      | some k => [⟨"duplicate-default-server", k⟩] | none => []
    perDir ++ dupDir ++ dupLoc ++ dupUp ++ dupListen ++ redirect ++ dupPair ++ dupDefault

def upstreamNames (ds : List Dir) (blockName : String) : List String :=
  (ds.filter fun d => str d.name == blockName && d.block.isSome).flatMap fun b =>
    ((b.block.getD []).filter fun d => str d.name == "upstream" && d.block.isSome).map listenKey

def splitVals (ds : List Dir) : List (String × List String) :=
  (ds.filter fun d => str d.name == "http" && d.block.isSome).flatMap fun b =>
    ((b.block.getD []).filter fun d => str d.name == "split_clients" && d.block.isSome).map fun sc =>
      (((sc.args.getLast?.map fun a => str (a.1.drop 1)).getD ""),
        (sc.block.getD []).flatMap fun e => e.argStrings)

/-- dedupe while keeping order -/
def dedupIssues : List Issue → List Issue → List Issue
  | [], acc => acc.reverse
  | i :: is, acc => if acc.contains i then dedupIssues is acc else dedupIssues is (i :: acc)

/-- The whole judge: all issues of the file set rooted at /etc/nginx/nginx.conf. Empty = loadable. -/
def judge (fs : FileSet) : List Issue :=
  match fs.files.find? (·.1 == "/etc/nginx/nginx.conf") with
  | none => [⟨"no-root", "/etc/nginx/nginx.conf"⟩]
  | some root =>
    match parse root.2.toList with
    | .error e => [⟨"syntax", root.1 ++ ": " ++ reprStr e⟩]
    | .ok ds0 =>
      let (ds, inc) := expand fs 8 ds0
      let defs := collectDefs "main" ds
      let dupDefs := (defs.filter fun d => d.2.2 == "map" || d.2.2 == "split_clients" || d.2.2 == "js_set" || d.2.2 == "geo")
      let dupVar := match hasDup (dupDefs.map fun d => d.1 ++ " $" ++ d.2.1) with
        | some k => [⟨"duplicate-variable-definition", k⟩] | none => []
      let badNames := (defs.filter fun d => d.2.2 != "capture" && !(d.2.1.toList.all isVarChar && !d.2.1.isEmpty)).map fun d =>
        ⟨"variable-name-not-lexable", d.2.2 ++ " $" ++ d.2.1⟩
      let env : Env := { fs := fs, defs := defs, httpUpstreams := upstreamNames ds "http",
                         streamUpstreams := upstreamNames ds "stream", splitValues := splitVals ds,
                         modules := (ds.filter fun d => str d.name == "load_module").flatMap fun d => d.argStrings }
      dedupIssues (inc ++ dupVar ++ badNames ++ checkBlock env "main" ds) []

end NGF.WF
