/-
The Gateway API routing oracle of C02 (DESIGN.md Appendix A.8), written from the text of the API types
of gateway-api v1.2.1 (apis/v1/{gateway,httproute,grpcroute,shared}_types.go, apis/v1alpha2/tlsroute_types.go)
and independent of the pipeline model: it reads the scenario objects (flat form) and a request and
returns the outcome the specification prescribes. Trusted base (DESIGN §4).

Where the specification leaves the choice to the implementation, the documented behaviour of NGF is taken
as the definition and named here:
  (N1) one Gateway is served: the oldest Gateway (creationTimestamp, then namespace/name) of the configured
       class; the class must exist and name our controller;
  (N2) listener acceptance: protocol HTTP/HTTPS/TLS; HTTP/HTTPS ports must not be protected; HTTPS needs
       mode Terminate, exactly one resolvable certificateRef; TLS needs mode Passthrough; allowedRoutes kinds
       must fit the protocol; two protocol groups on one port conflict (all listeners of the port), an HTTPS and
       a TLS listener of one port with overlapping hostnames conflict (both);
  (N3) supported match envelope: Exact/PathPrefix paths, Exact header/query matches, methods GET HEAD POST
       PUT DELETE OPTIONS PATCH, GRPC method matches with both service and method; a rule with a match outside
       the envelope is not configured; a route is accepted iff no rule has an unsupported value or some rule is
       entirely supported; supported filters: RequestRedirect, URLRewrite, Request/ResponseHeaderModifier
       (HTTPRoute), header modifiers (GRPCRoute); a rule of an accepted route with an unsupported filter answers 500;
       backendRef filters and parentRef ports are not supported;
  (N4) hostname precedence is the virtual-host reading of DESIGN §8: the most specific accepted hostname that
       covers the request host is chosen first; only its rules compete;
  (N5) a TLS connection whose SNI no HTTPS listener hostname covers is closed; SNI ≠ Host answers 421;
       a backend Service without ready endpoints answers 503; TLS passthrough without usable backend is closed.
-/
namespace NGF.Spec.GatewayAPI

/-! ### scenario -/

structure GatewayClass where
  name : String
  ctlr : String
  age : Int
  params : Bool
  deriving Repr

structure KindRef where
  group : String
  kind : String
  deriving Repr

structure CertRef where
  group : String
  kind : String
  hasNs : Bool
  ns : String
  name : String
  deriving Repr

/-- one `matchExpressions` requirement of a namespace label selector -/
structure SelReq where
  key : String
  /-- In | NotIn | Exists | DoesNotExist -/
  op : String
  values : List String
  deriving Repr

structure Listener where
  name : String
  port : Nat
  proto : String
  hasHost : Bool
  host : String
  hasTls : Bool
  tlsMode : String
  tlsOpts : Nat
  certs : List CertRef
  nsFrom : String
  hasSel : Bool
  selMatch : List (String × String)
  selExprs : Nat
  hasKinds : Bool
  kinds : List KindRef
  /-- the `matchExpressions` of the selector, when the flattening supplies them (`selExprs` is their number; decoders that
  do not supply them leave `[]`, and a selector with expressions is then read as matching no namespace, as before) -/
  selReqs : List SelReq := []
  deriving Repr

structure Gateway where
  ns : String
  name : String
  cls : String
  age : Int
  addresses : Nat
  listeners : List Listener
  deriving Repr

structure Namespace where
  name : String
  labels : List (String × String)
  deriving Repr

structure ParentRef where
  group : String
  kind : String
  hasNs : Bool
  ns : String
  name : String
  hasSection : Bool
  sectionName : String
  hasPort : Bool
  deriving Repr

structure KV where
  type : String
  name : String
  value : String
  deriving Repr

structure Match where
  ptype : String
  pvalue : String
  method : String
  headers : List KV
  query : List KV
  hasGm : Bool
  gmType : String
  hasService : Bool
  service : String
  hasGMethod : Bool
  gmethod : String
  deriving Repr

structure Header where
  name : String
  value : String
  deriving Repr

structure Filter where
  type : String
  present : Bool
  scheme : String
  hostname : String
  hasPort : Bool
  port : Nat
  code : Nat
  pathType : String
  pathValue : String
  set : List Header
  add : List Header
  remove : List String
  deriving Repr

structure Backend where
  group : String
  kind : String
  hasNs : Bool
  ns : String
  name : String
  hasPort : Bool
  port : Nat
  weight : Int
  nfilters : Nat
  deriving Repr

structure Rule where
  matches_ : List Match
  filters : List Filter
  backends : List Backend
  deriving Repr

structure Route where
  kind : String
  ns : String
  name : String
  age : Int
  parents : List ParentRef
  hostnames : List String
  rules : List Rule
  deriving Repr

structure SvcPort where
  port : Nat
  ready : Bool
  deriving Repr

structure Svc where
  ns : String
  name : String
  ports : List SvcPort
  deriving Repr

structure GrantFrom where
  group : String
  kind : String
  ns : String
  deriving Repr

structure GrantTo where
  group : String
  kind : String
  hasName : Bool
  name : String
  deriving Repr

structure Grant where
  ns : String
  «from» : List GrantFrom
  to : List GrantTo
  deriving Repr

structure Secret where
  ns : String
  name : String
  ok : Bool
  deriving Repr

structure Scenario where
  cls : String
  ctlr : String
  protectedPorts : List Nat
  gcs : List GatewayClass
  gws : List Gateway
  nss : List Namespace
  routes : List Route
  svcs : List Svc
  grants : List Grant
  secrets : List Secret
  deriving Repr

def gwGroup : String := "gateway.networking.k8s.io"

/-! ### hostnames (Listener.hostname / HTTPRoute.hostnames docs) -/

def isWild (h : String) : Bool := h.startsWith "*."

/-- the part of a wildcard hostname after the `*` (".example.com") -/
def wildTail (h : String) : String := (h.drop 1).toString

/-- does hostname pattern `p` ("" = all, exact, or `*.suffix`) cover the concrete request host `q`?
"`*.example.com` matches `test.example.com` and `foo.test.example.com`, but not `example.com`". -/
def covers (p q : String) : Bool :=
  p == "" || p == q || (isWild p && q.endsWith (wildTail p) && q.length > (wildTail p).length)

/-- intersection of a listener hostname and a route hostname, as a hostname pattern (none = disjoint) -/
def intersect (l r : String) : Option String :=
  if l == "" then some r
  else if r == "" then some l
  else if l == r then some l
  else if isWild l && isWild r then
    if (wildTail r).endsWith (wildTail l) then some r       -- r is the narrower wildcard
    else if (wildTail l).endsWith (wildTail r) then some l
    else none
  else if isWild l then (if covers l r then some r else none)
  else if isWild r then (if covers r l then some l else none)
  else none

/-- specificity used for precedence: exact names first, then wildcards by length, "" (all) last -/
def specificity (h : String) : Nat :=
  if h == "" then 0 else if isWild h then 1 + h.length else 100000 + h.length

def isLabelChar (c : Char) : Bool := c.isLower || c.isDigit || c == '-'

def validLabel (l : String) : Bool :=
  let cs := l.toList
  !cs.isEmpty && cs.length ≤ 63 && cs.all isLabelChar && cs.head? != some '-' && cs.getLast? != some '-'

/-- DNS-1123 subdomain, optionally with a leading `*.` -/
def validHostname (h : String) : Bool :=
  let body := if isWild h then (h.drop 2).toString else h
  !body.isEmpty && h.length ≤ 253 && (body.splitOn ".").all validLabel

/-! ### gateway and listeners -/

def olderKey (a1 : Int) (ns1 n1 : String) (a2 : Int) (ns2 n2 : String) : Bool :=
  a1 < a2 || (a1 == a2 && (ns1 < ns2 || (ns1 == ns2 && n1 < n2)))

def classOurs (s : Scenario) : Bool :=
  s.gcs.any fun c => c.name == s.cls && c.ctlr == s.ctlr

def winner (s : Scenario) : Option Gateway :=
  (s.gws.filter (·.cls == s.cls)).foldl (fun acc g =>
    match acc with
    | none => some g
    | some b => if olderKey g.age g.ns g.name b.age b.ns b.name then some g else some b) none

def refGranted (s : Scenario) (fromKind fromNs toKind toNs toName : String) : Bool :=
  s.grants.any fun g =>
    g.ns == toNs &&
    (g.«from».any fun f => f.group == gwGroup && f.kind == fromKind && f.ns == fromNs) &&
    (g.to.any fun t => (t.group == "" || t.group == "core") && t.kind == toKind && (!t.hasName || t.name == "" || t.name == toName))

def kindsForProto (proto : String) : List String :=
  if proto == "HTTP" || proto == "HTTPS" then ["HTTPRoute", "GRPCRoute"]
  else if proto == "TLS" then ["TLSRoute"] else []

def allowedKinds (l : Listener) : List String :=
  if l.hasKinds then (l.kinds.filter fun k => k.group == gwGroup && (kindsForProto l.proto).contains k.kind).map (·.kind)
  else kindsForProto l.proto

/-- first phase: the listener's own fields -/
def listenerFieldsOK (s : Scenario) (l : Listener) : Bool :=
  let kindsOK := !l.hasKinds || l.kinds.all fun k => k.group == gwGroup && (kindsForProto l.proto).contains k.kind
  let selOK := l.nsFrom != "Selector" || l.hasSel
  let hostOK := !l.hasHost || l.host == "" || validHostname l.host
  let portOK := 1 ≤ l.port && l.port ≤ 65535
  if l.proto == "HTTP" then kindsOK && selOK && hostOK && portOK && !s.protectedPorts.contains l.port && !l.hasTls
  else if l.proto == "HTTPS" then
    kindsOK && selOK && hostOK && portOK && !s.protectedPorts.contains l.port && l.hasTls && l.tlsMode == "Terminate" &&
      l.tlsOpts == 0 && l.certs.length == 1 &&
      l.certs.all fun c => (c.kind == "Secret" || c.kind == "") && c.group == ""
  else if l.proto == "TLS" then kindsOK && selOK && hostOK && l.hasTls && l.tlsMode == "Passthrough"
  else false

def secretOK (s : Scenario) (gwNs : String) (l : Listener) : Bool :=
  l.proto != "HTTPS" ||
  match l.certs with
  | [c] =>
    let ns := if c.hasNs then c.ns else gwNs
    (ns == gwNs || refGranted s "Gateway" gwNs "Secret" ns c.name) &&
      s.secrets.any fun x => x.ns == ns && x.name == c.name && x.ok
  | _ => false

def secure (proto : String) : Bool := proto == "HTTPS" || proto == "TLS"

def hostOf (l : Listener) : String := if l.hasHost then l.host else ""

/-- do two listener hostnames admit a common request host? -/
def hostsOverlap (a b : String) : Bool := (intersect a b).isSome

/-- (N2) the valid listeners of the served gateway -/
def validListeners (s : Scenario) (g : Gateway) : List Listener :=
  let p1 := g.listeners.filter (listenerFieldsOK s)
  p1.filter fun l =>
    -- protocol groups
    (p1.all fun o => o.port != l.port || secure o.proto == secure l.proto) &&
    -- HTTPS vs TLS hostname overlap
    (p1.all fun o => o.port != l.port || o.proto == l.proto || !(secure o.proto && secure l.proto) ||
        !hostsOverlap (hostOf o) (hostOf l)) &&
    secretOK s g.ns l

/-! ### routes -/

def supportedMethods : List String := ["GET", "HEAD", "POST", "PUT", "DELETE", "OPTIONS", "PATCH"]

def pathCharOK (c : Char) : Bool := !(c == ' ' || c == '\t' || c == '\n' || c == '\r' || c == '{' || c == '}' || c == ';')

def njsPartOK (v : String) : Bool := !v.isEmpty && !(v.toList.all Char.isWhitespace) && !v.contains '$'

def pathOK (p : String) : Bool :=
  p.startsWith "/" && p.toList.all pathCharOK && !p.startsWith "/_ngf-internal"

/-- (N3) is the match inside the supported envelope? -/
def matchSupported (kind : String) (m : Match) : Bool :=
  if kind == "GRPCRoute" then
    (!m.hasGm || (m.gmType == "Exact" && m.hasService && m.service != "" && m.hasGMethod && m.gmethod != "" &&
        pathOK ("/" ++ m.service) && pathOK ("/" ++ m.gmethod))) &&
    m.headers.all fun h => h.type == "Exact" && njsPartOK h.name && !h.name.contains ':' && njsPartOK h.value && !h.value.contains ':'
  else
    (m.ptype == "Exact" || m.ptype == "PathPrefix") && pathOK m.pvalue &&
    (m.method == "" || supportedMethods.contains m.method) &&
    (m.headers.all fun h => h.type == "Exact" && njsPartOK h.name && !h.name.contains ':' && njsPartOK h.value && !h.value.contains ':') &&
    (m.query.all fun q => q.type == "Exact" && njsPartOK q.name && njsPartOK q.value)

def filterSupported (kind : String) (f : Filter) : Bool :=
  if f.type == "RequestHeaderModifier" || f.type == "ResponseHeaderModifier" then f.present
  else if kind == "HTTPRoute" && f.type == "RequestRedirect" then
    f.present && (f.scheme == "" || f.scheme == "http" || f.scheme == "https") && (f.code == 301 || f.code == 302 || f.code == 0) &&
      (f.pathType == "" || f.pathType == "ReplaceFullPath" || f.pathType == "ReplacePrefixMatch")
  else if kind == "HTTPRoute" && f.type == "URLRewrite" then
    f.present && (f.pathType == "" || f.pathType == "ReplaceFullPath" || f.pathType == "ReplacePrefixMatch")
  else false

def ruleMatchesOK (kind : String) (r : Rule) : Bool := r.matches_.all (matchSupported kind)
def ruleFiltersOK (kind : String) (r : Rule) : Bool := r.filters.all (filterSupported kind)

/-- (N3) route acceptance -/
def routeAccepted (r : Route) : Bool :=
  r.hostnames.all validHostname &&
  ((r.rules.all fun x => ruleMatchesOK r.kind x && ruleFiltersOK r.kind x) ||
   (r.rules.any fun x => ruleMatchesOK r.kind x && ruleFiltersOK r.kind x))

def tlsRouteAccepted (r : Route) : Bool :=
  r.hostnames.all validHostname && r.rules.length == 1 && (r.rules.all fun x => x.backends.length == 1)

/-- resolved (gateway ns, name, section) of a parentRef -/
def parentTarget (r : Route) (p : ParentRef) : Option (String × String × Option String) :=
  if (p.group == gwGroup) && (p.kind == "Gateway") then
    some (if p.hasNs then p.ns else r.ns, p.name, if p.hasSection then some p.sectionName else none)
  else none

def dupParents (r : Route) (s : Scenario) : Bool :=
  -- only parentRefs to Gateways of our class are looked at (others are not ours to judge)
  let ts := r.parents.filterMap fun p =>
    match parentTarget r p with
    | some (ns, n, sec) => if s.gws.any (fun g => g.ns == ns && g.name == n && g.cls == s.cls) then some (ns, n, sec.getD "") else none
    | none => none
  ts.length != ts.eraseDups.length

/-- a label-selector requirement against the labels of a namespace (k8s.io/apimachinery labels.Requirement.Matches):
`In`: the key is present with one of the values; `NotIn`: absent, or present with another value; `Exists` /
`DoesNotExist`: presence of the key -/
def reqSatisfied (labels : List (String × String)) (r : SelReq) : Bool :=
  match labels.lookup r.key with
  | some v => if r.op == "In" then r.values.contains v else if r.op == "NotIn" then !r.values.contains v else r.op == "Exists"
  | none => r.op == "NotIn" || r.op == "DoesNotExist"

/-- allowedRoutes.namespaces: All; Same (the default); Selector — a metav1.LabelSelector: `matchLabels` AND every
`matchExpressions` requirement must hold for the labels of the Route's namespace; the EMPTY selector `{}` has no
requirement and therefore selects every (known) namespace; a missing selector selects none -/
def nsAllowed (s : Scenario) (g : Gateway) (l : Listener) (routeNs : String) : Bool :=
  if l.nsFrom == "All" then true
  else if l.nsFrom == "Selector" then
    l.hasSel && l.selExprs == l.selReqs.length &&
    match s.nss.find? (·.name == routeNs) with
    | some n => (l.selMatch.all fun kv => n.labels.contains kv) && l.selReqs.all (reqSatisfied n.labels)
    | none => false
  else routeNs == g.ns      -- Same (the default)

/-- is the route attached to listener `l` of the served gateway `g`, and with which hostnames? -/
def attachedHosts (s : Scenario) (g : Gateway) (l : Listener) (r : Route) : List String :=
  let refOK := r.parents.any fun p =>
    match parentTarget r p with
    | some (ns, n, sec) => ns == g.ns && n == g.name && !p.hasPort && (sec.isNone || sec == some l.name)
    | none => false
  if !refOK || dupParents r s || !(allowedKinds l).contains r.kind || !nsAllowed s g l r.ns then []
  else if r.hostnames.isEmpty then [hostOf l]
  else (r.hostnames.filterMap fun h => intersect (hostOf l) h)

/-! ### outcome -/

inductive Outcome
  | refused
  | closed
  | status (code : Nat)
  | redirect (code : Nat) (url : String)
  | proxy (proto : String) (dist : List (String × Nat × Nat)) (uri : String)   -- target, weight, total weight
  | passthrough (upstream : String)
  | outOfScope (why : String)
  deriving Repr, BEq, Inhabited

structure Request where
  port : Nat
  tls : Bool
  sni : String := ""
  host : String := ""
  path : String := "/"
  method : String := "GET"
  headers : List (String × String) := []
  query : List (String × String) := []
  deriving Repr, Inhabited

def Request.rawQuery (r : Request) : String := "&".intercalate (r.query.map fun kv => kv.1 ++ "=" ++ kv.2)
def Request.requestURI (r : Request) : String := if r.query.isEmpty then r.path else r.path ++ "?" ++ r.rawQuery

/-- a candidate: one match of one configured rule under one accepted hostname -/
structure Cand where
  host : String
  /-- hostname of the listener the candidate is attached through -/
  lhost : String
  exact : Bool
  path : String
  method : String
  headers : List (String × String)
  query : List (String × String)
  age : Int
  ns : String
  name : String
  ruleIdx : Nat
  matchIdx : Nat
  kind : String
  rule : Rule
  filtersOK : Bool
  deriving Repr

def candsOfMatch (kind : String) (m : Match) : (Bool × String × String × List (String × String) × List (String × String)) :=
  if kind == "GRPCRoute" then
    if m.hasGm then (true, "/" ++ m.service ++ "/" ++ m.gmethod, "", m.headers.map fun h => (h.name, h.value), [])
    else (false, "/", "", m.headers.map fun h => (h.name, h.value), [])
  else (m.ptype == "Exact", if m.pvalue == "" then "/" else m.pvalue, m.method,
        m.headers.map (fun h => (h.name, h.value)), m.query.map fun q => (q.name, q.value))

def enumFrom {α} : Nat → List α → List (Nat × α)
  | _, [] => []
  | i, x :: xs => (i, x) :: enumFrom (i + 1) xs

/-- only the first entry of equivalent header names (case-insensitive) counts -/
def dedupHeaders (hs : List (String × String)) : List (String × String) :=
  hs.foldl (fun acc h => if acc.any (fun a => a.1.toLower == h.1.toLower) then acc else acc ++ [h]) []

def routeCands (lhost host : String) (r : Route) : List Cand :=
  (enumFrom 0 r.rules).flatMap fun (i, rule) =>
    if !ruleMatchesOK r.kind rule then []
    else
      -- "If no matches are specified, the implementation MUST match every gRPC request" / default prefix "/"
      let ms : List Match := if rule.matches_.isEmpty
        then [{ ptype := "PathPrefix", pvalue := "/", method := "", headers := [], query := [], hasGm := false, gmType := "",
                hasService := false, service := "", hasGMethod := false, gmethod := "" }]
        else rule.matches_
      (enumFrom 0 ms).map fun (j, m) =>
        let (ex, p, me, hs, qs) := candsOfMatch r.kind m
        { host := host, lhost := lhost, exact := ex, path := p, method := me, headers := hs, query := qs, age := r.age, ns := r.ns,
          name := r.name, ruleIdx := i, matchIdx := j, kind := r.kind, rule := rule, filtersOK := ruleFiltersOK r.kind rule }

/-- all candidates served on `port` through HTTP(S) listeners -/
def portCands (s : Scenario) (g : Gateway) (port : Nat) : List Cand :=
  (validListeners s g).flatMap fun l =>
    if l.port != port || l.proto == "TLS" then []
    else s.routes.flatMap fun r =>
      if (r.kind == "HTTPRoute" || r.kind == "GRPCRoute") && routeAccepted r then
        (attachedHosts s g l r).flatMap fun h => routeCands (hostOf l) h r
      else []

/-- PathPrefix: "matching is done on a path element by element basis … a trailing `/` is ignored" -/
def prefixMatches (strictSlash : Bool) (p q : String) : Bool :=
  if p == "/" then q.startsWith "/"
  else if p.endsWith "/" then
    if strictSlash then q.startsWith p        -- reading in which `/p/` does not match `/p`
    else let p' := (p.dropEnd 1).toString; q == p' || q.startsWith p
  else q == p || q.startsWith (p ++ "/")

def pathMatches (strictSlash : Bool) (c : Cand) (q : String) : Bool :=
  if c.exact then q == c.path else prefixMatches strictSlash c.path q

def headerSatisfied (req : Request) (h : String × String) : Bool :=
  req.headers.any fun r => r.1.toLower == h.1.toLower && r.2 == h.2

def querySatisfied (req : Request) (q : String × String) : Bool :=
  -- "it is recommended that implementations match against the first value of the param"
  match req.query.find? (·.1 == q.1) with
  | some kv => kv.2 == q.2
  | none => false

def condsSatisfied (c : Cand) (req : Request) : Bool :=
  (c.method == "" || c.method == req.method) &&
  (dedupHeaders c.headers).all (headerSatisfied req) && c.query.all (querySatisfied req)

/-- precedence: does `a` beat `b`? (HTTPRouteRule.matches docs) -/
def beats (a b : Cand) : Bool :=
  if a.exact != b.exact then a.exact
  else if a.path.length != b.path.length then a.path.length > b.path.length
  else if (a.method != "") != (b.method != "") then a.method != ""
  else if a.headers.length != b.headers.length then a.headers.length > b.headers.length
  else if a.query.length != b.query.length then a.query.length > b.query.length
  else if a.age != b.age then a.age < b.age
  else if a.ns != b.ns then a.ns < b.ns
  else if a.name != b.name then a.name < b.name
  else if a.kind != b.kind then false       -- same ns/name, different kinds: the specification does not order them
  else if a.ruleIdx != b.ruleIdx then a.ruleIdx < b.ruleIdx
  else a.matchIdx < b.matchIdx

def best (cs : List Cand) : Option Cand :=
  cs.foldl (fun acc c => match acc with
    | none => some c
    | some b => if beats c b then some c else some b) none

/-- candidates that tie with the winner on everything the specification orders (HTTPRoute and GRPCRoute of the
same namespace/name and age) -/
def ambiguous (cs : List Cand) (w : Cand) : Bool :=
  cs.any fun c => c.kind != w.kind && !beats w c && !beats c w

/-! ### backends and filters -/

def backendTarget (s : Scenario) (r : Cand) (b : Backend) : String :=
  let ns := if b.hasNs then b.ns else r.ns
  let okRef := (b.group == "" || b.group == "core") && (b.kind == "Service" || b.kind == "") && b.nfilters == 0 && b.hasPort &&
    0 ≤ b.weight && b.weight ≤ 1000000 &&
    (ns == r.ns || refGranted s r.kind r.ns "Service" ns b.name)
  if !okRef then "!500"
  else match s.svcs.find? (fun v => v.ns == ns && v.name == b.name) with
    | none => "!500"
    | some v =>
      match v.ports.find? (·.port == b.port) with
      | none => "!500"
      | some p => if p.ready then ns ++ "_" ++ b.name ++ "_" ++ toString b.port else "!503"

def stripSlash (p : String) : String := if p.endsWith "/" then (p.dropEnd 1).toString else p

/-- ReplacePrefixMatch table of HTTPPathModifier -/
def replacePrefix (pfx repl path : String) : String :=
  let p' := stripSlash pfx
  let r' := stripSlash repl
  let rest := (path.drop p'.length).toString
  -- the request path is exactly the prefix: every row of the table gives the replacement as written ("" → "/")
  let out := if rest == "" then repl else r' ++ rest
  if out == "" then "/" else if out.startsWith "/" then out else "/" ++ out

def modifiedPath (f : Filter) (c : Cand) (path : String) : String :=
  if f.pathType == "ReplaceFullPath" then f.pathValue
  else if f.pathType == "ReplacePrefixMatch" then
    if c.exact then (if f.pathValue == "" then "/" else f.pathValue) else replacePrefix c.path f.pathValue path
  else path

def withQuery (p : String) (req : Request) : String := if req.query.isEmpty then p else p ++ "?" ++ req.rawQuery

def action (s : Scenario) (c : Cand) (req : Request) : Outcome :=
  if !c.filtersOK then .status 500
  else
    match c.rule.filters.find? (·.type == "RequestRedirect") with
    | some f =>
      let scheme := if f.scheme != "" then f.scheme else if req.tls then "https" else "http"
      let host := if f.hostname != "" then f.hostname else req.host
      -- "If no port is specified … the well-known port of the redirect scheme if it is set, else the listener port"
      let port : Nat := if f.hasPort then f.port else if f.scheme != "" then (if f.scheme == "https" then 443 else 80) else req.port
      let hp := if (scheme == "http" && port == 80) || (scheme == "https" && port == 443) then host else host ++ ":" ++ toString port
      .redirect (if f.code == 0 then 302 else f.code) (scheme ++ "://" ++ hp ++ withQuery (modifiedPath f c req.path) req)
    | none =>
      let proto := if c.kind == "GRPCRoute" then "grpc" else "http"
      let uri := match c.rule.filters.find? (·.type == "URLRewrite") with
        | some f => withQuery (modifiedPath f c req.path) req
        | none => req.requestURI
      let total : Int := c.rule.backends.foldl (fun a b => a + (if 0 ≤ b.weight && b.weight ≤ 1000000 then b.weight else 0)) 0
      if c.rule.backends.isEmpty || total == 0 then .proxy proto [("!500", 1, 1)] uri
      else .proxy proto (c.rule.backends.map fun b =>
        (backendTarget s c b, (if 0 ≤ b.weight && b.weight ≤ 1000000 then b.weight.toNat else 0), total.toNat)) uri

/-! ### the oracle -/

/-- variants of the reading, to classify a disagreement (only `strict` is the specification) -/
structure Reading where
  /-- `/p/` does not match the request path `/p` -/
  strictSlash : Bool := false
  /-- the most specific path is chosen before the conditions are looked at (no fallback to a less specific
  path whose conditions hold) -/
  pathFirst : Bool := false
  /-- hostname specificity is only a tie-breaker among all matching rules (alternative reading of §8) -/
  hostAsTiebreak : Bool := false
  /-- Listener Isolation (a SHOULD of Gateway.spec.listeners): only the routes of the listener with the most
  specific hostname covering the request host take part; `some hs` = the hostnames of the valid listeners of the port -/
  isolation : Option (List String) := none

def mostSpecificHost (hs : List String) : Option String :=
  hs.foldl (fun acc h => match acc with
    | none => some h
    | some b => if specificity h > specificity b then some h else some b) none

def pathKeyBeats (a b : Cand) : Bool :=
  if a.exact != b.exact then a.exact else a.path.length > b.path.length

def selectCand (rd : Reading) (cands : List Cand) (req : Request) : Option Cand × Bool :=
  let cands := match rd.isolation with
    | none => cands
    | some lhosts =>
      match mostSpecificHost (lhosts.filter fun h => covers h req.host) with
      | some lh => cands.filter (·.lhost == lh)
      | none => []
  let covering := cands.filter fun c => covers c.host req.host
  let pool :=
    if rd.hostAsTiebreak then covering
    else match mostSpecificHost (covering.map (·.host)) with
      | some h => covering.filter (·.host == h)
      | none => []
  let pathOK := pool.filter fun c => pathMatches rd.strictSlash c req.path
  let pool2 :=
    if rd.pathFirst then
      match pathOK.foldl (fun (acc : Option Cand) c => match acc with
          | none => some c
          | some b => if pathKeyBeats c b then some c else some b) none with
      | some w => pathOK.filter fun c => c.exact == w.exact && c.path == w.path
      | none => []
    else pathOK
  let sat := pool2.filter fun c => condsSatisfied c req
  let sat := if rd.hostAsTiebreak then
      match mostSpecificHost (sat.map (·.host)) with
      | some h => sat.filter (·.host == h)
      | none => []
    else sat
  match best sat with
  | some w => (some w, ambiguous sat w)
  | none => (none, false)

structure Verdict where
  outcome : Outcome
  /-- the specification does not decide (tie between an HTTPRoute and a GRPCRoute of the same name and age) -/
  ambiguous : Bool := false
  /-- other outcomes the specification equally allows -/
  alt : List Outcome := []

def tlsBackendOutcome (s : Scenario) (r : Route) : Outcome :=
  match r.rules with
  | [rule] =>
    match rule.backends with
    | [b] =>
      let c : Cand := { host := "", lhost := "", exact := false, path := "/", method := "", headers := [], query := [], age := r.age, ns := r.ns,
                        name := r.name, ruleIdx := 0, matchIdx := 0, kind := "TLSRoute", rule := rule, filtersOK := true }
      let t := backendTarget s c b
      if t.startsWith "!" then .closed else .passthrough t
    | _ => .closed
  | _ => .closed

/-- TLSRoute hostnames claimed on (port): older routes first; a hostname already claimed on the port is skipped -/
def tlsClaims (s : Scenario) (g : Gateway) (port : Nat) : List (String × Route × String) :=
  let routes := (s.routes.filter fun r => r.kind == "TLSRoute" && tlsRouteAccepted r).mergeSort
    fun a b => !olderKey b.age b.ns b.name a.age a.ns a.name
  -- listeners from the most specific hostname to the least specific
  let ls := ((validListeners s g).filter fun l => l.proto == "TLS" && l.port == port).mergeSort
    fun a b => specificity (hostOf a) ≥ specificity (hostOf b)
  routes.foldl (fun acc r =>
    ls.foldl (fun acc l =>
      (attachedHosts s g l r).foldl (fun acc h => if acc.any (·.1 == h) then acc else acc ++ [(h, r, hostOf l)]) acc) acc) []

def route (rd : Reading) (s : Scenario) (req : Request) : Verdict :=
  if !classOurs s then ⟨.refused, false, []⟩
  else match winner s with
    | none => ⟨.refused, false, []⟩
    | some g =>
      if g.addresses != 0 then ⟨.refused, false, []⟩
      else
        let ls := (validListeners s g).filter (·.port == req.port)
        if ls.isEmpty then ⟨.refused, false, []⟩
        else if ls.any (fun l => l.proto == "TLS") && s.protectedPorts.contains req.port then
          ⟨.outOfScope "TLS listener on a protected port (listener validation is C16's subject)", false, []⟩
        else
          let secureP := ls.any fun l => secure l.proto
          if secureP != req.tls then ⟨.outOfScope "protocol mismatch probe", false, []⟩
          else
            let httpWith (rd : Reading) : Outcome :=
              match selectCand rd (portCands s g req.port) req with
              | (some c, _) => action s c req
              | (none, _) => .status 404
            -- Listener Isolation is a SHOULD: the isolated outcome is equally allowed
            let isolated := httpWith { rd with isolation := some ((ls.filter fun l => l.proto != "TLS").map hostOf) }
            let http : Verdict :=
              let cands := portCands s g req.port
              match selectCand rd cands req with
              | (some c, amb) => ⟨action s c req, amb, [isolated]⟩
              | (none, _) => ⟨.status 404, false, [isolated]⟩
            if !req.tls then http
            else
              -- passthrough listeners whose hostname covers the SNI take the connection
              let tlsLs := ls.filter fun l => l.proto == "TLS" && covers (hostOf l) req.sni
              if !tlsLs.isEmpty then
                let pick (claims : List (String × Route × String)) : Outcome :=
                  match mostSpecificHost (claims.map (·.1)) with
                  | some h =>
                    match claims.find? (·.1 == h) with
                    | some c => tlsBackendOutcome s c.2.1
                    | none => .closed
                  | none => .closed
                let claims := (tlsClaims s g req.port).filter fun c => covers c.1 req.sni
                -- Listener Isolation (SHOULD): only the claims made through the most specific covering listener
                let isolated := match mostSpecificHost (tlsLs.map hostOf) with
                  | some lh => pick (claims.filter fun c => c.2.2 == lh)
                  | none => .closed
                ⟨pick claims, false, [isolated]⟩
              else
                let httpsLs := ls.filter fun l => l.proto == "HTTPS" && covers (hostOf l) req.sni
                -- (N5) a client that sends no SNI is not served
                if httpsLs.isEmpty || req.sni == "" then ⟨.closed, false, []⟩
                else if req.sni != req.host then
                  -- "the Listener Hostname SHOULD match at both the TLS and HTTP protocol layers": 421; when the Host
                  -- header selects nothing anyway, 404 says the same
                  ⟨.status 421, false, if http.outcome == .status 404 then [.status 404] else []⟩
                else http

def strict : Reading := {}

end NGF.Spec.GatewayAPI
