/-
C09 — the CALLER side of `LeaderAwareGroupUpdater`: the status-updater call sites of
`internal/mode/static/handler.go`, and Go slice aliasing between the handler and the updater.

`UpdateGroup` keeps the variadic slice it is given (`u.groupReqs[name] = reqs`, no copy): what is saved
while the replica is not the leader is a slice HEADER, and the requests are read from the backing
array only when `Enable` flushes.  Whether the flush writes "the requests computed by the last call for
the group" therefore depends on the caller: on where each call site builds the slice it passes.

Two semantics of the same histories are defined here.

* value level  (`runV`):  every call passes a request LIST; this is `run init` of `Model/Leader.lean`.
* reference level (`runR d`):  a flat memory of request cells; every call builds a slice (a list of cell
  addresses) according to a discipline `d`, passes the HEADER to the very same state machine
  (`step` of `Model/Leader.lean`, now over address lists), and the cells are read when the updater
  writes.  `allFresh` = every call site allocates its slice per call (the Go code: `make`/`var` locals,
  `Prepare*Requests` results; pinned by regenerated facts).  `scratchShared` = `updateStatuses` and
  `updateControlPlaneAndSetStatus` assemble their requests in one reusable buffer field of the handler
  (`newStatusReqs(capacity)`: reallocate when the capacity is too small, else `buf[:0]`).

A request VALUE is a `Req` (a natural number): in the correspondence stream it is the index of an
interned `(kind, namespace, name, payload)` tuple (`SReq`), so two requests for resources of different
kinds that share namespace/name are different requests.
-/
import NGF.Model.Leader
namespace NGF.Leader

/-! ### the handler's call sites -/

/-- group ids = positions in `Generated.Leader.groupNames` -/
def gAll : Group := 0        -- groupAllExceptGateways
def gGateways : Group := 1   -- groupGateways
def gControl : Group := 2    -- groupControlPlane

/-- What the event handler does to the status updater, with the request lists computed AT THE TIME OF
THE CALL (fresh values). -/
inductive HEv
  /-- `HandleEventBatch` whose `Process()` reports a ClusterStateChange or an EndpointsOnlyChange:
  `updateStatuses` submits `groupAllExceptGateways` and then `groupGateways`. -/
  | graph (all gw : List Req)
  /-- `HandleEventBatch` with `state.NoChange`: returns before `updateStatuses`. -/
  | noChange
  /-- upsert / delete of the controller's NginxGateway object (objectFilters):
  `updateControlPlaneAndSetStatus` submits `groupControlPlane` (0 or 1 request). -/
  | control (cp : List Req)
  /-- upsert / delete of the NGF-fronting Service while a graph exists:
  `nginxGatewayService{Upsert,Delete}` submit `groupGateways`. -/
  | frontSvc (gw : List Req)
  /-- the replica was elected: `EnableAfterBecameLeader.Start` calls `Enable`. -/
  | enable (order : List Group)
  deriving DecidableEq, Repr

/-- the operations an event performs on the updater, in order (value level) -/
def HEv.ops : HEv → List Op
  | .graph all gw => [.update gAll all, .update gGateways gw]
  | .noChange => []
  | .control cp => [.update gControl cp]
  | .frontSvc gw => [.update gGateways gw]
  | .enable o => [.enable o]

def opsOf : List HEv → List Op
  | [] => []
  | e :: evs => e.ops ++ opsOf evs

/-- value-level semantics: one output per `UpdateGroup` / `Enable` call -/
def runV (evs : List HEv) : List Out := run init (opsOf evs)

/-- The value passed by the LAST call for group `g` (none: the group was never submitted). -/
def lastSub (g : Group) : List Op → Option (List Req)
  | [] => none
  | .update g' r :: ops =>
    match lastSub g ops with
    | some x => some x
    | none => if g' = g then some r else none
  | .enable _ :: ops => lastSub g ops

def lastCall (g : Group) (evs : List HEv) : Option (List Req) := lastSub g (opsOf evs)

/-- the groups an event submits -/
def HEv.groups (e : HEv) : List Group :=
  e.ops.filterMap fun | .update g _ => some g | .enable _ => none

/-! ### reference level: slices over a flat memory -/

/-- memory of request cells; an address is an index -/
abbrev Mem := List Req

/-- the slice header `[base, base+n)` as the list of the addresses of its elements -/
def cellsAt (base : Nat) : Nat → List Nat
  | 0 => []
  | n + 1 => base :: cellsAt (base + 1) n

/-- read the elements of a slice -/
def deref (m : Mem) (ps : List Nat) : List Req := ps.filterMap fun a => m[a]?

def derefWrites (m : Mem) (ws : List Write) : List Write := ws.map fun w => (w.1, deref m w.2)

/-- `Updater.Update(ctx, reqs...)` ranges over the slice when it is called -/
def derefOut (m : Mem) : Out → Out
  | .writes ws => .writes (derefWrites m ws)
  | .panic => .panic

/-- `append(buf[:0], vals...)` within capacity: the first cells of the array are overwritten -/
def writeAt (m : Mem) (base : Nat) (vals : List Req) : Mem :=
  m.take base ++ vals ++ m.drop (base + vals.length)

structure HState where
  mem : Mem
  /-- the reusable scratch buffer of the VARIANT handler: (base address, capacity); (0, 0) = nil -/
  buf : Nat × Nat
  /-- the updater: the state machine of `Model/Leader.lean` over slice headers -/
  upd : LState
  deriving DecidableEq, Repr

def hinit : HState := { mem := [], buf := (0, 0), upd := init }

/-- which call sites (by group) assemble their argument in the handler's scratch buffer -/
abbrev Disc := Group → Bool

/-- the Go code: every call site builds a new slice per call -/
def allFresh : Disc := fun _ => false

/-- the variant: `updateStatuses` (all-except-gateways) and `updateControlPlaneAndSetStatus` share one
buffer; the gateway requests are the result of `PrepareGatewayRequests` -/
def scratchShared : Disc := fun g => g == gAll || g == gControl

/-- capacity the variant's call site asks for: `newStatusReqs(len(...)+…)` resp. `newStatusReqs(1)` -/
def capFor (g : Group) (vals : List Req) : Nat := if g = gControl then 1 else vals.length

/-- Build the argument slice of one call: new memory, new buffer field, slice header. -/
def mkSlice (d : Disc) (s : HState) (g : Group) (vals : List Req) : Mem × (Nat × Nat) × List Nat :=
  if d g then
    -- newStatusReqs(capacity): reallocate when too small, else reuse the backing array from index 0
    let need := capFor g vals
    let (base, cap, m1) :=
      if s.buf.2 < need then (s.mem.length, need, s.mem ++ List.replicate need 0)
      else (s.buf.1, s.buf.2, s.mem)
    if vals.length ≤ cap then (writeAt m1 base vals, (base, cap), cellsAt base vals.length)
    else (m1 ++ vals, (base, cap), cellsAt m1.length vals.length)   -- `append` past the capacity reallocates
  else
    (s.mem ++ vals, s.buf, cellsAt s.mem.length vals.length)

/-- one call of the handler into the updater (`.update g vals`: `vals` computed now), or `Enable` -/
def hstep (d : Disc) (s : HState) : Op → HState × Out
  | .update g vals =>
    let sl := mkSlice d s g vals
    let r := step s.upd (.update g sl.2.2)
    ({ mem := sl.1, buf := sl.2.1, upd := r.1 }, derefOut sl.1 r.2)
  | .enable o =>
    let r := step s.upd (.enable o)
    ({ s with upd := r.1 }, derefOut s.mem r.2)

def hrun (d : Disc) (s : HState) : List Op → List Out
  | [] => []
  | op :: ops => (hstep d s op).2 :: hrun d (hstep d s op).1 ops

/-- reference-level semantics of a handler history -/
def runR (d : Disc) (evs : List HEv) : List Out := hrun d hinit (opsOf evs)

/-! ### requests are keyed by (kind, namespace, name) -/

/-- an interned request value: `UpdateRequest{ResourceType, NsName, Setter}` with the setter reduced to the
status it sets (conditions by type/status/reason, addresses) -/
structure SReq where
  kind    : Nat
  ns      : Nat
  name    : Nat
  payload : Nat
  deriving DecidableEq, Repr

def SReq.key (r : SReq) : Nat × Nat × Nat := (r.kind, r.ns, r.name)
def SReq.nsName (r : SReq) : Nat × Nat := (r.ns, r.name)

/-- the resources a list of interned request values addresses (`tbl` = the intern table, id = index) -/
def resources (tbl : List SReq) (ids : List Req) : List SReq := ids.filterMap fun i => tbl[i]?

/-- the variant of `Updater.Update` inside the flush that skips a request whose NsName (not kind) was
already written: only used for the witness `flush_dedup_by_nsname_false` -/
def dedupNsName : List (Nat × Nat) → List SReq → List SReq
  | _, [] => []
  | seen, r :: rs =>
    if seen.contains r.nsName then dedupNsName seen rs else r :: dedupNsName (r.nsName :: seen) rs

end NGF.Leader
