/-
C10 — the producer side of the event loop and the start-up batch.

* `internal/framework/controller/reconciler.go` (`Reconciler.Reconcile`): one controller = one worker
  that takes reconcile requests from its queue one at a time.  `Reconcile` filters the name, Gets the
  object (found → `UpsertEvent`, NotFound → `DeleteEvent`, any other error → return the error) and then
  parks in `select { case <-ctx.Done(): return nil; case r.cfg.EventCh <- e: }` where `ctx` is the
  context it was CALLED with (the manager's): it never gives up on its own.  The send on the unbuffered
  channel completes exactly when the loop takes its `e := <-el.eventCh` arm, so delivery is ONE joint
  step of `Sys` below (`deliver i` = reconciler `i`'s send arm + `Loop.step … (.recv e)`).
* `internal/framework/events/first_eventbatch_preparer.go` (`FirstEventBatchPreparerImpl.Prepare`):
  list every list (any error aborts), Get every individually-fetched object (NotFound → skipped, any
  other error aborts), then one `UpsertEvent` per fetched object followed by one per list item.

`Sys` composes reconcilers with `NGF.Loop.Loop`; the parameter `deadline` of `enabled` is the variant
"the context of the final select is a derived timeout context" (false = the code as it is).
-/
import NGF.Model.Loop

namespace NGF.Delivery
open NGF.Loop

/-! ### Events -/

/-- `UpsertEvent` / `DeleteEvent` of object `id`, as the loop's opaque `Ev`. -/
def upsert (id : Nat) : Ev := 2 * id
def delete (id : Nat) : Ev := 2 * id + 1

/-- Result of `Getter.Get` / `reader.Get`. -/
inductive GetRes | found | notFound | error
  deriving DecidableEq, Repr

/-! ### `Reconciler.Reconcile` -/

/-- One reconcile request together with what the world answers while it runs. -/
structure Req where
  id   : Nat
  pass : Bool      -- `NamespacedNameFilter` absent or lets the name through
  get  : GetRes
  deriving DecidableEq, Repr

/-- The part of `Reconcile` before the final `select`. -/
inductive Pre
  | skip             -- filtered out: `return reconcile.Result{}, nil`, no event
  | fail             -- Get failed with an error other than NotFound: `return reconcile.Result{}, err`
  | offer (e : Ev)   -- an event was built and is offered to the channel
  deriving DecidableEq, Repr

def Req.pre (r : Req) : Pre :=
  if !r.pass then .skip
  else match r.get with
    | .error    => .fail
    | .notFound => .offer (delete r.id)
    | .found    => .offer (upsert r.id)

/-- The event a request must result in (none for filtered names and failed Gets). -/
def Req.ev (r : Req) : Option Ev :=
  match r.pre with
  | .offer e => some e
  | _ => none

/-- One controller worker. -/
structure Rec where
  todo     : List Req            -- requests not yet started, in queue order
  offering : Option Ev           -- parked in the final select with this event
  hist     : List (Ev × Bool)    -- ghost: events whose Reconcile returned nil; true = taken by the loop,
                                 --        false = dropped at the `<-ctx.Done()` arm
  failed   : List Nat            -- ghost: ids whose Reconcile returned an error (controller-runtime requeues)
  skipped  : List Nat            -- ghost: ids filtered out
  deriving Repr

def Rec.delivered (r : Rec) : List Ev := (r.hist.filter (·.2)).map (·.1)
def Rec.dropped (r : Rec) : List Ev := (r.hist.filter (fun x => !x.2)).map (·.1)
def Rec.pending (r : Rec) : List Ev := r.todo.filterMap Req.ev
def Rec.quiet (r : Rec) : Bool := r.todo.isEmpty && r.offering.isNone

def Rec.init (q : List Req) : Rec :=
  { todo := q, offering := none, hist := [], failed := [], skipped := [] }

/-- The worker dequeues the next request and runs `Reconcile` up to the `select`. -/
def Rec.begin (r : Rec) : Rec :=
  match r.todo with
  | [] => r
  | q :: t =>
    match q.pre with
    | .skip    => { r with todo := t, skipped := r.skipped ++ [q.id] }
    | .fail    => { r with todo := t, failed := r.failed ++ [q.id] }
    | .offer e => { r with todo := t, offering := some e }

/-- The `select` completes: `taken = true` the send arm, `false` the `<-ctx.Done()` arm. -/
def Rec.finish (r : Rec) (taken : Bool) : Rec :=
  match r.offering with
  | none => r
  | some e => { r with offering := none, hist := r.hist ++ [(e, taken)] }

/-! ### Reconcilers ∥ loop -/

structure Sys where
  loop    : Loop
  recs    : List Rec
  ctxDone : Bool               -- the manager's context (shared by the loop and every Reconcile call) is cancelled
  seenBy  : List (Nat × Ev)    -- ghost: who delivered each received event, oldest first
  deriving Repr

inductive SAct
  | begin (i : Nat)      -- worker i starts its next Reconcile
  | deliver (i : Nat)    -- rendezvous on eventCh between reconciler i and the loop
  | giveup (i : Nat)     -- reconciler i takes the `<-ctx.Done()` arm of its select
  | cancelCtx            -- the manager's context is cancelled
  | loop (a : Act)       -- handler return / ack / loop notices cancellation / drain ack
  deriving DecidableEq, Repr

def updAt : List Rec → Nat → (Rec → Rec) → List Rec
  | [], _, _ => []
  | r :: t, 0, f => f r :: t
  | r :: t, n + 1, f => r :: updAt t n f

def Sys.init (first : List Ev) (qs : List (List Req)) : Sys :=
  { loop := Loop.init first, recs := qs.map Rec.init, ctxDone := false, seenBy := [] }

def Sys.offering (s : Sys) (i : Nat) : Option Ev :=
  match s.recs[i]? with
  | some r => r.offering
  | none => none

/-- `deadline = false`: the code as it is (the select watches the caller's context only).
`deadline = true`: the refuted variant where a timer may fire in the select at any moment. -/
def enabled (deadline : Bool) (s : Sys) : SAct → Bool
  | .begin i =>
      match s.recs[i]? with
      | some r => r.offering.isNone && !r.todo.isEmpty
      | none => false
  | .deliver i => (s.offering i).isSome && s.loop.phase == .select
  | .giveup i => (s.offering i).isSome && (s.ctxDone || deadline)
  | .cancelCtx => !s.ctxDone
  | .loop (.recv _) => false                       -- events only enter through `deliver`
  | .loop .cancel => s.ctxDone && Loop.enabled s.loop .cancel
  | .loop a => Loop.enabled s.loop a

def step (s : Sys) : SAct → Sys
  | .begin i => { s with recs := updAt s.recs i Rec.begin }
  | .deliver i =>
      match s.offering i with
      | none => s
      | some e =>
        { s with loop := Loop.step s.loop (.recv e),
                 recs := updAt s.recs i (·.finish true),
                 seenBy := s.seenBy ++ [(i, e)] }
  | .giveup i => { s with recs := updAt s.recs i (·.finish false) }
  | .cancelCtx => { s with ctxDone := true }
  | .loop a => { s with loop := Loop.step s.loop a }

/-- Run a schedule, skipping actions that are not enabled; also count them. -/
def runCount (deadline : Bool) (s : Sys) (n : Nat) : List SAct → Sys × Nat
  | [] => (s, n)
  | a :: as =>
    if enabled deadline s a then runCount deadline (step s a) n as else runCount deadline s (n + 1) as

def run (deadline : Bool) (s : Sys) (as : List SAct) : Sys := (runCount deadline s 0 as).1

/-- `d<i>:<ev>` carries the event the real loop received from reconciler i: it is a legal step only if
that is the event the model has reconciler i parked with. -/
inductive DOp | act (a : SAct) | deliverEv (i : Nat) (e : Ev)

/-- `runCount false`, with the extra check on the delivered event. -/
def runOps (s : Sys) (n : Nat) : List DOp → Sys × Nat
  | [] => (s, n)
  | .act a :: t => if enabled false s a then runOps (step s a) n t else runOps s (n + 1) t
  | .deliverEv i e :: t =>
    if enabled false s (.deliver i) && s.offering i == some e then runOps (step s (.deliver i)) n t
    else runOps s (n + 1) t

/-- What reconciler `i` got into the loop, in order. -/
def Sys.seenFrom (s : Sys) (i : Nat) : List Ev := (s.seenBy.filter (·.1 == i)).map (·.2)

def Sys.quiet (s : Sys) : Bool := s.recs.all Rec.quiet

/-- A schedule that drains every reconciler: each round starts and delivers one request per worker. -/
def drainRound : Nat → List SAct
  | 0 => []
  | n + 1 => drainRound n ++ [.begin n, .deliver n]

def drainSchedule (workers rounds : Nat) : List SAct :=
  (List.replicate rounds (drainRound workers)).flatten

/-! ### `FirstEventBatchPreparerImpl.Prepare` -/

/-- Result of `reader.List` on one of `objectLists`. -/
inductive ListRes
  | ok (items : List Nat)
  | error
  deriving DecidableEq, Repr

/-- First loop: `reader.List` every list; the first error aborts. -/
def listAll : List ListRes → Option (List Nat)
  | [] => some []
  | .error :: _ => none
  | .ok items :: t => (listAll t).map (items ++ ·)

/-- Second loop: Get every object of `p.objects`; NotFound is skipped, any other error aborts. -/
def getAll : List (Nat × GetRes) → Option (List Nat)
  | [] => some []
  | (id, .found) :: t => (getAll t).map (id :: ·)
  | (_, .notFound) :: t => getAll t
  | (_, .error) :: _ => none

/-- `Prepare`: `none` = `return nil, err`. -/
def prepare (objs : List (Nat × GetRes)) (lists : List ListRes) : Option (List Ev) :=
  match listAll lists with
  | none => none
  | some items =>
    match getAll objs with
    | none => none
    | some os => some ((os ++ items).map upsert)

/-- The reader calls `Prepare` makes, in order: `2*j+1` = List of list `j`, `2*id` = Get of object `id`. -/
def listCalls : Nat → List ListRes → List Nat × Bool
  | _, [] => ([], true)
  | j, .error :: _ => ([2 * j + 1], false)
  | j, .ok _ :: t => let (c, ok) := listCalls (j + 1) t; ((2 * j + 1) :: c, ok)

def getCalls : List (Nat × GetRes) → List Nat
  | [] => []
  | (id, .error) :: _ => [2 * id]
  | (id, _) :: t => (2 * id) :: getCalls t

def prepareCalls (objs : List (Nat × GetRes)) (lists : List ListRes) : List Nat :=
  let (c, ok) := listCalls 0 lists
  if ok then c ++ getCalls objs else c

/-- What exists in the cluster at start-up among the things `Prepare` is configured to read. -/
def present (objs : List (Nat × GetRes)) : List Nat :=
  objs.filterMap fun o => if o.2 = .found then some o.1 else none

def items : List ListRes → List Nat
  | [] => []
  | .ok l :: t => l ++ items t
  | .error :: t => items t

def readFails (objs : List (Nat × GetRes)) (lists : List ListRes) : Bool :=
  lists.any (· == .error) || objs.any (·.2 == .error)

/-- The property of a start-up batch (decidable; the judge runs it on the real output): exactly one
`UpsertEvent` for every present individually-fetched object and for every list item, nothing else. -/
def firstBatchComplete (objs : List (Nat × GetRes)) (lists : List ListRes) (b : List Ev) : Bool :=
  (present objs ++ items lists).all (fun id => b.count (upsert id) == (present objs ++ items lists).count id) &&
  b.all (fun e => (present objs ++ items lists).any (fun id => e == upsert id))

/-- Refuted variant: the per-object loop leaves at the first missing object (`break`). -/
def getAllBreak : List (Nat × GetRes) → Option (List Nat)
  | [] => some []
  | (id, .found) :: t => (getAllBreak t).map (id :: ·)
  | (_, .notFound) :: _ => some []
  | (_, .error) :: _ => none

def prepareBreak (objs : List (Nat × GetRes)) (lists : List ListRes) : Option (List Ev) :=
  match listAll lists with
  | none => none
  | some items =>
    match getAllBreak objs with
    | none => none
    | some os => some ((os ++ items).map upsert)

/-- `EventLoop.Start` up to the loop: `Prepare`, then the first batch is handed to the handler. -/
def startup (objs : List (Nat × GetRes)) (lists : List ListRes) : Option Loop :=
  (prepare objs lists).map Loop.init

end NGF.Delivery
