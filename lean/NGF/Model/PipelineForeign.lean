/-
C17 on the pipeline model with references (`genR = gen ∘ resolve`, Model/Pipeline.lean + Model/PipelineRefs.lean):
vocabulary of the SET form of foreign non-interference — a set X of foreign objects (`XSet`), `c ∪ X` (`ext`, `Mixed`),
what makes X foreign to `c` (`Foreign`, executable `foreignB`), and the executable form of all hypotheses of
`noninterference_foreign_set` (`hypsB`), which the driver (`ngfdriver_C17 fragx`) evaluates on the generated pairs.
Core Lean only. Theorems: NGF/Props/C17.lean §Pipeline (helpers NGF/Proofs/PipelineForeign.lean).
-/
import NGF.Model.PipelineRefs

namespace NGF.PipelineForeign
open NGF.Pipeline NGF.PipelineRefs
open NGF.RefGrant (Grant BackendRef)

/-! ### §1 vocabulary -/

/-- a set of objects added to a cluster -/
structure XSet where
  classes : List GwClass := []
  gateways : List Gateway := []
  routes : List RouteR := []
  services : List Service := []
  grants : List Grant := []

/-- `c ∪ X`, the objects of X arriving last -/
def ext (c : ScenarioR) (x : XSet) : ScenarioR :=
  { cls := c.cls, ctlr := c.ctlr, classes := c.classes ++ x.classes, gateways := c.gateways ++ x.gateways,
    routes := c.routes ++ x.routes, services := c.services ++ x.services, grants := c.grants ++ x.grants }

/-- `c'` holds exactly the objects of `c` and of `X`, in ANY order (every interleaving, per kind) -/
structure Mixed (c : ScenarioR) (x : XSet) (c' : ScenarioR) : Prop where
  cls : c'.cls = c.cls
  ctlr : c'.ctlr = c.ctlr
  classes : (c.classes ++ x.classes).Perm c'.classes
  gateways : (c.gateways ++ x.gateways).Perm c'.gateways
  routes : (c.routes ++ x.routes).Perm c'.routes
  services : (c.services ++ x.services).Perm c'.services
  grants : (c.grants ++ x.grants).Perm c'.grants

/-- the route is in the graph on behalf of the served Gateway: valid, with a parentRef naming it (whatever the section) -/
def inGraph (g : Gateway) (r : RouteR) : Bool := r.valid && belongsTo g r

/-- the backendRefs of a route -/
def refsOf (r : RouteR) : List BackendRef :=
  r.rules.flatMap fun ru => match ru.action with | .forward refs => refs | .redirect .. => []

/-- the ReferenceGrant permits nothing that this backendRef (of an HTTPRoute in `routeNs`) needs -/
def grantSilent (gr : Grant) (routeNs : String) (ref : BackendRef) : Bool :=
  !RefGrant.refAllowed (RefGrant.grantKeys gr) (RefGrant.toService (RefGrant.refNs ref routeNs) ref.name)
    (RefGrant.fromHTTPRoute routeNs)

/-- **X is foreign to `c`**: GatewayClasses of other names; Gateways of other classes; Routes attached to no listener of
the served Gateway (every parentRef names another / an unknown Gateway or an unknown section, or the namespace is not
allowed, or the route is invalid …: `attached g r = false`); Services that no backendRef of a route of ours names;
ReferenceGrants that permit no backendRef of a route of ours. -/
structure Foreign (c : ScenarioR) (x : XSet) : Prop where
  classes : ∀ y ∈ x.classes, (y.name == c.cls) = false
  gateways : ∀ y ∈ x.gateways, (y.cls == c.cls) = false
  routes : ∀ g, winner (resolve c) = some g → ∀ r ∈ x.routes, attached g r = false
  services : ∀ g, winner (resolve c) = some g → ∀ r ∈ c.routes, inGraph g r = true → ∀ ref ∈ refsOf r,
    ∀ s ∈ x.services, ¬ (s.ns = RefGrant.refNs ref r.ns ∧ s.name = ref.name)
  grants : ∀ g, winner (resolve c) = some g → ∀ r ∈ c.routes, inGraph g r = true → ∀ ref ∈ refsOf r,
    ∀ gr ∈ x.grants, grantSilent gr r.ns ref = true

/-- executable form of `Foreign` (what the driver evaluates on the generated foreign sets) -/
def foreignB (c : ScenarioR) (x : XSet) : Bool :=
  x.classes.all (fun y => !(y.name == c.cls)) && x.gateways.all (fun y => !(y.cls == c.cls)) &&
  match winner (resolve c) with
  | none => true
  | some g =>
    x.routes.all (fun r => !attached g r) &&
    c.routes.all fun r => !inGraph g r || (refsOf r).all fun ref =>
      x.services.all (fun s => !(s.ns == RefGrant.refNs ref r.ns && s.name == ref.name)) &&
      x.grants.all (fun gr => grantSilent gr r.ns ref)

/-- Kubernetes: one Service per (namespace, name) -/
def SvcKeysNodup (svcs : List Service) : Prop := (svcs.map fun s => (s.ns, s.name)).Nodup


/-! ### executable hypotheses -/

/-- `c'` = the objects of `c` and of `X`, in some order -/
def mixedB (c : ScenarioR) (x : XSet) (c' : ScenarioR) : Bool :=
  c'.cls == c.cls && c'.ctlr == c.ctlr && (c.classes ++ x.classes).isPerm c'.classes &&
  (c.gateways ++ x.gateways).isPerm c'.gateways && (c.routes ++ x.routes).isPerm c'.routes &&
  (c.services ++ x.services).isPerm c'.services && (c.grants ++ x.grants).isPerm c'.grants

/-- Kubernetes key uniqueness in `c'` and no empty match path in `c` -/
def keysB (c c' : ScenarioR) : Bool :=
  nodup (c'.gateways.map fun g => (g.ns, g.name)) && nodup ((resolve c').routes.map fun r => (r.ns, r.name)) &&
  nodup (c'.services.map fun s => (s.ns, s.name)) &&
  c.routes.all fun r => r.rules.all fun ru => ru.ms.all fun m => !m.path.isEmpty

/-- all hypotheses of `noninterference_foreign_set` -/
def hypsB (c : ScenarioR) (x : XSet) (c' : ScenarioR) : Bool := mixedB c x c' && foreignB c x && keysB c c'

/-- the objects of `c'` that are not objects of `c` (by key): the candidate foreign set of a pair of clusters -/
def diffX (c c' : ScenarioR) : XSet :=
  { classes := c'.classes.filter fun y => !c.classes.any (·.name == y.name)
    gateways := c'.gateways.filter fun y => !c.gateways.any fun g => g.ns == y.ns && g.name == y.name
    routes := c'.routes.filter fun y => !c.routes.any fun r => r.ns == y.ns && r.name == y.name
    services := c'.services.filter fun y => !c.services.any fun s => s.ns == y.ns && s.name == y.name
    grants := c'.grants.filter fun y => !c.grants.any fun g => g.ns == y.ns && g.name == y.name }

end NGF.PipelineForeign
