/-
C16 — the judge: the PROPERTY evaluated on the files the real generator produced and on the input
objects (core Lean only). It does not use the model functions of `TlsBind` except the data types and
the PEM layout; ownership, usability of a certificate reference, policy selection and policy validity
are stated here independently, as the property reads them:

 A  every `server` with `listen … ssl` that is not the rejecting default has a `server_name h`, and
    `ssl_certificate`/`ssl_certificate_key` name a secret-typed file of the same file set whose bytes are
    cert ++ "\n" ++ key of the Secret referenced by the OWNER of h on that port = the usable HTTPS listener
    of the Gateway on that port with the most specific hostname covering h;
 B  every `ssl_keypair_*` file belongs to the Secret of some usable listener (a listener whose reference
    is missing / malformed / wrong type / not permitted / not a Secret contributes no key material), and a
    hostname covered by no usable listener has no certificate-bearing server (part of A: `no_owner`);
 C  every port with SSL servers has exactly one `default_server` that rejects the handshake and carries
    no certificate;
 D  (a Service targeted by a BackendTLSPolicy is reached over verified TLS or not at all — also when the policy is
    ignored because its ancestor status list is full)
    for every location that proxies: the Services it actually routes to (upstreams named by proxy_pass /
    split_clients, `invalid-backend-ref` excluded) agree on their TLS policy (the policy selected for a
    Service = oldest, then smallest namespace/name, of the BackendTLSPolicies of its namespace targeting
    it); none of them has an invalid selected policy; and if they share a valid policy the location has
    scheme https/grpcs, `*_ssl_verify on`, `*_ssl_name` = policy hostname, `*_ssl_trusted_certificate` =
    a file whose bytes are the referenced ConfigMap's ca.crt (or the system bundle path for wellKnown).
-/
import NGF.Model.NginxParse
import NGF.Model.TlsBind

namespace NGF.TlsJudge
open NGF.Nginx
open NGF.Tls (Host Name Bytes SecretObj Grant CMObj BTP CARef)

structure JListener where
  name : Name
  port : Nat
  proto : Name
  host : Host
  nrefs : Nat
  refKind : Name      -- [] = nil
  refGroup : Name     -- [] = nil or empty
  refNS : Name
  refName : Name
  otherInvalid : Bool -- the real graph reports a problem that is not about the certificate reference
  accepted : List Host -- hostnames of the routes the real graph attached to this listener (used ONLY to classify
                       -- a failure of clause A into the known input class, never to pass a case)
  deriving Repr

structure JService where
  ns : Name
  name : Name
  ports : List Nat
  deriving Repr

structure JFile where
  path : List Char
  type : Nat            -- 0 regular, 1 secret
  content : Bytes
  deriving Repr

structure JIn where
  gwNs : Name
  listeners : List JListener
  secrets : List SecretObj
  grants : List Grant
  services : List JService
  cms : List CMObj
  btps : List BTP
  groups : List (List Char × List (List Char))
    -- backend groups of the real dataplane.Configuration: NGINX variable name → upstream names of ALL backends
    -- (zero-weight ones are commented out in split_clients). Used ONLY to classify a failure of clause D into a
    -- known input class, never to pass a case.
  deriving Repr

structure Fail where
  signature : String
  detail : String
  deriving Repr

def str (s : String) : List Char := s.toList
def show' (l : List Char) : String := String.ofList l

/-! ### specification-side notions -/

/-- Is the Gateway allowed to reference Secret `ns/name`? (ReferenceGrant semantics of Gateway API) -/
def permitted (i : JIn) (ns name : Name) : Bool :=
  ns = i.gwNs ||
  i.grants.any fun g => g.ns = ns &&
    g.froms.any (fun f => f.group = str "gateway.networking.k8s.io" && f.kind = str "Gateway" && f.ns = i.gwNs) &&
    g.tos.any (fun t => (t.group = [] || t.group = str "core") && t.kind = str "Secret" && (t.name = [] || t.name = name))

/-- the Secret a listener may present: a permitted reference to an existing kubernetes.io/tls Secret
holding a loadable key pair -/
def usableSecret (i : JIn) (l : JListener) : Option SecretObj :=
  if l.proto ≠ str "HTTPS" || l.otherInvalid || l.nrefs = 0 then none
  else if (l.refKind ≠ [] && l.refKind ≠ str "Secret") || l.refGroup ≠ [] then none
  else if !permitted i l.refNS l.refName then none
  else match i.secrets.find? (fun s => s.ns = l.refNS && s.name = l.refName) with
    | some s => if s.isTLS && s.pairOK then some s else none
    | none => none

def isWildcard : Host → Bool
  | '*' :: '.' :: _ => true
  | _ => false

/-- listener hostname `l` covers server name `h` -/
def covers (l h : Host) : Bool := l = [] || l = h || (isWildcard l && (l.drop 1).isSuffixOf h)

/-- specificity: no hostname < wildcard (more labels = more specific) < exact -/
def rank (l : Host) : Nat × Nat :=
  if l = [] then (0, 0) else if isWildcard l then (1, l.count '.') else (2, 0)

def rankLe (a b : Nat × Nat) : Bool := a.1 < b.1 || (a.1 = b.1 && a.2 ≤ b.2)

/-- usable listeners of port `p` covering `h`, with their Secret -/
def candidates (i : JIn) (p : Nat) (h : Host) : List (JListener × SecretObj) :=
  i.listeners.filterMap fun l =>
    if l.port = p && covers l.host h then (usableSecret i l).map (l, ·) else none

/-- the owners of `h` on `p`: the candidates of maximal specificity (one, unless the Gateway repeats a
(port, hostname) pair, which the API server rejects) -/
def owners (i : JIn) (p : Nat) (h : Host) : List (JListener × SecretObj) :=
  let cs := candidates i p h
  cs.filter fun c => cs.all fun d => rankLe (rank d.1.host) (rank c.1.host)

/-! ### reading the generated configuration -/

def argsOf (d : Dir) : List (List Char) := d.args.map (·.1)

def children (d : Dir) : List Dir := d.block.getD []

def findDirs (ds : List Dir) (n : String) : List Dir := ds.filter (·.name = str n)

def firstArg (ds : List Dir) (n : String) : Option (List Char) :=
  match findDirs ds n with
  | d :: _ => (argsOf d).head?
  | [] => none

def digitsToNat (cs : List Char) : Option Nat :=
  if cs.isEmpty || !cs.all Char.isDigit then none else some (cs.foldl (fun n c => n * 10 + (c.toNat - 48)) 0)

/-- port of a `listen` argument: `443`, `[::]:443`, `unix:/var/run/nginx/https443.sock` -/
def listenPort (a : List Char) : Option Nat :=
  if let some n := digitsToNat a then some n
  else if (str "[::]:").isPrefixOf a then digitsToNat (a.drop 5)
  else if (str "unix:/var/run/nginx/https").isPrefixOf a then digitsToNat ((a.drop 25).takeWhile Char.isDigit)
  else none

structure SslServer where
  port : Nat
  isDefault : Bool
  reject : Bool
  names : List (List Char)
  cert : Option (List Char)
  key : Option (List Char)
  body : List Dir

def sslServers (ds : List Dir) : List SslServer :=
  (findDirs ds "server").filterMap fun s =>
    let body := children s
    let listens := (findDirs body "listen").map argsOf
    let ssl := listens.filter (·.contains (str "ssl"))
    match ssl with
    | [] => none
    | l :: _ =>
      match l.head? >>= listenPort with
      | none => some ⟨0, false, false, [], none, none, body⟩      -- reported as unreadable below
      | some p =>
        some ⟨p, ssl.any (·.contains (str "default_server")),
              (firstArg body "ssl_reject_handshake") = some (str "on"),
              ((findDirs body "server_name").map argsOf).flatten,
              firstArg body "ssl_certificate", firstArg body "ssl_certificate_key", body⟩

def fileAt (fs : List JFile) (p : List Char) : Option JFile := fs.find? (·.path = p)

/-! ### clauses A, B, C -/

def keyPairFilePrefix : List Char := str "/etc/nginx/secrets/ssl_keypair_"

def checkServer (i : JIn) (fs : List JFile) (s : SslServer) : List Fail :=
  if s.port = 0 then [⟨"C16:ssl-listen-unreadable", "listen argument not understood"⟩]
  else if s.isDefault || s.reject then
    (if s.isDefault && s.reject && s.cert.isNone && s.key.isNone && s.names.isEmpty then []
     else [⟨"C16:default-ssl-server-not-rejecting", s!"port {s.port}"⟩])
  else
    match s.names, s.cert, s.key with
    | [h], some c, some k =>
      let where_ := s!"server {show' h}:{s.port}"
      match fileAt fs c, fileAt fs k with
      | some fc, some fk =>
        let os := owners i s.port h
        let typeFails := if fc.type = 1 && fk.type = 1 then [] else [⟨"C16:key-material-in-regular-file", where_⟩]
        if os.isEmpty then
          [⟨"C16:certificate-for-hostname-without-usable-listener", where_ ++ s!" presents {show' c}"⟩]
        else if os.any fun o => fc.content = Tls.pem o.2.cert o.2.key && fk.content = Tls.pem o.2.cert o.2.key then
          typeFails
        else
          -- classify: does it present the Secret of a less specific usable listener of that port?
          let cs := candidates i s.port h
          if cs.any fun o => fc.content = Tls.pem o.2.cert o.2.key && fk.content = Tls.pem o.2.cert o.2.key then
            let ownerName := show' (os.head?.map (·.1.name) |>.getD [])
            if os.all fun o => !o.1.accepted.contains h then
              -- known input class: no route carrying `h` is attached to the owner, only to a less specific listener
              [⟨"C16:hostname-of-more-specific-listener-served-with-less-specific-listeners-cert",
                where_ ++ s!" presents {show' c}, owner is listener {ownerName} (no route with that hostname attached to it)"⟩]
            else
              [⟨"C16:less-specific-listeners-cert-although-owner-has-route",
                where_ ++ s!" presents {show' c}, owner is listener {ownerName}"⟩]
          else if i.secrets.any fun x => fc.content = Tls.pem x.cert x.key then
            [⟨"C16:certificate-of-unrelated-secret", where_ ++ s!" presents {show' c}"⟩]
          else [⟨"C16:certificate-bytes-differ-from-secret", where_ ++ s!" presents {show' c}"⟩]
      | _, _ => [⟨"C16:ssl-certificate-file-missing", where_ ++ s!" names {show' c}"⟩]
    | _, _, _ => [⟨"C16:ssl-server-without-name-or-certificate", s!"port {s.port}"⟩]

/-- B: key pair files only for Secrets of usable listeners, with the bytes of that Secret -/
def checkKeyPairFiles (i : JIn) (fs : List JFile) : List Fail :=
  let usable := i.listeners.filterMap (usableSecret i)
  (fs.filter fun f => keyPairFilePrefix.isPrefixOf f.path).filterMap fun f =>
    if usable.any fun s => f.path = Tls.pemFileName (Tls.keyPairId (s.ns, s.name)) && f.content = Tls.pem s.cert s.key
    then none
    else some ⟨"C16:key-pair-file-without-usable-listener", show' f.path⟩

/-- C: one rejecting default per SSL port. (Two servers of one port with the same name and different
certificates are caught by A: at most one of them presents the owner's Secret.) -/
def checkPorts (ss : List SslServer) : List Fail :=
  let ps := (ss.map (·.port)).eraseDups
  ps.flatMap fun p =>
    let defaults := (ss.filter (·.port = p)).filter (·.isDefault)
    if defaults.length = 1 then [] else [⟨"C16:ssl-port-without-single-default", s!"port {p}"⟩]

/-! ### clause D: BackendTLSPolicy -/

def nameLt : Name → Name → Bool
  | [], [] => false
  | [], _ :: _ => true
  | _ :: _, [] => false
  | a :: as, b :: bs => if a.toNat < b.toNat then true else if b.toNat < a.toNat then false else nameLt as bs

/-- precedence between policies: older first, then namespace/name -/
def older (a b : BTP) : Bool :=
  a.ts < b.ts || (a.ts = b.ts && (nameLt a.ns b.ns || (a.ns = b.ns && nameLt a.name b.name)))

/-- the policy that applies to Service ns/name -/
def selected (i : JIn) (ns name : Name) : Option BTP :=
  let cs := i.btps.filter fun b => b.ns = ns && b.targets.contains name
  cs.find? fun b => cs.all fun c => c.id = b.id || older b c

/-- what a valid policy verifies against: the CA bytes (or the system bundle) -/
inductive Trust
  | bundle (cmNs cmName : Name) (bytes : Bytes)
  | system
  deriving DecidableEq, Repr

def policyTrust (i : JIn) (b : BTP) : Option Trust :=
  if b.full || !b.hostOK then none
  else match b.refs, b.wk with
    | [r], none =>
      if r.kind = str "ConfigMap" && (r.group = [] || r.group = str "core") then
        match i.cms.find? (fun c => c.ns = b.ns && c.name = r.name) with
        | some c => if c.hasCA && c.caOK then some (.bundle c.ns c.name c.ca) else none
        | none => none
      else none
    | [], some w => if w = str "System" then some .system else none
    | _, _ => none

/-- TLS configuration of a Service as the property sees it -/
inductive SvcTLS
  | plain
  | invalidPolicy
  | verify (t : Trust) (hostname : Name)
  deriving DecidableEq, Repr

def svcTLS (i : JIn) (ns name : Name) : SvcTLS :=
  match selected i ns name with
  | none => .plain
  | some b => match policyTrust i b with
    | none => .invalidPolicy
    | some t => .verify t b.hostname

/-- upstream name `ns_name_port` → Service -/
def serviceOfUpstream (i : JIn) (u : List Char) : Option JService :=
  i.services.find? fun s => s.ports.any fun p => u = s.ns ++ '_' :: s.name ++ '_' :: (toString p).toList

def isVarChar (c : Char) : Bool := c.isAlphanum || c = '_'

/-- `split_clients $request_id $var { 50.00% upstream; … }` → (var, upstreams in order) -/
def splitClients (ds : List Dir) : List (List Char × List (List Char)) :=
  (findDirs ds "split_clients").filterMap fun d =>
    match argsOf d with
    | [_, '$' :: v] => some (v, (children d).filterMap fun e => (argsOf e).head?)
    | _ => none

def stripScheme (t : List Char) : Option (List Char × List Char) :=
  [ "https://", "http://", "grpcs://", "grpc://" ].findSome? fun s =>
    if (str s).isPrefixOf t then some ((str s).dropLast.dropLast.dropLast, t.drop s.length) else none

/-- upstream names a pass target routes to, in order -/
def targetsOf (sc : List (List Char × List (List Char))) (rest : List Char) : List (List Char) :=
  match rest with
  | '$' :: v =>
    let var := v.takeWhile isVarChar
    match sc.find? (·.1 = var) with
    | some (_, ups) => ups
    | none => []
  | _ => [rest.takeWhile (· ≠ '$')]

def sameTrustModuloNamespace : SvcTLS → SvcTLS → Bool
  | .verify (.bundle n1 c1 _) h1, .verify (.bundle n2 c2 _) h2 => c1 = c2 && h1 = h2 && n1 ≠ n2
  | _, _ => false

def checkLocation (i : JIn) (fs : List JFile) (sc : List (List Char × List (List Char)))
    (srv : String) (loc : Dir) : List Fail :=
  let body := children loc
  let (pre, pass) :=
    match firstArg body "proxy_pass", firstArg body "grpc_pass" with
    | some t, _ => ("proxy", some t)
    | none, some t => ("grpc", some t)
    | none, none => ("", none)
  match pass with
  | none => []
  | some t =>
    let where_ := s!"{srv} location {" ".intercalate ((argsOf loc).map show')}"
    match stripScheme t with
    | none => [⟨"C16:pass-target-unreadable", where_⟩]
    | some (scheme, rest) =>
      let svcs := (targetsOf sc rest).filterMap (serviceOfUpstream i)
      let tls := svcs.map fun s => svcTLS i s.ns s.name
      -- classification only: do the backends of this rule (zero-weight ones included) carry policies that are
      -- equal by value but live in different namespaces (same ConfigMap NAME, different ConfigMap)?
      let groupUps : List (List Char) := match rest with
        | '$' :: v =>
          (match i.groups.find? (fun (g : List Char × List (List Char)) => g.1 = v.takeWhile isVarChar) with
           | some g => g.2
           | none => [])
        | _ => []
      let groupTLS := (groupUps.filterMap (serviceOfUpstream i)).map fun (s : JService) => svcTLS i s.ns s.name
      let twins := groupTLS.any fun a => groupTLS.any fun b => sameTrustModuloNamespace a b
      let knownTwins : Fail := ⟨"C16:btp-same-named-configmaps-of-different-namespaces-treated-as-equal", where_⟩
      match tls with
      | [] => []
      | t0 :: more =>
        if tls.contains .invalidPolicy then
          -- a Service whose selected policy is well-formed but IGNORED (ancestor status list full) must fail closed:
          -- reaching it over plain http is the silent weakening the property forbids
          let plainScheme : Bool := !(scheme = str "https" || scheme = str "grpcs")
          let ignoredWellFormed : Bool := svcs.any fun s =>
            match selected i s.ns s.name with
            | some b => b.full && (policyTrust i { b with full := false }).isSome
            | none => false
          [⟨"C16:service-with-invalid-policy-served", where_⟩] ++
          (if ignoredWellFormed && plainScheme then
            [⟨"C16:btp-backend-reached-without-tls", where_ ++ " (its BackendTLSPolicy is ignored: ancestor status list full)"⟩]
           else [])
        else if more.any (· ≠ t0) then
          if t0 = .plain then
            [⟨"C16:btp-mismatch-undetected-when-first-backend-has-no-policy", where_⟩]
          else if more.all fun t => t = t0 || sameTrustModuloNamespace t0 t then [knownTwins]
          else [⟨"C16:btp-mismatch-served", where_⟩]
        else match t0 with
          | .verify trust host =>
            let secure : Bool := scheme = str "https" || scheme = str "grpcs"
            let verifyOn : Bool := firstArg body (pre ++ "_ssl_verify") = some (str "on")
            let nameOK : Bool := firstArg body (pre ++ "_ssl_name") = some host
            let trustOK : Bool :=
              match firstArg body (pre ++ "_ssl_trusted_certificate"), trust with
              | some path, .system => path == str "/etc/ssl/cert.pem"
              | some path, .bundle _ _ bytes =>
                (match fileAt fs path with | some f => f.content == bytes | none => false)
              | none, _ => false
            -- the trusted certificate is the bundle of a twin policy of another namespace
            let twinBundle : Bool :=
              match firstArg body (pre ++ "_ssl_trusted_certificate") with
              | some path => groupTLS.any fun
                  | .verify (.bundle n c _) h =>
                    sameTrustModuloNamespace t0 (.verify (.bundle n c []) h) &&
                    path == Tls.bundleFileName (Tls.certBundleId (n, c))
                  | _ => false
              | none => false
            (if secure then [] else [⟨"C16:btp-backend-reached-without-tls", where_⟩]) ++
            (if verifyOn then [] else [⟨"C16:btp-proxy-ssl-verify-not-on", where_⟩]) ++
            (if nameOK then [] else [⟨"C16:btp-proxy-ssl-name-not-policy-hostname", where_⟩]) ++
            (if trustOK then [] else if twins && twinBundle then [knownTwins]
             else [⟨"C16:btp-trusted-certificate-not-referenced-ca", where_⟩])
          | _ => []

def checkLocations (i : JIn) (fs : List JFile) (ds : List Dir) : List Fail :=
  let sc := splitClients ds
  (findDirs ds "server").flatMap fun s =>
    let body := children s
    let srv := s!"server {" ".intercalate (((findDirs body "server_name").map argsOf).flatten.map show')}"
    (findDirs body "location").flatMap (checkLocation i fs sc srv)

/-! ### the judge -/

def httpConfPath : List Char := str "/etc/nginx/conf.d/http.conf"

/-- E: no path is generated twice (two objects mapped to one file: the later write wins) -/
def checkPathsOnce (fs : List JFile) : List Fail :=
  let ps := fs.map (·.path)
  (ps.eraseDups.filter fun p => ps.count p > 1).map fun p => ⟨"C16:generated-path-twice", show' p⟩

def judge (i : JIn) (fs : List JFile) : List Fail :=
  checkPathsOnce fs ++
  match fileAt fs httpConfPath with
  | none => [⟨"C16:http-conf-missing", ""⟩]
  | some f =>
    match parse f.content with
    | .error _ => [⟨"C16:http-conf-unparsable", ""⟩]
    | .ok ds =>
      let ss := sslServers ds
      ss.flatMap (checkServer i fs) ++ checkKeyPairFiles i fs ++ checkPorts ss ++ checkLocations i fs ds

end NGF.TlsJudge
