/-
C02 on HTTPS listeners, executed part: on the fragment cases of harness/c16 (C02's fragment scenarios extended with HTTPS
listeners, Secrets and ReferenceGrants) the REAL http.conf, abstracted to a `ConfT`, is evaluated by `nginxEvalConfT` on
the probe requests (plain and TLS) and compared with `routeT` and with the full oracle `Spec.GatewayAPI.route` —
restricted exactly like `route_refines_spec_https` (`refineOKT`, `reqOKT`, SNI = Host over TLS); the same equation is
evaluated on the model `genT fs`; and `sni_host_mismatch_421` on the SNI ≠ Host probes. Core-only; not itself subject
of theorems.
-/
import NGF.Model.PipelineTlsEval
import NGF.Model.PipelineTlsTie

namespace NGF.PipelineTlsProbe
open NGF.Pipeline NGF.PipelineTls
abbrev SScenario := NGF.Spec.GatewayAPI.Scenario

def toReqT (r : NGF.C02.Req) : ReqT := { tls := r.tls, sni := r.sni.toList, req := NGF.PipelineTie.toReq r }

/-- the real configuration as a `ConfT` (the key-pair id of a server is its `ssl_certificate` path; files not needed) -/
def realConfT (r : NGF.PipelineTlsTie.RealT) : ConfT :=
  { http := r.http, ssl := r.ssl.map fun p => (p.1, p.2.map String.toList), sslPorts := r.sslPorts, keyPairs := [] }

/-- outcomes up to the representation of a share list (equal targets merged, zero shares dropped, sorted), as
`PipelineTie.showAct` compares configurations -/
def normOut : OutcomeT → OutcomeT
  | .plain (.proxy d) => .plain (.proxy ((NGF.PipelineTie.normDist d).map fun x => (x.1.toList, x.2)))
  | o => o

/-- `realConfT` reads every certified server as carrying `if ($ssl_server_name != $host) { return 421; }` and every other
server as carrying no `if`: check that on the real file (Model/PipelineTlsTie.abstractConfT does not look at `if`) -/
def check421 (cfg : NGF.NginxEval.Config) : Option String :=
  let srvs := (NGF.NginxEval.serversOf cfg.http).filter fun sv =>
    sv.listens.any fun l => (l.head?.map fun a => !a.startsWith "unix:" && !a.startsWith "[").getD false
  srvs.findSome? fun sv =>
    let isDefault := sv.listens.any (·.contains "default_server")
    let ifs := (NGF.NginxEval.findDirs "if" sv.body).map fun d =>
      (NGF.NginxEval.Dir.argS d, (d.block.getD []).map fun x => (NGF.NginxEval.Dir.nameS x, NGF.NginxEval.Dir.argS x))
    let want := if NGF.PipelineTlsTie.isSSL sv && !isDefault
      then [(["($ssl_server_name", "!=", "$host)"], [("return", ["421"])])] else []
    if ifs == want then none
    else some s!"server {sv.names.map String.ofList} (ssl={NGF.PipelineTlsTie.isSSL sv}, default={isDefault}): `if` directives {ifs}"

def showOutT : OutcomeT → String
  | .closed => "closed"
  | .plain o => s!"{repr o}"

/-- `routeT` against the full oracle (its equally allowed alternatives included) -/
def specAgreeT (r : NGF.C02.Req) (o : OutcomeT) (v : NGF.Spec.GatewayAPI.Verdict) : Bool :=
  let one (s : NGF.Spec.GatewayAPI.Outcome) : Bool :=
    match o, s with
    | .closed, .closed => true
    | .plain p, s => NGF.PipelineTie.specAgree r p s
    | _, _ => false
  one v.outcome || v.alt.any one

def nameStandsFor (n q : Str) : Bool := n == NGF.NginxEval.catchAll || n == q || NGF.NginxEval.wildCovers n q

structure Result where
  inFragment : Bool := false
  why : String := ""
  hyp : Bool := false
  realOK : Bool := false
  realWhy : String := ""
  probes : Nat := 0
  tlsProbes : Nat := 0
  /-- probes inside the hypotheses of `route_refines_spec_https` (the equation is evaluated on these) -/
  thmProbes : Nat := 0
  thmTlsProbes : Nat := 0
  exclSniServed : Nat := 0
  exclShadow : Nat := 0
  exclReq : Nat := 0
  /-- SNI ≠ Host probes inside the hypotheses of `sni_host_mismatch_421` -/
  mismatchProbes : Nat := 0
  thmFail : String := ""      -- model: nginxEvalConfT (genT fs) q ≠ routeT fs q
  realFail : String := ""     -- real:  nginxEvalConfT (abstract real conf) q ≠ routeT fs q
  realModelDiff : String := ""  -- real and model configuration mean different things on a probe (any probe)
  specFail : String := ""     -- routeT ≠ full oracle
  mismatchFail : String := ""
  outcomes : List (String × Nat) := []

def outClass : OutcomeT → String
  | .closed => "closed"
  | .plain .refused => "refused"
  | .plain (.status c) => s!"status{c}"
  | .plain (.redirect c _ _ _) => s!"redirect{c}"
  | .plain (.proxy _) => "proxy"

def tie (cfg : NGF.NginxEval.Config) (s : SScenario) (secrets : List Tls.SecretObj) (cap : Nat) : Result :=
  match NGF.PipelineTlsTie.toFragmentT s secrets with
  | .error e => { why := e }
  | .ok fs =>
    if !inFragmentT fs then { why := "inFragmentT" }
    else
      let hyp := refineOKT fs
      let model := genT fs
      let (realOK, realWhy, real) := match NGF.PipelineTlsTie.abstractConfT cfg with
        | .error e => (false, e, model)
        | .ok r => match check421 cfg with
          | some w => (false, "SNI/Host check: " ++ w, realConfT r)
          | none => (true, "", realConfT r)
      let probes := NGF.C02.probes s cap
      probes.foldl (fun (acc : Result) r =>
        let q := toReqT r
        let m := normOut (nginxEvalConfT model q)
        let n := normOut (nginxEvalConfT real q)
        let o := normOut (routeT fs q)
        let acc := { acc with probes := acc.probes + 1, tlsProbes := acc.tlsProbes + (if r.tls then 1 else 0) }
        let acc := if acc.realModelDiff == "" && realOK && n != m then
            { acc with realModelDiff := s!"{NGF.C02.showReq r} :: real={showOutT n} :: model={showOutT m}" } else acc
        let same := !r.tls || q.sni == q.req.host
        if hyp && same then
          let rq := reqOK q.req
          let sv := !r.tls || sniServed fs q
          let sh := !r.tls || noRoutelessShadow fs q
          let acc := { acc with exclReq := acc.exclReq + (if rq then 0 else 1),
                                exclSniServed := acc.exclSniServed + (if rq && !sv then 1 else 0),
                                exclShadow := acc.exclShadow + (if rq && sv && !sh then 1 else 0) }
          if reqOKT fs q then
            let full := NGF.Spec.GatewayAPI.route NGF.Spec.GatewayAPI.strict s r
            let acc := { acc with thmProbes := acc.thmProbes + 1, thmTlsProbes := acc.thmTlsProbes + (if r.tls then 1 else 0),
                                  outcomes := NGF.C02.bump acc.outcomes ((if r.tls then "tls:" else "plain:") ++ outClass o) }
            let acc := if acc.thmFail == "" && m != o then
                { acc with thmFail := s!"{NGF.C02.showReq r} :: nginxEvalConfT(genT)={showOutT m} :: routeT={showOutT o}" } else acc
            let acc := if acc.realFail == "" && realOK && n != o then
                { acc with realFail := s!"{NGF.C02.showReq r} :: nginxEvalConfT(real)={showOutT n} :: routeT={showOutT o}" } else acc
            let skip := match full.outcome with | .outOfScope _ => true | _ => false
            if acc.specFail == "" && !skip && !specAgreeT r o full then
              { acc with specFail := s!"{NGF.C02.showReq r} :: routeT={showOutT o} :: oracle={repr full.outcome}" }
            else acc
          else acc
        else if hyp && r.tls && !q.sni.isEmpty then
          -- SNI ≠ Host: `sni_host_mismatch_421`
          let names := sslNames model q.req.port
          let conc (x : Str) : Bool := !NGF.NginxEval.isWildName x && x != NGF.NginxEval.catchAll && decide (x.length < 100000)
          if conc q.sni && conc q.req.host && names.any (nameStandsFor · q.sni) && names.any (nameStandsFor · q.req.host) then
            let acc := { acc with mismatchProbes := acc.mismatchProbes + 1 }
            if acc.mismatchFail == "" && !(m == .plain (.status 421) && o == .plain (.status 421) && (!realOK || n == .plain (.status 421))) then
              { acc with mismatchFail := s!"{NGF.C02.showReq r} :: model={showOutT m} :: real={showOutT n} :: routeT={showOutT o}" }
            else acc
          else acc
        else acc)
        { inFragment := true, hyp := hyp, realOK := realOK, realWhy := realWhy }

end NGF.PipelineTlsProbe
