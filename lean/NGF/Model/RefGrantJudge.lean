/-
C06 — the property evaluated on what the REAL pipeline produced (graph summary, dataplane.Configuration
summary, generated files, statuses), for the cluster objects that exist at that moment.

"Justified" is always decided by the declarative spec `permittedB` (proved equivalent to `Permitted` and to
the resolver model in Props/C06), never by the resolver model.  Core Lean only.
-/
import NGF.Model.RefGrant
import NGF.Model.NginxParse

namespace NGF.RefGrant
open NGF.Nginx (Dir)

/-! ### cluster objects (flat) -/

structure RRule where
  paths : List String          -- match paths when known; `[]` = unknown (the rule may own any location)
  refs  : List BackendRef
  deriving Repr

structure Route where
  kind  : RouteKind
  ns    : String
  name  : String
  rules : List RRule
  deriving Repr

structure LCert where
  group : Option String
  kind  : Option String
  ns    : Option String
  name  : String
  deriving Repr

structure GwListener where
  name     : String
  port     : Nat
  protocol : String
  hostname : String
  certs    : List LCert
  deriving Repr

structure Gateway where
  ns        : String
  name      : String
  listeners : List GwListener
  deriving Repr

structure Secret where
  ns   : String
  name : String
  hash : String
  deriving Repr

structure Objs where
  grants   : List Grant
  routes   : List Route
  gateways : List Gateway
  secrets  : List Secret
  deriving Repr

/-! ### observations -/

abbrev Cond := String × String × String    -- type, status, reason

structure OGRule where
  processed : Bool
  refs      : List GBackendRef
  deriving Repr

structure OGRoute where
  kind  : RouteKind
  ns    : String
  name  : String
  valid : Bool
  conds : List Cond
  rules : List OGRule
  deriving Repr

structure OGListener where
  name   : String
  valid  : Bool
  conds  : List Cond
  secret : String
  deriving Repr

structure OGroup where
  ns       : String
  name     : String
  rule     : Nat
  kind     : Option RouteKind   -- kind of the route the match rule came from, when it can be told
  gname    : String
  backends : List Backend
  target   : String          -- real `backendGroupName`
  split    : List String     -- real `getSplitClientValue` per backend
  deriving Repr

structure OL4 where
  host : String
  port : Nat
  up   : String
  deriving Repr

structure OParent where
  gwns    : String
  gwname  : String
  sect    : String
  conds   : List Cond
  deriving Repr

structure ORouteStatus where
  kind    : RouteKind
  ns      : String
  name    : String
  parents : List OParent
  deriving Repr

structure Obs where
  panic     : String
  hasConf   : Bool
  winner    : Option (String × String)
  groutes   : List OGRoute
  glisteners : List OGListener
  groups    : List OGroup
  l4        : List OL4
  keypairs  : List (String × String)       -- id, hash
  pems      : List (String × String)       -- path, hash
  http      : List Dir
  stream    : List Dir
  rstatus   : List ORouteStatus
  lstatus   : List (String × List Cond)

/-! ### the spec side: which references are justified -/

def coreServiceRef (ref : BackendRef) : Bool :=
  (match ref.group with | none => true | some g => g == "" || g == "core") &&
  (match ref.kind with | none => true | some k => k == "Service")

def upstreamName (ns name : String) (port : Nat) : String := s!"{ns}_{name}_{port}"

/-- SPEC: route `r` may send traffic through `ref`: a core Service reference that stays in the route's
namespace or is permitted by a ReferenceGrant. -/
def refJustified (gs : List Grant) (r : Route) (ref : BackendRef) : Bool :=
  coreServiceRef ref &&
    (let ns := ref.ns.getD r.ns
     ns == r.ns || permittedB gs "Service" ns ref.name (fromRoute r.kind r.ns))

/-- `ref` of `r` justifies traffic to the upstream called `up` -/
def refYields (gs : List Grant) (r : Route) (ref : BackendRef) (up : String) : Bool :=
  refJustified gs r ref &&
    match ref.port with
    | some p => up == upstreamName (ref.ns.getD r.ns) ref.name p
    | none => false

/-- SPEC: the reference is cross-namespace and no grant permits it (the backend must get 500) -/
def refUnpermitted (gs : List Grant) (r : Route) (ref : BackendRef) : Bool :=
  coreServiceRef ref && (r.kind == .tls || ref.nfilters == 0) &&
    match ref.ns with
    | some n => n != r.ns && !permittedB gs "Service" n ref.name (fromRoute r.kind r.ns)
    | none => false

def certJustified (gs : List Grant) (gw : Gateway) (c : LCert) : Bool :=
  let ns := c.ns.getD gw.ns
  ns == gw.ns || permittedB gs "Secret" ns c.name (fromGateway gw.ns)

def certUnpermitted (gs : List Grant) (gw : Gateway) (c : LCert) : Bool :=
  match c.ns with
  | some n => n != gw.ns && !permittedB gs "Secret" n c.name (fromGateway gw.ns)
  | none => false

def keyPairID (ns name : String) : String := s!"ssl_keypair_{ns}_{name}"

/-- the Gateways whose listeners can justify a served certificate: the winner when the graph has one -/
def servingGateways (o : Objs) (w : Option (String × String)) : List Gateway :=
  match w with
  | some (ns, name) => o.gateways.filter fun g => g.ns == ns && g.name == name
  | none => o.gateways

/-- SPEC: a key pair (id, bytes-hash) may be served: it is the Secret some listener refers to, and that
reference stays in the Gateway's namespace or is permitted. -/
def keyPairJustified (o : Objs) (w : Option (String × String)) (id hash : String) : Bool :=
  o.secrets.any fun s => s.hash == hash && id == keyPairID s.ns s.name &&
    (servingGateways o w).any fun gw => gw.listeners.any fun l => l.certs.any fun c =>
      c.ns.getD gw.ns == s.ns && c.name == s.name && certJustified o.grants gw c

/-! ### NGINX text: what the files route to -/

def strOf (cs : List Char) : String := String.ofList cs

def dirName (d : Dir) : String := strOf d.name

def argAt (d : Dir) (i : Nat) : String := (d.argStrings[i]?).getD ""

def lastArg (d : Dir) : String := (d.argStrings.getLast?).getD ""

def children (d : Dir) : List Dir := d.block.getD []

/-- `split_clients $request_id $var { pct value; … }` → (var without `$`, values) -/
def splitClients (top : List Dir) : List (String × List String) :=
  top.filterMap fun d =>
    if dirName d == "split_clients" then
      some (((argAt d 1).toList.drop 1 |> strOf), (children d).map fun c => argAt c 0)
    else none

def isVarChar (c : Char) : Bool := c.isAlphanum || c == '_'

inductive Target
  | upstream (name : String)
  | var (name : String)
  deriving Repr, DecidableEq

def dropScheme : List Char → List Char
  | ':' :: '/' :: '/' :: rest => rest
  | _ :: rest => dropScheme rest
  | [] => []

/-- `proxy_pass http://X$request_uri` / `grpc_pass grpc://X` / stream `proxy_pass X` → X -/
def parseTarget (arg : String) (hasScheme : Bool) : Target :=
  let cs := if hasScheme then dropScheme arg.toList else arg.toList
  match cs with
  | '$' :: rest => .var (strOf (rest.takeWhile isVarChar))
  | _ => .upstream (strOf (cs.takeWhile fun c => c != '$' && c != '/'))

/-- pass directives directly inside a block -/
def passTargets (ds : List Dir) : List Target :=
  ds.filterMap fun d =>
    if dirName d == "proxy_pass" || dirName d == "grpc_pass" then some (parseTarget (argAt d 0) true) else none

structure Loc where
  path    : String
  targets : List Target
  deriving Repr

/-- locations of a server block (NGF emits them flat; nested ones are followed to a fixed depth) -/
def locationsOf : Nat → List Dir → List Loc
  | 0, _ => []
  | fuel + 1, ds =>
    ds.flatMap fun d =>
      if dirName d == "location" then
        { path := lastArg d, targets := passTargets (children d) } :: locationsOf fuel (children d)
      else []

structure Srv where
  certs : List String      -- ssl_certificate arguments
  locs  : List Loc
  listens : List String
  returns : List String
  deriving Repr

def serversOf (top : List Dir) : List Srv :=
  top.filterMap fun d =>
    if dirName d == "server" then
      let ch := children d
      some { certs := ch.filterMap fun c => if dirName c == "ssl_certificate" then some (argAt c 0) else none
             locs := locationsOf 3 ch
             listens := ch.filterMap fun c => if dirName c == "listen" then some (argAt c 0) else none
             returns := ch.filterMap fun c => if dirName c == "return" then some (argAt c 0) else none }
    else none

/-- `upstream NAME { server ADDR; … }` → (NAME, ADDRs) -/
def upstreamsOf (top : List Dir) : List (String × List String) :=
  top.filterMap fun d =>
    if dirName d == "upstream" then
      some (argAt d 0, (children d).filterMap fun c => if dirName c == "server" then some (argAt c 0) else none)
    else none

/-- stream servers with a `proxy_pass` -/
def streamPasses (top : List Dir) : List String :=
  top.flatMap fun d =>
    if dirName d == "server" then
      (children d).filterMap fun c => if dirName c == "proxy_pass" then some (argAt c 0) else none
    else []

/-! ### which rule may own a location -/

structure RuleRef where
  route : Route
  idx   : Nat
  rule  : RRule

def l7Rules (o : Objs) : List RuleRef :=
  o.routes.flatMap fun r =>
    if r.kind == .tls then [] else (r.rules.zipIdx).map fun (rule, i) => { route := r, idx := i, rule := rule }

def stripSlash (p : String) : String :=
  let cs := p.toList
  if cs.length > 1 && cs.getLast? == some '/' then strOf cs.dropLast else p

/-- rules that can have produced the location with this path: those with a match on the path (the
generator turns prefix `/x` into `location /x/` and `location = /x`), every rule whose paths are unknown,
and all rules when the location is internal or nothing matches. -/
def candidates (all : List RuleRef) (path : String) : List RuleRef :=
  let named := all.filter fun rr => rr.rule.paths.contains path || rr.rule.paths.contains (stripSlash path)
  if named.isEmpty || path.startsWith "/_ngf-internal" then all
  else named ++ all.filter fun rr => rr.rule.paths.isEmpty

def safeVar (s : String) : String := strOf (s.toList.map fun c => if c == '-' then '_' else c)

/-- `convertStringToSafeVariableName(BackendGroup.Name())` -/
def groupVar (r : Route) (idx : Nat) : String := safeVar s!"group_{r.ns}__{r.name}_rule{idx}"

/-- namespace of the Service behind an upstream name `ns_name_port` (names contain no `_`) -/
def upstreamNs (up : String) : String := strOf (up.toList.takeWhile (· != '_'))

/-- Traffic of a location owned by one of `cands` may reach `up`: it is the 500 upstream, or it stays in the
owning route's namespace (then C06 has nothing to say), or a backendRef of the owning rule justifies it. -/
def upstreamJustified (gs : List Grant) (cands : List RuleRef) (up : String) : Bool :=
  up == invalidBackendRef || cands.any fun rr =>
    upstreamNs up == rr.route.ns || rr.rule.refs.any fun ref => refYields gs rr.route ref up

/-- routes (kind, ns, name) whose backend group of some rule is rendered as variable `v` -/
def varOwners (all : List RuleRef) (v : String) : List (RouteKind × String × String) :=
  ((all.filter fun rr => groupVar rr.route rr.idx == v).map fun rr => (rr.route.kind, rr.route.ns, rr.route.name)).eraseDups

def targetProblems (gs : List Grant) (splits : List (String × List String)) (all cands : List RuleRef)
    (where_ : String) : Target → List String
  | .upstream up =>
    if upstreamJustified gs cands up then [] else [s!"file_backend_unjustified {where_} -> {up}"]
  | .var v =>
    -- every split_clients block of the variable (NGINX keeps one of them); none = the file does not load
    let values := (splits.filter (·.1 == v)).flatMap (·.2)
    let owners := cands.filter fun rr => groupVar rr.route rr.idx == v
    let vo := varOwners all v
    let sameName := match vo with
      | [] => true
      | (_, ns, name) :: rest => rest.all fun x => x.2.1 == ns && x.2.2 == name
    values.filterMap fun up =>
      if upstreamJustified gs owners up then none
      else if vo.length > 1 && sameName then
        some s!"group_variable_shared_by_route_kinds {where_} ${v} -> {up}"
      else if vo.length > 1 then
        some s!"group_variable_name_collision {where_} ${v} -> {up}"
      else some s!"file_backend_unjustified {where_} ${v} -> {up}"

/-! ### the clauses -/

def hasCond (cs : List Cond) (c : Cond) : Bool := cs.contains c

def findRoute (o : Objs) (kind : RouteKind) (ns name : String) : Option Route :=
  o.routes.find? fun r => r.kind == kind && r.ns == ns && r.name == name

def showKind : RouteKind → String
  | .http => "HTTPRoute" | .grpc => "GRPCRoute" | .tls => "TLSRoute"

/-- SAFETY at dataplane.Configuration: every valid backend of a backend group is justified by the
backendRef at the same position of the same rule of its route. -/
def confBackendClause (o : Objs) (b : Obs) : List String :=
  b.groups.flatMap fun g =>
    let kinds : List RouteKind := match g.kind with | some k => [k] | none => [.http, .grpc]
    (g.backends.zipIdx).filterMap fun (bk, i) =>
      if !bk.valid || upstreamNs bk.upstream == g.ns then none
      else
        let ok := kinds.any fun kind => match findRoute o kind g.ns g.name with
          | none => false
          | some r => match r.rules[g.rule]? with
            | none => false
            | some rule => match rule.refs[i]? with
              | none => false
              | some ref => refYields o.grants r ref bk.upstream
        if ok then none
        else some s!"conf_backend_unjustified {g.ns}/{g.name} rule {g.rule} backend {i} -> {bk.upstream}"

/-- SAFETY at dataplane.Configuration: every TLS passthrough server with an upstream is justified by a TLSRoute -/
def confL4Clause (o : Objs) (b : Obs) : List String :=
  b.l4.filterMap fun s =>
    if s.up == "" then none
    else if o.routes.any fun r => r.kind == .tls && r.rules.any fun rule => rule.refs.any fun ref =>
        refYields o.grants r ref s.up then none
    else some s!"conf_l4_unjustified {s.host}:{s.port} -> {s.up}"

/-- SAFETY: every key pair handed to the data plane is justified -/
def confKeyPairClause (o : Objs) (b : Obs) : List String :=
  b.keypairs.filterMap fun (id, h) =>
    if keyPairJustified o b.winner id h then none else some s!"conf_keypair_unjustified {id}"

def baseName (p : String) : String :=
  let parts := p.splitOn "/"
  let f := parts.getLast?.getD ""
  if f.endsWith ".pem" then strOf (f.toList.take (f.length - 4)) else f

/-- SAFETY on the generated files: every location's pass target, every split_clients value it can
select, every stream proxy_pass and every ssl_certificate is justified. -/
def fileClause (o : Objs) (b : Obs) : List String :=
  let splits := splitClients b.http
  let all := l7Rules o
  let srvs := serversOf b.http
  let locProblems := srvs.flatMap fun s => s.locs.flatMap fun l =>
    l.targets.flatMap fun t => targetProblems o.grants splits all (candidates all l.path) s!"location {l.path}" t
  let streamProblems := (streamPasses b.stream).filterMap fun up =>
    if o.routes.any fun r => r.kind == .tls && r.rules.any fun rule => rule.refs.any fun ref =>
        refYields o.grants r ref up then none
    else some s!"file_stream_unjustified proxy_pass {up}"
  let certProblems := srvs.flatMap fun s => s.certs.filterMap fun path =>
    match b.pems.find? (·.1 == path) with
    | none => some s!"file_cert_missing {path}"
    | some (_, h) => if keyPairJustified o b.winner (baseName path) h then none
                     else some s!"file_cert_unjustified {path}"
  locProblems ++ streamProblems ++ certProblems

def rrCond : Cond := ("ResolvedRefs", "False", "RefNotPermitted")

/-- LIVENESS for backends: an unpermitted cross-namespace backendRef of a processed rule is invalid in the
graph, carries RefNotPermitted, shows ResolvedRefs=False in the route status, is an invalid backend of its
backend group, and the real generator functions map it to the 500 upstream. -/
def routeDenyClause (o : Objs) (b : Obs) : List String :=
  b.groutes.flatMap fun gr =>
    match findRoute o gr.kind gr.ns gr.name with
    | none => []
    | some r =>
      let id := s!"{showKind gr.kind}/{gr.ns}/{gr.name}"
      (gr.rules.zipIdx).flatMap fun (grule, i) =>
        if !grule.processed then [] else
        match r.rules[i]? with
        | none => []
        | some rule =>
          (rule.refs.zipIdx).flatMap fun (ref, j) =>
            if !refUnpermitted o.grants r ref then [] else
            let p1 := match grule.refs[j]? with
              | some g => if g.valid then [s!"graph_ref_valid_without_grant {id} rule {i} ref {j}"] else []
              | none => [s!"graph_ref_missing {id} rule {i} ref {j}"]
            let p2 := if hasCond gr.conds rrCond then [] else [s!"graph_cond_RefNotPermitted_missing {id}"]
            let onlyRNP := gr.conds.all fun c => c.1 != "ResolvedRefs" || c.2.2 == "RefNotPermitted"
            let p3 := match b.rstatus.find? fun s => s.kind == gr.kind && s.ns == gr.ns && s.name == gr.name with
              | none => [s!"route_status_missing {id}"]
              | some st => st.parents.flatMap fun pa =>
                  match pa.conds.find? (·.1 == "ResolvedRefs") with
                  | none => [s!"status_ResolvedRefs_missing {id}"]
                  | some c =>
                    if c.2.1 != "False" then [s!"status_ResolvedRefs_not_False {id}"]
                    else if onlyRNP && c.2.2 != "RefNotPermitted" then [s!"status_reason_not_RefNotPermitted {id}"]
                    else []
            let p4 := if gr.kind == .tls then [] else
              b.groups.flatMap fun g =>
                if g.ns == gr.ns && g.name == gr.name && g.rule == i && g.kind == some gr.kind then
                  (match g.backends[j]? with
                   | some bk => if bk.valid then [s!"conf_backend_valid_without_grant {id} rule {i} ref {j}"] else []
                   | none => [s!"conf_backend_missing {id} rule {i} ref {j}"]) ++
                  (match g.split[j]? with
                   | some v => if v == invalidBackendRef then [] else [s!"split_value_not_500 {id} rule {i} ref {j} -> {v}"]
                   | none => []) ++
                  (if g.backends.length == 1 && g.target != invalidBackendRef
                   then [s!"group_target_not_500 {id} rule {i} -> {g.target}"] else [])
                else []
            p1 ++ p2 ++ p3 ++ p4

/-- the 500 upstream exists and points to the server that answers 500 (whether a rule's location uses it or
answers itself, e.g. with a redirect filter, is decided per location: `fileClause` allows no other target) -/
def fiveHundredClause (b : Obs) : List String :=
  if !b.hasConf then [] else
  let ups := upstreamsOf b.http
  let srvs := serversOf b.http
  let sock := "unix:/var/run/nginx/nginx-500-server.sock"
  let p1 := match ups.find? (·.1 == invalidBackendRef) with
    | some (_, [a]) => if a == sock then [] else [s!"invalid_backend_upstream_not_500 {a}"]
    | _ => ["invalid_backend_upstream_not_500 <absent>"]
  let p2 := if srvs.any fun s => s.listens == [sock] && s.returns == ["500"] then [] else ["server_500_missing"]
  p1 ++ p2

/-- reasons a listener can carry without a validator having failed (conflict resolvers, the reference check itself) -/
def nonValidatorReasons : List String :=
  ["RefNotPermitted", "Invalid", "ProtocolConflict", "HostnameConflict"]

/-- LIVENESS for certificates: an HTTPS listener of the serving Gateway all of whose certificateRefs are
unpermitted cross-namespace references is not valid, resolves no secret, and is reported not programmed. -/
def listenerDenyClause (o : Objs) (b : Obs) : List String :=
  match b.winner with
  | none => []
  | some _ =>
    (servingGateways o b.winner).flatMap fun gw => gw.listeners.flatMap fun l =>
      if l.protocol != "HTTPS" || l.certs.isEmpty || !(l.certs.all (certUnpermitted o.grants gw)) then [] else
      match b.glisteners.find? (·.name == l.name) with
      | none =>
        -- an invalid Gateway has no listeners in the graph at all: nothing of it is programmed
        if b.glisteners.isEmpty then [] else [s!"graph_listener_missing {l.name}"]
      | some gl =>
        let p1 := if gl.valid then [s!"listener_valid_without_grant {l.name}"] else []
        let p2 := if gl.secret != "" then [s!"listener_secret_resolved_without_grant {l.name} {gl.secret}"] else []
        let validatorsPassed := gl.conds.all fun c => nonValidatorReasons.contains c.2.2
        let p3 := if validatorsPassed && !hasCond gl.conds rrCond
                  then [s!"listener_cond_RefNotPermitted_missing {l.name}"] else []
        let p4 := match b.lstatus.find? (·.1 == l.name) with
          | none => [s!"listener_status_missing {l.name}"]
          | some (_, cs) =>
            (match cs.find? (·.1 == "Programmed") with
             | some c => if c.2.1 == "False" then [] else [s!"listener_status_Programmed_not_False {l.name}"]
             | none => [s!"listener_status_Programmed_missing {l.name}"]) ++
            (if hasCond gl.conds rrCond && !hasCond cs rrCond
             then [s!"listener_status_RefNotPermitted_missing {l.name}"] else [])
        p1 ++ p2 ++ p3 ++ p4

/-- CONVERSE (the "iff" of the design): RefNotPermitted is reported only for references the spec does not
permit — a grant that exists takes effect. -/
def noSpuriousRefusalClause (o : Objs) (b : Obs) : List String :=
  let routes := b.groutes.flatMap fun gr =>
    if !hasCond gr.conds rrCond then [] else
    match findRoute o gr.kind gr.ns gr.name with
    | none => []
    | some r =>
      let witness := (gr.rules.zipIdx).any fun (grule, i) =>
        grule.processed && match r.rules[i]? with
          | some rule => rule.refs.any (refUnpermitted o.grants r)
          | none => false
      if witness then [] else [s!"route_refused_although_permitted {showKind gr.kind}/{gr.ns}/{gr.name}"]
  let listeners := match b.winner with
    | none => []
    | some _ => (servingGateways o b.winner).flatMap fun gw => gw.listeners.flatMap fun l =>
        match b.glisteners.find? (·.name == l.name) with
        | none => []
        | some gl =>
          if hasCond gl.conds rrCond && !(l.certs.any (certUnpermitted o.grants gw))
          then [s!"listener_refused_although_permitted {l.name}"] else []
  routes ++ listeners


/-! ### the 500 SHARE of unpermitted backends in a weighted rule -/

/-- `12.34%` / `100%` → hundredths of a percent -/
def parsePct (t : String) : Option Nat :=
  let cs := t.toList.filter (· != '%')
  match (strOf cs).splitOn "." with
  | [a] => a.toNat?.map (· * 100)
  | [a, b] =>
    match a.toNat?, (strOf (b.toList.take 2 ++ List.replicate (2 - min 2 b.length) '0')).toNat? with
    | some x, some y => some (x * 100 + y)
    | _, _ => none
  | _ => none

/-- `split_clients $request_id $var { pct value; … }` → (var without `$`, [(hundredths, value)]); a share that does not
parse counts as 0 -/
def splitShares (top : List Dir) : List (String × List (Nat × String)) :=
  top.filterMap fun d =>
    if dirName d == "split_clients" then
      some (((argAt d 1).toList.drop 1 |> strOf), (children d).map fun c => ((parsePct (dirName c)).getD 0, argAt c 0))
    else none

/-- the weight `createBackendRef` gives a backendRef: 1 when omitted, 0 when out of range -/
def effWeight (ref : BackendRef) : Nat :=
  match ref.weight with
  | none => 1
  | some w => if weightOK w then w.toNat else 0

/-- "Without such a grant the backend is answered with 500": in a rule with several weighted backendRefs the share of
`invalid-backend-ref` in the REAL split_clients block of the rule is at least (Σ weights of the unpermitted
cross-namespace refs) / (Σ weights of all refs), up to one hundredth of a percent per backendRef (the rounding of C15).
Rules whose group variable is shared with another route (known findings) are left to the clauses that report those. -/
def shareClause (o : Objs) (b : Obs) : List String :=
  let shares := splitShares b.http
  let all := l7Rules o
  b.groups.flatMap fun g =>
    match g.kind with
    | none => []
    | some kind =>
      if g.backends.length < 2 then [] else
      match findRoute o kind g.ns g.name with
      | none => []
      | some r =>
        match r.rules[g.rule]? with
        | none => []
        | some rule =>
          let total := (rule.refs.map effWeight).sum
          let need := ((rule.refs.filter (refUnpermitted o.grants r)).map effWeight).sum
          let v := safeVar g.gname
          if need == 0 || total == 0 || (varOwners all v).length != 1 then [] else
          match shares.filter (·.1 == v) with
          | [blk] =>
            let got := ((blk.2.filter (·.2 == invalidBackendRef)).map (·.1)).sum
            if (got + rule.refs.length) * total ≥ 10000 * need then []
            else [s!"split_500_share_too_small {showKind kind}/{g.ns}/{g.name} rule {g.rule}: invalid-backend-ref gets {got}/10000, unpermitted refs hold {need} of weight {total}"]
          | _ => []

/-- all clauses; `[]` = the property holds on this output -/
def judge (o : Objs) (b : Obs) : List String :=
  confBackendClause o b ++ confL4Clause o b ++ confKeyPairClause o b ++ fileClause o b ++
    routeDenyClause o b ++ shareClause o b ++ fiveHundredClause b ++ listenerDenyClause o b ++ noSpuriousRefusalClause o b

end NGF.RefGrant
