/-
C04, text step: when do two enriched configurations (`Render.ConfR`) differ only in the VALUES of their strings?
`sameConf c c'`: the same servers with the same serverIDs, the same path rules at the same positions with the same number
and kind (`=` / prefix) of external locations and the same kind of action, the same match rules per path rule, the same
BackendGroups with the same weights — everything `render` looks at except the strings themselves (server names, location
paths, redirect scheme/hostname, BackendGroup sources, upstream names) and the numbers that are only PRINTED (ports, status
codes). Subject of `skeleton_independent_of_values` (Props/C04Print.lean). Core-only.
-/
import NGF.Model.Render

namespace NGF.PrintShape
open NGF.Pipeline NGF.Render

def all2 {α β} (f : α → β → Bool) : List α → List β → Bool
  | [], [] => true
  | a :: as, b :: bs => f a b && all2 f as bs
  | _, _ => false

/-- `actDirs` writes the same directives for every proxy action, and the same for every `return` (redirect or status) -/
def sameAct : RAct → RAct → Bool
  | .proxy _ _, .proxy _ _ => true
  | .proxy _ _, _ => false
  | _, .proxy _ _ => false
  | _, _ => true

def sameLocAct : RLocAct → RLocAct → Bool
  | .direct a, .direct b => sameAct a b
  | .njs ms, .njs ms' => all2 (fun m m' => sameAct m.act m'.act) ms ms'
  | _, _ => false

def sameRule (r r' : RRule) : Bool :=
  r.idx == r'.idx && all2 (fun k k' => k.1 == k'.1) r.ext r'.ext && sameLocAct r.act r'.act

def sameServer (sv sv' : RServer) : Bool :=
  sv.sid == sv'.sid && sv.root404 == sv'.root404 && all2 sameRule sv.rules sv'.rules

/-- the weights decide which shares are `0.00` (commented out) and whether the group needs a split at all -/
def sameGroup (g g' : Src × List Backend) : Bool := g.2.map (·.weight) == g'.2.map (·.weight)

def sameConf (c c' : ConfR) : Bool :=
  all2 (fun d d' => d.2 == d'.2) c.dports c'.dports && all2 sameServer c.servers c'.servers && all2 sameGroup c.groups c'.groups

/-! ### the match conditions (method, headers, query parameters) -/

/-- forget the conditions of every match rule: the only place of `ConfR` where method / header / query strings live is
`RMatch.njs` (what `Render.matchesOf` marshals into matches.json) -/
def eraseCondsAct : RLocAct → RLocAct
  | .direct a => .direct a
  | .njs ms => .njs (ms.map fun m => { m with njs := { any := true } })

def eraseConds (c : ConfR) : ConfR :=
  { c with servers := c.servers.map fun sv => { sv with rules := sv.rules.map fun r => { r with act := eraseCondsAct r.act } } }

end NGF.PrintShape
