/-
C16, pipeline level: HTTPS listeners and certificate binding layered on the pipeline fragment model of C02
(`Model/Pipeline.lean`, read-only here). `ScenarioT` = a Pipeline scenario whose listeners carry a protocol and a
certificate reference, plus the cluster's Secrets and ReferenceGrants; `genT : ScenarioT → ConfT` is defined by
PROJECTING to two Pipeline scenarios (valid HTTP listeners / valid HTTPS listeners) and reusing `Pipeline.gen` for
both, plus the key-pair choice of the SSL servers.

Go functions mirrored (file: function → here):
  graph/gateway_listener.go: listenerConfigurator.configure (validators first; conflict resolvers and external
      reference resolvers only for listeners whose validators passed) → `ListenerT.fieldsOK`;
      createHTTPSListenerValidator (certificateRefs part) → `ListenerT.cert = none`;
      createPortConflictResolver (HTTP vs HTTPS protocol groups on one port) → `conflicted`;
      createExternalReferencesForTLSSecretsResolver + secretResolver.resolve → `resolution` (= `Tls.resolveRef`)
  graph/gateway.go: processGateways → `winnerT` (same choice as `Pipeline.winner`)
  dataplane/configuration.go: buildServers (one `portPathRules` per protocol, only `l.Valid` listeners are upserted)
      → `httpPart` / `httpsPart`;  hostPathRules.upsertRoute (`listenersForHost[h]`) → `ownerStep` / `ownerOf`;
      hostPathRules.buildServers (SSL of a server = key pair of `listenersForHost[h]`; the extra server of an HTTPS
      listener without routes / without hostname; the default server of every port with a valid listener)
      → `genT.ssl`, `listenerOnly`, `genT.sslPorts`;  buildSSLKeyPairs + generateSSLKeyPairID → `keyPairsFrom`
  nginx/config/servers.go: createSSLServer (ssl_certificate = generatePEMFileName(KeyPairID)), generator.go:
      generatePEM → compared in Model/PipelineTlsTie.lean (`Tls.pemFileName`, `Tls.pem`)
Core-only. Theorems: NGF/Props/C16Pipeline.lean (helpers NGF/Proofs/PipelineTls.lean).
-/
import NGF.Model.Pipeline
import NGF.Model.TlsBind

namespace NGF.PipelineTls
open NGF.Pipeline

/-! ### scenario -/

structure ListenerT where
  /-- name, port, hostname, allowedRoutes.namespaces — what `Pipeline` reads of a listener -/
  base : Pipeline.Listener
  /-- protocol HTTPS (otherwise HTTP) -/
  https : Bool
  /-- HTTPS only: `some (ns, name)` = tls.certificateRefs is exactly one reference of kind Secret / group "" (namespace
  defaulted to the Gateway's); `none` = createHTTPSListenerValidator rejects the references (none, several, other kind
  or group) -/
  cert : Option (Str × Str)
  deriving DecidableEq, Repr

structure GatewayT where
  ns : Str
  name : Str
  cls : Str
  age : Int
  listeners : List ListenerT
  deriving DecidableEq, Repr

structure ScenarioT where
  cls : Str
  ctlr : Str
  classes : List GwClass
  gateways : List GatewayT
  routes : List Route
  secrets : List Tls.SecretObj
  grants : List Tls.Grant
  deriving Repr

/-! ### graph: listener validity -/

/-- `configure`: all validators passed (`valid := len(conds) == 0`). An HTTP listener of the fragment always passes;
an HTTPS listener passes iff its certificate references are well-formed. Only such listeners reach the port conflict
resolver and the Secret resolver. -/
def ListenerT.fieldsOK (l : ListenerT) : Bool := !l.https || l.cert.isSome

/-- createPortConflictResolver: a port used by listeners of both protocol groups (HTTP / HTTPS) is conflicted and ALL
its listeners (those seen before the conflict and those after) become invalid. Only listeners whose validators
passed are seen by the resolver — but it runs BEFORE the Secret is resolved: an HTTPS listener whose Secret is
missing still invalidates the HTTP listeners of its port. -/
def conflicted (g : GatewayT) (l : ListenerT) : Bool :=
  g.listeners.any fun o => o.fieldsOK && o.base.port == l.base.port && o.https != l.https

def certRefOf (l : ListenerT) : Tls.CertRef :=
  match l.cert with
  | some c => ⟨1, true, true, c.1, c.2⟩
  | none => ⟨0, true, true, [], []⟩

/-- createExternalReferencesForTLSSecretsResolver: ReferenceGrant for a cross-namespace reference, then the Secret
must exist, be of type kubernetes.io/tls and hold a loadable pair -/
def resolution (s : ScenarioT) (g : GatewayT) (l : ListenerT) : Tls.SecretRes :=
  Tls.resolveRef s.grants s.secrets g.ns (certRefOf l)

/-- `l.Valid` of an HTTP listener -/
def validHttp (g : GatewayT) (l : ListenerT) : Bool := !l.https && !conflicted g l

/-- `l.Valid` of an HTTPS listener (then `l.ResolvedSecret = l.cert`) -/
def validHttps (s : ScenarioT) (g : GatewayT) (l : ListenerT) : Bool :=
  l.https && !conflicted g l && decide (resolution s g l = .ok)

/-! ### the port conflict resolver as the Go code runs it (stateful, in listener order); `Props/C16Pipeline.port_conflict_resolver_exact`
proves that it invalidates exactly the listeners `conflicted` names -/

/-- the state of the closure returned by createPortConflictResolver -/
structure PCState where
  /-- `conflictedPorts` -/
  conflictedPorts : List Nat := []
  /-- `portProtocolOwner`: port ↦ protocol group (true = secure: HTTPS) -/
  owner : List (Nat × Bool) := []
  /-- `listenersByPort`, all ports together (the resolver reads the entries of one port) -/
  byPort : List ListenerT := []
  /-- the listeners whose `Valid` the resolver set to false -/
  invalid : List ListenerT := []

/-- one call `resolver(l)` -/
def pcStep (st : PCState) (l : ListenerT) : PCState :=
  if st.conflictedPorts.contains l.base.port then { st with invalid := l :: st.invalid }
  else
    match st.owner.lookup l.base.port with
    | none => { st with owner := (l.base.port, l.https) :: st.owner, byPort := l :: st.byPort }
    | some grp =>
      if grp != l.https then
        { st with conflictedPorts := l.base.port :: st.conflictedPorts,
                  invalid := l :: ((st.byPort.filter (·.base.port == l.base.port)) ++ st.invalid),
                  byPort := l :: st.byPort }
      else { st with byPort := l :: st.byPort }

/-- buildListeners: the resolver is called, in listener order, for the listeners whose validators passed -/
def pcRun (ls : List ListenerT) : PCState := (ls.filter (·.fieldsOK)).foldl pcStep {}

/-! ### the two projections to Pipeline scenarios -/

def projGw (keep : GatewayT → ListenerT → Bool) (g : GatewayT) : Gateway :=
  { ns := g.ns, name := g.name, cls := g.cls, age := g.age, listeners := (g.listeners.filter (keep g)).map (·.base) }

def proj (keep : GatewayT → ListenerT → Bool) (s : ScenarioT) : Scenario :=
  { cls := s.cls, ctlr := s.ctlr, classes := s.classes, gateways := s.gateways.map (projGw keep), routes := s.routes }

/-- what `rulesForProtocol[HTTP]` sees: the valid HTTP listeners -/
def httpPart (s : ScenarioT) : Scenario := proj (fun g l => validHttp g l) s

/-- what `rulesForProtocol[HTTPS]` sees: the valid HTTPS listeners -/
def httpsPart (s : ScenarioT) : Scenario := proj (fun g l => validHttps s g l) s

/-- every listener, whatever its protocol and validity (well-formedness of the Gateway is stated on this view) -/
def allPart (s : ScenarioT) : Scenario := proj (fun _ _ => true) s

/-- identity of a Gateway (all `olderGw` looks at) -/
def bare (g : GatewayT) : Gateway := { ns := g.ns, name := g.name, cls := g.cls, age := g.age, listeners := [] }

def oldestT : List GatewayT → Option GatewayT
  | [] => none
  | g :: gs =>
    match oldestT gs with
    | none => some g
    | some b => if olderGw (bare b) (bare g) then some b else some g

/-- `processGateways` (the choice of `Pipeline.winner`, keeping the listeners' TLS fields) -/
def winnerT (s : ScenarioT) : Option GatewayT :=
  if classOurs (allPart s) then oldestT (s.gateways.filter (·.cls == s.cls)) else none

/-! ### dataplane: which listener's Secret a server presents -/

/-- the valid HTTPS listeners of the served Gateway, in listener order -/
def sslListeners (s : ScenarioT) (g : GatewayT) : List ListenerT := g.listeners.filter (validHttps s g)

/-- accepted hostnames of the VALID routes attached to `l`: the hostnames `upsertRoute` is run with for `l` -/
def accHosts (g : Gateway) (routes : List Route) (l : Listener) : List Str :=
  routes.flatMap fun r => if r.valid then acceptedAt g l r else []

/-- `len(l.Routes)`: every attached route (valid or not) -/
def nroutes (g : Gateway) (routes : List Route) (l : Listener) : Nat :=
  (routes.filter fun r => !(acceptedAt g l r).isEmpty).length

/-- upsertRoute for hostname `h` when listener `l` is upserted: `listenersForHost[h] = l` unless a previous listener
stays (`listenerHostnameMoreSpecific`) -/
def ownerStep (g : Gateway) (routes : List Route) (h : Str) (acc : Option ListenerT) (l : ListenerT) : Option ListenerT :=
  if (accHosts g routes l.base).contains h then
    match acc with
    | none => some l
    | some p => if Tls.lms l.base.host p.base.host then some l else some p
  else acc

def ownerFrom (g : Gateway) (routes : List Route) (h : Str) : Option ListenerT → List ListenerT → Option ListenerT
  | acc, [] => acc
  | acc, l :: ls => ownerFrom g routes h (ownerStep g routes h acc l) ls

/-- `listenersForHost[h]` after the (valid, HTTPS) listeners `ls` of one port were upserted in order -/
def ownerOf (g : Gateway) (routes : List Route) (ls : List ListenerT) (h : Str) : Option ListenerT :=
  ownerFrom g routes h none ls

/-- `s.SSL = &SSL{KeyPairID: generateSSLKeyPairID(*l.ResolvedSecret)}` (nil when nothing was resolved) -/
def kpOf (l : ListenerT) : Option (List Char) := l.cert.map Tls.keyPairId

/-- getListenerHostname -/
def serverName (h : Str) : Str := if h.isEmpty then Hostname.wildcardHostname else h

/-- "Generate a 404 ssl server block for listeners with no routes or listeners with wildcard (match-all) routes":
a server without path rules named after the listener, presenting the listener's own key pair -/
def listenerOnly (g : Gateway) (routes : List Route) (ls : List ListenerT) : List (CServer × Option (List Char)) :=
  (ls.filter fun l => nroutes g routes l.base == 0 || serverName l.base.host == Hostname.wildcardHostname).map fun l =>
    (serverOf [] l.base.port (serverName l.base.host), kpOf l)

/-- buildSSLKeyPairs, one listener: `keyPairs[id] = SSLKeyPair{…}` (a later listener overwrites an equal id) -/
def kpStep (secrets : List Tls.SecretObj) (m : List Tls.KeyPair) (l : ListenerT) : List Tls.KeyPair :=
  match l.cert with
  | some c =>
    match Tls.findSecret secrets c.1 c.2 with
    | some sec => Tls.insertKP m ⟨Tls.keyPairId c, sec.cert, sec.key⟩
    | none => m
  | none => m

def keyPairsFrom (secrets : List Tls.SecretObj) : List Tls.KeyPair → List ListenerT → List Tls.KeyPair
  | m, [] => m
  | m, l :: ls => keyPairsFrom secrets (kpStep secrets m l) ls

/-! ### the generated configuration -/

structure ConfT where
  /-- the plain-HTTP servers and default servers -/
  http : Conf
  /-- the SSL servers (`listen … ssl`), each with the key pair id behind its `ssl_certificate` (none: no SSL block) -/
  ssl : List (CServer × Option (List Char))
  /-- ports with an SSL default server (`listen p ssl default_server; ssl_reject_handshake on;`) -/
  sslPorts : List Nat
  /-- the key-pair files: id (file `secrets/<id>.pem`), certificate and key bytes -/
  keyPairs : List Tls.KeyPair

def genT (s : ScenarioT) : ConfT :=
  let hc := gen (httpPart s)
  match winnerT s with
  | none => { http := hc, ssl := [], sslPorts := [], keyPairs := [] }
  | some gT =>
    let sc := gen (httpsPart s)
    let g := projGw (validHttps s) gT
    let vs := sslListeners s gT
    { http := hc
      ssl := (sc.servers.map fun sv =>
                (sv, (ownerOf g s.routes (vs.filter (·.base.port == sv.port)) sv.name).bind kpOf)) ++
             listenerOnly g s.routes vs
      sslPorts := sc.ports
      keyPairs := keyPairsFrom s.secrets [] vs }

/-! ### what NGINX presents: the certificate for an SNI name on a port -/

/-- NGINX selects the SSL server by SNI exactly as it selects a server by Host (`selectName`); among servers of one
name the first one defined wins ("conflicting server name … ignored"). `none` = connection refused (nobody listens),
`some none` = the default server rejects the handshake, `some (some kp)` = the certificate of key pair `kp`. -/
def presented (c : ConfT) (port : Nat) (sni : Str) : Option (Option (List Char)) :=
  if !c.sslPorts.contains port then none
  else
    let srvs := c.ssl.filter (·.1.port == port)
    match NGF.NginxEval.selectName (srvs.map (·.1.name)) sni with
    | none => some none
    | some n =>
      match srvs.find? (·.1.name == n) with
      | none => some none
      | some sv => some sv.2

/-! ### scenario transformations the theorems of Props/C16Pipeline speak about (executed by the tie as well) -/

def mapGw (f : GatewayT → List ListenerT) (g : GatewayT) : GatewayT := { g with listeners := f g }

/-- rewrite the listeners of every Gateway -/
def mapScen (f : GatewayT → List ListenerT) (s : ScenarioT) : ScenarioT := { s with gateways := s.gateways.map (mapGw f) }

/-- the condition under which listener `o` makes the port of `l` conflicted -/
def clash (o l : ListenerT) : Bool := o.fieldsOK && o.base.port == l.base.port && o.https != l.https

/-- forget everything TLS-specific that is not the mere existence of a well-formed reference: the Secrets, the
ReferenceGrants, and WHICH Secret an HTTPS listener names -/
def eraseL (l : ListenerT) : ListenerT := { l with cert := l.cert.map fun _ => ([], []) }

def eraseTls (s : ScenarioT) : ScenarioT :=
  { mapScen (fun g => g.listeners.map eraseL) s with secrets := [], grants := [] }

def keepResolved (s : ScenarioT) (g : GatewayT) (l : ListenerT) : Bool := !l.https || decide (resolution s g l = .ok)

/-- remove every HTTPS listener whose Secret did not resolve (missing / wrong type / malformed / not permitted / bad
reference) -/
def dropUnresolved (s : ScenarioT) : ScenarioT := mapScen (fun g => g.listeners.filter (keepResolved s g)) s

/-- an HTTP listener is "free" when no HTTPS listener with a well-formed certificate reference shares its port -/
def keepTied (g : GatewayT) (o : ListenerT) : Bool :=
  o.https || g.listeners.any fun l => l.https && l.fieldsOK && l.base.port == o.base.port

/-- remove every free HTTP listener -/
def dropFreeHttp (s : ScenarioT) : ScenarioT := mapScen (fun g => g.listeners.filter (keepTied g)) s

/-! ### the fragment -/

/-- namespaces are DNS labels: no `_` (makes `generateSSLKeyPairID` injective) -/
def nsPlain (ns : Str) : Bool := !ns.contains '_'

def inFragmentT (s : ScenarioT) : Bool :=
  inFragment (allPart s) &&
  match winnerT s with
  | none => true
  | some g => g.listeners.all fun l => (l.https || l.cert.isNone) && (match l.cert with | some c => nsPlain c.1 | none => true)

end NGF.PipelineTls
