/-
Precedence of match rules and the location scheme, as the code computes them:
  * `higherPriority` / `sortMatchRules` (internal/mode/static/state/dataplane/sort.go, sort.LessObjectMeta);
  * `ConvertGRPCMatches` (internal/mode/static/state/graph/grpcroute.go);
  * the external location scheme of `createLocations` / `initializeExternalLocations`
    (internal/mode/static/nginx/config/servers.go).
Core-only. Theorems: NGF/Props/C02.lean (helpers in NGF/Proofs/Precedence.lean).
-/
namespace NGF.Precedence

abbrev Str := List Char

/-- Go string `<` on the UTF-8 bytes -/
def lexLt : List Nat → List Nat → Bool
  | [], [] => false
  | [], _ :: _ => true
  | _ :: _, [] => false
  | a :: as, b :: bs => a < b || (a == b && lexLt as bs)

/-- what `higherPriority` reads of a `dataplane.MatchRule`; `id` identifies the rule (source position) and is
not compared -/
structure MatchKey where
  hasMethod : Bool
  nHeaders : Nat
  nQuery : Nat
  age : Int
  ns : List Nat
  name : List Nat
  id : Nat := 0
  deriving Repr, BEq, DecidableEq

/-- `ngfsort.LessObjectMeta` -/
def lessMeta (a b : MatchKey) : Bool :=
  if a.age == b.age then
    if a.ns == b.ns then lexLt a.name b.name else lexLt a.ns b.ns
  else a.age < b.age

/-- `higherPriority(rule1, rule2)` -/
def higherPriority (a b : MatchKey) : Bool :=
  if a.hasMethod && !b.hasMethod then true
  else if b.hasMethod && !a.hasMethod then false
  else if a.nHeaders != b.nHeaders then a.nHeaders > b.nHeaders
  else if a.nQuery != b.nQuery then a.nQuery > b.nQuery
  else lessMeta a b

/-- the order relation handed to the stable sort: `a` may stay before `b` -/
def le (a b : MatchKey) : Bool := !higherPriority b a

/-- `sortMatchRules`: a stable sort by `higherPriority` -/
def sortRules (l : List MatchKey) : List MatchKey := l.mergeSort le

/-! ### ConvertGRPCMatches -/

structure GRPCMatch where
  hasMethod : Bool
  service : Option Str
  method : Option Str
  nHeaders : Nat
  deriving Repr, BEq

structure ConvPath where
  exact : Bool
  path : Str
  nHeaders : Nat
  deriving Repr, BEq, DecidableEq

def fullMethod (m : GRPCMatch) : Option (Str × Str) :=
  if m.hasMethod then
    match m.service, m.method with
    | some s, some me => some (s, me)
    | _, _ => none
  else none

def convertOne (m : GRPCMatch) : ConvPath :=
  match fullMethod m with
  | some (s, me) => ⟨true, '/' :: s ++ '/' :: me, m.nHeaders⟩
  | none => ⟨false, ['/'], m.nHeaders⟩

/-- `ConvertGRPCMatches` as it is now (each match gets its own path value and type) -/
def convertGRPC : List GRPCMatch → List ConvPath
  | [] => [⟨false, ['/'], 0⟩]
  | ms => ms.map convertOne

/-- the variant before commit ae25499 (kept to pin the regression): `pathType` was shared through a pointer
(every converted match reads the LAST value written) and `pathValue` carried over to later matches -/
def convertGRPCSharedAux : List GRPCMatch → Str → List (Str × Nat)
  | [], _ => []
  | m :: ms, cur =>
    let cur' := match fullMethod m with
      | some (s, me) => '/' :: s ++ '/' :: me
      | none => cur
    (cur', m.nHeaders) :: convertGRPCSharedAux ms cur'

def convertGRPCShared : List GRPCMatch → List ConvPath
  | [] => [⟨false, ['/'], 0⟩]
  | ms =>
    let anyMethod := ms.any fun m => (fullMethod m).isSome
    (convertGRPCSharedAux ms ['/']).map fun (p, n) => ⟨anyMethod, p, n⟩

/-- the specification of the conversion, checked on the REAL output: position by position, a match with
service and method becomes `Exact /service/method`, any other match `PathPrefix /`; no match = one `PathPrefix /` -/
def convFaithfulAux : List GRPCMatch → List ConvPath → Bool
  | [], [] => true
  | m :: ms, o :: os =>
    (match fullMethod m with
     | some (s, me) => o.exact && o.path == '/' :: s ++ '/' :: me
     | none => !o.exact && o.path == ['/']) && o.nHeaders == m.nHeaders && convFaithfulAux ms os
  | _, _ => false

def convFaithful (ms : List GRPCMatch) (out : List ConvPath) : Bool :=
  match ms with
  | [] => out == [⟨false, ['/'], 0⟩]
  | _ => convFaithfulAux ms out

/-! ### the external location scheme -/

structure PathRule where
  path : Str
  isPrefix : Bool
  deriving Repr, BEq, DecidableEq

structure GenLoc where
  exact : Bool
  path : Str
  /-- index of the path rule the location serves; `rules.length` = the default 404 root location -/
  rule : Nat
  deriving Repr, BEq, DecidableEq

def hasExact (rules : List PathRule) (p : Str) : Bool := rules.any fun r => !r.isPrefix && r.path == p
def hasPrefix (rules : List PathRule) (p : Str) : Bool := rules.any fun r => r.isPrefix && r.path == p
def endsSlash (p : Str) : Bool := p.getLast? == some '/'

/-- `initializeExternalLocations` (paths only) -/
def extLocs (rules : List PathRule) (i : Nat) (r : PathRule) : List GenLoc :=
  if r.isPrefix && !endsSlash r.path then
    let exactExists := hasExact rules r.path
    let slashExists := hasPrefix rules (r.path ++ ['/'])
    if exactExists && slashExists then []
    else (if !slashExists then [⟨false, r.path ++ ['/'], i⟩] else []) ++
         (if !exactExists then [⟨true, r.path, i⟩] else [])
  else [⟨!r.isPrefix, r.path, i⟩]

def extLocsFrom (rules : List PathRule) : Nat → List PathRule → List GenLoc
  | _, [] => []
  | i, r :: rs => extLocs rules i r ++ extLocsFrom rules (i + 1) rs

/-- the external locations of `createLocations` in order, and the default root when no rule has path "/" -/
def genLocs (rules : List PathRule) : List GenLoc :=
  extLocsFrom rules 0 rules ++ (if rules.any (fun r => r.path == ['/']) then [] else [⟨false, ['/'], rules.length⟩])

end NGF.Precedence
