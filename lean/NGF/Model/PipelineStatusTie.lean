/-
C07, fragment stage — the tie: the flat scenario of a case (the SAME projection `harness/c02.Flatten` and the SAME
`PipelineTie.toFragment` that C02 uses to validate `Pipeline.gen` against the real http.conf) is turned into a
`Pipeline.Scenario`; `PipelineStatus.routeParentStatuses` / `gatewayStatus` / `ignoredGateways` of it are compared with the
REAL statuses (type, status, reason, observedGeneration, entry order, attachedRoutes) written by the real setters.
`toFragmentV` extends `toFragment` by invalid routes (all rules outside the supported envelope ⇒ `Route.valid = false`).
Core-only; not itself subject of theorems.
-/
import NGF.Model.PipelineTie
import NGF.Model.PipelineStatus

namespace NGF.PipelineStatusTie
open NGF.Pipeline NGF.PipelineStatus
open NGF.StatusPrep (ApiCond ParentStatus GatewayStatus ListenerStatus Prepared)
abbrev SScenario := NGF.Spec.GatewayAPI.Scenario

/-- `processHTTPRouteRules`: rules exist and none of them is valid ⇒ the route is invalid; here additionally the filters
must be supported, so that the invalidity comes from the matches only (no ResolvedRefs/InvalidFilter side condition) -/
def allRulesInvalid (r : NGF.Spec.GatewayAPI.Route) : Bool :=
  !r.rules.isEmpty && r.rules.all fun x =>
    !NGF.Spec.GatewayAPI.ruleMatchesOK r.kind x && NGF.Spec.GatewayAPI.ruleFiltersOK r.kind x &&
      x.filters.all fun f => f.type == "RequestRedirect" || f.type == "RequestHeaderModifier" || f.type == "ResponseHeaderModifier"

/-- the fragment view with invalid routes; coincides with `PipelineTie.toFragment` when no route is invalid -/
def toFragmentV (s : SScenario) : Except String Pipeline.Scenario := do
  if s.gcs.any fun c => c.name == s.cls && c.params then throw "gatewayclass parametersRef"
  if s.routes.any fun r => r.parents.any fun p => p.hasSection && p.sectionName == "" then throw "empty sectionName"
  let s' := { s with routes := s.routes.map fun r => if allRulesInvalid r then { r with rules := [] } else r }
  let fs ← NGF.PipelineTie.toFragment s'
  pure { fs with routes := (fs.routes.zip s.routes).map fun (fr, r) => if allRulesInvalid r then { fr with valid := false } else fr }

/-- the reason of a ResolvedRefs=False condition is not modelled -/
def maskCond (c : ApiCond) : ApiCond :=
  if c.type == "ResolvedRefs" && c.status == "False" then { c with reason := refsReason } else c

def maskParent (p : ParentStatus) : ParentStatus := { p with conds := p.conds.map maskCond }

structure Report where
  routes : Nat := 0
  /-- routes for which the model issues a status -/
  withStatus : Nat := 0
  parents : Nat := 0
  listeners : Nat := 0
  ignored : Nat := 0
  /-- Accepted reasons of the compared parent entries -/
  reasons : List String := []
  /-- attachedRoutes of the compared listeners -/
  attached : List Nat := []
  invalidRoutes : Nat := 0
  unresolved : Nat := 0
  classState : String := ""
  diffs : List String := []

def acceptedReason (p : ParentStatus) : String :=
  match p.conds.find? (·.type == "Accepted") with
  | some c => if c.status == "True" then "Accepted" else c.reason
  | none => "?"

def classStateStr : ClassState → String
  | .ours => "ours" | .foreign => "foreign" | .missing => "missing"

/-- compare the model statuses of the fragment scenario with the real ones. `genOf kind ns name` is the object's
`metadata.generation`. -/
def compareFragment (fs : Pipeline.Scenario) (reloadErr : Bool) (genOf : String → String → String → Int) (real : Prepared) : Report := Id.run do
  let mut rep : Report := { routes := fs.routes.length, classState := classStateStr (classState fs) }
  for r in fs.routes do
    let ns := str r.ns
    let name := str r.name
    let realParents := match real.routes.find? (fun x => x.kind == "HTTPRoute" && x.ns == ns && x.name == name) with
      | some x => some x.parents
      | none => none
    if !r.valid then rep := { rep with invalidRoutes := rep.invalidRoutes + 1 }
    match routeParentStatuses fs reloadErr (genOf "HTTPRoute" ns name) r, realParents with
    | _, none => rep := { rep with diffs := rep.diffs ++ [s!"route-object-missing:{ns}/{name}"] }
    | none, some ps =>
      if !ps.isEmpty then rep := { rep with diffs := rep.diffs ++ [s!"route-unexpected-status:{ns}/{name}"] }
    | some ms, some ps =>
      rep := { rep with withStatus := rep.withStatus + 1, parents := rep.parents + ms.length,
                        reasons := rep.reasons ++ ms.map acceptedReason,
                        unresolved := rep.unresolved + (ms.filter resolvedFalse).length }
      if ps.map maskParent != ms then
        rep := { rep with diffs := rep.diffs ++ [s!"route:{ns}/{name}:model={repr (ms.map fun m => (m.sectionName, acceptedReason m, resolvedFalse m))}:real={repr (ps.map fun m => (m.sectionName, acceptedReason m, resolvedFalse m))}"] }
  -- Gateways: the winner, the ignored ones, and everything else untouched
  let winnerKey := (graphGateway fs).map fun gg => (str gg.1.ns, str gg.1.name)
  let ignoredKeys := (ignoredGateways fs).map fun g => (str g.ns, str g.name)
  match graphGateway fs with
  | some gg =>
    let ns := str gg.1.ns
    let name := str gg.1.name
    match gatewayStatus fs reloadErr (genOf "Gateway" ns name), real.gateways.find? (fun x => x.ns == ns && x.name == name) with
    | some m, some x =>
      rep := { rep with listeners := rep.listeners + m.listeners.length, attached := rep.attached ++ m.listeners.map (·.attachedRoutes) }
      if x != m then
        rep := { rep with diffs := rep.diffs ++ [s!"gateway:{ns}/{name}:model={repr (m.listeners.map fun l => (l.name, l.attachedRoutes))}:real={repr (x.listeners.map fun l => (l.name, l.attachedRoutes))}"] }
    | _, _ => rep := { rep with diffs := rep.diffs ++ [s!"gateway-object-missing:{ns}/{name}"] }
  | none => pure ()
  for g in ignoredGateways fs do
    let ns := str g.ns
    let name := str g.name
    rep := { rep with ignored := rep.ignored + 1 }
    match real.gateways.find? (fun x => x.ns == ns && x.name == name) with
    | some x =>
      if x != NGF.StatusPrep.prepareIgnored ⟨ns, name, genOf "Gateway" ns name⟩ then
        rep := { rep with diffs := rep.diffs ++ [s!"ignored-gateway:{ns}/{name}"] }
    | none => rep := { rep with diffs := rep.diffs ++ [s!"gateway-object-missing:{ns}/{name}"] }
  for x in real.gateways do
    if some (x.ns, x.name) != winnerKey && !ignoredKeys.contains (x.ns, x.name) && !(x.conds.isEmpty && x.listeners.isEmpty) then
      rep := { rep with diffs := rep.diffs ++ [s!"gateway-unexpected-status:{x.ns}/{x.name}"] }
  return rep

def countStrs (l : List String) : List (String × Nat) :=
  l.eraseDups.map fun x => (x, (l.filter (· == x)).length)

def Report.render (r : Report) : String :=
  let head := s!"routes={r.routes} withStatus={r.withStatus} parents={r.parents} listeners={r.listeners} ignored={r.ignored} " ++
    s!"invalidRoutes={r.invalidRoutes} unresolved={r.unresolved} class={r.classState} " ++
    "reasons=" ++ ",".intercalate ((countStrs r.reasons).map fun x => s!"{x.1}:{x.2}") ++
    " attached=" ++ ",".intercalate ((countStrs (r.attached.map toString)).map fun x => s!"{x.1}:{x.2}")
  if r.diffs.isEmpty then "ok " ++ head
  else (("diff " ++ head ++ " ## " ++ " ;; ".intercalate r.diffs).replace "\n" " ").replace "  " " "

end NGF.PipelineStatusTie
