/-
C08 — the retry loop against a CHANGING object ("live drift").

`NGF.Model.StatusWrite.runRetry` lets another writer change the stored object only as the cause of a
conflicting Update. Here every attempt is preceded by an optional edit of the stored object by
somebody else (`Step.edit = some st`: the status now stored is `st` — entries added, removed,
reordered, altered; any status at all), so the object the retry function's Get returns is a scripted
sequence of live objects that need not be the one the computed status was derived from.
`runLive` is what the driver executes; `runRetry` is the special case without edits
(`NGF.Proofs.StatusDrift.runLive_no_edits`).

Harness side: `harness/c08/fake.go` (`op.pre`: the scripted client stores that status right before
the Get of the attempt), schedule syntax `e<i>+<op>`.
-/
import NGF.Model.StatusWrite

namespace NGF.StatusWrite

/-- One attempt of the retry function in a world with other writers. -/
structure Step where
  edit : Option Status   -- what another writer stored between the previous attempt and this Get
  op   : Op
  deriving DecidableEq, Repr

def Step.quiet : Step := ⟨none, .ok⟩

/-- the object the Get of this attempt returns when `store` was stored after the previous attempt -/
def Step.live (st : Step) (store : Status) : Status := st.edit.getD store

def attemptLive (inv : Invoke) (r : Run) (st : Step) : Run × Bool :=
  attempt inv { r with store := st.live r.store } st.op

/-- `wait.ExponentialBackoffWithContext` with `steps` steps over a script of (edit, outcome); a script
shorter than the number of attempts continues quietly (no edit, Get and Update succeed). -/
def runLive (inv : Invoke) : Nat → Run → List Step → Run
  | 0, r, _ => r
  | n + 1, r, script =>
    let st := script.headD .quiet
    let (r', done) := attemptLive inv r st
    if done then r' else runLive inv n r' script.tail

/-- What is stored after a NON-final attempt that fetched `live` (the environment's part only). -/
def afterAttempt (live : Status) : Op → Status
  | .updFail (some p) => p
  | _ => live

/-- The sequence of live objects the Gets of attempts 0, 1, … return as long as no write succeeds:
a function of the initial store and the script only (not of the setter). -/
def liveSeq : Nat → Status → List Step → List Status
  | 0, _, _ => []
  | n + 1, store, script =>
    let st := script.headD .quiet
    let live := st.live store
    live :: liveSeq n (afterAttempt live st.op) script.tail

end NGF.StatusWrite
