/-
C04 judge: the property "a field value appears wholly inside the argument(s) it was meant for, without
variable interpolation" evaluated on the token streams (Lean NGINX lexer) of the REAL generated files.

Inputs are the token stream of a file generated for a benign value of a field (the baseline) and the
token stream of the same file generated for a hostile value of the same field. Every probe value
carries the marker `zqmq` (case-insensitively, it survives NGF's name mangling).

`judgeToks base probe` accepts iff the two streams have the same length and agree position by
position, except at positions where both are argument words and the probe word carries the marker;
at such a position the probe word may not contain more `$` than the baseline word unless the
argument is one NGINX does not interpolate (location, rewrite regex, server_name, map/split_clients key).
Core Lean only.
-/
import NGF.Model.NginxParse

namespace NGF.Inj
open NGF.Nginx

def marker : List Char := ['z', 'q', 'm', 'q']

def lower (c : Char) : Char := if 'A' ≤ c && c ≤ 'Z' then Char.ofNat (c.toNat + 32) else c

def isPrefixCI : List Char → List Char → Bool
  | [], _ => true
  | _ :: _, [] => false
  | p :: ps, c :: cs => p == lower c && isPrefixCI ps cs

/-- does the string contain the marker (case-insensitive)? -/
def hasMarker : List Char → Bool
  | [] => false
  | c :: cs => isPrefixCI marker (c :: cs) || hasMarker cs

def countDollar (s : List Char) : Nat := s.foldl (fun n c => if c == '$' then n + 1 else n) 0

/-- where we are in the directive structure while walking a token stream -/
structure Ctx where
  blocks : List (List Char)   -- names of the enclosing block directives, innermost first
  stmt : List (List Char)     -- words of the current statement so far, in order
  deriving Repr

def Ctx.init : Ctx := { blocks := [], stmt := [] }

def Ctx.advance (c : Ctx) : Tok → Ctx
  | .word s _ => { c with stmt := c.stmt ++ [s] }
  | .semi => { c with stmt := [] }
  | .open => { blocks := (c.stmt.headD []) :: c.blocks, stmt := [] }
  | .close => { blocks := c.blocks.drop 1, stmt := [] }

/-- does NGINX expand `$name` in the next argument of the current statement? -/
def Ctx.interpolates (c : Ctx) : Bool :=
  let idx := c.stmt.length
  let dir := String.ofList (c.stmt.headD [])
  let blk := String.ofList (c.blocks.headD [])
  if blk == "map" || blk == "split_clients" || blk == "types" then idx != 0
  else if idx == 0 then false            -- the directive name itself
  else if dir == "location" || dir == "server_name" then false
  else if dir == "rewrite" && idx == 1 then false
  else true

inductive Verdict
  | ok (marked : Nat)
  | fail (clause : String) (pos : Nat) (detail : String)
  deriving Repr, DecidableEq

def Verdict.isOk : Verdict → Bool
  | .ok _ => true
  | .fail _ _ _ => false

def tokStr : Tok → String
  | .word s q => (if q then "\"" else "") ++ String.ofList s ++ (if q then "\"" else "")
  | .semi => ";"
  | .open => "{"
  | .close => "}"

def ctxStr (c : Ctx) : String :=
  String.intercalate " " (c.stmt.map String.ofList) ++ " @" ++ String.intercalate "<" (c.blocks.map String.ofList)

/-- positional comparison, see the module comment -/
def judgeGo (c : Ctx) (pos marked : Nat) : List Tok → List Tok → Verdict
  | [], [] => .ok marked
  | [], p :: _ => .fail "skeleton" pos ("extra token " ++ tokStr p ++ " after " ++ ctxStr c)
  | b :: _, [] => .fail "skeleton" pos ("missing token " ++ tokStr b ++ " after " ++ ctxStr c)
  | b :: bs, p :: ps =>
    if b == p then judgeGo (c.advance p) (pos + 1) marked bs ps
    else match b, p with
      | .word sb _, .word sp _ =>
        if hasMarker sp then
          if countDollar sp > countDollar sb && c.interpolates then
            .fail "dollar" pos (tokStr p ++ " (baseline " ++ tokStr b ++ ") in " ++ ctxStr c)
          else judgeGo (c.advance p) (pos + 1) (marked + 1) bs ps
        else .fail "skeleton" pos (tokStr p ++ " instead of " ++ tokStr b ++ " in " ++ ctxStr c)
      | _, _ => .fail "skeleton" pos (tokStr p ++ " instead of " ++ tokStr b ++ " in " ++ ctxStr c)

def judgeToks (base probe : List Tok) : Verdict := judgeGo Ctx.init 0 0 base probe

/-- for every token: does the statement it belongs to contain a marker-bearing word? -/
def stmtFlags (ts : List Tok) : List Bool :=
  let rec go : List Tok → List Tok → List Bool
    | [], cur => cur.map (fun _ => cur.any (fun t => match t with | .word s _ => hasMarker s | _ => false))
    | t :: rest, cur =>
      match t with
      | .word _ _ => go rest (cur ++ [t])
      | _ =>
        let f := cur.any (fun t => match t with | .word s _ => hasMarker s | _ => false)
        (cur.map (fun _ => f)) ++ [f] ++ go rest []
  go ts []

/-- Empty-string probe of a `*string` field: the probe's stream must keep the baseline's skeleton (same
length, same punctuation); argument words may differ only inside statements whose BASELINE form carries the
marker (the directive the benign value is rendered into). -/
def judgeEmptyGo (c : Ctx) (pos : Nat) : List (Tok × Bool) → List Tok → Verdict
  | [], [] => .ok 0
  | [], p :: _ => .fail "empty-argument" pos ("extra token " ++ tokStr p ++ " after " ++ ctxStr c)
  | (b, _) :: _, [] => .fail "empty-argument" pos ("missing token " ++ tokStr b ++ " after " ++ ctxStr c)
  | (b, own) :: bs, p :: ps =>
    if b == p then judgeEmptyGo (c.advance p) (pos + 1) bs ps
    else match b, p with
      | .word _ _, .word _ _ =>
        if own then judgeEmptyGo (c.advance p) (pos + 1) bs ps
        else .fail "empty-argument" pos (tokStr p ++ " instead of " ++ tokStr b ++ " in " ++ ctxStr c)
      | _, _ => .fail "empty-argument" pos (tokStr p ++ " instead of " ++ tokStr b ++ " in " ++ ctxStr c)

def judgeEmpty (base probe : List Tok) : Verdict := judgeEmptyGo Ctx.init 0 (base.zip (stmtFlags base)) probe

/-- the skeleton of a token stream: marker-bearing words are replaced by a placeholder -/
def skeleton (ts : List Tok) : List Tok :=
  ts.map (fun t => match t with
    | .word s q => if hasMarker s then .word [] q else .word s q
    | t => t)

/-! ### order normalisation
NGF renders upstreams, upstream servers and header maps in Go map-iteration order, which differs from
run to run. Before the positional comparison both streams are brought into a canonical order: the
top-level statements of a file and the children of `upstream`, `map` and `server` blocks (locations are
rendered in path order, which a changed path legitimately permutes) are sorted (stably) by
their skeleton text. Sorting cannot hide an injected token: it only permutes whole statements. -/

partial def dirToks : Dir → List Tok
  | .mk n args blk =>
    let head := Tok.word n false :: args.map (fun a => Tok.word a.1 a.2)
    match blk with
    | none => head ++ [.semi]
    | some ch => head ++ [.open] ++ (ch.map dirToks).flatten ++ [.close]

def dirKey (d : Dir) : String := " ".intercalate ((skeleton (dirToks d)).map tokStr)

def unordered (name : List Char) : Bool :=
  let n := String.ofList name
  n == "upstream" || n == "map" || n == "server"

def sortDirs (ds : List Dir) : List Dir :=
  ((ds.map (fun d => (dirKey d, d))).mergeSort (fun a b => a.1 ≤ b.1)).map (·.2)

/-- collapse every run of digits to `N` -/
def normDigits : List Char → List Char
  | [] => []
  | c :: cs =>
    if c.isDigit then
      match normDigits cs with
      | 'N' :: r => 'N' :: r
      | r => 'N' :: r
    else c :: normDigits cs

/-- names of NGF's internal locations carry the index of the path rule in path order -/
def isInternalLoc (s : List Char) : Bool := "/_ngf-internal-rule".toList.isPrefixOf s

/-- Indices NGF derives from the sorted position of a path rule (`/_ngf-internal-rule<i>-route<j>`,
`set $match_key <server>_<i>`) legitimately shift when a changed path sorts elsewhere: they are compared
modulo their digits. -/
def normArgs (name : List Char) (args : List (List Char × Bool)) : List (List Char × Bool) :=
  let n := String.ofList name
  if n == "location" then args.map (fun a => if isInternalLoc a.1 then (normDigits a.1, a.2) else a)
  else if n == "set" then
    match args with
    | [(v, q), (k, q')] => if String.ofList v == "$match_key" then [(v, q), (normDigits k, q')] else args
    | _ => args
  else args

partial def canonDir : Dir → Dir
  | .mk n a (some ch) =>
    let ch' := ch.map canonDir
    .mk n (normArgs n a) (some (if unordered n then sortDirs ch' else ch'))
  | .mk n a none => .mk n (normArgs n a) none

/-- canonical token stream of a file (`none` if the blocks do not nest) -/
def canon (ts : List Tok) : Option (List Tok) :=
  match parseToks (ts.length + 1) 0 ts [] [] with
  | .error _ => none
  | .ok (ds, _) => some ((sortDirs (ds.map canonDir)).map dirToks).flatten

/-- file paths: equal up to marker-bearing paths -/
def pathSkeleton (ps : List String) : List String :=
  ps.map (fun p => if hasMarker p.toList then "<marked>" else p)

end NGF.Inj
