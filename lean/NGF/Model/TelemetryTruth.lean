/-
C19 (round 5, task C19-truth) — two more pieces of the telemetry path, core Lean only.

1. `internal/mode/static/telemetry/platform.go`: `getPlatform`, the extractor list, `buildProviderIDExtractor`,
   `openShiftExtractor`, `rancherExtractor`, `unknownProviderIDExtractor` (`strings.HasPrefix`, `strings.Cut(id, "://")`,
   `strings.TrimSpace`).  Strings are `List Char` (valid UTF-8; the separators and identifiers are ASCII, so byte-wise
   `HasPrefix`/`Cut` equal the code-point versions).

2. A small model of what `eventHandlerImpl.HandleEventBatch` (handler.go) and `ChangeProcessorImpl.Process` do to the two
   sources the telemetry collector reads — `GraphGetter = processor` (`GetLatestGraph`) and `ConfigurationGetter =
   eventHandler` (`GetLatestConfiguration`), as `manager.go` wires them: a batch that changes something stores the new
   graph in the processor, builds the configuration FROM THAT GRAPH, stores it with `setLatestConfiguration` BEFORE it
   tries to update NGINX, and only then writes files / reloads / calls the Plus API; whether NGINX accepts the update
   changes `latestReloadResult`, never the stored configuration.
   A snapshot is a `Summary` (NGF.Model.Telemetry): the graph fields plus, in `upstreams`, the upstreams of the configuration
   `dataplane.BuildConfiguration` derives from that graph (endpoint resolution is environment; its result travels with the
   snapshot).
-/
import NGF.Model.Telemetry

namespace NGF.Telemetry

/-! ### platform.go -/

/-- what `getPlatform` reads of `k8sState`: `node.Labels` (a Go map: keys distinct), `node.Spec.ProviderID`, and the names of
`namespaces.Items` in list order -/
structure K8sState where
  labels : List (Str × Str)
  providerID : Str
  namespaces : List Str
  deriving DecidableEq, Repr

/-- `m[k]` on a `map[string]string` (missing key = "") -/
def mapGet (m : List (Str × Str)) (k : Str) : Str :=
  match m.find? (·.1 == k) with
  | some p => p.2
  | none => []

def openshiftIdentifier : Str := "node.openshift.io/os_id".toList
def rancherIdentifier : Str := "cattle-system".toList

def platformOther : Str := "other".toList

/-- `openShiftExtractor` -/
def openShiftExtractor (s : K8sState) : Str :=
  if mapGet s.labels openshiftIdentifier != [] then "openshift".toList else []

/-- `rancherExtractor`: `for _, ns := range state.namespaces.Items { if ns.Name == rancherIdentifier { return platformRancher } }` -/
def rancherLoop : List Str → Str
  | [] => []
  | n :: ns => if n == rancherIdentifier then "rancher".toList else rancherLoop ns

def rancherExtractor (s : K8sState) : Str := rancherLoop s.namespaces

/-- `buildProviderIDExtractor(id, platform)`: `strings.HasPrefix(state.node.Spec.ProviderID, id)` -/
def providerIDExtractor (id platform : Str) (s : K8sState) : Str :=
  if id.isPrefixOf s.providerID then platform else []

/-- `(identifier, platform)` of the `buildProviderIDExtractor` entries of `platformExtractors`, in order -/
def providerIDTable : List (Str × Str) :=
  [("gce".toList, "gke".toList), ("aws".toList, "eks".toList), ("azure".toList, "aks".toList),
   ("kind".toList, "kind".toList), ("k3s".toList, "k3s".toList)]

/-- `platformExtractors` -/
def platformExtractors : List (K8sState → Str) :=
  [openShiftExtractor, rancherExtractor] ++ providerIDTable.map fun p => providerIDExtractor p.1 p.2

/-- the loop of `getPlatform`: the first extractor with a non-empty answer -/
def firstPlatform : List (K8sState → Str) → K8sState → Option Str
  | [], _ => none
  | e :: es, s => if e s != [] then some (e s) else firstPlatform es s

def schemeSep : Str := [':', '/', '/']

/-- `strings.Cut(s, "://")`: `some (before, after)` around the FIRST occurrence, `none` when there is none -/
def cutScheme : Str → Option (Str × Str)
  | [] => none
  | c :: cs =>
    if schemeSep.isPrefixOf (c :: cs) then some ([], (c :: cs).drop 3)
    else match cutScheme cs with
      | some (p, r) => some (c :: p, r)
      | none => none

/-- `unknownProviderIDExtractor` -/
def unknownProviderIDExtractor (s : K8sState) : Str :=
  let providerName : Str :=
    match cutScheme s.providerID with
    | some (pre, _) => trimSpace pre
    | none => []
  if providerName == [] then platformOther else platformOther ++ '_' :: providerName

/-- `getPlatform` -/
def getPlatform (s : K8sState) : Str :=
  match firstPlatform platformExtractors s with
  | some p => p
  | none => unknownProviderIDExtractor s

/-- the closed vocabulary of `ClusterPlatform` apart from `other_<scheme>` -/
def platformConstants : List Str :=
  ["openshift", "rancher", "gke", "eks", "aks", "kind", "k3s", "other"].map String.toList

/-! ### HandleEventBatch / Process as seen by the telemetry collector -/

inductive ChangeType | noChange | endpointsOnly | clusterState
  deriving DecidableEq, Repr

/-- what the environment does with the update of one batch -/
inductive Outcome
  | ok
  | writeFails    -- `nginxFileMgr.ReplaceFiles` returns an error
  | reloadFails   -- `nginxRuntimeMgr.Reload` returns an error
  | apiFails      -- the NGINX Plus API (`GetUpstreams`) returns an error
  deriving DecidableEq, Repr

/-- one event batch as the handler sees it: what `processor.Process()` answers (change type; for a change the new graph,
summarised together with the upstreams `BuildConfiguration` derives from it) and what the environment will do -/
structure Batch where
  change : ChangeType
  snap : Summary
  outcome : Outcome

/-- `dataplane.Configuration` as far as telemetry reads it (+ its version) -/
structure Conf where
  upstreams : List UpstreamSummary
  version : Nat
  deriving DecidableEq, Repr

/-- `dataplane.BuildConfiguration(ctx, gr, h.cfg.serviceResolver, h.version)` -/
def buildConf (g : Summary) (version : Nat) : Conf := { upstreams := g.upstreams, version := version }

structure HState where
  /-- `ChangeProcessorImpl.latestGraph` (what `GraphGetter.GetLatestGraph` returns) -/
  graph : Option Summary
  /-- `eventHandlerImpl.latestConfiguration` (what `ConfigurationGetter.GetLatestConfiguration` returns) -/
  conf : Option Conf
  /-- `eventHandlerImpl.version` -/
  version : Nat
  /-- `latestReloadResult.Error != nil` -/
  lastError : Bool

def HState.init : HState := { graph := none, conf := none, version := 0, lastError := false }

/-- does `updateNginxConf` return an error?  ReplaceFiles, Reload, then (Plus only) `updateUpstreamServers` -/
def fullUpdateFails (plus : Bool) : Outcome → Bool
  | .ok => false
  | .writeFails => true
  | .reloadFails => true
  | .apiFails => plus

/-- does the update of this batch return an error?  A cluster-state change goes through `updateNginxConf`; an endpoints-only
change goes straight to `updateUpstreamServers` (Plus API alone) only `if h.cfg.plus && h.latestReloadResult.Error == nil`
(since fix c94173a: after a failed write/reload it goes through the files and a reload again); `prevErr` = the remembered
`latestReloadResult.Error != nil` -/
def updateFails (plus prevErr : Bool) (ct : ChangeType) (o : Outcome) : Bool :=
  match ct with
  | .noChange => false
  | .clusterState => fullUpdateFails plus o
  | .endpointsOnly => if plus && !prevErr then o == .apiFails else fullUpdateFails plus o

/-- PRE-FIX variant (before c94173a; NOT the code): the Plus endpoints-only arm did not consult the remembered result -/
def updateFailsPreFix (plus : Bool) (ct : ChangeType) (o : Outcome) : Bool :=
  match ct with
  | .noChange => false
  | .clusterState => fullUpdateFails plus o
  | .endpointsOnly => if plus then o == .apiFails else fullUpdateFails plus o

/-- `HandleEventBatch` (current code): `NoChange` returns early; otherwise `h.version++`, `cfg := BuildConfiguration(gr, …)`,
`h.setLatestConfiguration(&cfg)`, THEN the update; its error only goes to `latestReloadResult` -/
def handleBatch (plus : Bool) (st : HState) (b : Batch) : HState :=
  match b.change with
  | .noChange => st
  | ct =>
    { graph := some b.snap
      conf := some (buildConf b.snap (st.version + 1))
      version := st.version + 1
      lastError := updateFails plus st.lastError ct b.outcome }

def runBatches (plus : Bool) (bs : List Batch) : HState := bs.foldl (handleBatch plus) .init

/-- VARIANT that is NOT the code (seeded change C19-r4m2): `setLatestConfiguration` only in the "successfully updated" branch -/
def handleBatchSuccessOnly (plus : Bool) (st : HState) (b : Batch) : HState :=
  match b.change with
  | .noChange => st
  | ct =>
    let failed := updateFails plus st.lastError ct b.outcome
    { graph := some b.snap
      conf := if failed then st.conf else some (buildConf b.snap (st.version + 1))
      version := st.version + 1
      lastError := failed }

def runBatchesSuccessOnly (plus : Bool) (bs : List Batch) : HState := bs.foldl (handleBatchSuccessOnly plus) .init

/-- `Collect`'s resource counts: graph from the GraphGetter, configuration from the ConfigurationGetter; `none` = Collect
returns an error ("latest graph cannot be nil" / "latest configuration cannot be nil") and nothing is reported -/
def telemetryCounts (st : HState) : Option Counts :=
  match st.graph, st.conf with
  | some g, some c => some (countResources { g with upstreams := c.upstreams })
  | _, _ => none

/-- the snapshot of the last batch that changed something -/
def lastSnapshot : List Batch → Option Summary
  | [] => none
  | b :: bs =>
    match lastSnapshot bs with
    | some s => some s
    | none => if b.change = .noChange then none else some b.snap

end NGF.Telemetry
