/-
C09 — the property evaluated on an observed (possibly concurrent) history of the real
`LeaderAwareGroupUpdater`.

A history is: the instant at which the replica acquired leadership (`elected`, none = never), the
operations with their call/return stamps (taken from one global atomic counter: the call stamp before
the method is entered, the return stamp after it returned, so `a.ret < b.call` means that `a` really
finished before `b` started), and every write that reached the Kubernetes status client, with the
operation on whose goroutine it happened and its stamp.  Request tags are unique per history.

The judge checks the clauses of the property directly on the stamps, then decides whether SOME
linearisation consistent with the real-time order explains what every operation wrote, where
"explains" is the sequential statement of the property (`latest`, `after` of `NGF.Model.Leader`): no
state machine is consulted.
-/
import NGF.Model.Leader
namespace NGF.Leader

structure HOp where
  isEnable : Bool
  g        : Group
  reqs     : List Req
  call     : Nat
  ret      : Nat
  panicked : Bool
  deriving Repr, BEq, DecidableEq

structure HWrite where
  op  : Nat      -- index of the operation on whose behalf (context) the write was made
  tag : Req
  t   : Nat
  deriving Repr, BEq, DecidableEq

structure History where
  elected : Option Nat
  ops     : List HOp
  writes  : List HWrite      -- in stamp order
  deriving Repr

def indexed (l : List α) : List (Nat × α) := (List.range l.length).zip l

def History.obsOf (h : History) (i : Nat) : List Req :=
  (h.writes.filter (·.op == i)).map (·.tag)

def HOp.toOp (o : HOp) : Op := if o.isEnable then .enable [] else .update o.g o.reqs

/-- collapse runs of equal neighbours -/
def squeeze : List Nat → List Nat
  | a :: b :: t => if a == b then squeeze (b :: t) else a :: squeeze (b :: t)
  | l => l

def nodupB : List Nat → Bool
  | [] => true
  | a :: t => !t.contains a && nodupB t

/-- `obs` is the concatenation of the request lists of `ws` in some order (`ws` has non-empty request
lists with pairwise distinct tags, so the parse is deterministic). -/
def chunksMatch : Nat → List Write → List Req → Bool
  | _, [], obs => obs.isEmpty
  | 0, _ :: _, _ => false
  | n + 1, w :: ws, obs =>
    match obs with
    | [] => false
    | t :: _ =>
      match (w :: ws).find? (fun x => x.2.head? == some t) with
      | none => false
      | some x => x.2.isPrefixOf obs && chunksMatch n ((w :: ws).erase x) (obs.drop x.2.length)

/-- Does the sequential statement of the property, after the operations `pre`, allow operation `c`
to have written exactly `obs`? -/
def okAt (pre : List Op) (c : HOp) (obs : List Req) : Bool :=
  if pre.any Op.isEnable then
    if c.isEnable then c.panicked && obs.isEmpty else !c.panicked && obs == c.reqs
  else if c.isEnable then !c.panicked && chunksMatch ((latest pre).length + 1) (latest pre) obs
  else !c.panicked && obs.isEmpty

def History.submission (h : History) (tag : Req) : Option (Nat × HOp) :=
  (indexed h.ops).find? fun p => !p.2.isEnable && p.2.reqs.contains tag

def History.groupOf (h : History) (tag : Req) : Option Group := (h.submission tag).map (·.2.g)

/-- operation `d` wrote to some group before operation `c` wrote to the same group -/
def History.wroteBefore (h : History) (d c : Nat) : Bool :=
  h.writes.any fun wd => wd.op == d &&
    h.writes.any fun wc => wc.op == c && wd.t < wc.t && h.groupOf wd.tag == h.groupOf wc.tag

/-- depth-first search for a linearisation: `rest` are the operations not yet placed (with index).
The order must respect real time (`d.ret < c.call` puts `d` first) and, per group, the order in which
the writes reached the client (the status that is written last is the one that survives). -/
def linearise (h : History) : Nat → List Op → List (Nat × HOp) → Bool
  | _, _, [] => true
  | 0, _, _ :: _ => false
  | fuel + 1, pre, rest =>
    rest.any fun c =>
      rest.all (fun d => d.1 == c.1 || !(d.2.ret < c.2.call || h.wroteBefore d.1 c.1)) &&
      okAt pre c.2 (h.obsOf c.1) &&
      linearise h fuel (pre ++ [c.2.toOp]) (rest.filter (·.1 != c.1))

/-- the first failing clause, or none -/
def judge (h : History) : Option String :=
  let ops := indexed h.ops
  let upd := ops.filter (!·.2.isEnable)
  let ens := ops.filter (·.2.isEnable)
  if h.writes.any (fun w => (h.submission w.tag).isNone ||
      match h.ops[w.op]? with
      | none => true
      | some o => !o.isEnable && !o.reqs.contains w.tag) then some "unknown_write"
  else if h.elected.isNone && !h.writes.isEmpty then some "nonleader_write"
  else if h.writes.any (fun w => match h.elected with | some e => w.t < e | none => true) then
    some "write_before_leader"
  else if ens.any (fun e => match h.elected with | some t => e.2.call < t | none => true) then
    some "enable_before_leader"
  else if h.writes.any (fun w => match h.ops[w.op]? with
      | some o => !(o.call < w.t && w.t < o.ret) | none => true) then some "write_outside_call"
  else if !nodupB (h.writes.map (·.tag)) then some "duplicate_write"
  else if upd.any (fun s => !nodupB (squeeze
      ((h.writes.filter (fun w => h.groupOf w.tag == some s.2.g)).map (·.op)))) then
    some "interleaved_writes"
  else if h.writes.any (fun wa => h.writes.any (fun wb => wb.t < wa.t &&
      match h.submission wa.tag, h.submission wb.tag with
      | some a, some b => a.2.g == b.2.g && a.2.ret < b.2.call
      | _, _ => false)) then some "older_overwrites_newer"
  else
    match ens with
    | [] => if h.writes.isEmpty then none else some "write_before_leader"
    | [(ei, e)] =>
      let flushed := h.obsOf ei
      if upd.any (fun s => e.ret < s.2.call && h.obsOf s.1 != s.2.reqs) then some "not_immediate"
      else if flushed.any (fun tag => match h.submission tag with
          | none => true
          | some f => upd.any (fun s' => s'.1 != f.1 && s'.2.g == f.2.g &&
                        f.2.ret < s'.2.call && s'.2.ret < e.call)) then some "stale_flush"
      else if upd.any (fun s => s.2.ret < e.call &&
          upd.all (fun s' => s'.1 == s.1 || s'.2.g != s.2.g || s'.2.ret < s.2.call || e.ret < s'.2.call) &&
          flushed.filter (fun tag => h.groupOf tag == some s.2.g) != s.2.reqs) then some "flush_not_latest"
      else if !linearise h (h.ops.length + 1) [] ops then some "no_linearisation"
      else none
    | _ => some "bad-history"

end NGF.Leader
