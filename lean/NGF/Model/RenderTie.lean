/-
Translation validation for Model/Render (C03, stage 2): the REAL http.conf / matches.json of a scenario inside the
fragment of Model/Pipeline, parsed by `NGF.Nginx.parse`, against `render (genR s order)` / `matchesOf (genR s order)`.

  * the filter is explicit: of the top-level directives of http.conf only those named in `kept` are compared
    (`js_preload_object`, `server`, `split_clients`); `droppedSeen` lists every other top-level name that was seen, the
    plugin reports a name outside `knownDropped` as a broken tie. Inside a kept block NOTHING is ignored.
  * the only normalisation: `split_clients` blocks are compared as a set (Go iterates over a map of BackendGroups), and
    the port order (Go iterates over a map of ports) is read from the real file and handed to `genR` as `order`.
    Servers, locations and directives inside them are compared in document order.
Core-only; not itself subject of theorems.
-/
import NGF.Model.Render
import NGF.Model.PipelineTie

namespace NGF.RenderTie
open NGF.Nginx NGF.Render NGF.Pipeline
abbrev SScenario := NGF.Spec.GatewayAPI.Scenario

def kept : List String := ["js_preload_object", "server", "split_clients"]

/-- top-level directives of http.conf that are outside the concern of the fragment (base http config, maps, upstreams) -/
def knownDropped : List String := ["http2", "map", "upstream"]

def nameS (d : Dir) : String := String.ofList d.name

partial def showD : Dir → String
  | .mk n a b =>
    " ".intercalate (String.ofList n :: a.map fun x => if x.2 then "\"" ++ String.ofList x.1 ++ "\"" else String.ofList x.1) ++
    (match b with | none => ";" | some ch => " { " ++ " ".intercalate (ch.map showD) ++ " }")

partial def countD : List Dir → Nat
  | [] => 0
  | d :: ds => 1 + (match d.block with | some ch => countD ch | none => 0) + countD ds

def sortStrs (l : List String) : List String := l.mergeSort fun a b => a ≤ b

/-- normal form: kept directives in document order, except that the split_clients blocks come last, sorted -/
def normalise (ds : List Dir) : List String :=
  let k := ds.filter fun d => kept.contains (nameS d)
  (k.filter fun d => nameS d != "split_clients").map showD ++ sortStrs ((k.filter fun d => nameS d == "split_clients").map showD)

/-- ports in the order in which the real file lists them (first numeric `listen` of every server block) -/
def realPortOrder (ds : List Dir) : List Nat :=
  ((ds.filter fun d => nameS d == "server").filterMap fun s =>
    ((s.block.getD []).filter fun c => nameS c == "listen").findSome? fun c => (String.ofList (arg0 c)).toNat?).eraseDups

def showNjs (m : NjsMatch) : String :=
  s!"any={m.any} method={String.ofList m.method} headers={m.headers.map String.ofList} params={m.params.map String.ofList} -> {String.ofList m.redirectPath}"

def showMatches (ms : List (String × List NjsMatch)) : List String :=
  sortStrs (ms.map fun km => km.1 ++ ": " ++ " | ".intercalate (km.2.map showNjs))

/-- the part of the fragment that `PipelineTie.toFragment` does not check but the renderer depends on: a rule with a
redirect filter is modelled without backends (the real code would still build its BackendGroup) -/
def extraOutside (s : SScenario) : Option String :=
  if s.routes.any fun r => r.rules.any fun rule => !rule.filters.isEmpty && !rule.backends.isEmpty then
    some "redirect rule with backendRefs"
  else none

structure Result where
  inFragment : Bool := false
  why : String := ""
  namesSafe : Bool := false
  portsOK : Bool := false
  equal : Bool := false
  diff : String := ""
  matchesEqual : Bool := false
  matchesDiff : String := ""
  dirs : Nat := 0
  servers : Nat := 0
  locations : Nat := 0
  splits : Nat := 0
  keys : Nat := 0
  ports : Nat := 0
  dropped : List String := []
  /-- `wfDirs` on the rendered model / on the real file -/
  wfModel : List NGF.WF.Issue := []
  wfReal : List NGF.WF.Issue := []

/-- length of the common prefix of two character lists -/
def commonPrefix : List Char → List Char → Nat
  | a :: as, b :: bs => if a == b then 1 + commonPrefix as bs else 0
  | _, _ => 0

/-- the first differing kept directive, shown around the first differing character -/
def firstDiff (x y : List String) : String :=
  match (x.zip y).find? (fun p => p.1 != p.2) with
  | some p =>
    let n := commonPrefix p.1.toList p.2.toList
    let from_ := n - 70
    let win (s : String) : String := String.ofList ((s.toList.drop from_).take 200)
    s!"directive `{String.ofList (p.1.toList.take 60)}…` differs at character {n}: real: …{win p.1} ### model: …{win p.2}"
  | none => s!"real has {x.length} kept directives, model {y.length}; first extra: {(x.drop y.length ++ y.drop x.length).head?.getD ""}"

def realKeys (ms : List (String × List NjsMatch)) : List (List Char × List (List Char)) :=
  ms.map fun km => (km.1.toList, km.2.map (·.redirectPath))

def tie (http : List Dir) (matches_ : List (String × List NjsMatch)) (s : SScenario) : Result :=
  match NGF.PipelineTie.toFragment s with
  | .error e => { why := e }
  | .ok fs =>
    if !Pipeline.inFragment fs then { why := "inFragment (well-formedness / prefix value ending in '/')" }
    else match extraOutside s with
    | some e => { why := e }
    | none =>
      let order := realPortOrder http
      let c := genR fs order
      let model := render c
      let x := normalise http
      let y := normalise model
      let mm := (matchesOf c).map fun km => (String.ofList km.1, km.2)
      let mx := showMatches matches_
      let my := showMatches mm
      let k := http.filter fun d => kept.contains (nameS d)
      let srv := k.filter fun d => nameS d == "server"
      { inFragment := true, namesSafe := Render.namesSafe fs, portsOK := Render.portsOK fs,
        equal := x == y, diff := if x == y then "" else firstDiff x y,
        matchesEqual := mx == my, matchesDiff := if mx == my then "" else firstDiff mx my,
        dirs := countD k, servers := srv.length,
        locations := (srv.map fun s => ((s.block.getD []).filter fun c => nameS c == "location").length).sum,
        splits := (k.filter fun d => nameS d == "split_clients").length, keys := matches_.length, ports := order.length,
        dropped := ((http.filter fun d => !kept.contains (nameS d)).map nameS).eraseDups,
        wfModel := wfDirs model (matchKeysOf c), wfReal := wfDirs http (realKeys matches_) }

end NGF.RenderTie
