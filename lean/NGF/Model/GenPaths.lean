/-
C11 — the SET of files `GeneratorImpl.Generate` produces (paths and types; contents are the business of C03/C16).

Mirrors /repo/internal/mode/static/nginx/config:
  generator.go     Generate                       key pairs  ++  executeConfigTemplates  ++  cert bundles
                   executeConfigTemplates         the `fileBytes` map keyed by destination (so one file per distinct
                                                  destination), then the mgmt files (NGINX Plus)
                   generatePEMFileName / generateCertBundleFileName   filepath.Join(secretsFolder, id+".pem"|".crt")
  main_config.go   executeMainConfig (main.conf + includes of the main snippets), generateMgmtFiles
  base_http_config.go executeBaseHTTPConfig (http.conf + includes of the http snippets)
  servers.go       executeServers (includes of servers and locations, http.conf, matches.json)
  upstreams.go / split_clients.go / maps.go / telemetry.go   http.conf
  stream_servers.go / upstreams.go / maps.go                 stream.conf
  version.go       config-version.conf
  includes.go      createIncludeFromSnippet  includesFolder + "/" + snippet.Name + ".conf"
                   createIncludesFromPolicyGenerateResult  includesFolder + "/" + file.Name
and, for the names (object level, `Objs.toIn`):
  state/dataplane/configuration.go  generateSSLKeyPairID, generateCertBundleID (`Mangle.keyPairId/bundleId`),
                                    createSnippetName  "SnippetsFilter_%s_%s_%s" (context, namespace, name)
  policies/clientsettings           "ClientSettingsPolicy_%s_%s.conf"        (`Mangle.cspFile`)
  policies/observability            "ObservabilityPolicy_%s_%s_{ext|redirect|int}.conf"

Every path is `folder ++ "/" ++ base` (`mkPath`) with one of the five folders of `ConfigFolders`.
Core Lean only; names are `List Char`, the result feeds `NGF.FileMgr.replaceFiles` through `generatedFiles`.
-/
import NGF.Model.FileMgr
import NGF.Model.Mangle

namespace NGF.GenPaths
open NGF.FileMgr NGF.Mangle

abbrev Name := List Char

/-- the five folders of `ConfigFolders` (generator.go) -/
inductive Folder | http | secrets | includes | mainIncludes | stream
deriving DecidableEq, Repr

def Folder.path : Folder → Name
  | .http         => lit "/etc/nginx/conf.d"
  | .secrets      => lit "/etc/nginx/secrets"
  | .includes     => lit "/etc/nginx/includes"
  | .mainIncludes => lit "/etc/nginx/main-includes"
  | .stream       => lit "/etc/nginx/stream-conf.d"

/-- `folder + "/" + base`; equals `filepath.Join(folder, base)` when `base` has no `/` and is neither `.` nor `..`
(every base below ends in an extension). -/
def mkPath (folder base : Name) : Name := folder ++ '/' :: base

/-- one generated file: folder, base name, type -/
structure Entry where
  folder : Folder
  base   : Name
  typ    : FType
deriving DecidableEq, Repr

def Entry.path (e : Entry) : Name := mkPath e.folder.path e.base

/-! ### what `Generate` reads from `dataplane.Configuration` (names are opaque here) -/

structure GenIn where
  /-- keys of `conf.SSLKeyPairs` -/
  keyPairIds   : List Name
  /-- keys of `conf.CertBundles` -/
  bundleIds    : List Name
  /-- `Snippet.Name` of every main / http / server / location snippet the templates include (any multiplicity) -/
  snippetNames : List Name
  /-- `policies.File.Name` of every file the policy generators return for servers and locations (any multiplicity) -/
  policyFiles  : List Name
  /-- `g.plus` -/
  plus         : Bool
  /-- `conf.AuxiliarySecrets` has `PlusReportCACertificate` / `PlusReportClientSSLCertificate` / `PlusReportClientSSLKey` -/
  mgmtCA       : Bool
  mgmtCert     : Bool
  mgmtKey      : Bool
deriving Repr

/-- `generatePEM` -/
def pemEntry (id : Name) : Entry := ⟨.secrets, id ++ lit ".pem", .secret⟩
/-- `generateCertBundle` -/
def crtEntry (id : Name) : Entry := ⟨.secrets, id ++ lit ".crt", .regular⟩
/-- `createIncludeFromSnippet` (the file itself is written by `executeConfigTemplates`: regular) -/
def snippetEntry (n : Name) : Entry := ⟨.includes, n ++ lit ".conf", .regular⟩
/-- `createIncludesFromPolicyGenerateResult` -/
def policyEntry (n : Name) : Entry := ⟨.includes, n, .regular⟩

def mainConf    : Entry := ⟨.mainIncludes, lit "main.conf", .regular⟩
def httpConf    : Entry := ⟨.http, lit "http.conf", .regular⟩
def matchesJson : Entry := ⟨.http, lit "matches.json", .regular⟩
def streamConf  : Entry := ⟨.stream, lit "stream.conf", .regular⟩
def versionConf : Entry := ⟨.http, lit "config-version.conf", .regular⟩

/-- keep the first occurrence of every element (`fileBytes[res.dest] = append(fileBytes[res.dest], …)`: one map
entry per distinct destination) -/
def dedup {α} [DecidableEq α] : List α → List α
  | [] => []
  | a :: l => let r := dedup l; a :: r.filter (· ≠ a)

/-- destinations of the `executeResult`s in the order of `getExecuteFuncs` (repetitions of http.conf / stream.conf
by the later execute functions do not add destinations) -/
def execDests (g : GenIn) : List Entry :=
  mainConf :: httpConf ::
    (g.snippetNames.map snippetEntry ++ g.policyFiles.map policyEntry ++
      [httpConf, matchesJson, streamConf, streamConf, streamConf, versionConf])

/-- `executeConfigTemplates` without the mgmt files: the keys of `fileBytes`, all `TypeRegular` -/
def confEntries (g : GenIn) : List Entry := dedup (execDests g)

/-- `generateMgmtFiles` (only when `g.plus`): token, optional CA / client certificate / client key (all
`TypeSecret`), deployment context, mgmt.conf -/
def mgmtEntries (g : GenIn) : List Entry :=
  if g.plus then
    [⟨.secrets, lit "license.jwt", .secret⟩] ++
    (if g.mgmtCA then [⟨.secrets, lit "mgmt-ca.crt", .secret⟩] else []) ++
    (if g.mgmtCert then [⟨.secrets, lit "mgmt-tls.crt", .secret⟩] else []) ++
    (if g.mgmtKey then [⟨.secrets, lit "mgmt-tls.key", .secret⟩] else []) ++
    [⟨.mainIncludes, lit "deployment_ctx.json", .regular⟩, ⟨.mainIncludes, lit "mgmt.conf", .regular⟩]
  else []

/-- `Generate`: key pairs, configuration files (+ mgmt files), certificate bundles -/
def generatedEntries (g : GenIn) : List Entry :=
  g.keyPairIds.map pemEntry ++ confEntries g ++ mgmtEntries g ++ g.bundleIds.map crtEntry

/-- the (path, type) list of `Generate` -/
def generatedPaths (g : GenIn) : List (Name × FType) := (generatedEntries g).map fun e => (e.path, e.typ)

/-- the same as `file.File`s for the file manager; `content p` stands for the rendered bytes of the file at `p` -/
def generatedFiles (g : GenIn) (content : Name → List Nat) : List File :=
  (generatedEntries g).map fun e => ⟨String.ofList e.path, content e.path, e.typ⟩

/-- the mgmt files that hold credentials -/
def mgmtSecrets : List Entry :=
  [⟨.secrets, lit "license.jwt", .secret⟩, ⟨.secrets, lit "mgmt-ca.crt", .secret⟩,
   ⟨.secrets, lit "mgmt-tls.crt", .secret⟩, ⟨.secrets, lit "mgmt-tls.key", .secret⟩]

/-- paths that carry private keys / credentials: the PEM file of every key pair, the NGINX Plus token and
the client certificate material of the mgmt block -/
def secretPaths (g : GenIn) : List Name :=
  g.keyPairIds.map (fun id => (pemEntry id).path) ++ mgmtSecrets.map Entry.path

/-! ### object level: the Kubernetes objects behind the names -/

/-- `ngfAPIv1alpha1.NginxContext` -/
inductive SnipCtx | main | http | server | location
deriving DecidableEq, Repr

def SnipCtx.str : SnipCtx → Name
  | .main => lit "main"
  | .http => lit "http"
  | .server => lit "http.server"
  | .location => lit "http.server.location"

/-- which of its three files an ObservabilityPolicy contributes: external location without / with redirect, internal location -/
inductive ObsKind | ext | redirect | int
deriving DecidableEq, Repr

def ObsKind.str : ObsKind → Name
  | .ext => lit "ext"
  | .redirect => lit "redirect"
  | .int => lit "int"

/-- `createSnippetName`: `SnippetsFilter_<context>_<namespace>_<name>` -/
def snippetName (c : SnipCtx) (ns name : Name) : Name :=
  lit "SnippetsFilter_" ++ c.str ++ lit "_" ++ ns ++ lit "_" ++ name

/-- clientsettings `generate`: `ClientSettingsPolicy_<namespace>_<name>.conf` -/
def cspName (ns name : Name) : Name := lit "ClientSettingsPolicy_" ++ ns ++ lit "_" ++ name ++ lit ".conf"

/-- observability: `ObservabilityPolicy_<namespace>_<name>_<ext|redirect|int>.conf` -/
def obsName (k : ObsKind) (ns name : Name) : Name :=
  lit "ObservabilityPolicy_" ++ ns ++ lit "_" ++ name ++ lit "_" ++ k.str ++ lit ".conf"

structure Objs where
  /-- (namespace, name) of the Secret of every key pair (`conf.SSLKeyPairs` is keyed by the id built from it) -/
  keyPairs    : List (Name × Name)
  /-- (namespace, name) of the ConfigMap / Secret of every CA bundle -/
  bundles     : List (Name × Name)
  /-- SnippetsFilter snippets: context, namespace, name -/
  snippets    : List (SnipCtx × Name × Name)
  /-- ClientSettingsPolicies attached to a server or route -/
  csPolicies  : List (Name × Name)
  /-- ObservabilityPolicy files: kind, namespace, name -/
  obsPolicies : List (ObsKind × Name × Name)
  plus        : Bool
  mgmtCA      : Bool
  mgmtCert    : Bool
  mgmtKey     : Bool
deriving Repr

def Objs.toIn (o : Objs) : GenIn where
  keyPairIds   := o.keyPairs.map fun p => keyPairId p.1 p.2
  bundleIds    := o.bundles.map fun p => bundleId p.1 p.2
  snippetNames := o.snippets.map fun s => snippetName s.1 s.2.1 s.2.2
  policyFiles  := o.csPolicies.map (fun p => cspName p.1 p.2) ++ o.obsPolicies.map (fun p => obsName p.1 p.2.1 p.2.2)
  plus := o.plus
  mgmtCA := o.mgmtCA
  mgmtCert := o.mgmtCert
  mgmtKey := o.mgmtKey

end NGF.GenPaths
