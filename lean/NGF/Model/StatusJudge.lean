/-
C07 — the PROPERTY as a judge over (cluster objects, REAL dataplane configuration, REAL statuses).
Nothing here looks at the model of status preparation: it is an independent reading of
Gateway API binding (parentRef → listener selection, allowedRoutes namespaces/kinds, hostname
intersection, TLS hostname claims) combined with what the real `dataplane.Configuration` serves.
Core Lean only.

Clauses (each returns a list of failure tags; empty = holds):
  `entries`      every parentRef that targets one of this controller's Gateways has exactly one entry
                 (ns,name,sectionName) written by this controller, carrying the route's generation; no others
  `accepted`     parent Accepted=True  ⇔  reload ok ∧ the route's rules are in the real configuration on a
                 Programmed listener of that Gateway which the parentRef selects and which allows the route
  `attached`     listener.attachedRoutes = number of routes bound to the listener (Gateway API reading, DESIGN §8)
  `resolved`     parent ResolvedRefs=False ⇔ a backendRef of the route is invalid in the real graph, or an
                 extension filter did not resolve; and ⇐ a served match rule has an invalid backend
  `programmed`   reload failed ⇒ no Programmed=True anywhere;  listener Programmed=True ⇒ its port is served
  `policies`     exactly one ancestor entry per policy target that is in the graph, current generation
  `generation`   every condition of every status written carries metadata.generation of its object
-/
import NGF.Model.StatusPrep

namespace NGF.StatusJudge
open NGF.StatusPrep

/-! ### cluster objects (flat form emitted by the harness) -/

structure OListener where
  name : String
  port : Nat
  protocol : String
  hostname : String
  fromNs : String
  selector : List (String × String)
  selExprs : Nat
  kinds : Option (List (String × String))
  deriving Repr

structure OGateway where
  ns : String
  name : String
  gen : Int
  age : Int
  cls : String
  listeners : List OListener
  deriving Repr

structure OParentRef where
  group : Option String
  kind : Option String
  ns : Option String
  name : String
  sectionName : Option String
  port : Option Nat
  deriving Repr

structure ORoute where
  kind : String
  ns : String
  name : String
  gen : Int
  age : Int
  parentRefs : List OParentRef
  hostnames : List String
  /-- TLSRoute: `ns_name_port` of its backendRef when it has exactly one rule with one backendRef -/
  upstream : String
  /-- TLSRoute: exactly one rule with exactly one backendRef (what this implementation supports) -/
  l4ok : Bool
  deriving Repr

structure OClass where
  name : String
  controller : String

structure ONamespace where
  name : String
  labels : List (String × String)

structure OTarget where
  group : String
  kind : String
  name : String

structure OPolicy where
  kind : String
  ns : String
  name : String
  gen : Int
  targets : List OTarget

structure Objs where
  classes : List OClass
  gateways : List OGateway
  routes : List ORoute
  namespaces : List ONamespace
  policies : List OPolicy

/-! ### real dataplane configuration (summary) -/

structure RuleSrc where
  ns : String
  name : String
  idx : Nat
  bad : Bool
  inv : Bool

structure Server where
  port : Nat
  host : String
  isDefault : Bool
  rules : List RuleSrc

structure L4Server where
  port : Nat
  host : String
  isDefault : Bool
  up : String

structure Conf where
  http : List Server
  ssl : List Server
  tls : List L4Server

/-- facts taken from the REAL graph that the judge uses (not from the model) -/
structure GraphFacts where
  /-- route key ↦ (some BackendRef invalid, some extension filter unresolved) -/
  routeRefs : List (String × Bool × Bool)
  /-- listeners of the winning gateway NGF considers attachable -/
  attachableListeners : List String
  /-- real keys of Listener.Routes ∪ Listener.L4Routes per listener -/
  listenerRoutes : List (String × List String)

/-! ### Gateway API binding, read from the objects -/

def routeKey (kind ns name : String) : String := kind ++ "/" ++ ns ++ "/" ++ name
def ORoute.key (r : ORoute) : String := routeKey r.kind r.ns r.name

/-- Gateways of the configured class, provided the class is not owned by another controller -/
def ourGateways (o : Objs) (cls ctl : String) : List OGateway :=
  if o.classes.any (fun c => c.name = cls ∧ c.controller ≠ ctl) then []
  else o.gateways.filter (·.cls = cls)

def olderGw (a b : OGateway) : Bool :=
  if a.age = b.age then (if a.ns = b.ns then a.name < b.name else a.ns < b.ns) else a.age < b.age

/-- oldest Gateway (creation time, then namespace/name) -/
def winner : List OGateway → Option OGateway
  | [] => none
  | g :: rest =>
    match winner rest with
    | none => some g
    | some w => if olderGw g w then some g else some w

def isWildcard (h : String) : Bool := h.startsWith "*."

/-- wildcard `*.x` covers every host ending in `.x` -/
def wildCovers (w h : String) : Bool := isWildcard w && h.endsWith (w.drop 1).toString

/-- hostname intersection of a listener hostname ("" = any) and a route hostname -/
def hostMatch (l r : String) : Bool := l = "" || l = r || wildCovers l r || wildCovers r l

def labelCount (h : String) : Nat := (h.splitOn ".").length

/-- the more specific of two intersecting hostnames -/
def moreSpecific (l r : String) : String :=
  if l = "" then r
  else if l = r then l
  else if isWildcard l then (if isWildcard r then (if labelCount l > labelCount r then l else r) else r)
  else l

/-- hostnames under which a route is served on a listener -/
def acceptedHosts (l : String) (rs : List String) : List String :=
  if rs.isEmpty then [if l = "" then "~^" else l]
  else (rs.filter (hostMatch l)).map (moreSpecific l)

def lookupLabels (nss : List ONamespace) (n : String) : List (String × String) :=
  match nss.find? (·.name = n) with
  | some x => x.labels
  | none => []

def nsAllowed (l : OListener) (routeNs gwNs : String) (nss : List ONamespace) : Bool :=
  if l.fromNs = "All" then true
  else if l.fromNs = "Selector" then
    let ls := lookupLabels nss routeNs
    l.selector.all fun kv => ls.any fun kv' => kv'.1 = kv.1 ∧ kv'.2 = kv.2
  else routeNs = gwNs

def protocolKinds (proto : String) : List String :=
  if proto = "HTTP" ∨ proto = "HTTPS" then ["HTTPRoute", "GRPCRoute"]
  else if proto = "TLS" then ["TLSRoute"] else []

def kindAllowed (l : OListener) (kind : String) : Bool :=
  (protocolKinds l.protocol).contains kind &&
    match l.kinds with
    | none => true
    | some ks => ks.any fun gk => gk.1 = gatewayGroup ∧ gk.2 = kind

def optEmpty (o : Option String) : Bool := o = none || o = some ""

/-- the parentRef names Gateway `g` (group/kind default to Gateway; namespace defaults to the route's) -/
def refersTo (p : OParentRef) (routeNs : String) (g : OGateway) : Bool :=
  (p.group = none || p.group = some gatewayGroup) && (p.kind = none || p.kind = some "Gateway") &&
    (match p.ns with | some n => n | none => routeNs) = g.ns && p.name = g.name

def refNs (p : OParentRef) (routeNs : String) : String :=
  match p.ns with | some n => n | none => routeNs

/-- the parentRef selects listener `l` of the Gateway it names (a parentRef with `port` is not supported
by this implementation and selects nothing) -/
def selectsListener (p : OParentRef) (l : OListener) : Bool :=
  p.port = none && (optEmpty p.sectionName || p.sectionName = some l.name)

/-- L7 binding of route `r` to listener `l` of gateway `g` through parentRef `p` -/
def boundVia (nss : List ONamespace) (g : OGateway) (l : OListener) (r : ORoute) (p : OParentRef) : Bool :=
  refersTo p r.ns g && selectsListener p l && nsAllowed l r.ns g.ns nss && kindAllowed l r.kind &&
    !(acceptedHosts l.hostname r.hostnames).isEmpty

def bound (nss : List ONamespace) (g : OGateway) (l : OListener) (r : ORoute) : Bool :=
  r.parentRefs.any (boundVia nss g l r)

/-! TLS routes additionally claim `hostname:port` pairs in creation order (first claimant keeps the name). -/

def olderRoute (a b : ORoute) : Bool :=
  if a.age = b.age then (if a.ns = b.ns then a.name ≤ b.name else a.ns < b.ns) else a.age < b.age

/-- one parentRef of one TLS route against the candidate listeners, threading the claimed `host:port` set;
returns the listeners it bound to together with the hostnames it got there -/
def tlsBindRef (nss : List ONamespace) (g : OGateway) (r : ORoute) (p : OParentRef) :
    List OListener → List (String × Nat) → List (String × List String) × List (String × Nat)
  | [], claimed => ([], claimed)
  | l :: ls, claimed =>
    if selectsListener p l && nsAllowed l r.ns g.ns nss && kindAllowed l r.kind then
      let fresh := (acceptedHosts l.hostname r.hostnames).filter fun h => !claimed.contains (h, l.port)
      let (rest, claimed') := tlsBindRef nss g r p ls (claimed ++ fresh.map fun h => (h, l.port))
      (if fresh.isEmpty then rest else (l.name, fresh) :: rest, claimed')
    else tlsBindRef nss g r p ls claimed

def tlsBindRoute (nss : List ONamespace) (g : OGateway) (ls : List OListener) (r : ORoute) :
    List OParentRef → List (String × Nat) → List (String × List String) × List (String × Nat)
  | [], claimed => ([], claimed)
  | p :: ps, claimed =>
    if refersTo p r.ns g then
      let (b, c) := tlsBindRef nss g r p ls claimed
      let (b', c') := tlsBindRoute nss g ls r ps c
      (b ++ b', c')
    else tlsBindRoute nss g ls r ps claimed

/-- all TLS routes in age order: (route key, listener, hostnames) -/
def tlsBindAll (nss : List ONamespace) (g : OGateway) (ls : List OListener) :
    List ORoute → List (String × Nat) → List (String × String × List String)
  | [], _ => []
  | r :: rs, claimed =>
    let (b, c) := tlsBindRoute nss g ls r r.parentRefs claimed
    b.map (fun x => (r.key, x.1, x.2)) ++ tlsBindAll nss g ls rs c

/-! ### reading real statuses -/

def condStatus (cs : List ApiCond) (t : String) : Option ApiCond := cs.find? (·.type = t)

def isTrue (cs : List ApiCond) (t : String) : Bool := hasCond cs t "True"

def reasonOf (cs : List ApiCond) (t : String) : String :=
  match condStatus cs t with
  | some c => c.reason
  | none => "absent"

def findRoute (p : Prepared) (kind ns name : String) : Option RouteStatus :=
  p.routes.find? fun r => r.kind = kind ∧ r.ns = ns ∧ r.name = name

def findGateway (p : Prepared) (ns name : String) : Option GatewayStatus :=
  p.gateways.find? fun g => g.ns = ns ∧ g.name = name

/-- the listener is reported Programmed in the real Gateway status -/
def listenerProgrammed (gs : GatewayStatus) (l : String) : Bool :=
  gs.listeners.any fun ls => ls.name = l ∧ isTrue ls.conds "Programmed"

/-! ### serving, read from the real configuration -/

def serversFor (c : Conf) (proto : String) : List Server :=
  if proto = "HTTP" then c.http else if proto = "HTTPS" then c.ssl else []

/-- rules of route `r` appear in the configuration for listener `l`; for TLS routes `tls` is the oracle's
hostname assignment (route key, listener, hostnames) -/
def servedOn (c : Conf) (tls : List (String × String × List String)) (l : OListener) (r : ORoute) : Bool :=
  if r.kind = "TLSRoute" then
    let hosts := (tls.filter fun x => x.1 = r.key ∧ x.2.1 = l.name).flatMap (·.2.2)
    l.protocol = "TLS" && c.tls.any fun s =>
      s.port = l.port && !s.isDefault && hosts.contains s.host && (s.up = r.upstream || s.up = "")
  else
    let hosts := acceptedHosts l.hostname r.hostnames
    (serversFor c l.protocol).any fun s =>
      s.port = l.port && hosts.contains s.host && s.rules.any fun rs => rs.ns = r.ns ∧ rs.name = r.name

/-- the route's rules are served through parentRef `p`: on a Programmed listener of the winning Gateway
that the parentRef selects and that allows the route -/
def servedVia (nss : List ONamespace) (c : Conf) (tls : List (String × String × List String))
    (gs : GatewayStatus) (g : OGateway) (r : ORoute) (p : OParentRef) : Bool :=
  g.listeners.any fun l =>
    boundVia nss g l r p && listenerProgrammed gs l.name && servedOn c tls l r

/-! ### clauses -/

structure Input where
  ctl : String
  cls : String
  reloadErr : Bool
  /-- handler stream: why `reloadErr` (the truth of the environment) is set; "" for the direct stream -/
  failKind : String := ""
  objs : Objs
  conf : Option Conf
  st : Prepared
  facts : GraphFacts
  /-- handler stream, only when NGINX runs the last applied configuration: the Gateway statuses a FRESH handler (nil reload
  result) issues for the same graph — the real `PrepareGatewayRequests` + setters -/
  fresh : List GatewayStatus := []

def Input.ours (i : Input) : List OGateway := ourGateways i.objs i.cls i.ctl
def Input.winner (i : Input) : Option OGateway := NGF.StatusJudge.winner i.ours

def targetsOurs (i : Input) (r : ORoute) (p : OParentRef) : Bool := i.ours.any (refersTo p r.ns)

def entryKey (ns name : String) (s : Option String) : String :=
  ns ++ "/" ++ name ++ "/" ++ (match s with | some x => x | none => "")

def dedupStr : List String → List String
  | [] => []
  | x :: xs => if xs.contains x then dedupStr xs else x :: dedupStr xs

def countStr (x : String) (l : List String) : Nat := (l.filter (· = x)).length

/-- the route names the same (Gateway, sectionName) twice — possible within the CRD's CEL rules, which compare
the parentRef namespace textually (unset vs. set to the route's own namespace) -/
def dupParent (i : Input) (r : ORoute) : Bool :=
  let keys := (r.parentRefs.filter (targetsOurs i r)).map fun p =>
    entryKey (refNs p r.ns) p.name (if optEmpty p.sectionName then none else p.sectionName)
  keys.any fun k => countStr k keys > 1

/-- input classes on which the unchanged code is known to deviate (used only to name a failure) -/
def cause (i : Input) (r : ORoute) : String :=
  if dupParent i r then "duplicate-parentref"
  else if r.kind = "TLSRoute" && !r.l4ok then "tlsroute-backend-count"
  else "other"

/-- `entries`: one entry per targeting parentRef, none else, ours only, generation current -/
def clauseEntries (i : Input) : List String :=
  i.objs.routes.flatMap fun r =>
    let want := dedupStr ((r.parentRefs.filter (targetsOurs i r)).map fun p => entryKey (refNs p r.ns) p.name p.sectionName)
    let parents : List ParentStatus := match findRoute i.st r.kind r.ns r.name with
      | some rs => rs.parents
      | none => []
    let mine := parents.filter (·.controller = i.ctl)
    let got := mine.map fun e => entryKey e.ns e.name e.sectionName
    (if parents.length ≠ mine.length then ["entries:foreign-controller-entry@" ++ r.key] else []) ++
    (want.filter (fun k => countStr k got = 0)).map (fun k => "entries:missing:" ++ cause i r ++ "@" ++ r.key ++ ":" ++ k) ++
    ((dedupStr got).filter (fun k => countStr k got > 1)).map (fun k => "entries:duplicate@" ++ r.key ++ ":" ++ k) ++
    ((dedupStr got).filter (fun k => !want.contains k)).map (fun k => "entries:unexpected@" ++ r.key ++ ":" ++ k) ++
    (if mine.any (fun e => e.conds.any (·.gen ≠ r.gen)) then ["generation:route@" ++ r.key] else [])

def findEntry (i : Input) (r : ORoute) (p : OParentRef) : Option ParentStatus :=
  match findRoute i.st r.kind r.ns r.name with
  | none => none
  | some rs => rs.parents.find? fun e =>
      e.controller = i.ctl ∧ entryKey e.ns e.name e.sectionName = entryKey (refNs p r.ns) p.name p.sectionName

/-- listeners NGF lets routes attach to (fact of the real graph) -/
def attachableOf (i : Input) (g : OGateway) : List OListener :=
  g.listeners.filter fun x => i.facts.attachableListeners.contains x.name

/-- the oracle's hostname assignment for TLS routes on gateway `g` -/
def tlsBinding (i : Input) (g : OGateway) : List (String × String × List String) :=
  let sorted := (i.objs.routes.filter (fun r => r.kind = "TLSRoute" && r.l4ok && !dupParent i r)).mergeSort olderRoute
  tlsBindAll i.objs.namespaces g (attachableOf i g) sorted []

/-- some *other* parentRef of the route binds it to a listener that is not Programmed -/
def otherParentOnDeadListener (i : Input) (g : OGateway) (gs : GatewayStatus) (r : ORoute) (p : OParentRef) : Bool :=
  r.parentRefs.any fun q =>
    entryKey (refNs q r.ns) q.name q.sectionName ≠ entryKey (refNs p r.ns) p.name p.sectionName &&
    g.listeners.any fun l => boundVia i.objs.namespaces g l r q && !listenerProgrammed gs l.name

/-- another parentRef of the same route selects a listener this parentRef selects too (possible within the CEL
rules only through the textual namespace comparison): a TLSRoute then competes with itself for the hostname -/
def otherParentSameListener (i : Input) (g : OGateway) (r : ORoute) (p : OParentRef) : Bool :=
  r.parentRefs.any fun q =>
    entryKey (refNs q r.ns) q.name q.sectionName ≠ entryKey (refNs p r.ns) p.name p.sectionName &&
    g.listeners.any fun l => boundVia i.objs.namespaces g l r q && boundVia i.objs.namespaces g l r p

/-- `accepted`: Accepted=True ⇔ served (and reload ok) -/
def clauseAccepted (i : Input) : List String :=
  i.objs.routes.flatMap fun r =>
    (r.parentRefs.filter (targetsOurs i r)).flatMap fun p =>
      match findEntry i r p with
      | none => []   -- reported by `entries`
      | some e =>
        let ctx := match i.winner, i.conf with
          | some g, some c =>
            (match findGateway i.st g.ns g.name with
             | some gs => some (g, c, gs)
             | none => none)
          | _, _ => none
        let served := !i.reloadErr && match ctx with
          | some (g, c, gs) => refersTo p r.ns g && servedVia i.objs.namespaces c (tlsBinding i g) gs g r p
          | none => false
        let acc := isTrue e.conds "Accepted"
        if acc && !served then
          ["accepted:true-but-not-served:" ++ (if i.reloadErr && i.failKind ≠ "" then i.failKind else cause i r) ++
            "@" ++ r.key]
        else if !acc && served then
          let why := reasonOf e.conds "Accepted"
          let leak := match ctx with
            | some (g, _, gs) => why = "InvalidListener" && otherParentOnDeadListener i g gs r p
            | none => false
          let own := match ctx with
            | some (g, _, _) => why = "HostnameConflict" && r.kind = "TLSRoute" && otherParentSameListener i g r p
            | none => false
          ["accepted:false-but-served:" ++ why ++ (if leak then "-from-other-parent" else "") ++
            (if own then "-with-own-parentref" else "") ++ "@" ++ r.key]
        else []

/-- independent list of routes bound to each listener of the winning gateway (Gateway API reading, DESIGN §8:
parentRef + allowedRoutes + hostname, whatever the validity of the route's rules) -/
def boundRoutes (i : Input) (g : OGateway) (l : OListener) : List String :=
  if !i.facts.attachableListeners.contains l.name then []
  else if l.protocol = "TLS" then
    dedupStr ((((tlsBinding i g).filter (fun x => x.2.1 = l.name)).map (·.1)) ++
      ((i.objs.routes.filter (fun r => r.kind = "TLSRoute" && (!r.l4ok || dupParent i r) &&
          bound i.objs.namespaces g l r)).map (·.key)))
  else
    ((i.objs.routes.filter (fun r => r.kind ≠ "TLSRoute" && bound i.objs.namespaces g l r)).map (·.key))

/-- several TLS listeners that one parentRef can reach share a port: NGF orders them with an unstable
sort before claiming hostnames, which the oracle does not reproduce -/
def tlsOrderAmbiguous (g : OGateway) : Bool :=
  let tl := g.listeners.filter (·.protocol = "TLS")
  tl.any fun a => tl.any fun b => a.name ≠ b.name ∧ a.port = b.port

def causeOfKey (i : Input) (k : String) : String :=
  match i.objs.routes.find? (·.key = k) with
  | some r => cause i r
  | none => "other"

def clauseAttached (i : Input) : List String :=
  match i.winner with
  | none => []
  | some g =>
    match findGateway i.st g.ns g.name with
    | none => ["attached:no-gateway-status@" ++ g.ns ++ "/" ++ g.name]
    | some gs =>
      gs.listeners.flatMap fun ls =>
        match g.listeners.find? (·.name = ls.name) with
        | none => ["attached:unknown-listener@" ++ ls.name]
        | some l =>
          if l.protocol = "TLS" && tlsOrderAmbiguous g then []
          else
            let want := boundRoutes i g l
            let real := match i.facts.listenerRoutes.find? (·.1 = l.name) with
              | some x => x.2
              | none => []
            if ls.attachedRoutes = want.length then []
            else
              let missing := want.filter (fun k => !real.contains k)
              let extra := real.filter (fun k => !want.contains k)
              let causes := dedupStr (missing.map (causeOfKey i))
              let cls :=
                if extra.isEmpty && !missing.isEmpty && ls.attachedRoutes + missing.length = want.length then
                  (match causes with
                   | [c] => "notcounted:" ++ c
                   | _ => "notcounted:mixed")
                else if ls.attachedRoutes < want.length then "undercounted"
                else "overcounted"
              ["attached:" ++ cls ++ "@" ++ ls.name ++ ":reported=" ++ toString ls.attachedRoutes ++ ":bound=" ++
                toString want.length ++ ":notcounted=" ++ ",".intercalate missing ++ ":overcounted=" ++
                ",".intercalate extra]

def routeFacts (i : Input) (k : String) : Option (Bool × Bool) :=
  match i.facts.routeRefs.find? (·.1 = k) with
  | some x => some x.2
  | none => none

/-- `resolved` -/
def clauseResolved (i : Input) : List String :=
  i.objs.routes.flatMap fun r =>
    match findRoute i.st r.kind r.ns r.name with
    | none => []
    | some rs =>
      (rs.parents.filter (·.controller = i.ctl)).flatMap fun e =>
        let isFalse := hasCond e.conds "ResolvedRefs" "False"
        let servedBad := match i.conf with
          | some c => (c.http ++ c.ssl).any fun s => s.rules.any fun x => x.ns = r.ns ∧ x.name = r.name ∧ x.bad
          | none => false
        let want := match routeFacts i r.key with
          | some (badRefs, badFilter) => badRefs || badFilter || (r.kind = "TLSRoute" && !r.l4ok && !dupParent i r)
          | none => false
        (if isFalse != want then
          ["resolved:" ++ (if isFalse then "false-but-all-refs-valid:" ++ reasonOf e.conds "ResolvedRefs"
                           else "true-but-ref-invalid") ++ "@" ++ r.key] else []) ++
        (if servedBad && !isFalse then ["resolved:true-but-served-rule-has-invalid-backend@" ++ r.key] else [])

def portServed (c : Conf) (l : OListener) : Bool :=
  if l.protocol = "TLS" then c.tls.any (·.port = l.port)
  else (serversFor c l.protocol).any (·.port = l.port)

/-- `programmed` -/
def clauseProgrammed (i : Input) : List String :=
  (if i.reloadErr && !i.st.noProgrammedTrue then
    ["programmed:true-after-failed-reload" ++ (if i.failKind ≠ "" then ":" ++ i.failKind else "")] else []) ++
  match i.winner with
  | none => []
  | some g =>
    match findGateway i.st g.ns g.name with
    | none => []
    | some gs =>
      gs.listeners.flatMap fun ls =>
        if isTrue ls.conds "Programmed" then
          match g.listeners.find? (·.name = ls.name), i.conf with
          | some l, some c => if portServed c l then [] else ["programmed:listener-not-served@" ++ ls.name]
          | _, _ => ["programmed:listener-not-served@" ++ ls.name]
        else []

def ancKey (a : AncRef) : String := a.group ++ "/" ++ a.kind ++ "/" ++ a.ns ++ "/" ++ a.name

/-- a route object that has a parentRef to one of our gateways is in the graph -/
def routeInGraph (i : Input) (kind ns name : String) : Bool :=
  i.objs.routes.any fun r => r.kind = kind ∧ r.ns = ns ∧ r.name = name ∧ r.parentRefs.any (targetsOurs i r)

/-- `policies` -/
def clausePolicies (i : Input) : List String :=
  i.objs.policies.flatMap fun pol =>
    let mine : List AncStatus := match i.st.policies.find? (fun s => s.kind = pol.kind ∧ s.ns = pol.ns ∧ s.name = pol.name) with
      | some s => s.ancestors.filter (·.controller = i.ctl)
      | none => []
    let got := mine.map (fun a => ancKey a.ref)
    let key := pol.kind ++ "/" ++ pol.ns ++ "/" ++ pol.name
    let genBad := if mine.any (fun a => a.conds.any (·.gen ≠ pol.gen)) then ["generation:policy@" ++ key] else []
    let dup := ((dedupStr got).filter (fun k => countStr k got > 1)).map (fun k => "policies:duplicate@" ++ key ++ ":" ++ k)
    let svcTargeting := pol.kind = "BackendTLSPolicy" ∨ pol.kind = "UpstreamSettingsPolicy"
    if svcTargeting then
      -- ancestor is the winning Gateway, at most once
      let okRef := match i.winner with
        | some g => got.all (· = ancKey ⟨gatewayGroup, "Gateway", g.ns, g.name⟩)
        | none => got.isEmpty
      genBad ++ dup ++ (if okRef then [] else ["policies:wrong-ancestor@" ++ key])
    else
      let want := if i.winner.isNone then [] else dedupStr (pol.targets.filterMap fun t =>
        if t.group ≠ gatewayGroup then none
        else if t.kind = "Gateway" then
          (if i.ours.any (fun g => g.ns = pol.ns ∧ g.name = t.name) then some (ancKey ⟨t.group, t.kind, pol.ns, t.name⟩) else none)
        else if t.kind = "HTTPRoute" ∨ t.kind = "GRPCRoute" then
          (if routeInGraph i t.kind pol.ns t.name then some (ancKey ⟨t.group, t.kind, pol.ns, t.name⟩) else none)
        else none)
      genBad ++ dup ++
      (want.filter (fun k => !got.contains k)).map (fun k => "policies:missing@" ++ key ++ ":" ++ k) ++
      ((mine.filter (fun a => !want.contains (ancKey a.ref))).map fun a =>
        -- an entry for a Route that no longer exists: left over from an earlier batch
        let gone := (a.ref.kind = "HTTPRoute" ∨ a.ref.kind = "GRPCRoute") ∧
          !(i.objs.routes.any fun r => r.kind = a.ref.kind ∧ r.ns = a.ref.ns ∧ r.name = a.ref.name)
        (if gone then "policies:stale-after-target-removed@" else "policies:unexpected@") ++ key ++ ":" ++ ancKey a.ref)

/-- `generation` for gateways -/
def clauseGeneration (i : Input) : List String :=
  i.objs.gateways.flatMap fun g =>
    match findGateway i.st g.ns g.name with
    | none => []
    | some gs =>
      if gs.conds.any (·.gen ≠ g.gen) || gs.listeners.any (fun l => l.conds.any (·.gen ≠ g.gen))
      then ["generation:gateway@" ++ g.ns ++ "/" ++ g.name] else []

/-- `recovered`: status tells the truth about what is programmed also AFTER a recovery — when NGINX runs the last applied
configuration (`reloadErr = false`) the Gateway / listener statuses as they stand must report Programmed=True wherever a freshly
started handler (nil reload result, same graph) reports it; a remembered failure that outlives a successful apply is a lie in the
other direction -/
def clauseRecovered (i : Input) : List String :=
  if i.reloadErr then [] else
  i.fresh.flatMap fun f =>
    match findGateway i.st f.ns f.name with
    | none => []
    | some gs =>
      let gwBad := isTrue f.conds "Programmed" && !isTrue gs.conds "Programmed"
      let lsBad := f.listeners.filter fun fl =>
        isTrue fl.conds "Programmed" && !(gs.listeners.any fun l => l.name = fl.name && isTrue l.conds "Programmed")
      if gwBad || !lsBad.isEmpty then
        ["programmed:false-after-successful-reload@" ++ f.ns ++ "/" ++ f.name ++
          (if gwBad then ":gateway" else "") ++ (if lsBad.isEmpty then "" else ":listeners=" ++ ",".intercalate (lsBad.map (·.name)))]
      else []

/-- reason STATISTIC (see `reasonDisagreements`; not in `judge`): the Gateway API reasons of a rejected L7 parentRef say what is the case (RouteConditionReason docs:
NoMatchingParent = "no parent matches sectionName/port", NotAllowedByListeners = "not allowed by the listeners' allowedRoutes",
NoMatchingListenerHostname = "no compatible listener whose hostname matches the route"), read over the objects:
the listeners the parentRef selects by section name, those of them that allow the route's namespace and kind, and the
hostname intersection. Only parentRefs to the winning Gateway without `port`. -/
def clauseReason (i : Input) : List String :=
  match i.winner with
  | none => []
  | some g =>
    let gwListenersReported := match findGateway i.st g.ns g.name with
      | some gs => !gs.listeners.isEmpty
      | none => false
    i.objs.routes.flatMap fun r =>
      if r.kind = "TLSRoute" then [] else
      (r.parentRefs.filter fun p => refersTo p r.ns g && p.port = none).flatMap fun p =>
        match findEntry i r p with
        | none => []
        | some e =>
          if isTrue e.conds "Accepted" then [] else
          let why := reasonOf e.conds "Accepted"
          let named := g.listeners.filter (selectsListener p)
          let selected := (attachableOf i g).filter (selectsListener p)
          -- a Selector listener and a namespace the cluster state does not know: not interpreted here
          let uninterpreted := selected.any fun l => l.fromNs = "Selector" && !(i.objs.namespaces.any (·.name = r.ns))
          let allowed := selected.filter fun l => nsAllowed l r.ns g.ns i.objs.namespaces && kindAllowed l r.kind
          if why = "NoMatchingParent" && !named.isEmpty then
            ["reason:NoMatchingParent-but-listener-exists" ++ (if gwListenersReported then "" else ":invalid-gateway") ++ "@" ++ r.key]
          else if uninterpreted then []
          else if why = "NotAllowedByListeners" && !allowed.isEmpty then
            ["reason:NotAllowedByListeners-but-a-selected-listener-allows@" ++ r.key]
          else if why = "NoMatchingListenerHostname" && allowed.isEmpty then
            ["reason:NoMatchingListenerHostname-but-no-selected-listener-allows@" ++ r.key]
          else if why = "NoMatchingListenerHostname" && allowed.any (fun l => !(acceptedHosts l.hostname r.hostnames).isEmpty) then
            ["reason:NoMatchingListenerHostname-but-hostnames-intersect@" ++ r.key]
          else []

/-- reason STATISTIC for parentRefs to an IGNORED Gateway of our class: NoMatchingParent does not describe the case when that Gateway has the named
listener (the implementation looks the section name up among the WINNING Gateway's listeners) -/
def clauseReasonIgnored (i : Input) : List String :=
  match i.winner with
  | none => []
  | some w =>
    i.objs.routes.flatMap fun r =>
      if r.kind = "TLSRoute" then [] else
      r.parentRefs.flatMap fun p =>
        if p.port.isSome then [] else
        match i.ours.find? (fun g => refersTo p r.ns g && !(g.ns = w.ns && g.name = w.name)) with
        | none => []
        | some g =>
          match findEntry i r p with
          | none => []
          | some e =>
            if !isTrue e.conds "Accepted" && reasonOf e.conds "Accepted" = "NoMatchingParent" &&
                g.listeners.any (selectsListener p) then
              ["reason:NoMatchingParent-but-listener-exists:ignored-gateway@" ++ r.key]
            else []

/-- inputs the oracle does not interpret -/
def skipReason (i : Input) : Option String :=
  if i.objs.gateways.any (fun g => g.listeners.any (·.selExprs > 0)) then some "matchExpressions"
  else if i.objs.routes.any (fun a => i.objs.routes.any fun b => a.kind ≠ b.kind ∧ a.ns = b.ns ∧ a.name = b.name)
    then some "same-name-routes-of-different-kinds"
  else none

def judge (i : Input) : List String :=
  clauseEntries i ++ clauseAccepted i ++ clauseAttached i ++ clauseResolved i ++ clauseProgrammed i ++
    clausePolicies i ++ clauseGeneration i ++ clauseRecovered i

/-- STATISTIC, not part of the verdict: where the REASON of an Accepted=False condition differs from the Gateway API reading of
the objects. Property C07 speaks of Accepted true/false, attachedRoutes, ResolvedRefs true/false, entries and Programmed after a
failed load — it does not prescribe reasons, so a disagreement here is never a finding (reasons are compared in the
model⇔implementation status correspondence instead). -/
def reasonDisagreements (i : Input) : List String := clauseReason i ++ clauseReasonIgnored i

end NGF.StatusJudge
