import NGF.Model.Resolver
import NGF.Model.ResolverSpec
/-
C13 — the event handler's two application paths UNDER FAULTS.

Modelled code (`/repo/internal/mode/static/handler.go`):
* `HandleEventBatch`, arms `state.EndpointsOnlyChange` and `state.ClusterStateChange`:
  `setLatestConfiguration(&cfg)` BEFORE the application, then `updateUpstreamServers(cfg)` (Plus, endpoints only)
  or `updateNginxConf(ctx, cfg)`; afterwards `latestReloadResult.Error = err` and the error is logged
  ("Failed to update NGINX configuration");
* `updateNginxConf`: `ReplaceFiles` error → return; `Reload` error → return; then `updateUpstreamServers`;
* `updateUpstreamServers`: `!plus` → nil; `GetUpstreams` error → return; every pending `UpdateHTTPServers` /
  `UpdateStreamServers` call is made even after an earlier one failed (`errors.Join`), the error is returned at the end.

Environment (trusted, harness/c13/nginx.go): a failing `ReplaceFiles`, `Reload`, `GetUpstreams` or `Update*Servers`
call changes nothing in NGINX; a failed reload leaves NGINX running with what it held (files on disk are never
read again without being rewritten first: every `Reload` is preceded by `ReplaceFiles` of the same configuration
in the same call of `updateNginxConf`, so the files are not part of the state).

NGINX Plus keeps the servers of every upstream that has a `state` directive in the state file
`/var/lib/nginx/state/<upstream name>.conf`: every successful API update rewrites it, nothing ever deletes it, and an
upstream that is (re)loaded starts with the servers of its file — also when the upstream had disappeared from
the configuration in between, and http and stream upstreams of the same name share one file.  (The fault-free
model `reloadNginx` of `Model/Resolver.lean` reads "the servers the API held for that name before the reload",
which is the same thing whenever the update that follows the reload succeeds; under faults the difference is
observable, so the store is explicit here.)

State = (what NGINX holds + its state files, what the handler remembers).
-/
namespace NGF.Resolver

/-- what the environment does to the calls one batch makes -/
structure Faults where
  replace : Bool            -- `nginxFileMgr.ReplaceFiles` returns an error
  reload  : Bool            -- `nginxRuntimeMgr.Reload` returns an error
  get     : Bool            -- `nginxRuntimeMgr.GetUpstreams` returns an error
  http    : List String     -- `UpdateHTTPServers(name, …)` returns an error for these upstream names
  stream  : List String     -- `UpdateStreamServers(name, …)` returns an error for these upstream names
  deriving Repr, DecidableEq

def Faults.none : Faults := ⟨false, false, false, [], []⟩

/-- NGINX: the running configuration's upstreams with their servers, and the state files -/
structure Ngx where
  api   : Api
  state : Table             -- state file of upstream `n` (shared by http and stream), survives reloads
  deriving Repr

/-- write a state file (create or overwrite) -/
def Table.put (t : Table) (n : String) (v : List String) : Table :=
  match t with
  | [] => [(n, v)]
  | (k, old) :: r => if k = n then (k, v) :: r else (k, old) :: Table.put r n v

def putAll (st : Table) : List (String × List String) → Table
  | [] => st
  | (n, v) :: r => putAll (st.put n (dedup v)) r

/-- the API calls of one table: those that fail are not applied, all others are (the loop does not stop);
a successful call also rewrites the upstream's state file -/
def applyTableF (fail : List String) (t st : Table) (p : List (String × List String)) : Table × Table × Bool :=
  let ok := p.filter fun x => !fail.contains x.1
  (applyAll t ok, putAll st ok, p.any fun x => fail.contains x.1)

/-- `updateUpstreamServers` with `plus = true`; second component: an error is returned -/
def updateUpstreamServersF (f : Faults) (c : Conf) (x : Ngx) : Ngx × Bool :=
  if f.get then (x, true)
  else
    let h := applyTableF f.http x.api.http x.state (pending c.http x.api.http)
    let s := applyTableF f.stream x.api.stream h.2.1 (pending c.stream x.api.stream)
    ({ api := { http := h.1, stream := s.1 }, state := s.2.1 }, h.2.2 || s.2.2)

/-- what NGINX OSS holds after loading the files generated from `c`: every http upstream with its `server`
lines (the 503 placeholder when it has no endpoint), the stream upstreams that have endpoints -/
def loadOss (c : Conf) : Api :=
  { http := c.http.map fun u => (u.name, configServers (createUpstream false u))
    stream := (createStreamUpstreams false c.stream).map fun u => (u.name, configServers u) }

/-- NGINX Plus loads the files generated from `c`: every upstream starts with the servers of its state file -/
def loadPlus (c : Conf) (st : Table) : Api :=
  { http := reloadTable (c.http.map (·.name)) st
    stream := reloadTable ((c.stream.filter fun u => !u.eps.isEmpty).map (·.name)) st }

/-- `updateNginxConf` -/
def updateNginxConfF (plus : Bool) (f : Faults) (c : Conf) (x : Ngx) : Ngx × Bool :=
  if f.replace then (x, true)
  else if f.reload then (x, true)
  else if plus then updateUpstreamServersF f c { x with api := loadPlus c x.state }
  else ({ x with api := loadOss c }, false)

inductive Kind
  | cluster                 -- `state.ClusterStateChange`
  | endpoints               -- `state.EndpointsOnlyChange`
  deriving Repr, DecidableEq

/-- one batch: the change type the processor reports, the configuration built from the graph and the cluster's
EndpointSlices, and what the environment does to the calls of this batch -/
structure HOp where
  kind   : Kind
  conf   : Conf
  faults : Faults
  deriving Repr

structure HState where
  ngx     : Ngx             -- what NGINX holds (balances across) and its state files
  latest  : Option Conf     -- `latestConfiguration`: the last GENERATED configuration
  lastErr : Bool            -- `latestReloadResult.Error != nil`
  deriving Repr

def HState.init : HState := ⟨⟨⟨[], []⟩, []⟩, none, false⟩

/-- the application of one batch's configuration. `lastErr` = `h.latestReloadResult.Error != nil` when the batch
starts: the EndpointsOnlyChange arm is `if h.cfg.plus && h.latestReloadResult.Error == nil { updateUpstreamServers }
else { updateNginxConf }` (since /repo c94173a: after a failed write/reload NGINX does not run the configuration the
API calls would adjust, so the arm goes through the files and a reload again). -/
def applyOp (plus lastErr : Bool) (o : HOp) (a : Ngx) : Ngx × Bool :=
  match o.kind with
  | .cluster => updateNginxConfF plus o.faults o.conf a
  | .endpoints =>
    if plus && !lastErr then updateUpstreamServersF o.faults o.conf a else updateNginxConfF plus o.faults o.conf a

/-- `HandleEventBatch` for a batch with a change. Second component: the batch recorded an error
(`logger.Error(err, "Failed to update NGINX configuration")`, `nginxReloadRes.Error = err`). -/
def stepH (plus : Bool) (s : HState) (o : HOp) : HState × Bool :=
  let r := applyOp plus s.lastErr o s.ngx
  ({ ngx := r.1, latest := some o.conf, lastErr := r.2 }, r.2)

def runH (plus : Bool) (s : HState) : List HOp → HState
  | [] => s
  | o :: os => runH plus (stepH plus s o).1 os

/-- state and error flag after every batch -/
def traceH (plus : Bool) (s : HState) : List HOp → List (HState × Bool)
  | [] => []
  | o :: os => stepH plus s o :: traceH plus (stepH plus s o).1 os

/-- the batch is QUIET: the handler recorded no error for it -/
def quiet (r : HState × Bool) : Bool := !r.2

/-! ### PRE-FIX variant (before /repo c94173a; NOT what the code does — kept as a regression detector)

The EndpointsOnlyChange arm was `if h.cfg.plus { updateUpstreamServers } else { updateNginxConf }`: it did not look at
`latestReloadResult` (known finding `C13:plus_quiet_after_failed_reload`, now fixed). -/

def stepHPre (plus : Bool) (s : HState) (o : HOp) : HState × Bool :=
  let r := applyOp plus false o s.ngx
  ({ ngx := r.1, latest := some o.conf, lastErr := r.2 }, r.2)

def traceHPre (plus : Bool) (s : HState) : List HOp → List (HState × Bool)
  | [] => []
  | o :: os => stepHPre plus s o :: traceHPre plus (stepHPre plus s o).1 os

/-! ### the property on the held state (executable; the driver's judge runs these on the REAL views) -/

/-- the servers NGINX must hold for an http upstream after the handler has applied it: the endpoints; when there
is none, OSS holds the 503 placeholder (Plus: see known finding `C13:plus_empty_no_503`, an empty group) -/
def heldHttpExpected (plus : Bool) (u : Up) : List String :=
  if plus then convertEndpoints u.eps
  else if u.eps.isEmpty then [nginx503Server] else u.eps.map serverAddress

def heldStreamExpected (plus : Bool) (u : Up) : List String :=
  if plus then convertEndpoints u.eps else u.eps.map serverAddress

/-- names of the upstreams of `c` whose held server set is not the one of `c` -/
def outOfSyncHttp (plus : Bool) (c : Conf) (a : Api) : List String :=
  (c.http.filter fun u => !sameSet (a.http.servers u.name) (heldHttpExpected plus u)).map (·.name)

def outOfSyncStream (plus : Bool) (c : Conf) (a : Api) : List String :=
  (c.stream.filter fun u => !sameSet (a.stream.servers u.name) (heldStreamExpected plus u)).map (·.name)

def inSync (plus : Bool) (c : Conf) (a : Api) : Bool :=
  (outOfSyncHttp plus c a).isEmpty && (outOfSyncStream plus c a).isEmpty

/-! ### REFUTED variant (seeded change C13-r3m2; NOT what the code does)

"Skip the application of an endpoints-only batch when the new upstream endpoint sets equal those of
`latestConfiguration`" — which is the last GENERATED configuration, not the last one NGINX accepted. -/

def sameEps (a b : List Ep) : Bool :=
  a.all (fun x => decide (x ∈ b)) && b.all (fun x => decide (x ∈ a))

def sameUpstreamServers (prev cur : List Up) : Bool :=
  prev.length == cur.length &&
    cur.all fun u => prev.any fun p => decide (p.name = u.name) && sameEps p.eps u.eps

def stepSkip (plus : Bool) (s : HState) (o : HOp) : HState × Bool :=
  match o.kind, s.latest with
  | .endpoints, some prev =>
    if sameUpstreamServers prev.http o.conf.http && sameUpstreamServers prev.stream o.conf.stream then
      ({ s with latest := some o.conf }, false)   -- early return: nothing pushed, no error recorded for the batch
    else stepH plus s o
  | _, _ => stepH plus s o

def traceSkip (plus : Bool) (s : HState) : List HOp → List (HState × Bool)
  | [] => []
  | o :: os => stepSkip plus s o :: traceSkip plus (stepSkip plus s o).1 os

end NGF.Resolver
