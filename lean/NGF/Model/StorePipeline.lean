/-
C01 over the concrete pipeline model — the store/handler machine of `NGF.Model.Store` / `NGF.Model.StoreHandler`
instantiated with

  cluster  `PCl`     the objects of a `PipelineEndpoints.ScenarioE` keyed by (kind, namespace, name): GatewayClass, Gateway,
                     HTTPRoute (backendRefs as written), Service (its `spec.ports` entries), ReferenceGrant, EndpointSlice —
                     one keyed list per kind, in ARRIVAL order (a Go map = a list; `Props/C01Pipeline` shows the
                     configuration does not depend on the listing, by C14's `gen_perm_equiv`);
  build    `pBuild`  ONE rebuild = `Pipeline.gen (PipelineRefs.resolve c)` (servers / locations / proxy_pass targets),
                     `PipelineEndpoints.upstreamsOf c` (upstream blocks), the statuses of `PipelineStatus`
                     (`routeParentStatuses` of every HTTPRoute, `gatewayStatus`, the ignored Gateways) and the
                     `ReferencedServices` of the graph (what the relevance predicates consult);
  rel      `pRel`    the predicates of `NewChangeProcessorImpl` as they are in the tree: `predicate: nil` for GatewayClass,
                     Gateway, HTTPRoute, ReferenceGrant; `funcPredicate{isReferenced}` for Service
                     (`g.ReferencedServices[nsname]`) and EndpointSlice (owner = service-name label of the NEW and of the
                     STORED object, `delete` judges the stored object: /repo ecaa5d2) — judged against the LATEST graph,
                     store-then-predicate order (that order is `Store.capture`).
No oracle bit: `Event.oracle` is never read. Core-only.
-/
import NGF.Model.Store
import NGF.Model.StoreHandler
import NGF.Model.PipelineEndpoints
import NGF.Model.PipelineStatus

namespace NGF.StorePipeline
open NGF.Store
open NGF.Pipeline (Str GwClass Gateway Conf)
open NGF.PipelineRefs (RouteR ScenarioR Service)
open NGF.PipelineEndpoints (ScenarioE PortInfo)
open NGF.RefGrant (Grant)
open NGF.Resolver (Slice SvcPort Up)
open NGF.StatusPrep (ParentStatus GatewayStatus)

/-! ### keyed lists (a Go map in arrival order) -/

/-- (namespace, name); cluster-scoped objects have namespace "" -/
abbrev Key := String × String

variable {α : Type}

/-- `store.get` -/
def kGet (key : α → Key) (k : Key) (l : List α) : Option α := l.find? fun x => key x == k

/-- `store.delete`: the entry of the key goes (a map holds at most one) -/
def kDel (key : α → Key) (k : Key) (l : List α) : List α := l.eraseP fun x => key x == k

/-- `store.upsert`: the entry of the key is replaced -/
def kPut (key : α → Key) (x : α) (l : List α) : List α := x :: kDel key (key x) l

/-! ### objects -/

inductive PKind | gatewayClass | gateway | httpRoute | service | referenceGrant | endpointSlice
  deriving DecidableEq, Repr

/-- a `v1.Service` as far as the fragment reads it: its `spec.ports` entries in order (number for `getServicePort`, name
and targetPort for the endpoint resolver) -/
structure SvcObj where
  ns : String
  name : String
  ports : List SvcPort
  deriving DecidableEq, Repr

/-- an EndpointSlice with its object name (`Resolver.Slice` carries what the resolver reads) -/
structure SliceObj where
  name : String
  slice : Slice
  deriving DecidableEq, Repr

inductive PObj
  | cls (c : GwClass)
  | gw (g : Gateway)
  | route (r : RouteR)
  | svc (s : SvcObj)
  | grant (g : Grant)
  | slice (s : SliceObj)
  deriving Repr

def clsKey (c : GwClass) : Key := ("", String.ofList c.name)
def gwKey (g : Gateway) : Key := (String.ofList g.ns, String.ofList g.name)
def routeKey (r : RouteR) : Key := (r.ns, r.name)
def svcKey (s : SvcObj) : Key := (s.ns, s.name)
def grantKey (g : Grant) : Key := (g.ns, g.name)
def sliceKey (s : SliceObj) : Key := (s.slice.ns, s.name)

def PObj.kind : PObj → PKind
  | .cls _ => .gatewayClass | .gw _ => .gateway | .route _ => .httpRoute
  | .svc _ => .service | .grant _ => .referenceGrant | .slice _ => .endpointSlice

def PObj.key : PObj → Key
  | .cls c => clsKey c | .gw g => gwKey g | .route r => routeKey r
  | .svc s => svcKey s | .grant g => grantKey g | .slice s => sliceKey s

/-- the cluster (and, equally, the processor's `ClusterState` + the informer cache) -/
structure PCl where
  /-- configuration of the controller: `GatewayClassName`, `GatewayCtlrName` -/
  cls : Str
  ctlr : Str
  classes : List GwClass
  gateways : List Gateway
  routes : List RouteR
  svcs : List SvcObj
  grants : List Grant
  slices : List SliceObj

def toService (s : SvcObj) : Service := { ns := s.ns, name := s.name, ports := s.ports.map (·.port) }
def toPorts (s : SvcObj) : List PortInfo := s.ports.map fun sp => { ns := s.ns, name := s.name, sp := sp }

/-- the scenario the pipeline model reads off the cluster -/
def PCl.toR (c : PCl) : ScenarioR :=
  { cls := c.cls, ctlr := c.ctlr, classes := c.classes, gateways := c.gateways, routes := c.routes,
    services := c.svcs.map toService, grants := c.grants }

def PCl.toE (c : PCl) : ScenarioE :=
  { base := c.toR, ports := c.svcs.flatMap toPorts, slices := c.slices.map (·.slice) }

/-! ### the store operations -/

def putObj : PObj → PCl → PCl
  | .cls x, c => { c with classes := kPut clsKey x c.classes }
  | .gw x, c => { c with gateways := kPut gwKey x c.gateways }
  | .route x, c => { c with routes := kPut routeKey x c.routes }
  | .svc x, c => { c with svcs := kPut svcKey x c.svcs }
  | .grant x, c => { c with grants := kPut grantKey x c.grants }
  | .slice x, c => { c with slices := kPut sliceKey x c.slices }

def delKey : PKind → Key → PCl → PCl
  | .gatewayClass, k, c => { c with classes := kDel clsKey k c.classes }
  | .gateway, k, c => { c with gateways := kDel gwKey k c.gateways }
  | .httpRoute, k, c => { c with routes := kDel routeKey k c.routes }
  | .service, k, c => { c with svcs := kDel svcKey k c.svcs }
  | .referenceGrant, k, c => { c with grants := kDel grantKey k c.grants }
  | .endpointSlice, k, c => { c with slices := kDel sliceKey k c.slices }

def getObj (c : PCl) : PKind → Key → Option PObj
  | .gatewayClass, k => (kGet clsKey k c.classes).map .cls
  | .gateway, k => (kGet gwKey k c.gateways).map .gw
  | .httpRoute, k => (kGet routeKey k c.routes).map .route
  | .service, k => (kGet svcKey k c.svcs).map .svc
  | .referenceGrant, k => (kGet grantKey k c.grants).map .grant
  | .endpointSlice, k => (kGet sliceKey k c.slices).map .slice

abbrev PEvent := Event PKind Key PObj

/-- `NewChangeProcessorImpl` for the kinds of the fragment: every kind has a store; Service and EndpointSlice have
`funcPredicate{stateChanged: isReferenced}`, the others `predicate: nil`; `delete` hands the stored object to the predicate.
The informer cache is the same object set (immediate delivery), so `cache` has nothing of its own to do. -/
def pOps : Ops PKind Key PObj PCl where
  persisted _ := true
  hasPred k := k == .service || k == .endpointSlice
  isEndpoints k := k == .endpointSlice
  get := getObj
  store e c := match e.obj with
    | some o => putObj o c
    | none => delKey e.kind e.key c
  cache _ c := c
  delSeesOld := true

/-! ### one rebuild -/

/-- the status of one HTTPRoute: (namespace, name) ↦ `RouteStatus.Parents` (`none` = not in the graph: no request) -/
abbrev RouteSt := (Str × Str) × Option (List ParentStatus)

/-- What ONE rebuild derives and the handler applies: configuration, upstreams, statuses; plus `ReferencedServices` of the
graph, which the relevance predicates of later events consult. `withStatus = false` leaves the statuses out (the
configuration-only reading of the property). -/
structure PBuilt where
  conf : Conf
  ups : List Up
  routeSt : List RouteSt
  gwSt : Option GatewayStatus
  ignored : List (Str × Str)
  referenced : List Key

/-- `buildReferencedServices(routes, l4Routes, gw)` with `gw` the Gateway of the graph — the winner of `processGateways`,
which is in the graph (invalid) also while the configured GatewayClass is MISSING. With the class present this is
`PipelineRefs.referencedServices` (C06), which reads `Pipeline.winner`; the two differ only while the class is missing,
where `winner` is `none` (nothing is configured) but the real graph still computes `ReferencedServices` against the
invalid Gateway — observed on the real controller by the pipeline stream. -/
def referencedSvcs (c : ScenarioR) : List Key :=
  match PipelineStatus.graphGateway (PipelineRefs.resolve c) with
  | none => []
  | some (g, _) => (c.routes.filter fun r => r.valid && PipelineRefs.belongsTo g r).flatMap (PipelineRefs.routeSvcNames c.grants)

def routeStatuses (s : Pipeline.Scenario) : List RouteSt :=
  s.routes.map fun r => ((r.ns, r.name), PipelineStatus.routeParentStatuses s false 0 r)

def pBuild (withStatus : Bool) (c : PCl) : PBuilt :=
  let s := PipelineRefs.resolve c.toR
  { conf := Pipeline.gen s
    ups := PipelineEndpoints.upstreamsOf c.toE
    routeSt := if withStatus then routeStatuses s else []
    gwSt := if withStatus then PipelineStatus.gatewayStatus s false 0 else none
    ignored := if withStatus then (PipelineStatus.ignoredGateways s).map fun g => (g.ns, g.name) else []
    referenced := referencedSvcs c.toR }

/-! ### the relevance predicates -/

/-- `index.GetServiceNameFromEndpointSlice`: the label value, "" when absent -/
def ownerName (s : Slice) : String := s.svcLabel.getD ""

/-- the EndpointSlice case of `Graph.IsReferenced` for the object handed to the predicate:
`g.ReferencedServices[{nsname.Namespace, svcName}]` -/
def sliceReferenced (referenced : List Key) (ns : String) : Option PObj → Bool
  | some (.slice s) => referenced.contains (ns, ownerName s.slice)
  | _ => false

/-- `isReferenced := latestGraph != nil && latestGraph.IsReferenced(obj, nsname)`; `funcPredicate.upsert(old, new) =
stateChanged(new) || (old != nil && stateChanged(old))`, `delete(subject)` with the stored object. A Service is judged by
its namespaced name alone (old and new share it). -/
def pRel (latest : Option PBuilt) (old : Option PObj) (e : PEvent) : Bool :=
  match latest with
  | none => false
  | some b =>
    match e.kind with
    | .service => b.referenced.contains e.key
    | .endpointSlice => sliceReferenced b.referenced e.key.1 e.obj || sliceReferenced b.referenced e.key.1 old
    | _ => true

/-- controller-runtime delivers every mutation of these kinds (the watch predicates of the fragment's kinds are the
subject of `Model/Footprint`: `ServicePortsChangedPredicate`; they are not part of this composition) -/
def pWatch : PCl → PEvent → Bool := fun _ _ => true

/-- the handler of the tree as far as the fragment's kinds go: ONE filter, on the Service that fronts NGF, with
`captureChangeInGraph: true` (the NginxGateway object is not a kind of the fragment) -/
def pHandler (front : Key) : Handler PKind Key where
  filters k key := if k = .service ∧ key = front then
      some { name := "nginxGatewayService", captureChangeInGraph := true, needsGraph := true } else none

/-! ### histories -/

/-- a cluster mutation: create/update of an object (its kind and key are its own), or delete of (kind, key) -/
inductive PMut
  | upsert (o : PObj)
  | delete (k : PKind) (key : Key)

def PMut.event : PMut → PEvent
  | .upsert o => { kind := o.kind, key := o.key, obj := some o }
  | .delete k key => { kind := k, key := key, obj := none }

inductive PStep
  | mut (m : PMut)
  | cut
  | restart

def PStep.step : PStep → Step PKind Key PObj
  | .mut m => .mutate m.event
  | .cut => .cut
  | .restart => .restart

def steps (h : List PStep) : List (Step PKind Key PObj) := h.map PStep.step

/-- an upsert event names the object it carries -/
def wfEvent (e : PEvent) : Bool :=
  match e.obj with
  | some o => decide (o.kind = e.kind) && decide (o.key = e.key)
  | none => true

/-! ### the excluded region of the CURRENT code (known finding `C01:service-dropped:route-of-ignored-gateway`) -/

/-- the route gets a status whose conditions depend on its backendRefs: it is in the graph with at least one parentRef that
names a Gateway of our class (winner OR ignored) -/
def statusBearing (s : Pipeline.Scenario) (r : Pipeline.Route) : Bool :=
  (PipelineStatus.graphGateway s).isSome &&
  (match PipelineStatus.sectionNameRefs s r with
   | some (_ :: _) => true
   | _ => false)

/-- every Service a status-bearing valid route names (reference check passed) is in `ReferencedServices` — false exactly
when a valid route names only Gateways of our class that LOST the election (or the class is missing): `createBackendRef`
resolves its backendRefs and writes ResolvedRefs conditions, `buildReferencedServices` skips it -/
def svcCovered (c : PCl) : Bool :=
  c.routes.all fun r =>
    !(r.valid && statusBearing (PipelineRefs.resolve c.toR) (PipelineRefs.shell r)) ||
    (PipelineRefs.routeSvcNames c.grants r).all fun k => (referencedSvcs c.toR).contains k

/-- admissible mutations: well-formed events; with statuses in the output, Service events only while `svcCovered` -/
def pAdm (withStatus : Bool) (t : PCl) (e : PEvent) : Bool :=
  wfEvent e && (!(withStatus && e.kind == .service) || svcCovered t)

/-- the history stays outside the excluded region: whenever a Service is created, updated or deleted, every Service that a
status-bearing valid route names is in `ReferencedServices` (decidable, evaluated along the history) -/
def CoveredAlong : PCl → List PStep → Bool
  | _, [] => true
  | w, .mut m :: hist =>
      (!(m.event.kind == .service) || svcCovered w) && CoveredAlong (applyW pOps m.event w) hist
  | w, _ :: hist => CoveredAlong w hist

end NGF.StorePipeline
