/-
C07 — model of status preparation (`internal/mode/static/status/prepare_requests.go`,
`internal/framework/conditions/conditions.go`) over an abstract summary of `graph.Graph`.

Mirrored Go functions:
  `conditions.DeduplicateConditions`  ↦ `dedup`
  `conditions.ConvertConditions`      ↦ `convert`
  `prepareRouteStatus`                ↦ `prepareParent`, `prepareRouteStatus`
  `PrepareRouteRequests`              ↦ `prepareRoutes`
  `prepareGatewayRequest`             ↦ `prepareGateway`   (listener statuses, attachedRoutes, reload result)
  `PrepareGatewayRequests`            ↦ `prepareGateway` + `ignoredGatewayConds`
  `PrepareNGFPolicyRequests`          ↦ `preparePolicy`
  `PrepareBackendTLSPolicyRequests`   ↦ `prepareBTP`
Condition messages and transition times are not modelled. Core Lean only.
-/
namespace NGF.StatusPrep

/-- `conditions.Condition` without the message. `status` is "True" / "False" / "Unknown". -/
structure Cond where
  type : String
  status : String
  reason : String
  deriving DecidableEq, Repr, Inhabited

/-- `metav1.Condition` without message and time. -/
structure ApiCond where
  type : String
  status : String
  reason : String
  gen : Int
  deriving DecidableEq, Repr, Inhabited

/-! ### DeduplicateConditions / ConvertConditions -/

/-- The reverse scan of `DeduplicateConditions`: `l` is the input read from the end, `seen` the keys of
`uniqueElems`, `acc` the result slice filled from its end (`result[len-1-reverseIdx]`). -/
def dedupAux : List Cond → List String → List Cond → List Cond
  | [], _, acc => acc
  | c :: rest, seen, acc =>
    if c.type ∈ seen then dedupAux rest seen acc else dedupAux rest (c.type :: seen) (c :: acc)

/-- `conditions.DeduplicateConditions` -/
def dedup (cs : List Cond) : List Cond := dedupAux cs.reverse [] []

/-- `conditions.ConvertConditions` -/
def convert (cs : List Cond) (gen : Int) : List ApiCond :=
  cs.map fun c => ⟨c.type, c.status, c.reason, gen⟩

/-- the last condition of type `t` in `cs` (what "the last condition wins" refers to) -/
def lastOfType (t : String) (cs : List Cond) : Option Cond :=
  cs.reverse.find? fun c => c.type = t

/-! ### condition constructors used by status preparation (pinned to the source by `NGF.Generated.ConditionFacts`) -/

def routeAccepted : Cond := ⟨"Accepted", "True", "Accepted"⟩
def routeResolvedRefs : Cond := ⟨"ResolvedRefs", "True", "ResolvedRefs"⟩
/-- `NewDefaultRouteConditions` -/
def defaultRouteConds : List Cond := [routeAccepted, routeResolvedRefs]
/-- `NewRouteGatewayNotProgrammed` — the condition a failed reload adds to every parent -/
def routeGatewayNotProgrammed : Cond := ⟨"Accepted", "False", "GatewayNotProgrammed"⟩

def listenerAccepted : Cond := ⟨"Accepted", "True", "Accepted"⟩
def listenerProgrammed : Cond := ⟨"Programmed", "True", "Programmed"⟩
def listenerResolvedRefs : Cond := ⟨"ResolvedRefs", "True", "ResolvedRefs"⟩
def listenerNoConflicts : Cond := ⟨"Conflicted", "False", "NoConflicts"⟩
/-- `NewDefaultListenerConditions` -/
def defaultListenerConds : List Cond :=
  [listenerAccepted, listenerProgrammed, listenerResolvedRefs, listenerNoConflicts]
/-- `NewListenerNotProgrammedInvalid` -/
def listenerNotProgrammedInvalid : Cond := ⟨"Programmed", "False", "Invalid"⟩

def gatewayAccepted : Cond := ⟨"Accepted", "True", "Accepted"⟩
def gatewayProgrammed : Cond := ⟨"Programmed", "True", "Programmed"⟩
/-- `NewDefaultGatewayConditions` -/
def defaultGatewayConds : List Cond := [gatewayAccepted, gatewayProgrammed]
/-- `NewGatewayNotAcceptedListenersNotValid` -/
def gatewayNotAcceptedListenersNotValid : List Cond :=
  [⟨"Accepted", "False", "ListenersNotValid"⟩, ⟨"Programmed", "False", "Invalid"⟩]
/-- `NewGatewayAcceptedListenersNotValid` -/
def gatewayAcceptedListenersNotValid : Cond := ⟨"Accepted", "True", "ListenersNotValid"⟩
/-- `NewGatewayNotProgrammedInvalid` -/
def gatewayNotProgrammedInvalid : Cond := ⟨"Programmed", "False", "Invalid"⟩
/-- `NewGatewayConflict` -/
def gatewayConflictConds : List Cond :=
  [⟨"Accepted", "False", "GatewayConflict"⟩, ⟨"Programmed", "False", "GatewayConflict"⟩]

/-- `NewPolicyAccepted` -/
def policyAccepted : Cond := ⟨"Accepted", "True", "Accepted"⟩

def gatewayGroup : String := "gateway.networking.k8s.io"

/-! ### routes -/

/-- `graph.ParentRefAttachmentStatus` (the fields status preparation reads) -/
structure Attachment where
  attached : Bool
  failed : Cond
  deriving DecidableEq, Repr

/-- `graph.ParentRef` -/
structure ParentRef where
  gwNs : String
  gwName : String
  sectionName : Option String
  attachment : Option Attachment
  deriving DecidableEq, Repr

/-- `graph.L7Route` / `graph.L4Route` (the fields status preparation reads) -/
structure Route where
  kind : String
  ns : String
  name : String
  gen : Int
  conds : List Cond
  parentRefs : List ParentRef
  deriving DecidableEq, Repr

/-- `v1.RouteParentStatus` -/
structure ParentStatus where
  ns : String
  name : String
  sectionName : Option String
  controller : String
  conds : List ApiCond
  deriving DecidableEq, Repr

structure RouteStatus where
  kind : String
  ns : String
  name : String
  parents : List ParentStatus
  deriving DecidableEq, Repr

/-- the failed-attachment condition of a parentRef, if it has one -/
def failedConds (ref : ParentRef) : List Cond :=
  match ref.attachment with
  | some a => if a.attached then [] else [a.failed]
  | none => []

/-- `allConds` of `prepareRouteStatus`: defaults, route conditions, failed attachment, reload failure -/
def routeAllConds (conds : List Cond) (ref : ParentRef) (reloadErr : Bool) : List Cond :=
  defaultRouteConds ++ conds ++ failedConds ref ++ (if reloadErr then [routeGatewayNotProgrammed] else [])

def prepareParent (ctlr : String) (conds : List Cond) (reloadErr : Bool) (gen : Int) (ref : ParentRef) :
    ParentStatus :=
  { ns := ref.gwNs, name := ref.gwName, sectionName := ref.sectionName, controller := ctlr,
    conds := convert (dedup (routeAllConds conds ref reloadErr)) gen }

/-- `prepareRouteStatus` -/
def prepareRouteStatus (ctlr : String) (refs : List ParentRef) (conds : List Cond) (reloadErr : Bool)
    (gen : Int) : List ParentStatus :=
  refs.map (prepareParent ctlr conds reloadErr gen)

def prepareRoute (ctlr : String) (reloadErr : Bool) (r : Route) : RouteStatus :=
  ⟨r.kind, r.ns, r.name, prepareRouteStatus ctlr r.parentRefs r.conds reloadErr r.gen⟩

/-! ### gateways -/

/-- `graph.Listener` (the fields status preparation reads); `routes`/`l4routes` are the keys of the maps -/
structure Listener where
  name : String
  valid : Bool
  conds : List Cond
  routes : List String
  l4routes : List String
  deriving DecidableEq, Repr

/-- `graph.Gateway` -/
structure Gateway where
  ns : String
  name : String
  gen : Int
  valid : Bool
  conds : List Cond
  listeners : List Listener
  deriving DecidableEq, Repr

structure ListenerStatus where
  name : String
  attachedRoutes : Nat
  conds : List ApiCond
  deriving DecidableEq, Repr

structure GatewayStatus where
  ns : String
  name : String
  conds : List ApiCond
  listeners : List ListenerStatus
  deriving DecidableEq, Repr

def listenerConds (l : Listener) (reloadErr : Bool) : List Cond :=
  (if l.valid then defaultListenerConds else l.conds) ++
    (if reloadErr then [listenerNotProgrammedInvalid] else [])

def prepareListener (gen : Int) (reloadErr : Bool) (l : Listener) : ListenerStatus :=
  { name := l.name,
    attachedRoutes := l.routes.length + l.l4routes.length,
    conds := convert (dedup (listenerConds l reloadErr)) gen }

def validListenerCount (ls : List Listener) : Nat := (ls.filter (·.valid)).length

def gatewayConds (gw : Gateway) (reloadErr : Bool) : List Cond :=
  defaultGatewayConds ++
    (if validListenerCount gw.listeners = 0 then gatewayNotAcceptedListenersNotValid
     else if validListenerCount gw.listeners < gw.listeners.length then [gatewayAcceptedListenersNotValid]
     else []) ++
    (if reloadErr then [gatewayNotProgrammedInvalid] else [])

/-- `prepareGatewayRequest` -/
def prepareGateway (gw : Gateway) (reloadErr : Bool) : GatewayStatus :=
  if gw.valid then
    { ns := gw.ns, name := gw.name,
      conds := convert (dedup (gatewayConds gw reloadErr)) gw.gen,
      listeners := gw.listeners.map (prepareListener gw.gen reloadErr) }
  else
    { ns := gw.ns, name := gw.name, conds := convert (dedup gw.conds) gw.gen, listeners := [] }

structure ObjRef where
  ns : String
  name : String
  gen : Int
  deriving DecidableEq, Repr

/-- status of an ignored Gateway (`PrepareGatewayRequests`, second loop) -/
def prepareIgnored (g : ObjRef) : GatewayStatus :=
  { ns := g.ns, name := g.name, conds := convert gatewayConflictConds g.gen, listeners := [] }

/-! ### policies -/

structure AncRef where
  group : String
  kind : String
  ns : String
  name : String
  deriving DecidableEq, Repr

/-- `graph.PolicyAncestor` -/
structure Ancestor where
  ref : AncRef
  conds : List Cond
  deriving DecidableEq, Repr

/-- `graph.Policy` -/
structure Policy where
  kind : String
  ns : String
  name : String
  gen : Int
  conds : List Cond
  ancestors : List Ancestor
  deriving DecidableEq, Repr

structure AncStatus where
  ref : AncRef
  controller : String
  conds : List ApiCond
  deriving DecidableEq, Repr

structure PolicyStatus where
  kind : String
  ns : String
  name : String
  ancestors : List AncStatus
  deriving DecidableEq, Repr

def prepareAncestor (ctlr : String) (p : Policy) (a : Ancestor) : AncStatus :=
  { ref := a.ref, controller := ctlr,
    conds := convert (dedup ([policyAccepted] ++ a.conds ++ p.conds)) p.gen }

/-- `PrepareNGFPolicyRequests` for one policy; a policy without ancestors gets no request (status untouched) -/
def preparePolicy (ctlr : String) (p : Policy) : PolicyStatus :=
  ⟨p.kind, p.ns, p.name, p.ancestors.map (prepareAncestor ctlr p)⟩

/-- `graph.BackendTLSPolicy` -/
structure BTP where
  ns : String
  name : String
  gen : Int
  gwNs : String
  gwName : String
  conds : List Cond
  referenced : Bool
  ignored : Bool
  deriving DecidableEq, Repr

/-- `PrepareBackendTLSPolicyRequests` for one policy -/
def prepareBTP (ctlr : String) (b : BTP) : PolicyStatus :=
  ⟨"BackendTLSPolicy", b.ns, b.name,
    if !b.referenced || b.ignored then []
    else [{ ref := ⟨gatewayGroup, "Gateway", b.gwNs, b.gwName⟩, controller := ctlr,
            conds := convert (dedup b.conds) b.gen }]⟩

/-! ### the whole graph summary -/

structure Summary where
  controller : String
  reloadErr : Bool
  gateway : Option Gateway
  ignored : List ObjRef
  routes : List Route
  policies : List Policy
  btps : List BTP
  deriving Repr

/-- the status sub-resources written for a graph (fresh objects, no foreign entries) -/
structure Prepared where
  routes : List RouteStatus
  gateways : List GatewayStatus
  policies : List PolicyStatus
  deriving DecidableEq, Repr

def prepare (s : Summary) : Prepared :=
  { routes := s.routes.map (prepareRoute s.controller s.reloadErr),
    gateways := (match s.gateway with
                 | some gw => [prepareGateway gw s.reloadErr]
                 | none => []) ++ s.ignored.map prepareIgnored,
    policies := s.btps.map (prepareBTP s.controller) ++ s.policies.map (preparePolicy s.controller) }

/-! ### well-formedness of what the graph hands over (hypothesis of some theorems; the driver checks it on
every summary extracted from the REAL graph, and `NGF.Props.C07` derives it from the constructor table) -/

/-- every condition of type `t` has status False -/
def condsFalse (t : String) (cs : List Cond) : Bool := cs.all fun c => decide (c.type ≠ t) || decide (c.status = "False")

/-- a failed attachment carries an `Accepted=False` condition -/
def ParentRef.wf (ref : ParentRef) : Bool :=
  match ref.attachment with
  | some a => a.attached || (decide (a.failed.type = "Accepted") && decide (a.failed.status = "False"))
  | none => true

/-- route-wide conditions of type Accepted / ResolvedRefs are negative (the positive ones are the defaults) -/
def Route.wf (r : Route) : Bool :=
  condsFalse "Accepted" r.conds && condsFalse "ResolvedRefs" r.conds && r.parentRefs.all (·.wf)

/-- an invalid listener carries `Programmed=False` and no `Programmed=True` -/
def Listener.wf (l : Listener) : Bool :=
  l.valid || (l.conds.any (fun c => decide (c.type = "Programmed")) && condsFalse "Programmed" l.conds)

def Gateway.wf (gw : Gateway) : Bool :=
  if gw.valid then gw.listeners.all (·.wf) else condsFalse "Programmed" gw.conds

def Summary.wf (s : Summary) : Bool :=
  s.routes.all (·.wf) && (match s.gateway with | some g => g.wf | none => true)

/-! ### reading prepared statuses (shared by the theorems and the judge) -/

def hasCond (cs : List ApiCond) (t s : String) : Bool := cs.any fun c => c.type = t ∧ c.status = s

/-- no `Programmed=True` among the conditions of a Gateway status and of its listeners -/
def GatewayStatus.noProgrammedTrue (g : GatewayStatus) : Bool :=
  !hasCond g.conds "Programmed" "True" && g.listeners.all fun l => !hasCond l.conds "Programmed" "True"

def Prepared.noProgrammedTrue (p : Prepared) : Bool := p.gateways.all (·.noProgrammedTrue)

end NGF.StatusPrep
