/-
C11 — model of `file.ManagerImpl.ReplaceFiles`, `file.WriteFile` and `file.ClearFolders`
(/repo/internal/mode/static/nginx/file/{manager.go,folders.go,os_filemanager.go}) over an abstract
file system with injected I/O faults.  Core Lean only.

The file system is an association list path ↦ (content, mode); only files that live directly in
one of the managed NGINX folders are represented.  Every call of an `OSFileManager` method is one
*operation*; operations of one call are numbered 0,1,2,… and a fault schedule `Nat → Option Fault`
says which operation fails and how.
-/
namespace NGF.FileMgr

structure FileObj where
  content : List Nat
  mode    : Nat
deriving DecidableEq, Repr

abbrev FS := List (String × FileObj)

inductive FType | regular | secret
deriving DecidableEq, Repr

/-- `file.File` -/
structure File where
  path    : String
  content : List Nat
  typ     : FType
deriving DecidableEq, Repr

/-- `regularFileMode` / `secretFileMode` of manager.go (pinned to the source by `Props/C11`). -/
def regularMode : Nat := 0o644
def secretMode  : Nat := 0o640
/-- mode of a file newly created by `os.Create` (0o666 masked by the umask 022 the harness sets). -/
def createMode  : Nat := 0o644

def modeOf : FType → Nat
  | .regular => regularMode
  | .secret  => secretMode

/-- `ConfigFolders` of nginx/config/generator.go = the folders handed to `ClearFolders` at start-up. -/
def managedFolders : List String :=
  ["/etc/nginx/conf.d", "/etc/nginx/secrets", "/etc/nginx/includes", "/etc/nginx/main-includes",
   "/etc/nginx/stream-conf.d"]

/-- `ignoreFilePaths` of folders.go: the bootstrap files NGINX needs to start. -/
def ignorePaths : List String :=
  ["/etc/nginx/main-includes/main.conf", "/etc/nginx/main-includes/mgmt.conf",
   "/etc/nginx/main-includes/deployment_ctx.json"]

/-! ### abstract file system -/

def get : FS → String → Option FileObj
  | [], _ => none
  | (q, o) :: r, p => if q = p then some o else get r p

def erase (fs : FS) (p : String) : FS := fs.filter (fun e => e.1 != p)

def put (fs : FS) (p : String) (o : FileObj) : FS := (p, o) :: erase fs p

def keys (fs : FS) : List String := fs.map (·.1)

/-- `os.Create`: O_CREATE|O_TRUNC — an existing file is truncated and keeps its mode. -/
def create (fs : FS) (p : String) : FS :=
  match get fs p with
  | some o => put fs p { o with content := [] }
  | none   => put fs p ⟨[], createMode⟩

/-- `(*os.File).Chmod` on the file just created. -/
def chmod (fs : FS) (p : String) (m : Nat) : FS :=
  match get fs p with
  | some o => put fs p { o with mode := m }
  | none   => fs

/-- `(*os.File).Write` at the end of the (just truncated) file. -/
def write (fs : FS) (p : String) (bytes : List Nat) : FS :=
  match get fs p with
  | some o => put fs p { o with content := o.content ++ bytes }
  | none   => fs

/-! ### faults -/

inductive Fault
  /-- the operation fails without effect (EIO, EACCES, ENOSPC …) -/
  | eio
  /-- `Remove` only: the file has vanished, `Remove` answers ENOENT (for other operations: like `eio`) -/
  | enoent
  /-- `Write` only: the first `n` bytes reach the disk, then the operation fails (others: like `eio`) -/
  | partialW (n : Nat)
  /-- the process dies at this operation (a `Write` still puts `n` bytes on disk) -/
  | crash (n : Nat)
deriving DecidableEq, Repr

abbrev Sched := Nat → Option Fault

def noFaults : Sched := fun _ => none

inductive Outcome | ok | failed | crashed
deriving DecidableEq, Repr

/-- result of a piece of code: file system, next operation index, outcome -/
structure R where
  fs  : FS
  k   : Nat
  out : Outcome

/-! ### ReplaceFiles -/

/-- First loop of `ReplaceFiles`: remove every path of `lastWrittenPaths`; ENOENT is tolerated, any
other error returns. -/
def removeLoop (sch : Sched) : Nat → FS → List String → R
  | k, fs, [] => ⟨fs, k, .ok⟩
  | k, fs, p :: ps =>
    match sch k with
    | some (.crash _) => ⟨fs, k, .crashed⟩
    | some .enoent    => removeLoop sch (k + 1) (erase fs p) ps
    | some _          => ⟨fs, k + 1, .failed⟩
    | none            => removeLoop sch (k + 1) (erase fs p) ps

/-- `WriteFile`: Create, Chmod, Write (in this order), return at the first error. -/
def writeFile (sch : Sched) (k : Nat) (fs : FS) (f : File) : R :=
  match sch k with
  | some (.crash _) => ⟨fs, k, .crashed⟩
  | some _ => ⟨fs, k + 1, .failed⟩
  | none =>
    let fs1 := create fs f.path
    match sch (k + 1) with
    | some (.crash _) => ⟨fs1, k + 1, .crashed⟩
    | some _ => ⟨fs1, k + 2, .failed⟩
    | none =>
      let fs2 := chmod fs1 f.path (modeOf f.typ)
      match sch (k + 2) with
      | some (.crash n)    => ⟨write fs2 f.path (f.content.take n), k + 2, .crashed⟩
      | some (.partialW n) => ⟨write fs2 f.path (f.content.take n), k + 3, .failed⟩
      | some _             => ⟨fs2, k + 3, .failed⟩
      | none               => ⟨write fs2 f.path f.content, k + 3, .ok⟩

/-- result of the second loop: additionally the new `lastWrittenPaths` -/
structure RW where
  fs   : FS
  last : List String
  k    : Nat
  out  : Outcome

/-- Second loop of `ReplaceFiles`.  `before = true` is the code as it is now (the path is appended
to `lastWrittenPaths` BEFORE `WriteFile` is called, commit 167f009); `before = false` is the earlier
code (appended only after `WriteFile` succeeded), kept to state the regression witness. -/
def writeLoop (before : Bool) (sch : Sched) : Nat → FS → List String → List File → RW
  | k, fs, last, [] => ⟨fs, last, k, .ok⟩
  | k, fs, last, f :: rest =>
    let r := writeFile sch k fs f
    match r.out with
    | .ok => writeLoop before sch r.k r.fs (last ++ [f.path]) rest
    | o   => ⟨r.fs, if before then last ++ [f.path] else last, r.k, o⟩

/-- state of a `ManagerImpl` together with the disk -/
structure St where
  fs   : FS
  last : List String
deriving Repr

structure Res where
  st  : St
  out : Outcome
  ops : Nat

def replaceFilesV (before : Bool) (sch : Sched) (s : St) (files : List File) : Res :=
  let r := removeLoop sch 0 s.fs s.last
  match r.out with
  | .ok =>
    let w := writeLoop before sch r.k r.fs [] files
    ⟨⟨w.fs, w.last⟩, w.out, w.k⟩
  | o => ⟨⟨r.fs, s.last⟩, o, r.k⟩

/-- `ManagerImpl.ReplaceFiles` as it is in /repo now. -/
def replaceFiles (sch : Sched) (s : St) (files : List File) : Res := replaceFilesV true sch s files

/-- a history of replacements, each with its own file set and fault schedule -/
def runCalls (s : St) : List (Sched × List File) → St
  | [] => s
  | (sch, F) :: r => runCalls (replaceFiles sch s F).st r

/-! ### how `Remove`'s ENOENT reaches `ReplaceFiles` (liveness of recovery)

`removeLoop` above continues after `erase fs p` whether or not `p` was on disk.  In the code that is two
different paths: for a tracked path that is NOT on disk (left behind by a replacement that failed at
`Create`, or whose removal loop stopped half-way) the operating system answers ENOENT, `StdLibOSFileManager.Remove`
hands that error to `ReplaceFiles`, and `ReplaceFiles` must RECOGNISE it as "already gone".  `removeLoopE tol`
makes this explicit: `tol = true` is the code as it is (`os.Remove`'s `*PathError` is returned unwrapped and
`os.IsNotExist` recognises it — `enoentRecognised` below, pinned to both source texts by `Props/C11`);
`tol = false` is the variant in which the answer is not recognised (e.g. the error is wrapped with `%w` and
still tested with `os.IsNotExist`, which does not unwrap), kept to state the liveness witness. -/
def removeLoopE (tol : Bool) (sch : Sched) : Nat → FS → List String → R
  | k, fs, [] => ⟨fs, k, .ok⟩
  | k, fs, p :: ps =>
    match sch k with
    | some (.crash _) => ⟨fs, k, .crashed⟩
    | some .enoent    =>
      if tol then removeLoopE tol sch (k + 1) (erase fs p) ps else ⟨erase fs p, k + 1, .failed⟩
    | some _          => ⟨fs, k + 1, .failed⟩
    | none            =>
      if get fs p = none ∧ tol = false then ⟨fs, k + 1, .failed⟩
      else removeLoopE tol sch (k + 1) (erase fs p) ps

/-- `ReplaceFiles` with the ENOENT classification explicit (`replaceFilesE true = replaceFiles`, theorem
`replaceFilesE_true`). -/
def replaceFilesE (tol : Bool) (sch : Sched) (s : St) (files : List File) : Res :=
  let r := removeLoopE tol sch 0 s.fs s.last
  match r.out with
  | .ok =>
    let w := writeLoop true sch r.k r.fs [] files
    ⟨⟨w.fs, w.last⟩, w.out, w.k⟩
  | o => ⟨⟨r.fs, s.last⟩, o, r.k⟩

/-- REFUTED VARIANT ("ENOENT on create is benign"): the write loop logs and `continue`s when `WriteFile` fails at
`Create` with an error that unwraps to `fs.ErrNotExist`, instead of returning. Kept only to state the witness
`enoent_on_create_benign_witness`; the code (and `writeLoop`) aborts on a `WriteFile` error of ANY class. -/
def writeLoopBenign (sch : Sched) : Nat → FS → List String → List File → RW
  | k, fs, last, [] => ⟨fs, last, k, .ok⟩
  | k, fs, last, f :: rest =>
    match sch k with
    | some .enoent => writeLoopBenign sch (k + 1) fs (last ++ [f.path]) rest
    | _ =>
      let r := writeFile sch k fs f
      match r.out with
      | .ok => writeLoopBenign sch r.k r.fs (last ++ [f.path]) rest
      | o   => ⟨r.fs, last ++ [f.path], r.k, o⟩

def replaceFilesBenign (sch : Sched) (s : St) (files : List File) : Res :=
  let r := removeLoop sch 0 s.fs s.last
  match r.out with
  | .ok =>
    let w := writeLoopBenign sch r.k r.fs [] files
    ⟨⟨w.fs, w.last⟩, w.out, w.k⟩
  | o => ⟨⟨r.fs, s.last⟩, o, r.k⟩

/-- Does the test `ReplaceFiles` applies to `Remove`'s error recognise the ENOENT that `Remove` produces?
`producer`: how `StdLibOSFileManager.Remove` returns the error of `os.Remove` (`direct` = unchanged,
`wrapped-%w` = inside `fmt.Errorf("…%w", err)`); `test`: the classifier in `ReplaceFiles`
(`os.IsNotExist` inspects the error itself and does not unwrap; `errors.Is` follows `%w` chains). -/
def enoentRecognised (producer test : String) : Bool :=
  (producer == "direct" && (test == "os.IsNotExist" || test == "errors.Is")) ||
  (producer == "wrapped-%w" && test == "errors.Is")

/-! ### ClearFolders -/

/-- `dirChars rest seen acc`: `seen` = characters consumed so far, `acc` = prefix before the last '/'. -/
def dirChars : List Char → List Char → List Char → List Char
  | [], _, acc => acc
  | c :: cs, seen, acc =>
    if c = '/' then dirChars cs (seen ++ [c]) seen else dirChars cs (seen ++ [c]) acc

/-- directory part of a path (everything before the last '/') -/
def dirOf (p : String) : String := String.ofList (dirChars p.toList [] [])

def insertSorted (p : String) : List String → List String
  | [] => [p]
  | q :: r => if p ≤ q then p :: q :: r else q :: insertSorted p r

def sortPaths : List String → List String
  | [] => []
  | p :: r => insertSorted p (sortPaths r)

/-- `ReadDir(d)`: the files directly in `d`, sorted by name (as `os.ReadDir` does). -/
def entries (fs : FS) (d : String) : List String :=
  sortPaths ((keys fs).eraseDups.filter (fun p => dirOf p == d))

/-- inner loop of `ClearFolders`: skip `ignoreFilePaths`, remove the rest, any error returns. -/
def clearEntries (sch : Sched) : Nat → FS → List String → R
  | k, fs, [] => ⟨fs, k, .ok⟩
  | k, fs, p :: ps =>
    if ignorePaths.contains p then clearEntries sch k fs ps
    else match sch k with
      | some (.crash _) => ⟨fs, k, .crashed⟩
      | some .enoent    => ⟨erase fs p, k + 1, .failed⟩
      | some _          => ⟨fs, k + 1, .failed⟩
      | none            => clearEntries sch (k + 1) (erase fs p) ps

/-- outer loop of `ClearFolders` -/
def clearLoop (sch : Sched) : Nat → FS → List String → R
  | k, fs, [] => ⟨fs, k, .ok⟩
  | k, fs, d :: ds =>
    match sch k with
    | some (.crash _) => ⟨fs, k, .crashed⟩
    | some _ => ⟨fs, k + 1, .failed⟩
    | none =>
      let r := clearEntries sch (k + 1) fs (entries fs d)
      match r.out with
      | .ok => clearLoop sch r.k r.fs ds
      | _   => r

def clearFolders (sch : Sched) (fs : FS) (folders : List String) : R := clearLoop sch 0 fs folders

/-! ### the control plane: start-up and replacements -/

/-- `up = true`: start-up (`ClearFolders`) has completed and a `ManagerImpl` exists. -/
structure Sys where
  st : St
  up : Bool

inductive Step
  /-- the handler calls `ReplaceFiles files` under fault schedule `sch` -/
  | replace (sch : Sched) (files : List File)
  /-- the control plane (re)starts: fresh `ManagerImpl` (no tracked paths), `ClearFolders(ConfigFolders)` -/
  | start (sch : Sched)

/-- One step. A replacement is only possible while the control plane is up; a crash brings it down;
a failed or crashed start-up leaves it down (static/manager.go returns the error and the process exits). -/
def sysStep (s : Sys) : Step → Sys × Outcome
  | .replace sch files =>
    if s.up then
      let r := replaceFiles sch s.st files
      (⟨r.st, r.out != .crashed⟩, r.out)
    else (s, .failed)
  | .start sch =>
    let r := clearFolders sch s.st.fs managedFolders
    (⟨⟨r.fs, []⟩, r.out == .ok⟩, r.out)

def sysRun (s : Sys) : List Step → Sys
  | [] => s
  | a :: as => sysRun (sysStep s a).1 as

end NGF.FileMgr
