/-
C01 — the event handler's capture step (`internal/mode/static/handler.go`: `newEventHandlerImpl` builds the
`objectFilters` table, `parseAndCaptureEvent` consults it for every event of a batch) layered on the store model
of `NGF.Model.Store`.

  objectFilter{upsert, delete, captureChangeInGraph}   per `objectFilterKey(<type>, <namespaced name>)`
  parseAndCaptureEvent, UpsertEvent branch:  filter found ⇒ `filter.upsert(…)`; `if !filter.captureChangeInGraph { return }`;
                                             then `processor.CaptureUpsertChange(e.Resource)`
  parseAndCaptureEvent, DeleteEvent branch:  filter found ⇒ `filter.delete(…)`; `if !filter.captureChangeInGraph { return }`;
                                             then `processor.CaptureDeleteChange(e.Type, e.NamespacedName)`

The two branches are modelled SEPARATELY (`Branches`): a tree in which one branch returns after the callback
whatever the flag says is a different `Branches` value (`swallowingDelete` is the pre-image of seeded change
C01-r3m3; `NGF.Props.C01Handler` refutes it with a witness history).
Core Lean only.
-/
import NGF.Model.Store

namespace NGF.Store

/-- `objectFilter`: the callback pair is identified by `name`; `needsGraph`: the callbacks return before issuing
anything when `processor.GetLatestGraph()` is nil (`nginxGatewayServiceUpsert/Delete`), otherwise they always issue
one status group (`nginxGatewayCRDUpsert/Delete` → `updateControlPlaneAndSetStatus`). -/
structure Filter where
  name : String
  captureChangeInGraph : Bool
  needsGraph : Bool := false
  deriving DecidableEq, Repr

/-- What each branch of `parseAndCaptureEvent` does after the callback of a matching filter:
`true` = falls through to `Capture…Change`. In the tree both are `filter.captureChangeInGraph`. -/
structure Branches where
  upsertForwards : Filter → Bool
  deleteForwards : Filter → Bool

/-- the code in the tree: `if !filter.captureChangeInGraph { return }` in BOTH branches -/
def treeBranches : Branches := ⟨(·.captureChangeInGraph), (·.captureChangeInGraph)⟩

/-- variant (pre-image of seeded change C01-r3m3): the DeleteEvent branch returns after the callback unconditionally -/
def swallowingDelete : Branches := ⟨(·.captureChangeInGraph), fun _ => false⟩

/-- mirror variant: the UpsertEvent branch returns after the callback unconditionally -/
def swallowingUpsert : Branches := ⟨fun _ => false, (·.captureChangeInGraph)⟩

/-- `eventHandlerImpl` as far as capturing is concerned: `objectFilters[objectFilterKey(type, nsname)]`. -/
structure Handler (K Key : Type) where
  filters  : K → Key → Option Filter
  branches : Branches := treeBranches

inductive Callback
  | upsert (filter : String)
  | delete (filter : String)
  deriving DecidableEq, Repr

variable {K Key Obj C G : Type}

/-- the filter consulted for an event: `objectFilterKey(e.Resource, ObjectKeyFromObject(e.Resource))` for an upsert,
`objectFilterKey(e.Type, e.NamespacedName)` for a delete — the same (type, name) pair -/
def Handler.filterOf (H : Handler K Key) (e : Event K Key Obj) : Option Filter := H.filters e.kind e.key

/-- does the event reach `CaptureUpsertChange` / `CaptureDeleteChange` -/
def Handler.forwards (H : Handler K Key) (e : Event K Key Obj) : Bool :=
  match H.filterOf e with
  | none => true
  | some f =>
    match e.obj with
    | some _ => H.branches.upsertForwards f
    | none => H.branches.deleteForwards f

/-- the callback the event triggers -/
def Handler.callback (H : Handler K Key) (e : Event K Key Obj) : Option Callback :=
  match H.filterOf e with
  | none => none
  | some f =>
    match e.obj with
    | some _ => some (.upsert f.name)
    | none => some (.delete f.name)

/-- `parseAndCaptureEvent`, statement by statement. -/
def parseAndCapture (H : Handler K Key) (O : Ops K Key Obj C)
    (rel : Option G → Option Obj → Event K Key Obj → Bool) (p : Proc C G) (e : Event K Key Obj) :
    Proc C G × Option Callback :=
  match e.obj with
  | some _ =>
    -- case *events.UpsertEvent
    match H.filters e.kind e.key with
    | some f =>
      -- filter.upsert(ctx, logger, e.Resource)
      if !H.branches.upsertForwards f then (p, some (.upsert f.name))      -- return
      else (capture O rel p e, some (.upsert f.name))                       -- CaptureUpsertChange
    | none => (capture O rel p e, none)
  | none =>
    -- case *events.DeleteEvent
    match H.filters e.kind e.key with
    | some f =>
      -- filter.delete(ctx, logger, e.NamespacedName)
      if !H.branches.deleteForwards f then (p, some (.delete f.name))      -- return
      else (capture O rel p e, some (.delete f.name))                       -- CaptureDeleteChange
    | none => (capture O rel p e, none)

/-- the number of status groups the callback of the event issues (`statusUpdater.UpdateGroup` calls made before
`Process`): the Service callbacks need the latest graph, the NginxGateway callbacks do not -/
def callbackEmits (H : Handler K Key) (p : Proc C G) (e : Event K Key Obj) : Nat :=
  match H.filterOf e with
  | none => 0
  | some f => if f.needsGraph && p.latest.isNone then 0 else 1

/-- One step of a history THROUGH the handler: a delivered event goes to `parseAndCaptureEvent`. -/
def stepH (H : Handler K Key) (O : Ops K Key Obj C) (build : C → G)
    (rel : Option G → Option Obj → Event K Key Obj → Bool) (watch : C → Event K Key Obj → Bool)
    (σ : Sim C G) : Step K Key Obj → Sim C G
  | .mutate e =>
      let p1 := { σ.proc with store := O.cache e σ.proc.store }
      let p2 := if watch σ.world e then (parseAndCapture H O rel p1 e).1 else p1
      { σ with world := applyW O e σ.world, proc := p2 }
  | .cut => step O build rel watch σ .cut
  | .restart => step O build rel watch σ .restart

def runH (H : Handler K Key) (O : Ops K Key Obj C) (build : C → G)
    (rel : Option G → Option Obj → Event K Key Obj → Bool) (watch : C → Event K Key Obj → Bool)
    (σ : Sim C G) : List (Step K Key Obj) → Sim C G
  | [] => σ
  | s :: ss => runH H O build rel watch (stepH H O build rel watch σ s) ss

/-- the callbacks a history triggers (every delivered event that matches a filter, in order) -/
def callbacksOf (H : Handler K Key) (O : Ops K Key Obj C) (watch : C → Event K Key Obj → Bool) :
    C → List (Step K Key Obj) → List Callback
  | _, [] => []
  | w, .mutate e :: ss =>
      let rest := callbacksOf H O watch (applyW O e w) ss
      if watch w e then
        match (H.callback e) with
        | some cb => cb :: rest
        | none => rest
      else rest
  | w, _ :: ss => callbacksOf H O watch w ss

/-- the watch predicate as seen from the change processor: delivered by controller-runtime AND forwarded by the handler -/
def watchH (H : Handler K Key) (watch : C → Event K Key Obj → Bool) : C → Event K Key Obj → Bool :=
  fun t e => watch t e && H.forwards e

/-! ### The filter table of `newEventHandlerImpl` as modelled (pinned to the regenerated facts by
`NGF.Props.C01Handler.handler_filters_as_modelled`) and the trace instance run by the driver.
Key `0` of a kind is reserved for the configured special name of that kind: `gatewayPodConfig.Namespace/ServiceName`
for Service, `controlConfigNSName` for NginxGateway (the harness numbers the keys that way). -/

def specialKey : Nat := 0

def treeFilters (k : String) (key : Nat) : Option Filter :=
  if key = specialKey then
    if k = "NginxGateway" then some { name := "nginxGatewayCRD", captureChangeInGraph := false, needsGraph := false }
    else if k = "Service" then some { name := "nginxGatewayService", captureChangeInGraph := true, needsGraph := true }
    else none
  else none

def treeHandler : Handler String Nat := { filters := treeFilters }

/-- kinds that reach the handler (registered controllers) but are not registered with the change processor:
`CaptureUpsertChange` panics in `assertSupportedGVK` for them -/
def handlerOnlyKinds : List String := ["NginxGateway"]

/-- the `emit` column as it can be observed from outside the handler: status groups issued between consecutive
`Capture…Change` calls — one entry per forwarded event (everything since the previous capture: callbacks of events the
handler kept to itself, then this event's own callback) and a last entry for what follows the last capture -/
def emitRuns : List Nat → List Nat → Nat → List Nat
  | f :: fs, e :: es, c => if f == 1 then (c + e) :: emitRuns fs es 0 else emitRuns fs es (c + e)
  | _, _, c => [c]

structure BatchTrace where
  pend  : List Nat := []   -- pending change type after each event
  col   : List Nat := []   -- store column before each event (0 not persisted / not registered, 1 absent, 2 present)
  fwd   : List Nat := []   -- 1 = reached Capture…Change
  emit  : List Nat := []   -- status groups issued by the callback
  ct    : Nat := 0         -- change type `Process` returned; 9 = the batch panicked (unregistered kind captured)

/-- Replays one batch through `parseAndCapture` with the tree's handler. -/
def traceBatchH (H : Handler String Nat) (p : TProc) : List TEvent → BatchTrace → TProc × BatchTrace
  | [], t =>
      let (p', ct, _) := process (fun _ => ()) p
      (p', { t with pend := t.pend.reverse, col := t.col.reverse, fwd := t.fwd.reverse, emit := t.emit.reverse,
                    ct := ct.toNat })
  | e :: es, t =>
      let registered := allKinds.contains e.kind
      let c := if registered && traceOps.persisted e.kind then
                 (if (traceOps.get p.store e.kind e.key).isSome then 2 else 1) else 0
      let em := callbackEmits H p e
      let f := H.forwards e
      if f && !registered then
        -- assertSupportedGVK panics: the batch ends here, nothing is processed
        (p, { pend := (p.ct.toNat :: t.pend).reverse, col := (c :: t.col).reverse, fwd := (1 :: t.fwd).reverse,
              emit := (em :: t.emit).reverse, ct := 9 })
      else
        let p' := (parseAndCapture H traceOps traceRel p e).1
        traceBatchH H p' es { t with pend := p'.ct.toNat :: t.pend, col := c :: t.col,
                                     fwd := (if f then 1 else 0) :: t.fwd, emit := em :: t.emit }

end NGF.Store
