import NGF.Model.Proto
/-
C01 — the judge: the property evaluated on what the REAL controller did (no model involved).
Input per checkpoint (event queue drained):
  `inert`  for every batch handled since the previous checkpoint: the change type `Process` returned and the
           number of ReplaceFiles / UpdateGroup / Reload calls the real handler made during the batch;
  `a`/`f`  order-normalised digests of the NGINX files last handed to the file manager by the long-lived
           controller / by a freshly started controller on the same cluster;
  `sa`/`sf` digests of the statuses the last issued requests produce on the current objects (long-lived / fresh);
  `fb`     files of the fresh controller after its start-up listing alone.
-/
namespace NGF.Store
open NGF.Proto

abbrev DMap := List (String × String)

def parseMap (s : String) : Option DMap :=
  if s == "-" || s == "" then some []
  else (s.splitOn ",").mapM fun kv =>
    match kv.splitOn "=" with
    | [k, v] => some (k, v)
    | _ => none

/-- first key on which the two maps differ (value or presence) -/
def firstDiff (a b : DMap) : Option String :=
  match a.find? (fun (k, v) => b.lookup k != some v) with
  | some (k, _) => some k
  | none => (b.find? (fun (k, _) => (a.lookup k).isNone)).map (·.1)

structure BatchObs where
  ct : Nat
  files : Nat
  status : Nat
  reloads : Nat

def parseBatchObs (s : String) : Option BatchObs :=
  match (s.splitOn ":").mapM String.toNat? with
  | some [c, f, st, r] => some ⟨c, f, st, r⟩
  | _ => none

/-- An irrelevant batch (NoChange) must not touch files, NGINX or statuses; a relevant one must apply. -/
def inertOK (b : BatchObs) : Bool :=
  if b.ct == 0 then b.files == 0 && b.status == 0 && b.reloads == 0
  else b.files ≥ 1 && b.status ≥ 1

def judge (inert : List BatchObs) (a f sa sf fb : DMap) : Option String :=
  match inert.findIdx? (fun b => !inertOK b) with
  | some i => some s!"inert batch{i}"
  | none =>
    match firstDiff a f with
    | some k => some ("files " ++ k)
    | none =>
      match firstDiff sa sf with
      | some k => some ("status " ++ k)
      | none =>
        match firstDiff fb f with
        | some k => some ("firstbatch " ++ k)
        | none => none

def judgeLine (line : String) : String :=
  let fs := line.splitOn " "
  let inert := match field fs "inert" with
    | some "-" => some []
    | some s => (s.splitOn ",").mapM parseBatchObs
    | none => none
  match inert, field fs "a" >>= parseMap, field fs "f" >>= parseMap, field fs "sa" >>= parseMap,
        field fs "sf" >>= parseMap, field fs "fb" >>= parseMap with
  | some i, some a, some f, some sa, some sf, some fb =>
    match judge i a f sa sf fb with
    | none => "ok"
    | some c => "fail " ++ c
  | _, _, _, _, _, _ => "bad-op"

end NGF.Store
