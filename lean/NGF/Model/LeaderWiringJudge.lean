/-
C09 — the property evaluated on an observed history of the REAL event handler in front of the REAL
`LeaderAwareGroupUpdater` (wiring stream of the harness).

A history is a list of steps.  A step is either one `HandleEventBatch` call or the election
(`EnableAfterBecameLeader.Start`).  For every step the harness reports

* `subs`  — the groups the handler has to submit in that step (from the kinds of the events in the batch and
  the change the change processor reported: the specification of the call sites, not an observation of them);
* `wrote` — every request that reached `client.Status().Update` during the step, as
  `(kind, namespace, name, payload)`;
* `want`  — (for the steps that matter) per group, what reaches the client when a FRESH handler, leader from
  the start, is given the cluster state of that step as its first batch.

The judge states the property; no model of the updater or the handler is consulted:

1. nothing is written before the election (or ever, when the replica is never elected);
2. at the election, for every group, exactly the requests a fresh handler computes for the cluster state of
   the LAST batch that submitted that group are written (as a multiset of `(kind, ns, name, payload)`);
3. afterwards every batch writes, at once, for the groups it submits exactly the fresh requests of its own
   cluster state (when a batch submits a group twice, every fresh request must be the last write of its
   resource), and nothing for the groups it does not submit.
-/
import NGF.Model.LeaderWiring
namespace NGF.Leader

/-- kind ids of the harness: 0 GatewayClass, 1 Gateway, 2 HTTPRoute, 3 GRPCRoute, 4 NginxGateway, 5 TLSRoute -/
def kGateway : Nat := 1
def kNginxGateway : Nat := 4

/-- the group that carries the statuses of a kind: `PrepareGatewayRequests` → gateways,
`PrepareNginxGatewayStatus` → control-plane, every other `Prepare*Requests` → all-except-gateways -/
def groupOfKind (k : Nat) : Group :=
  if k = kGateway then gGateways else if k = kNginxGateway then gControl else gAll

structure WStep where
  enable : Bool
  subs   : List Group
  want   : Option (List (List SReq))   -- index = group
  wrote  : List SReq
  deriving Repr

def ofGroup (g : Group) (rs : List SReq) : List SReq := rs.filter fun r => groupOfKind r.kind == g

/-- the last write per resource `(kind, ns, name)`, in order of last occurrence -/
def lastPerKey : List SReq → List SReq
  | [] => []
  | r :: rs => if rs.any (fun x => x.key == r.key) then lastPerKey rs else r :: lastPerKey rs

def wantOf (s : WStep) (g : Group) : Option (List SReq) := s.want.map fun w => w.getD g []

/-- the step (searching backwards) that submitted `g` last -/
def lastSubmitter (g : Group) : List WStep → Option WStep
  | [] => none
  | s :: before => if s.subs.contains g then some s else lastSubmitter g before

def groupsAll : List Group := [gAll, gGateways, gControl]

/-- clause 2 for one group; `before` = the steps before the election, LAST first -/
def flushOk (before : List WStep) (flushed : List SReq) (g : Group) : Option String :=
  let got := ofGroup g flushed
  match lastSubmitter g before with
  | none => if got.isEmpty then none else some "flush_wrong_requests"
  | some s =>
    match wantOf s g with
    | none => some "bad-history"
    | some want => if got.isPerm want then none else some "flush_wrong_requests"

/-- clause 3 for one group -/
def immediateOk (s : WStep) (g : Group) : Option String :=
  let got := ofGroup g s.wrote
  if !s.subs.contains g then (if got.isEmpty then none else some "unsubmitted_write")
  else
    match wantOf s g with
    | none => some "bad-history"
    | some want =>
      -- a batch that submits the group twice (fronting-Service event + graph change): the last write per
      -- resource is the one of the second submission; what only the first one addressed is not judged
      if (s.subs.filter (· == g)).length > 1 then
        (if want.all (fun r => (lastPerKey got).contains r) then none else some "not_immediate")
      else if got.isPerm want then none else some "not_immediate"

def firstSome (l : List (Option String)) : Option String := l.findSome? id

/-- `before`: steps already seen, last first; `elected`: an election step was seen -/
def judgeWFrom (before : List WStep) (elected : Bool) : List WStep → Option String
  | [] => none
  | s :: rest =>
    let here :=
      if s.enable then
        if elected then some "bad-history"
        else firstSome (groupsAll.map (flushOk before s.wrote))
      else if !elected then (if s.wrote.isEmpty then none else some "write_before_leader")
      else firstSome (groupsAll.map (immediateOk s))
    match here with
    | some c => some c
    | none => judgeWFrom (s :: before) (elected || s.enable) rest

/-- the first failing clause, or none -/
def judgeW (steps : List WStep) : Option String := judgeWFrom [] false steps

end NGF.Leader
