/-
C16 — TLS material binding: executable model of the decision core (core Lean only).

Go functions mirrored (file : function):
  graph/route_common.go     : GetMoreSpecificHostname, match, findAcceptedHostnames
  graph/reference_grant.go  : newReferenceGrantResolver, refAllowed (to Secret, from Gateway)
  graph/secret.go           : secretResolver.resolve (X.509 parsing = scenario bit `pairOK`)
  graph/gateway_listener.go : createHTTPSListenerValidator (certificate-reference part),
                              createExternalReferencesForTLSSecretsResolver
  graph/configmaps.go       : configMapResolver.resolve (PEM/X.509 parsing = scenario bit `caOK`)
  graph/backend_tls_policy.go : validateBackendTLSPolicy, processBackendTLSPolicies (CaCertRef)
  graph/backend_refs.go     : findBackendTLSPolicyForService, validateBackendTLSPolicyMatchingAllBackends (as of e38b1f9),
                              the "mark all backendRefs invalid" step of addBackendRefsToRules
  dataplane/configuration.go: buildSSLKeyPairs, generateSSLKeyPairID, generateCertBundleID,
                              listenerHostnameMoreSpecific, hostPathRules.upsertListener/upsertRoute (listenersForHost),
                              hostPathRules.buildServers (which SSL servers exist, with which key pair),
                              convertBackendTLS
  nginx/config/generator.go : generatePEM, generatePEMFileName, generateCertBundleFileName
  nginx/config/servers.go   : createProxyTLSFromBackends, createProxySSLVerify, generateProtocolString
Hostnames, names and file contents are `List Char`.
-/
namespace NGF.Tls

abbrev Host := List Char
abbrev Name := List Char
abbrev Bytes := List Char

/-! ### hostnames -/

/-- `strings.HasPrefix(h, "*.")` -/
def isWild : Host → Bool
  | '*' :: '.' :: _ => true
  | _ => false

/-- `len(strings.Split(h, ".")) - 1` -/
def dots (h : Host) : Nat := h.count '.'

/-- graph.GetMoreSpecificHostname -/
def moreSpecific (h1 h2 : Host) : Host :=
  if h1 = h2 then h1
  else if h1 = [] then h2
  else if h2 = [] then h1
  else if isWild h1 then
    if isWild h2 then (if dots h1 > dots h2 then h1 else h2) else h2
  else if isWild h2 then h1
  else []

/-- dataplane.listenerHostnameMoreSpecific (a nil hostname is "") -/
def lms (h1 h2 : Host) : Bool := moreSpecific h1 h2 = h1

/-- the closure `wildcardMatch` of graph.match: host1 is `*.X` and host2 ends with `.X` -/
def wildcardMatch (h1 h2 : Host) : Bool := isWild h1 && (h1.drop 1).isSuffixOf h2

/-- graph.match(listenerHost, routeHost) -/
def hostMatch (l r : Host) : Bool := l = [] || r = l || wildcardMatch l r || wildcardMatch r l

def wildcardHostname : Host := ['~', '^']

/-- graph.findAcceptedHostnames -/
def findAccepted (l : Host) (rs : List Host) : List Host :=
  if rs.isEmpty then (if l = [] then [wildcardHostname] else [l])
  else (rs.filter (hostMatch l ·)).map (moreSpecific l ·)

/-- dataplane.getListenerHostname -/
def listenerServerName (h : Host) : Host := if h = [] then wildcardHostname else h

/-! ### reference grants (Gateway → Secret) -/

structure GrantFrom where
  group : Name
  kind : Name
  ns : Name
  deriving DecidableEq, Repr

structure GrantTo where
  group : Name
  kind : Name
  name : Name      -- [] = every resource of the kind
  deriving DecidableEq, Repr

structure Grant where
  ns : Name
  froms : List GrantFrom
  tos : List GrantTo
  deriving Repr

def gatewayGroup : Name := "gateway.networking.k8s.io".toList
def kGateway : Name := "Gateway".toList
def kSecret : Name := "Secret".toList
def kConfigMap : Name := "ConfigMap".toList
def kCore : Name := "core".toList
def kSystem : Name := "System".toList

/-- newReferenceGrantResolver + refAllowed(toSecret(ns/name), fromGateway(gwNs)):
the `to` group "core" is normalised to ""; toSecret carries group "". -/
def secretRefAllowed (grants : List Grant) (gwNs sNs sName : Name) : Bool :=
  grants.any fun g =>
    g.ns = sNs &&
    g.froms.any (fun f => f.group = gatewayGroup && f.kind = kGateway && f.ns = gwNs) &&
    g.tos.any (fun t => (t.group = [] || t.group = kCore) && t.kind = kSecret &&
                        (t.name = sName || t.name = []))

/-! ### Secrets and listeners -/

structure SecretObj where
  ns : Name
  name : Name
  isTLS : Bool        -- type == kubernetes.io/tls
  pairOK : Bool       -- crypto/tls.X509KeyPair(cert, key) succeeds (scenario bit)
  cert : Bytes
  key : Bytes
  deriving Repr

inductive SecretRes
  | ok | missing | wrongType | malformed | notPermitted | badRef
  deriving DecidableEq, Repr

/-- The certificate reference of an HTTPS listener as far as C16 is concerned. -/
structure CertRef where
  nrefs : Nat
  kindOK : Bool       -- kind nil or "Secret"
  groupOK : Bool      -- group nil or ""
  ns : Name           -- namespace, defaulted to the Gateway's
  name : Name
  deriving Repr

def findSecret (secrets : List SecretObj) (ns name : Name) : Option SecretObj :=
  secrets.find? fun s => s.ns = ns && s.name = name

/-- createHTTPSListenerValidator (certificateRefs part) followed by
createExternalReferencesForTLSSecretsResolver and secretResolver.resolve. -/
def resolveRef (grants : List Grant) (secrets : List SecretObj) (gwNs : Name) (r : CertRef) : SecretRes :=
  if r.nrefs = 0 then .badRef
  else if !r.kindOK || !r.groupOK then .badRef
  else if r.ns ≠ gwNs && !secretRefAllowed grants gwNs r.ns r.name then .notPermitted
  else match findSecret secrets r.ns r.name with
    | none => .missing
    | some s => if !s.isTLS then .wrongType else if !s.pairOK then .malformed else .ok

structure Listener where
  name : Name
  port : Nat
  https : Bool               -- protocol HTTPS; other listeners never reach the SSL server builder
  host : Host                -- [] = no hostname
  secret : Name × Name       -- (namespace, name) of certificateRefs[0]
  res : SecretRes            -- how that reference resolves
  otherValid : Bool          -- valid as far as everything but the certificate reference is concerned
  nroutes : Nat              -- len(l.Routes): all attached routes, valid or not
  routeHosts : List (List Host)   -- spec.hostnames of each VALID attached route
  deriving Repr

/-- `l.Valid` of an HTTPS listener (then `l.ResolvedSecret` is set). -/
def Listener.valid (l : Listener) : Bool := l.https && l.otherValid && l.res = .ok

/-- accepted hostnames of the valid routes attached to `l`, route by route -/
def Listener.accepted (l : Listener) : List Host := (l.routeHosts.map (findAccepted l.host)).flatten

/-! ### key pairs -/

def keyPairPrefix : List Char := "ssl_keypair_".toList
def certBundlePrefix : List Char := "cert_bundle_".toList
def secretsFolder : List Char := "/etc/nginx/secrets".toList

/-- generateSSLKeyPairID: `ssl_keypair_<ns>_<name>` -/
def keyPairId (s : Name × Name) : List Char := keyPairPrefix ++ s.1 ++ '_' :: s.2
/-- generateCertBundleID: `cert_bundle_<ns>_<name>` -/
def certBundleId (s : Name × Name) : List Char := certBundlePrefix ++ s.1 ++ '_' :: s.2
/-- generatePEMFileName -/
def pemFileName (id : List Char) : List Char := secretsFolder ++ '/' :: id ++ ".pem".toList
/-- generateCertBundleFileName -/
def bundleFileName (id : List Char) : List Char := secretsFolder ++ '/' :: id ++ ".crt".toList

/-- generatePEM content: certificate, newline, key -/
def pem (cert key : Bytes) : Bytes := cert ++ '\n' :: key

structure KeyPair where
  id : List Char
  cert : Bytes
  key : Bytes
  deriving DecidableEq, Repr

/-- Go map assignment `m[k.id] = k` on an association list -/
def insertKP (m : List KeyPair) (k : KeyPair) : List KeyPair := k :: m.filter (·.id ≠ k.id)

/-- dataplane.buildSSLKeyPairs: one entry per Secret resolved by a valid listener. -/
def buildSSLKeyPairs (secrets : List SecretObj) : List Listener → List KeyPair
  | [] => []
  | l :: ls =>
    let rest := buildSSLKeyPairs secrets ls
    if l.valid then
      match findSecret secrets l.secret.1 l.secret.2 with
      | some s => insertKP rest ⟨keyPairId l.secret, s.cert, s.key⟩
      | none => rest
    else rest

/-! ### which SSL servers exist and which key pair each one presents -/

/-- `listenersForHost[h] = l` unless a previous listener stays (upsertRoute) -/
def upsertHost (m : List (Host × Listener)) (h : Host) (l : Listener) : List (Host × Listener) :=
  match m with
  | [] => [(h, l)]
  | (h', p) :: rest =>
    if h' = h then (if lms l.host p.host then (h, l) :: rest else (h', p) :: rest)
    else (h', p) :: upsertHost rest h l

def upsertHosts (m : List (Host × Listener)) (l : Listener) : List Host → List (Host × Listener)
  | [] => m
  | h :: hs => upsertHosts (upsertHost m h l) l hs

/-- the `listenersForHost` map after all (valid, HTTPS, on this port) listeners were upserted in order -/
def listenersForHost (m : List (Host × Listener)) : List Listener → List (Host × Listener)
  | [] => m
  | l :: ls => listenersForHost (upsertHosts m l l.accepted) ls

structure Server where
  host : Host
  port : Nat
  isDefault : Bool
  keyPair : Option (List Char)
  deriving DecidableEq, Repr

/-- hostPathRules.buildServers for the HTTPS listeners `ls` (all valid, all on port `p`):
one server per hostname of `rulesPerHost`, one per listener without routes or without hostname,
and the default server. (The real code then sorts by hostname; order is not modelled.) -/
def buildServersPort (p : Nat) (ls : List Listener) : List Server :=
  ((listenersForHost [] ls).map fun (h, l) => ⟨h, p, false, some (keyPairId l.secret)⟩) ++
  ((ls.filter fun l => l.nroutes = 0 || listenerServerName l.host = wildcardHostname).map fun l =>
      ⟨listenerServerName l.host, p, false, some (keyPairId l.secret)⟩) ++
  (if ls.isEmpty then [] else [⟨[], p, true, none⟩])

def sslListeners (ls : List Listener) : List Listener := ls.filter Listener.valid

def ports (ls : List Listener) : List Nat := (ls.map (·.port)).eraseDups

/-- dataplane.buildServers, SSL half: every port with at least one valid HTTPS listener. -/
def buildSSLServers (ls : List Listener) : List Server :=
  let vs := sslListeners ls
  ((ports vs).map fun p => buildServersPort p (vs.filter (·.port = p))).flatten

/-! ### ConfigMaps and BackendTLSPolicies -/

structure CMObj where
  ns : Name
  name : Name
  hasCA : Bool      -- data/binaryData carries a non-empty ca.crt
  caOK : Bool       -- validateCA accepts it (scenario bit)
  ca : Bytes        -- bytes expected in the bundle file
  deriving Repr

def findCM (cms : List CMObj) (ns name : Name) : Option CMObj :=
  cms.find? fun c => c.ns = ns && c.name = name

/-- configMapResolver.resolve succeeds -/
def cmResolves (cms : List CMObj) (ns name : Name) : Bool :=
  match findCM cms ns name with
  | none => false
  | some c => c.hasCA && c.caOK

structure CARef where
  group : Name
  kind : Name
  name : Name
  deriving DecidableEq, Repr

structure BTP where
  id : Nat                 -- identity of the policy object (Go pointer identity)
  ns : Name
  name : Name
  ts : Nat                 -- creation timestamp
  targets : List Name      -- targetRefs[*].name
  hostname : Name
  hostOK : Bool            -- validateHostname accepts it (scenario bit)
  refs : List CARef        -- validation.caCertificateRefs
  wk : Option Name         -- validation.wellKnownCACertificates
  full : Bool              -- ancestor list full of other controllers
  deriving DecidableEq, Repr

/-- validateBackendTLSCACertRef -/
def caRefOK (cms : List CMObj) (b : BTP) : Bool :=
  match b.refs with
  | [r] => r.kind = kConfigMap && (r.group = [] || r.group = kCore) && cmResolves cms b.ns r.name
  | _ => false

/-- validateBackendTLSPolicy: (valid, ignored) -/
def validateBTP (cms : List CMObj) (b : BTP) : Bool × Bool :=
  let caOK :=
    if !b.refs.isEmpty && b.wk.isSome then false
    else if !b.refs.isEmpty then caRefOK cms b
    else match b.wk with
      | some w => w = kSystem
      | none => false
  (!b.full && b.hostOK && caOK, b.full)

def BTP.valid (cms : List CMObj) (b : BTP) : Bool := (validateBTP cms b).1

/-- processBackendTLSPolicies: CaCertRef.Name (set only for valid, non-ignored policies with refs) -/
def BTP.caName (cms : List CMObj) (b : BTP) : Name :=
  if b.valid cms then (match b.refs with | r :: _ => r.name | [] => []) else []

/-- strings `<` on names (Go compares bytes; names are ASCII) -/
def nameLt : Name → Name → Bool
  | [], [] => false
  | [], _ :: _ => true
  | _ :: _, [] => false
  | a :: as, b :: bs => if a.toNat < b.toNat then true else if b.toNat < a.toNat then false else nameLt as bs

/-- sort.LessClientObject -/
def btpLess (a b : BTP) : Bool :=
  if a.ts = b.ts then (if a.ns = b.ns then nameLt a.name b.name else nameLt a.ns b.ns)
  else a.ts < b.ts

/-- findBackendTLSPolicyForService: the policy selected for Service refNs/refName (before the validity check) -/
def findBTP (pols : List BTP) (refNs refName : Name) : Option BTP :=
  pols.foldl (fun acc b =>
    if b.ns = refNs && b.targets.contains refName then
      match acc with
      | some cur => if btpLess b cur then some b else some cur
      | none => some b
    else acc) none

/-! ### do all backends of a rule agree? -/

/-- the configurations of two policies differ: CA references (local to the policy namespace: the same ConfigMap
name in another namespace is another ConfigMap), wellKnownCACertificates by VALUE, hostname -/
def configDiffer (p1 p2 : BTP) : Bool :=
  p1.refs ≠ p2.refs || (!p1.refs.isEmpty && p1.ns ≠ p2.ns) || p1.wk ≠ p2.wk || p1.hostname ≠ p2.hostname

/-- the closure `policiesDiffer` of validateBackendTLSPolicyMatchingAllBackends (nil = no policy) -/
def policiesDiffer : Option BTP → Option BTP → Bool
  | none, none => false
  | some a, some b => configDiffer a b
  | _, _ => true

/-- the loop of validateBackendTLSPolicyMatchingAllBackends: every backend is compared with the first one -/
def mismatch : List (Option BTP) → Bool
  | [] => false
  | first :: rest => rest.any fun b => policiesDiffer b first

structure BRef where
  pol : Option BTP
  valid : Bool
  deriving DecidableEq, Repr

/-- addBackendRefsToRules, last step: with more than one backend and a mismatch, all become invalid -/
def validateRule (bs : List BRef) : List BRef :=
  if bs.length > 1 && mismatch (bs.map (·.pol)) then bs.map fun b => { b with valid := false } else bs

/-! #### the loop BEFORE fix e38b1f9 (kept as a regression detector: `NGF.Props.C16` proves on witnesses that it
misses `[no policy, P]` and same-named ConfigMaps of different namespaces; the direct-call correspondence reports
when the real code behaves like it again) -/

/-- pre-fix closure `checkPoliciesEqual` (true when the policies DIFFER): slices.Equal on the un-namespaced CA refs,
POINTER comparison of wellKnownCACertificates, string comparison of the hostname -/
def policiesDifferPre (p1 p2 : BTP) : Bool :=
  p1.refs ≠ p2.refs ||
  (match p1.wk, p2.wk with
   | none, none => false
   | some _, some _ => p1.id ≠ p2.id
   | _, _ => true) ||
  p1.hostname ≠ p2.hostname

/-- pre-fix loop; `ref` is `referencePolicy` -/
def mismatchFromPre (ref : Option BTP) : List (Option BTP) → Bool
  | [] => false
  | none :: rest => if ref.isSome then true else mismatchFromPre ref rest
  | some p :: rest =>
    match ref with
    | none => mismatchFromPre (some p) rest
    | some r => if policiesDifferPre p r then true else mismatchFromPre ref rest

def mismatchPre (bs : List (Option BTP)) : Bool := mismatchFromPre none bs

def validateRulePre (bs : List BRef) : List BRef :=
  if bs.length > 1 && mismatchPre (bs.map (·.pol)) then bs.map fun b => { b with valid := false } else bs

/-! ### proxy TLS settings of a location -/

structure Verify where
  bundleId : List Char     -- "" = none
  hostname : Name
  rootCAPath : List Char
  deriving DecidableEq, Repr

def systemCAPath : List Char := "/etc/ssl/cert.pem".toList

/-- dataplane.convertBackendTLS -/
def convertBackendTLS (cms : List CMObj) : Option BTP → Option Verify
  | none => none
  | some b =>
    if !b.valid cms then none
    else if b.caName cms ≠ [] then some ⟨certBundleId (b.ns, b.caName cms), b.hostname, []⟩
    else some ⟨[], b.hostname, systemCAPath⟩

/-- config.createProxyTLSFromBackends: the first backend that has settings decides -/
def proxyTLS : List (Option Verify) → Option Verify
  | [] => none
  | some v :: _ => some v
  | none :: rest => proxyTLS rest

/-- config.createProxySSLVerify: trusted certificate path -/
def trustedCert (v : Verify) : List Char :=
  if v.bundleId ≠ [] then bundleFileName v.bundleId else v.rootCAPath

/-- config.generateProtocolString -/
def protocol (v : Option Verify) (grpc : Bool) : List Char :=
  match grpc, v with
  | false, some _ => "https".toList
  | false, none => "http".toList
  | true, some _ => "grpcs".toList
  | true, none => "grpc".toList

/-- the four directives the servers template emits for `$l.ProxySSLVerify` (prefix proxy/grpc) -/
def verifyDirectives (v : Verify) (grpc : Bool) : List (List Char × List Char) :=
  let pre := if grpc then "grpc".toList else "proxy".toList
  [(pre ++ "_ssl_server_name".toList, "on".toList), (pre ++ "_ssl_verify".toList, "on".toList),
   (pre ++ "_ssl_name".toList, v.hostname), (pre ++ "_ssl_trusted_certificate".toList, trustedCert v)]

/-! ### the Secret resolver's cache (graph/secret.go: secretResolver.resolve) -/

/-- the verdict of validating Secret `ns/name` once: missing / wrong type / malformed pair / ok -/
def secretVerdict (secrets : List SecretObj) (k : Name × Name) : SecretRes :=
  match findSecret secrets k.1 k.2 with
  | none => .missing
  | some s => if !s.isTLS then .wrongType else if !s.pairOK then .malformed else .ok

/-- `resolvedSecrets`: key ↦ the stored verdict (`entry.err`) -/
abbrev ResCache := List ((Name × Name) × SecretRes)

/-- one call `r.resolve(k)`: a cached entry answers; otherwise the Secret is validated, the verdict is STORED
(whatever it is) and returned -/
def resolveCached (secrets : List SecretObj) (cache : ResCache) (k : Name × Name) : SecretRes × ResCache :=
  match cache.lookup k with
  | some v => (v, cache)
  | none => let v := secretVerdict secrets k; (v, (k, v) :: cache)

/-- the verdicts of a sequence of calls on one resolver (one graph build: every HTTPS listener in turn) -/
def resolveSeq (secrets : List SecretObj) : ResCache → List (Name × Name) → List SecretRes
  | _, [] => []
  | cache, k :: ks => let r := resolveCached secrets cache k; r.1 :: resolveSeq secrets r.2 ks

/-- a resolver that registers the entry up front and forgets to store the error of ONE branch (the malformed pair):
the cached entry then says `ok` (regression detector; `Props/C16.resolve_unstored_error_false`) -/
def resolveCachedUnstored (secrets : List SecretObj) (cache : ResCache) (k : Name × Name) : SecretRes × ResCache :=
  match cache.lookup k with
  | some v => (v, cache)
  | none =>
    let v := secretVerdict secrets k
    (v, (k, if v = .malformed then .ok else v) :: cache)

def resolveSeqUnstored (secrets : List SecretObj) : ResCache → List (Name × Name) → List SecretRes
  | _, [] => []
  | cache, k :: ks => let r := resolveCachedUnstored secrets cache k; r.1 :: resolveSeqUnstored secrets r.2 ks

/-! ### processed BackendTLSPolicies and what a backendRef gets (graph/backend_tls_policy.go: processBackendTLSPolicies;
graph/backend_refs.go: findBackendTLSPolicyForService + createBackendRef) -/

/-- an entry of the processed-policies map -/
structure ProcBTP where
  pol : BTP
  valid : Bool
  ignored : Bool
  ca : Name
  deriving DecidableEq, Repr

/-- processBackendTLSPolicies: EVERY policy gets an entry — an ignored one (ancestor status list full) as invalid -/
def processBtp (cms : List CMObj) (pols : List BTP) : List ProcBTP :=
  pols.map fun b => ⟨b, (validateBTP cms b).1, (validateBTP cms b).2, b.caName cms⟩

/-- the variant that does not track ignored policies (regression detector; `Props/C16.ignored_policy_dropped_false`) -/
def processBtpDropping (cms : List CMObj) (pols : List BTP) : List ProcBTP :=
  (processBtp cms pols).filter fun p => !p.ignored

def targetsSvc (b : BTP) (refNs refName : Name) : Bool := b.ns = refNs && b.targets.contains refName

/-- findBackendTLSPolicyForService over the processed map -/
def findProc (procs : List ProcBTP) (refNs refName : Name) : Option ProcBTP :=
  procs.foldl (fun acc p =>
    if targetsSvc p.pol refNs refName then
      match acc with
      | some cur => if btpLess p.pol cur.pol then some p else some cur
      | none => some p
    else acc) none

/-- what the backendRef of an existing Service ends up with -/
inductive BackendTLS
  /-- the backendRef is invalid: the rule answers 500, the Service is not reached -/
  | invalid
  /-- no policy: proxied over plain http -/
  | plain
  /-- proxied over TLS, verified -/
  | verify (v : Verify)
  deriving DecidableEq, Repr

/-- createBackendRef: an error of findBackendTLSPolicyForService (selected policy not valid) invalidates the
backendRef; a valid policy becomes VerifyTLS (convertBackendTLS); no policy = plain -/
def backendTLSOf (procs : List ProcBTP) (refNs refName : Name) : BackendTLS :=
  match findProc procs refNs refName with
  | none => .plain
  | some p =>
    if !p.valid then .invalid
    else if p.ca ≠ [] then .verify ⟨certBundleId (p.pol.ns, p.ca), p.pol.hostname, []⟩
    else .verify ⟨[], p.pol.hostname, systemCAPath⟩

/-! ### file names must keep the whole id (regression detector for seeded change C16-r5m1) -/

/-- `strings.TrimSuffix(id, filepath.Ext(id))`: the id without the suffix that starts at its last dot -/
def trimExt (s : List Char) : List Char :=
  match s.reverse.dropWhile (· ≠ '.') with
  | [] => s
  | _ :: r => r.reverse

/-- a file-name function that "normalises" the extension of the id before adding `.pem` -/
def pemFileNameTrimExt (id : List Char) : List Char := secretsFolder ++ '/' :: trimExt id ++ ".pem".toList

end NGF.Tls
