/-
Model of internal/mode/static/nginx/config/split_clients.go + split_clients_template.go:
`percentOf`, `createSplitClientDistributions` (float64 remainder accumulation, `%.2f`),
`getSplitClientValue`, `backendGroupName`, and the template's `eq $d.Percent "0.00"` comment-out test —
computed exactly as the Go code computes them in float64 (`NGF.F64`). Core Lean only.
Also the clearly named REPAIRED variant (`repairedCents`), an integer-arithmetic candidate fix.
-/
import NGF.Model.F64

namespace NGF.SplitClients
open NGF.F64

/-- dataplane.Backend (the fields the generator reads). `weight` is the int32 field; createBackendRef
guarantees 0 ≤ weight ≤ 1_000_000. -/
structure Backend where
  upstream : String
  weight : Nat
  valid : Bool
  deriving Repr

def invalidBackendRef : String := "invalid-backend-ref"

/-- weight of a BackendRef as `createBackendRef` computes it (`none` = field absent): default 1, a value
outside `[0, 1_000_000]` (validateWeight) becomes 0 -/
def effectiveWeight : Option Int → Int
  | none => 1
  | some w => if 0 ≤ w ∧ w ≤ 1000000 then w else 0

/-- what a route rule's spec says about one backendRef: the weight field, whether the reference resolves
(supported kind, namespace permitted by a ReferenceGrant, existing Service with that port), and the
Service port it names (`<ns>_<svc>_<port>`) -/
structure SpecRef where
  weight : Option Int
  resolves : Bool
  target : String
  deriving Repr

/-- graph.BackendRef (the fields the dataplane reads) -/
structure GraphRef where
  weight : Int
  valid : Bool
  svcPort : String
  deriving Repr

/-- graph `createBackendRef`: the weight is always computed; a ref is valid iff it resolves and its weight
is admissible -/
def createBackendRef (s : SpecRef) : GraphRef :=
  let inRange := match s.weight with
    | none => true
    | some w => decide (0 ≤ w ∧ w ≤ 1000000)
  ⟨effectiveWeight s.weight, s.resolves && inRange, s.target⟩

/-- `BackendRef.ServicePortReference()` -/
def GraphRef.servicePortReference (g : GraphRef) : String := if g.valid then g.svcPort else ""

/-- dataplane `newBackendGroup`: one Backend per BackendRef, in order -/
def newBackendGroup (refs : List GraphRef) : List Backend :=
  refs.map fun g => ⟨g.servicePortReference, g.weight.toNat, g.valid⟩

/-- the backends of a rule as a function of its spec -/
def ruleBackends (spec : List SpecRef) : List Backend := newBackendGroup (spec.map createBackendRef)

/-- `getSplitClientValue` -/
def value (b : Backend) : String := if b.valid then b.upstream else invalidBackendRef

/-- `totalWeight` (int32 accumulation; no wrap-around for ≤ 16 weights ≤ 10^6, see `total_no_wrap`) -/
def total : List Backend → Nat
  | [] => 0
  | b :: bs => b.weight + total bs

/-- http.SplitClientDistribution: `Percent` is either the literal "100" (all-zero case) or a two-decimal
number (`%d.%02d` of the hundredths now, `%.2f` of a float64 before the fix) -/
inductive Pct where
  | hundred
  | dec (d : Dec2)
  deriving DecidableEq, Repr

structure Dist where
  pct : Pct
  value : String
  deriving Repr

/-! ### PRIMARY model: the integer algorithm of `createSplitClientDistributions` -/

/-- `cents[i] = int64(b.Weight) * hundredPercent / int64(totalWeight)` (no int64 overflow: 10⁶·10⁴ < 2⁶³) -/
def floorCents (T : Nat) (w : Nat) : Nat := 10000 * w / T

/-- `cents[lastNonZero] += remaining`: add `r` to the entry of the last backend whose weight is non-zero -/
def addToLastNonZero (r : Nat) : List Nat → List Nat → List Nat
  | w :: ws, c :: cs =>
    if ws.all (· == 0) && w != 0 then (c + r) :: cs else c :: addToLastNonZero r ws cs
  | _, cs => cs

/-- the hundredths every backend gets (total > 0). `remaining = 10000 − Σ floors` is never negative
(`floors_sum`), so truncated subtraction is the int64 subtraction. -/
def intCents (ws : List Nat) : List Nat :=
  let T := ws.sum
  let cs := ws.map (floorCents T)
  addToLastNonZero (10000 - cs.sum) ws cs

/-- `fmt.Sprintf("%d.%02d", c/100, c%100)` is the unsigned two-decimal rendering of `c` hundredths -/
def centsDec (c : Nat) : Dec2 := ⟨false, c⟩

/-- the printed shares of a weight vector with positive total -/
def shares (ws : List Nat) : List Dec2 := (intCents ws).map centsDec

/-- the final loop: one distribution per backend -/
def mkDists : List Backend → List Nat → List Dist
  | b :: bs, c :: cs => ⟨.dec (centsDec c), value b⟩ :: mkDists bs cs
  | _, _ => []

/-- `createSplitClientDistributions`; `none` = nil (group does not need a split) -/
def distributions (bs : List Backend) : Option (List Dist) :=
  if bs.length ≤ 1 then none
  else if total bs = 0 then some [⟨.hundred, invalidBackendRef⟩]
  else some (mkDists bs (intCents (bs.map (·.weight))))

def Pct.render : Pct → String
  | .hundred => "100"
  | .dec d => d.render

/-- the template's test `eq $d.Percent "0.00"` -/
def Pct.commentedOut (p : Pct) : Bool := p.render == "0.00"

/-- one distribution line as the template prints it -/
def Dist.line (d : Dist) : String :=
  if d.pct.commentedOut then "\n    # " ++ d.pct.render ++ "% " ++ d.value ++ ";"
  else "\n    " ++ d.pct.render ++ "% " ++ d.value ++ ";"

/-- one `split_clients` block as `splitClientsTemplateText` prints it for variable `var` -/
def block (var : String) (ds : List Dist) : String :=
  "\nsplit_clients $request_id $" ++ var ++ " {" ++ String.join (ds.map Dist.line) ++ "\n}\n"

/-- `backendGroupName` (the upstream / variable a location proxies to); `gname` = `group.Name()` -/
def backendGroupName (gname : String) : List Backend → String
  | [] => invalidBackendRef
  | [b] => if b.weight == 0 || !b.valid then invalidBackendRef else b.upstream
  | _ => gname

/-! ### PRE-FIX variant (before commit 286dc83): float64 floor-then-subtract -/

/-- `percentOf(weight, totalWeight)`:
`p := (float64(weight) * 100) / float64(totalWeight); return math.Floor(p*100) / 100` -/
def percentOf (w T : Nat) : Rat :=
  let p := fdiv (fmul (ofNat w) 100) (ofNat T)
  fdiv (ffloor (fmul p 100)) 100

/-- the pre-fix loop over all backends except the last one, and the final append.
`avail` is `availablePercentage`. -/
def floatDistLoop (T : Nat) : Rat → List Backend → List Dist
  | _, [] => []
  | avail, [b] => [⟨.dec (fmt2 avail), value b⟩]
  | avail, b :: b' :: bs =>
    let p := percentOf b.weight T
    ⟨.dec (fmt2 p), value b⟩ :: floatDistLoop T (fsub avail p) (b' :: bs)

/-- pre-fix `createSplitClientDistributions` -/
def floatDistributions (bs : List Backend) : Option (List Dist) :=
  if bs.length ≤ 1 then none
  else if total bs = 0 then some [⟨.hundred, invalidBackendRef⟩]
  else some (floatDistLoop (total bs) (ofNat 100) bs)

/-- the float values the pre-fix loop formats: non-last `percentOf`s followed by the final remainder -/
def shareVals (T : Nat) : Rat → List Nat → List Rat
  | _, [] => []
  | avail, [_] => [avail]
  | avail, w :: w' :: ws =>
    let p := percentOf w T
    p :: shareVals T (fsub avail p) (w' :: ws)

/-- the shares the pre-fix code printed for a weight vector with positive total -/
def floatShares (ws : List Nat) : List Dec2 :=
  (shareVals ws.sum (ofNat 100) ws).map fmt2

end NGF.SplitClients
