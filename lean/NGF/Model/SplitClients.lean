/-
Model of internal/mode/static/nginx/config/split_clients.go + split_clients_template.go:
`percentOf`, `createSplitClientDistributions` (float64 remainder accumulation, `%.2f`),
`getSplitClientValue`, `backendGroupName`, and the template's `eq $d.Percent "0.00"` comment-out test —
computed exactly as the Go code computes them in float64 (`NGF.F64`). Core Lean only.
Also the clearly named REPAIRED variant (`repairedCents`), an integer-arithmetic candidate fix.
-/
import NGF.Model.F64

namespace NGF.SplitClients
open NGF.F64

/-- dataplane.Backend (the fields the generator reads). `weight` is the int32 field; createBackendRef
guarantees 0 ≤ weight ≤ 1_000_000. -/
structure Backend where
  upstream : String
  weight : Nat
  valid : Bool
  deriving Repr

def invalidBackendRef : String := "invalid-backend-ref"

/-- `getSplitClientValue` -/
def value (b : Backend) : String := if b.valid then b.upstream else invalidBackendRef

/-- `totalWeight` (int32 accumulation; no wrap-around for ≤ 16 weights ≤ 10^6, see `total_no_wrap`) -/
def total : List Backend → Nat
  | [] => 0
  | b :: bs => b.weight + total bs

/-- `percentOf(weight, totalWeight)`:
`p := (float64(weight) * 100) / float64(totalWeight); return math.Floor(p*100) / 100` -/
def percentOf (w T : Nat) : Rat :=
  let p := fdiv (fmul (ofNat w) 100) (ofNat T)
  fdiv (ffloor (fmul p 100)) 100

/-- http.SplitClientDistribution: `Percent` is either the literal "100" (all-zero case) or a `%.2f` -/
inductive Pct where
  | hundred
  | dec (d : Dec2)
  deriving DecidableEq, Repr

structure Dist where
  pct : Pct
  value : String
  deriving Repr

/-- the loop over all backends except the last one, and the final append.
`avail` is `availablePercentage`. -/
def distLoop (T : Nat) : Rat → List Backend → List Dist
  | _, [] => []
  | avail, [b] => [⟨.dec (fmt2 avail), value b⟩]
  | avail, b :: b' :: bs =>
    let p := percentOf b.weight T
    ⟨.dec (fmt2 p), value b⟩ :: distLoop T (fsub avail p) (b' :: bs)

/-- `createSplitClientDistributions`; `none` = nil (group does not need a split) -/
def distributions (bs : List Backend) : Option (List Dist) :=
  if bs.length ≤ 1 then none
  else if total bs = 0 then some [⟨.hundred, invalidBackendRef⟩]
  else some (distLoop (total bs) (ofNat 100) bs)

def Pct.render : Pct → String
  | .hundred => "100"
  | .dec d => d.render

/-- the template's test `eq $d.Percent "0.00"` -/
def Pct.commentedOut (p : Pct) : Bool := p.render == "0.00"

/-- one distribution line as the template prints it -/
def Dist.line (d : Dist) : String :=
  if d.pct.commentedOut then "\n    # " ++ d.pct.render ++ "% " ++ d.value ++ ";"
  else "\n    " ++ d.pct.render ++ "% " ++ d.value ++ ";"

/-- one `split_clients` block as `splitClientsTemplateText` prints it for variable `var` -/
def block (var : String) (ds : List Dist) : String :=
  "\nsplit_clients $request_id $" ++ var ++ " {" ++ String.join (ds.map Dist.line) ++ "\n}\n"

/-- `backendGroupName` (the upstream / variable a location proxies to); `gname` = `group.Name()` -/
def backendGroupName (gname : String) : List Backend → String
  | [] => invalidBackendRef
  | [b] => if b.weight == 0 || !b.valid then invalidBackendRef else b.upstream
  | _ => gname

/-! ### numeric view used by the theorems: shares in hundredths of a percent -/

/-- the float values the loop formats: non-last `percentOf`s followed by the final remainder -/
def shareVals (T : Nat) : Rat → List Nat → List Rat
  | _, [] => []
  | avail, [_] => [avail]
  | avail, w :: w' :: ws =>
    let p := percentOf w T
    p :: shareVals T (fsub avail p) (w' :: ws)

/-- the printed shares of a weight vector with positive total -/
def shares (ws : List Nat) : List Dec2 :=
  (shareVals ws.sum (ofNat 100) ws).map fmt2

/-! ### REPAIRED variant (candidate fix, not what /repo does): integer arithmetic in hundredths of a
percent; every backend gets `⌊10^4·w/T⌋`, the rounding remainder goes to the last backend whose weight
is not zero. -/

def floorCents (T : Nat) (w : Nat) : Nat := 10000 * w / T

/-- add `r` to the last entry whose weight is non-zero -/
def addToLastNonZero (r : Nat) : List Nat → List Nat → List Nat
  | w :: ws, c :: cs =>
    if ws.all (· == 0) && w != 0 then (c + r) :: cs else c :: addToLastNonZero r ws cs
  | _, cs => cs

def repairedCents (ws : List Nat) : List Nat :=
  let T := ws.sum
  let cs := ws.map (floorCents T)
  addToLastNonZero (10000 - cs.sum) ws cs

end NGF.SplitClients
