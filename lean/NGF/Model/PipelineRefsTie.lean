/-
C06 (deepening round) — translation validation for `Model/PipelineRefs`: the cluster of a harness case is turned into
a `ScenarioR` (C02's fragment conversion `PipelineTie.toFragment` for Gateways / listeners / routes / matches / filters,
the backendRefs exactly as written from C06's flat input, the Services and the ReferenceGrants), and
  (1) `resolveRef` is compared, backendRef by backendRef, with the REAL graph's `BackendRef{Valid, SvcNsName,
      ServicePort.Port, Weight}` (`graph.L7Route.Spec.Rules[i].BackendRefs`), and
  (2) `Pipeline.gen (resolve c)` is compared with the REAL http.conf (+ matches.json) abstracted by
      `PipelineTie.abstractConf` (upstream / split_clients targets and shares, locations, redirects).
Core-only; executed by the driver (`refs` mode), not itself subject of theorems.
-/
import NGF.Model.PipelineRefs
import NGF.Model.PipelineTie
import NGF.Model.RefGrantJudge

namespace NGF.PipelineRefsTie
open NGF.Pipeline NGF.PipelineRefs
open NGF.RefGrant (GBackendRef BackendRef)

abbrev SScenario := NGF.Spec.GatewayAPI.Scenario

def zipRules (fr : List Pipeline.Rule) (orr : List RefGrant.RRule) : Except String (List RuleR) :=
  match fr, orr with
  | [], [] => pure []
  | ru :: frs, oru :: ors => do
    let rest ← zipRules frs ors
    match ru.action with
    | .redirect c sc h p =>
      if oru.refs.isEmpty then pure ({ ms := ru.ms, action := .redirect c sc h p } :: rest)
      else throw "RequestRedirect rule with backendRefs"
    | .forward _ => pure ({ ms := ru.ms, action := .forward oru.refs } :: rest)
  | _, _ => throw "rule count"

def zipRoutes (o : RefGrant.Objs) (srs : List NGF.Spec.GatewayAPI.Route) (frs : List Pipeline.Route) :
    Except String (List RouteR) :=
  match srs, frs with
  | [], [] => pure []
  | sr :: srs', fr :: frs' => do
    let rest ← zipRoutes o srs' frs'
    match RefGrant.findRoute o .http sr.ns sr.name with
    | none => throw s!"route {sr.ns}/{sr.name} not in the flat input"
    | some orr =>
      let rules ← zipRules fr.rules orr.rules
      pure ({ ns := sr.ns, name := sr.name, age := fr.age, parents := fr.parents, hostnames := fr.hostnames,
              rules := rules, valid := fr.valid } :: rest)
  | _, _ => throw "route count"

/-- the `ScenarioR` of a harness case, or why the case is outside the fragment -/
def toScenarioR (s : SScenario) (o : RefGrant.Objs) : Except String ScenarioR := do
  let fs ← NGF.PipelineTie.toFragment s
  if !Pipeline.inFragment fs then throw "inFragment (well-formedness / prefix value ending in '/')"
  let routes ← zipRoutes o s.routes fs.routes
  pure { cls := fs.cls, ctlr := fs.ctlr, classes := fs.classes, gateways := fs.gateways, routes := routes,
         services := s.svcs.map (fun v => { ns := v.ns, name := v.name, ports := v.ports.map (·.port) }),
         grants := o.grants }

/-- the conversion kept what `resolve` does not touch: the resolved scenario has the routes of the fragment view -/
def shapeAgrees (fs : Pipeline.Scenario) (c : ScenarioR) : Bool :=
  let rs := (resolve c).routes
  rs.length == fs.routes.length &&
  (rs.zip fs.routes).all fun (a, b) =>
    a.ns == b.ns && a.name == b.name && a.age == b.age && a.parents == b.parents && a.hostnames == b.hostnames &&
    a.valid == b.valid && a.rules.map (·.ms) == b.rules.map (·.ms)

def showG (b : GBackendRef) : String :=
  s!"valid={b.valid} svc={b.svcNs}/{b.svcName} port={b.port} weight={b.weight}"

/-- what kind of reference this is (generator statistics) -/
def refClass (c : ScenarioR) (routeNs : String) (ref : BackendRef) : String :=
  let cross := match ref.ns with | some n => n != routeNs | none => false
  let v := RefGrant.routeRefVerdict c.grants .http routeNs ref
  let tail :=
    if v = .ok then
      match lookupSvc c.services (RefGrant.refNs ref routeNs) ref.name with
      | none => "ok:no-service"
      | some _ => if (findPort c.services routeNs ref).isSome then "ok:resolved" else "ok:no-port"
    else v.reason
  (if cross then "cross:" else "same:") ++ tail ++ (if refWeight ref == 0 then ":w0" else "")

structure RefsCmp where
  compared : Nat := 0
  classes : List String := []
  diffs : List String := []
  absentRoutes : Nat := 0

/-- (1): `resolveRef` against the real graph, backendRef by backendRef -/
def compareRefs (c : ScenarioR) (b : RefGrant.Obs) : RefsCmp :=
  c.routes.foldl (fun acc r =>
    match b.groutes.find? (fun gr => gr.kind == .http && gr.ns == r.ns && gr.name == r.name) with
    | none => { acc with absentRoutes := acc.absentRoutes + 1 }   -- no parentRef names a Gateway of the graph
    | some gr =>
      if gr.rules.length != r.rules.length then
        { acc with diffs := acc.diffs ++ [s!"{r.ns}/{r.name}: {gr.rules.length} graph rules, model {r.rules.length}"] }
      else if !gr.valid then
        { acc with diffs := acc.diffs ++ [s!"{r.ns}/{r.name}: route invalid in the real graph (the fragment has valid routes only)"] }
      else
        ((r.rules.zip gr.rules).zipIdx).foldl (fun acc ((ru, grule), i) =>
          let refs := match ru.action with | .forward refs => refs | .redirect .. => []
          let want := refs.map (resolveRef c.grants c.services r.ns)
          let acc := { acc with compared := acc.compared + refs.length,
                                classes := acc.classes ++ refs.map (refClass c r.ns) }
          if want == grule.refs then acc
          else
            let detail := match ((want.zip grule.refs).zipIdx).find? (fun p => p.1.1 != p.1.2) with
              | some ((m, g), j) => s!"ref {j}: model [{showG m}] real [{showG g}]"
              | none => s!"model {want.length} refs, real {grule.refs.length}"
            { acc with diffs := acc.diffs ++ [s!"{r.ns}/{r.name} rule {i} {detail}"] }) acc) {}

structure TieResult where
  inFragment : Bool := false
  why : String := ""
  shapeOK : Bool := true
  refs : RefsCmp := {}
  confEqual : Bool := false
  confDiff : String := ""
  /-- (upstream, share) pairs of the model configuration that are not `invalid-backend-ref` -/
  targets : Nat := 0
  invalidShares : Nat := 0
  /-- `referencedServices c` as sorted, de-duplicated "ns/name" (compared with the real `Graph.ReferencedServices`) -/
  refSvcs : List String := []
  namesOK : Bool := false

def tie (cfg : NGF.NginxEval.Config) (s : SScenario) (o : RefGrant.Objs) (b : RefGrant.Obs) : TieResult :=
  match toScenarioR s o with
  | .error e => { why := e }
  | .ok c =>
    let model := genR c
    let shape := match NGF.PipelineTie.toFragment s with | .ok fs => shapeAgrees fs c | .error _ => false
    let (eq, diff) := match NGF.PipelineTie.abstractConf cfg with
      | .error e => (false, "real configuration not abstractable: " ++ e)
      | .ok real => match NGF.PipelineTie.confDiff real model with
        | none => (true, "")
        | some d => (false, d)
    let ts := confTargets model
    let named := ts.filter fun t => t.1 != Pipeline.invalidBackendRef && t.2 != 0
    { inFragment := true, shapeOK := shape, refs := compareRefs c b, confEqual := eq, confDiff := diff,
      targets := named.length, namesOK := PipelineRefs.namesOK c,
      refSvcs := ((referencedServices c).map fun k => k.1 ++ "/" ++ k.2).eraseDups.mergeSort (fun a b => a ≤ b),
      invalidShares := (ts.filter fun t => t.1 == Pipeline.invalidBackendRef && t.2 != 0).length }

end NGF.PipelineRefsTie
