/-
Exact model of the IEEE-754 binary64 operations that `split_clients.go` performs, over core `Rat`.

A finite binary64 value is represented by the rational number it denotes. Every arithmetic operation
of IEEE-754 is "compute the exact real result, then round to nearest, ties to even" — `rn`.
The exponent range is not modelled (`rn` has 53 bits of precision at every magnitude); the driver
reports `inRange` for every rounding it performs, and all values that occur for C15 lie in
[2^-60, 2^40] ∪ {0}, far inside the normal range [2^-1022, 2^1024).
Negative zero is not representable here; none of the operations below can produce it from the
inputs of C15 (x − y with x = y is +0 under round-to-nearest, products/quotients are of non-negative
values).  Go does not fuse any of the operations in `percentOf`/`createSplitClientDistributions`
(no `x*y + z` expression exists there).
Core Lean only.
-/
namespace NGF.F64

/-- round a rational to the nearest integer, ties to even -/
def rhe (q : Rat) : Int :=
  let f := q.floor
  let r := q - (f : Rat)
  if r < 1/2 then f
  else if 1/2 < r then f + 1
  else if f % 2 = 0 then f else f + 1

/-- absolute value (spelled out so that `grind` sees the case split) -/
def abs (q : Rat) : Rat := if q < 0 then -q else q

/-- the largest power of two `≤ a` (for `a > 0`): `2^⌊log₂ a⌋`, from `Nat.log2` of numerator and
denominator with one correction step -/
def binade (a : Rat) : Rat :=
  let c : Rat := ((2 ^ a.num.natAbs.log2 : Nat) : Rat) / ((2 ^ a.den.log2 : Nat) : Rat)
  if c ≤ a then c else c / 2

/-- unit in the last place of the binade of `q` for a 53-bit significand -/
def ulp (q : Rat) : Rat := binade (abs q) / ((2 ^ 52 : Nat) : Rat)

/-- round to nearest binary64, ties to even -/
def rn (q : Rat) : Rat :=
  if q = 0 then 0 else (rhe (q / ulp q) : Rat) * ulp q

/-- is `q` zero or of normal binary64 magnitude (so that `rn` is the hardware rounding)? -/
def inRange (q : Rat) : Bool :=
  q == 0 || (decide (1 / ((2 ^ 1022 : Nat) : Rat) ≤ abs q) && decide (abs q < ((2 ^ 1023 : Nat) : Rat)))

/-- `float64(n)` for an integer -/
def ofInt (n : Int) : Rat := rn (n : Rat)
/-- `float64(n)` for a natural number -/
def ofNat (n : Nat) : Rat := rn (n : Rat)
def fmul (a b : Rat) : Rat := rn (a * b)
def fdiv (a b : Rat) : Rat := rn (a / b)
def fsub (a b : Rat) : Rat := rn (a - b)
/-- `math.Floor` (exact: the floor of a binary64 value is a binary64 value) -/
def ffloor (a : Rat) : Rat := (a.floor : Rat)

/-- The result of `fmt.Sprintf("%.2f", x)`: sign and the hundredths after correct rounding
(round-half-even of the exact value, as `strconv.FormatFloat(x, 'f', 2, 64)` does). A negative
value that rounds to zero keeps its sign: `-0.00`. -/
structure Dec2 where
  neg : Bool
  cents : Nat
  deriving DecidableEq, Repr

def fmt2 (x : Rat) : Dec2 := ⟨decide (x < 0), (rhe (abs x * 100)).toNat⟩

def digitChar (d : Nat) : Char := Char.ofNat (48 + d % 10)

/-- decimal digits of a natural number, most significant first (fuel = number of digits bound) -/
def natDigitsAux : Nat → Nat → List Char → List Char
  | 0, _, acc => acc
  | fuel + 1, n, acc =>
    if n < 10 then digitChar n :: acc else natDigitsAux fuel (n / 10) (digitChar n :: acc)

def natDigits (n : Nat) : List Char := natDigitsAux (n + 1) n []

def Dec2.chars (d : Dec2) : List Char :=
  (if d.neg then ['-'] else []) ++ natDigits (d.cents / 100) ++
    ['.', digitChar (d.cents % 100 / 10), digitChar (d.cents % 10)]

def Dec2.render (d : Dec2) : String := String.ofList d.chars

end NGF.F64
