import NGF.Model.Ownership
import NGF.Model.Leader
/-
C17 × C09 — the status requests of the ownership model (`targets ∘ buildGraph`, Model/Ownership.lean) submitted
through the leader-aware group updater (Model/Leader.lean, `LeaderAwareGroupUpdater.UpdateGroup` / `.Enable`)
exactly as `eventHandlerImpl.updateStatuses` (handler.go) does after every event batch that rebuilt the graph:

    UpdateGroup(ctx, "all-graphs-except-gateways", gcReqs ++ routeReqs ++ polReqs ++ ngfPolReqs ++ snippetsFilterReqs…)
    UpdateGroup(ctx, "gateways", gwReqs…)

A request of the Leader model is a tag (`Req = Nat`); `tgt : Req → Target` says which object a tag addresses.
Core Lean only.
-/
namespace NGF.Ownership
open NGF.Leader (Op Out Req Group Write LState)

/-- the group `updateStatuses` puts a request into: 1 = "gateways" (PrepareGatewayRequests), 0 = all the others -/
def groupOf : Target → Group
  | .gw _ => 1
  | _ => 0

/-- one processed event batch that rebuilt the graph: the store the graph was built from and the tagged
requests of its two `UpdateGroup` calls -/
structure Batch where
  st : State
  r0 : List Req
  r1 : List Req
  deriving Repr

/-- the requests of a batch are the `Prepare*Requests` of ITS graph, split as `updateStatuses` splits them -/
def Batch.Ok (cfg : Cfg) (tgt : Req → Target) (b : Batch) : Prop :=
  b.r0.map tgt = (targets (buildGraph cfg b.st)).filter (fun t => groupOf t == 0) ∧
  b.r1.map tgt = (targets (buildGraph cfg b.st)).filter (fun t => groupOf t == 1)

instance (cfg : Cfg) (tgt : Req → Target) (b : Batch) : Decidable (b.Ok cfg tgt) := by
  unfold Batch.Ok; exact inferInstance

/-- the two `UpdateGroup` calls of one batch -/
def batchOps (b : Batch) : List Op := [.update 0 b.r0, .update 1 b.r1]

/-- the operations a sequence of batches performs on the updater -/
def opsOf (bs : List Batch) : List Op := bs.flatMap batchOps

/-- what a batch leaves to be written: its non-empty groups -/
def batchWrites (b : Batch) : List Write :=
  (if b.r0.isEmpty then [] else [(0, b.r0)]) ++ (if b.r1.isEmpty then [] else [(1, b.r1)])

/-- the requests of the LAST batch -/
def lastWrites (bs : List Batch) : List Write :=
  match bs.getLast? with
  | none => []
  | some b => batchWrites b

/-- what every operation of a batch writes once leadership has been acquired -/
def batchOuts (b : Batch) : List Out := [.writes [(0, b.r0)], .writes [(1, b.r1)]]

/-! ### tagging used by the driver (`leadmodel`): tags are positions in the table of all requests ever prepared -/

/-- the batches of a sequence of stores; `base` = number of requests prepared so far -/
def mkBatches (cfg : Cfg) : Nat → List State → List Batch
  | _, [] => []
  | base, s :: ss =>
    let ts := targets (buildGraph cfg s)
    let tagged := (List.range ts.length).zip ts
    { st := s
      r0 := (tagged.filter (fun p => groupOf p.2 == 0)).map (fun p => base + p.1)
      r1 := (tagged.filter (fun p => groupOf p.2 == 1)).map (fun p => base + p.1) } ::
      mkBatches cfg (base + ts.length) ss

/-- the table of all requests prepared by a sequence of stores -/
def reqTable (cfg : Cfg) (ss : List State) : List Target := ss.flatMap (fun s => targets (buildGraph cfg s))

def tgtOf (tbl : List Target) (q : Req) : Target := tbl.getD q (.cls "")

/-! ### REFUTED VARIANT (seeded change C17-r3m2): while not enabled, `UpdateGroup` appends the new requests of
a group to the saved ones instead of replacing them -/

def stepAppend (s : LState) : Op → LState × Out
  | .update g r =>
    if s.enabled then (s, .writes [(g, r)])
    else if r.isEmpty then ({ s with saved := Leader.del g s.saved }, .writes [])
    else ({ s with saved := Leader.put g ((Leader.get g s.saved).getD [] ++ r) s.saved }, .writes [])
  | .enable order =>
    if s.enabled then (s, .panic)
    else ({ enabled := true, saved := [] }, .writes (Leader.flush order s.saved))

def runAppend (s : LState) : List Op → List Out
  | [] => []
  | op :: ops => (stepAppend s op).2 :: runAppend (stepAppend s op).1 ops

/-! ### the foreign objects of a state as targets (specification side; `foreignKeys` of the judge is its image) -/

def foreignTargets (cfg : Cfg) (s : State) : List Target :=
  ((s.classes.filter (foreignClass cfg)).map (fun c => Target.cls c.name)) ++
  ((s.gws.filter (foreignGw cfg)).map (fun g => Target.gw g.nn)) ++
  ((s.routes.filter (foreignRoute cfg s)).map (fun r => Target.route r.kind r.nn)) ++
  ((s.policies.filter (foreignPolicy cfg s)).map (fun p => Target.policy p.gvk p.nn)) ++
  ((s.btps.filter (foreignBtp cfg s)).map (fun b => Target.btp b.nn))

end NGF.Ownership
