/-
C07 — how many Gateway ancestor entries a Service-targeting NGF policy (UpstreamSettingsPolicy) gets:
model of `graph.attachPolicyToService` / `ancestorsContainsAncestorRef` (internal/mode/static/state/graph/policies.go,
policy_ancestor.go). `attachPolicies` calls `attachPolicyToService` once per targetRef of kind Service that names a Service in
`ReferencedServices`; every call proposes the SAME ancestor — the winning Gateway — so the dedup decides whether the status
carries exactly one entry. The ancestor-limit test `ngfPolicyAncestorsFull` is outside (fresh statuses: never full).
Core Lean only. Theorems: NGF/Props/C07.lean.
-/
import NGF.Model.StatusPrep

namespace NGF.PolicyAttach
open NGF.StatusPrep (Cond AncRef Ancestor)

/-- `NewPolicyTargetNotFound` -/
def targetNotFound : Cond := ⟨"Accepted", "False", "TargetNotFound"⟩

/-- `ancestorsContainsAncestorRef` -/
def containsRef (as : List Ancestor) (ref : AncRef) : Bool := as.any fun a => a.ref == ref

/-- `attachPolicyToService` (policy.Ancestors only; `gw` = reference to the winning Gateway) -/
def attachToService (gw : AncRef) (gwValid : Bool) (as : List Ancestor) : List Ancestor :=
  if !gwValid then
    if containsRef as gw then as else as ++ [⟨gw, [targetNotFound]⟩]
  else if !containsRef as gw then as ++ [⟨gw, []⟩] else as

/-- `attachPolicies` for a policy whose targetRefs name `n` referenced Services -/
def attachServices (gw : AncRef) (gwValid : Bool) : Nat → List Ancestor → List Ancestor
  | 0, as => as
  | n + 1, as => attachServices gw gwValid n (attachToService gw gwValid as)

/-- VARIANT (refuted): no `ancestorsContainsAncestorRef` test in the invalid-Gateway branch -/
def attachToServiceNoDedup (gw : AncRef) (gwValid : Bool) (as : List Ancestor) : List Ancestor :=
  if !gwValid then as ++ [⟨gw, [targetNotFound]⟩]
  else if !containsRef as gw then as ++ [⟨gw, []⟩] else as

def attachServicesNoDedup (gw : AncRef) (gwValid : Bool) : Nat → List Ancestor → List Ancestor
  | 0, as => as
  | n + 1, as => attachServicesNoDedup gw gwValid n (attachToServiceNoDedup gw gwValid as)

end NGF.PolicyAttach
