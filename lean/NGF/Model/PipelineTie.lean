/-
Translation validation for the pipeline model (C02 stage 2): the REAL http.conf, parsed by NGF.Nginx.parse, is
abstracted to `Pipeline.Conf` and must equal `Pipeline.gen` of the fragment view of the same scenario (order
normalised). Also: which scenarios are inside the fragment (`toFragment`, `Pipeline.inFragment`), and the executable
form of the fragment theorem (`nginxEvalConf (gen s) q = routeF s q` on probes) and of the restated specification
(`routeF` against `Spec.GatewayAPI.route strict`). Core-only; not itself subject of theorems.
-/
import NGF.Model.Pipeline
import NGF.Model.PipelineHyp
import NGF.Model.PipelineTlsEval
import NGF.Model.C02Judge

namespace NGF.PipelineTie
open NGF.Pipeline
abbrev SScenario := NGF.Spec.GatewayAPI.Scenario

/-! ### scenario → fragment view -/

def toMatch (m : NGF.Spec.GatewayAPI.Match) : Pipeline.Match :=
  { exact := m.ptype == "Exact", path := (if m.pvalue == "" then "/" else m.pvalue).toList, method := m.method.toList,
    headers := m.headers.map (fun h => (h.name.toList, h.value.toList)),
    query := m.query.map (fun h => (h.name.toList, h.value.toList)) }

def toBackend (s : SScenario) (r : NGF.Spec.GatewayAPI.Route) (b : NGF.Spec.GatewayAPI.Backend) : Pipeline.Backend :=
  let emptyRule : NGF.Spec.GatewayAPI.Rule := { matches_ := [], filters := [], backends := [] }
  let c : NGF.Spec.GatewayAPI.Cand :=
    { host := "", lhost := "", exact := false, path := "/", method := "", headers := [], query := [], age := r.age,
      ns := r.ns, name := r.name, ruleIdx := 0, matchIdx := 0, kind := r.kind, rule := emptyRule, filtersOK := true }
  let ns := if b.hasNs then b.ns else r.ns
  { target := (ns ++ "_" ++ b.name ++ "_" ++ toString b.port).toList,
    weight := if 0 ≤ b.weight && b.weight ≤ 1000000 then b.weight.toNat else 0,
    valid := NGF.Spec.GatewayAPI.backendTarget s c b != "!500" }

/-- the fragment view of a scenario, or why it is outside the fragment -/
def toFragment (s : SScenario) : Except String Pipeline.Scenario := do
  let gws ← s.gws.mapM fun g => do
    if g.cls != s.cls then
      -- a Gateway of another class: only its identity matters
      pure ({ ns := g.ns.toList, name := g.name.toList, cls := g.cls.toList, age := g.age, listeners := [] } : Pipeline.Gateway)
    else
      if g.addresses != 0 then throw "gateway addresses"
      let ls ← g.listeners.mapM fun l => do
        if l.proto != "HTTP" then throw ("listener protocol " ++ l.proto)
        if !NGF.Spec.GatewayAPI.listenerFieldsOK s l then throw "invalid listener"
        if l.hasKinds then throw "allowedRoutes.kinds"
        if !(l.nsFrom == "All" || l.nsFrom == "Same") then throw ("allowedRoutes.namespaces.from " ++ l.nsFrom)
        pure ({ name := l.name.toList, port := l.port, host := (NGF.Spec.GatewayAPI.hostOf l).toList, fromAll := l.nsFrom == "All" } : Pipeline.Listener)
      pure { ns := g.ns.toList, name := g.name.toList, cls := g.cls.toList, age := g.age, listeners := ls }
  let routes ← s.routes.mapM fun r => do
    if r.kind != "HTTPRoute" then throw ("route kind " ++ r.kind)
    if !r.hostnames.all NGF.Spec.GatewayAPI.validHostname then throw "route hostname"
    if NGF.Spec.GatewayAPI.dupParents r s then throw "duplicate parentRefs"
    let parents ← r.parents.filterMapM fun p => do
      if p.hasPort then throw "parentRef port"
      match NGF.Spec.GatewayAPI.parentTarget r p with
      | some (ns, n, sec) => pure (some ({ ns := ns.toList, name := n.toList, sectionName := sec.map String.toList } : Pipeline.Parent))
      | none => pure none
    let rules ← r.rules.mapM fun rule => do
      if !NGF.Spec.GatewayAPI.ruleMatchesOK r.kind rule then throw "unsupported match"
      let action ← match rule.filters with
        | [] => pure (Pipeline.Action.forward (rule.backends.map (toBackend s r)))
        | [f] =>
          if f.type == "RequestRedirect" && f.present && f.pathType == "" && NGF.Spec.GatewayAPI.filterSupported r.kind f then
            pure (Pipeline.Action.redirect (if f.code == 0 then 302 else f.code)
              (if f.scheme == "" then none else some f.scheme.toList) (if f.hostname == "" then none else some f.hostname.toList)
              (if f.hasPort then some f.port else none))
          else throw ("filter " ++ f.type)
        | _ => throw "several filters"
      let ms := if rule.matches_.isEmpty then [({ exact := false, path := ['/'], method := [], headers := [], query := [] } : Pipeline.Match)]
                else rule.matches_.map toMatch
      pure ({ ms := ms, action := action } : Pipeline.Rule)
    pure ({ ns := r.ns.toList, name := r.name.toList, age := r.age, parents := parents, hostnames := r.hostnames.map String.toList,
            rules := rules, valid := true } : Pipeline.Route)
  pure { cls := s.cls.toList, ctlr := s.ctlr.toList,
         classes := s.gcs.map (fun c => ⟨c.name.toList, c.ctlr.toList⟩), gateways := gws, routes := routes }

/-! ### real configuration → `Conf` -/

def parseRedirectBody (body : String) : Option (Option Str × Option Str × Option Nat) :=
  match body.splitOn "://" with
  | [sch, rest] =>
    if !rest.endsWith "$request_uri" then none else
    let authority := (rest.dropEnd "$request_uri".length).toString
    let scheme := if sch == "$scheme" then none else some sch.toList
    match authority.splitOn ":" with
    | [h] => some (scheme, (if h == "$host" then none else some h.toList), none)
    | [h, p] => p.toNat?.map fun pn => (scheme, (if h == "$host" then none else some h.toList), some pn)
    | _ => none
  | _ => none

/-- the action of a location body: `return` or `proxy_pass` (upstream names are kept as written) -/
def actOfBody (cfg : NGF.NginxEval.Config) (body : List NGF.Nginx.Dir) : Except String Act :=
  match (NGF.NginxEval.findDirs "return" body).head? with
  | some d =>
    match NGF.NginxEval.Dir.argS d with
    | [c] => match c.toNat? with | some n => .ok (.status n) | none => .error "return code"
    | [c, text] =>
      match c.toNat? with
      | some n =>
        if NGF.NginxEval.isRedirectCode n then
          match parseRedirectBody text with
          | some (s, h, p) => .ok (.redirect n s h p)
          | none => .error ("redirect body " ++ text)
        else .ok (.status n)
      | none => .error "return code"
    | _ => .error "return arity"
  | none =>
    match (NGF.NginxEval.findDirs "proxy_pass" body).head? with
    | some d =>
      match NGF.NginxEval.Dir.argS d with
      | [a] =>
        match NGF.NginxEval.parsePass a with
        | some (scheme, target, uri) =>
          if scheme != "http" || uri != "$request_uri" then .error ("proxy_pass shape " ++ a)
          else if target.startsWith "$" then
            match (NGF.NginxEval.splitClients cfg.http).lookup (target.drop 1).toString with
            | some (some dist) => .ok (.proxy (dist.map fun x => (x.1.toList, x.2)))
            | _ => .error ("split variable " ++ target)
          else .ok (.proxy [(target.toList, 10000)])
        | none => .error "proxy_pass syntax"
      | _ => .error "proxy_pass arity"
    | none => .error "location without return/proxy_pass"

def abstractConf (cfg : NGF.NginxEval.Config) : Except String Conf := do
  let srvs := (NGF.NginxEval.serversOf cfg.http).filter fun sv =>
    sv.listens.any fun l => (l.head?.map fun a => !a.startsWith "unix:" && !a.startsWith "[").getD false
  let portOf (sv : NGF.NginxEval.Server) : Except String Nat :=
    match sv.listens.findSome? (fun l => l.head? >>= String.toNat?) with
    | some p => .ok p
    | none => .error "listen"
  let defaults := srvs.filter fun sv => sv.listens.any (·.contains "default_server")
  let named := srvs.filter fun sv => !(sv.listens.any (·.contains "default_server"))
  let ports ← defaults.mapM portOf
  let servers ← named.mapM fun sv => do
    let port ← portOf sv
    if sv.listens.any (·.contains "ssl") then throw "ssl server"
    let name ← match sv.names with | [n] => pure n | _ => throw "server_name"
    let locDirs := NGF.NginxEval.findDirs "location" sv.body
    let internalBody (path : Str) : Except String (List NGF.Nginx.Dir) :=
      match locDirs.find? (fun d => NGF.NginxEval.Dir.argS d == [String.ofList path]) with
      | some d => .ok (d.block.getD [])
      | none => .error ("internal location " ++ String.ofList path)
    let locs ← locDirs.filterMapM fun d => do
      let b := d.block.getD []
      if !(NGF.NginxEval.findDirs "internal" b).isEmpty then pure none else
      let (exact, path) ← match NGF.NginxEval.Dir.argS d with
        | [p] => pure (false, p)
        | ["=", p] => pure (true, p)
        | _ => throw "location modifier"
      if !(NGF.NginxEval.findDirs "rewrite" b).isEmpty then throw "rewrite in location"
      if !(NGF.NginxEval.findDirs "js_content" b).isEmpty then
        let key ← match (NGF.NginxEval.findDirs "set" b).head?.map NGF.NginxEval.Dir.argS with
          | some ["$match_key", k] => pure k
          | _ => throw "match key"
        match cfg.matchTab.lookup key with
        | some (some ms) =>
          let pairs ← ms.mapM fun m => do
            let ib ← internalBody m.redirectPath
            if !(NGF.NginxEval.findDirs "rewrite" ib).isEmpty then throw "rewrite in internal location"
            let a ← actOfBody cfg ib
            pure ({ m with redirectPath := [] }, a)
          pure (some ({ exact := exact, path := path.toList, act := .njs pairs } : CLoc))
        | _ => throw ("matches.json key " ++ key)
      else
        let a ← actOfBody cfg b
        pure (some ({ exact := exact, path := path.toList, act := .direct a } : CLoc))
    pure ({ port := port, name := name, locs := locs } : CServer)
  pure { ports := ports, servers := servers }

/-! ### normal form for comparison -/

def normDist (d : List (Str × Nat)) : List (String × Nat) :=
  NGF.NginxEval.normDist (d.map fun x => (String.ofList x.1, x.2))

def showAct : Act → String
  | .proxy d => s!"proxy {normDist d}"
  | .redirect c s h p => s!"redirect {c} {s.map String.ofList} {h.map String.ofList} {p}"
  | .status c => s!"status {c}"

def showNjs (m : NjsMatch) : String :=
  s!"any={m.any} method={String.ofList m.method} headers={m.headers.map String.ofList} params={m.params.map String.ofList}"

def showLocAct : LocAct → String
  | .direct a => "direct " ++ showAct a
  | .njs ms => "njs " ++ toString (ms.map fun p => showNjs p.1 ++ " -> " ++ showAct p.2)

def showLoc (l : CLoc) : String := (if l.exact then "= " else "") ++ String.ofList l.path ++ " { " ++ showLocAct l.act ++ " }"

def sortStrs (l : List String) : List String := l.mergeSort fun a b => a ≤ b

/-- canonical text: servers by (port, name), locations sorted, distributions normalised -/
def showConf (c : Conf) : List String :=
  [s!"default ports {(c.ports.mergeSort fun a b => a ≤ b)}"] ++
  sortStrs (c.servers.map fun sv =>
    s!"server {sv.port} {String.ofList sv.name}: " ++ " | ".intercalate (sortStrs (sv.locs.map showLoc)))

/-- first line on which the two canonical texts differ -/
def confDiff (a b : Conf) : Option String :=
  let x := showConf a
  let y := showConf b
  if x == y then none
  else
    match (x.zip y).find? (fun p => p.1 != p.2) with
    | some p => some s!"real: {p.1} ### model: {p.2}"
    | none => some s!"real has {x.length} lines, model {y.length}"

/-! ### fragment probes: the theorem and the restated specification, executed -/

def toReq (r : NGF.C02.Req) : Pipeline.Req :=
  { port := r.port, host := r.host.toList, path := r.path.toList, method := r.method.toList,
    headers := r.headers.map (fun h => (h.1.toList, h.2.toList)), query := r.query.map (fun h => (h.1.toList, h.2.toList)) }

/-- `routeF` against the full oracle, outcome by outcome -/
def specAgree (rq : NGF.C02.Req) (o : Pipeline.Outcome) (s : NGF.Spec.GatewayAPI.Outcome) : Bool :=
  match o, s with
  | .refused, .refused => true
  | .status a, .status b => a == b
  | .redirect c sch h p, .redirect c' url =>
    c == c' && NGF.C02.normURL url ==
      NGF.C02.normURL (String.ofList sch ++ "://" ++ String.ofList h ++ ":" ++ toString p ++ rq.requestURI)
  | .proxy d, .proxy _ e _ =>
    -- the full oracle writes `!500` for invalid-backend-ref and `!503` for a named upstream without endpoints
    let d' := normDist d
    let total := (e.head?.map (·.2.2)).getD 1
    let unready := NGF.C02.sumFor "!503" e
    let targets := ((e.map (·.1)).filter (· != "!503")).eraseDups
    let close (got want : Nat) : Bool := (if got ≥ want then got - want else want - got) ≤ (e.length + 1) * total
    let shareOf (t : String) : Nat := ((d'.filter (·.1 == t)).foldl (fun a x => a + x.2) 0) * total
    (targets.all fun t => close (shareOf (if t == "!500" then "invalid-backend-ref" else t)) (10000 * NGF.C02.sumFor t e)) &&
    -- whatever is not accounted for by named targets is the unready share
    close (((d'.filter fun x => !(targets.contains x.1 || (x.1 == "invalid-backend-ref" && targets.contains "!500"))).foldl (fun a x => a + x.2) 0) * total)
          (10000 * unready)
  | _, _ => false

structure TieResult where
  inFragment : Bool := false
  why : String := ""
  noShadow : Bool := false
  /-- the two scenario side conditions of `route_refines_spec_fragment` beyond `inFragment`/`noShadow` -/
  namesPlain : Bool := false
  /-- every hostname passes `validateHostname` (`PipelineTls.hostDNS`): implies `namesPlain` (`namesPlain_from_hostDNS`) -/
  hostsDNS : Bool := false
  routesHaveRules : Bool := false
  confEqual : Bool := false
  confDiff : String := ""
  probes : Nat := 0
  /-- probes on which the theorem's hypotheses hold (scenario AND request): the equation is evaluated on these -/
  thmProbes : Nat := 0
  /-- probes of a scenario inside the theorem's hypotheses that `reqOK` excludes (header value with a comma, …) -/
  reqExcluded : Nat := 0
  thmFail : Option String := none
  specFail : Option String := none

/-- everything the `pipeline` driver mode reports for one case. The equation `nginxEvalConf (gen s) q = routeF s q` is
evaluated exactly where `route_refines_spec_fragment_dns` claims it: `inFragmentDNS fs` (hostnames as `validateHostname`
accepts them — this implies `namesPlain`), `noShadow`, `routesHaveRules`, and `reqOK q`. -/
def tie (cfg : NGF.NginxEval.Config) (s : SScenario) (cap : Nat) : TieResult :=
  match toFragment s with
  | .error e => { why := e }
  | .ok fs =>
    if !Pipeline.inFragment fs then { why := "inFragment (well-formedness / prefix value ending in '/')" }
    else
      let model := Pipeline.gen fs
      let ns := Pipeline.noShadow model
      let np := Pipeline.namesPlain fs
      let rr := Pipeline.routesHaveRules fs
      -- `route_refines_spec_fragment_dns`: inFragmentDNS ∧ noShadow ∧ routesHaveRules (no `namesPlain`)
      let hd := NGF.PipelineTls.hostsDNS fs
      let hyp := NGF.PipelineTls.inFragmentDNS fs && ns && rr
      let (eq, diff) := match abstractConf cfg with
        | .error e => (false, "real configuration not abstractable: " ++ e)
        | .ok real => match confDiff real model with
          | none => (true, "")
          | some d => (false, d)
      let probes := (NGF.C02.probes s cap).filter fun r => !r.tls
      let (tf, sf, nthm, nex) := probes.foldl (fun (acc : Option String × Option String × Nat × Nat) r =>
        let q := toReq r
        let n := Pipeline.nginxEvalConf model q
        let o := Pipeline.routeF fs q
        let full := (NGF.Spec.GatewayAPI.route NGF.Spec.GatewayAPI.strict s r).outcome
        let inThm := hyp && Pipeline.reqOK q
        let t := if acc.1.isNone && inThm && n != o then some s!"{NGF.C02.showReq r} :: nginxEvalConf(gen)={repr n} :: routeF={repr o}" else acc.1
        let sp := if acc.2.1.isNone && !specAgree r o full then some s!"{NGF.C02.showReq r} :: routeF={repr o} :: oracle={repr full}" else acc.2.1
        (t, sp, acc.2.2.1 + (if inThm then 1 else 0), acc.2.2.2 + (if hyp && !Pipeline.reqOK q then 1 else 0))) (none, none, 0, 0)
      { inFragment := true, noShadow := ns, namesPlain := np, hostsDNS := hd, routesHaveRules := rr, confEqual := eq, confDiff := diff,
        probes := probes.length, thmProbes := nthm, reqExcluded := nex, thmFail := tf, specFail := sf }

end NGF.PipelineTie
