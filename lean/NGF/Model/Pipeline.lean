/-
C02, stage 2: an executable model of the pipeline `gen : Scenario → Conf` for a delimited fragment, following the
Go functions step by step, down to an abstract NGINX configuration `Conf`; the NGINX evaluator lifted to `Conf`
(`nginxEvalConf`, built from the SAME `selectName` / `selectLoc` / `Njs.testMatch` as Model/NginxEval); and the
Gateway API routing specification restated for the fragment over `List Char` (`routeF`), independent of `gen`.

Fragment: one served Gateway chosen among Gateways of the configured class (`processGateways`), HTTP listeners
(hostname optional, allowedRoutes.namespaces Same/All), HTTPRoutes attached by parentRef (sectionName optional) with
hostnames, rules with Exact/PathPrefix matches and optional method/header/query conditions, backends with a given
validity flag (single or weighted), optional RequestRedirect (scheme/hostname/port/statusCode, no path modifier).

Go functions mirrored (file: function → here):
  graph/gateway.go: processGateways → `winner`;  graph/gatewayclass.go: processGatewayClasses → `classOurs`
  graph/route_common.go: findGatewayForParentRef/validateParentRef/findAttachableListeners/
      tryToAttachL7RouteToListeners(bind)/isRouteNamespaceAllowedByListener/findAcceptedHostnames → `acceptedAt`
  dataplane/configuration.go: buildServers/upsertListener/upsertRoute → `entries`, `hostsOf`;
      hostPathRules.buildServers + sortMatchRules → `matchRulesOf`; convertMatch → `Entry.key`
  nginx/config/servers.go: createServers/createLocations/initializeExternalLocations (Precedence.genLocs)/
      needsInternalLocations/isPathOnlyMatch/createRouteMatch/updateLocation/
      createReturnAndRewriteConfigForRedirectFilter/createProxyPass → `ruleAct`, `njsMatchOf`, `actOf`
  nginx/config/split_clients.go: backendGroupName/createSplitClientDistributions → `distOf` (SplitClients.intCents)
Core-only. Theorems: NGF/Props/C02.lean (helpers NGF/Proofs/Pipeline.lean).
-/
import NGF.Model.Hostname
import NGF.Model.Precedence
import NGF.Model.NginxEval
import NGF.Model.SplitClients

namespace NGF.Pipeline

abbrev Str := List Char

/-! ### scenario (what the fragment reads of the cluster state) -/

structure GwClass where
  name : Str
  ctlr : Str
  deriving DecidableEq, Repr

structure Listener where
  name : Str
  port : Nat
  /-- [] = no hostname -/
  host : Str
  /-- allowedRoutes.namespaces.from = All (otherwise Same) -/
  fromAll : Bool
  deriving DecidableEq, Repr

structure Gateway where
  ns : Str
  name : Str
  cls : Str
  age : Int
  listeners : List Listener
  deriving DecidableEq, Repr

structure Match where
  exact : Bool
  path : Str
  /-- [] = no method condition -/
  method : Str
  headers : List (Str × Str)
  query : List (Str × Str)
  deriving DecidableEq, Repr

structure Backend where
  /-- `<ns>_<service>_<port>` -/
  target : Str
  weight : Nat
  valid : Bool
  deriving DecidableEq, Repr

inductive Action
  /-- RequestRedirect: statusCode, scheme, hostname, port as given in the filter -/
  | redirect (code : Nat) (scheme : Option Str) (host : Option Str) (port : Option Nat)
  | forward (bs : List Backend)
  deriving DecidableEq, Repr

structure Rule where
  ms : List Match
  action : Action
  deriving DecidableEq, Repr

/-- a parentRef of kind Gateway, namespace already defaulted to the route's -/
structure Parent where
  ns : Str
  name : Str
  sectionName : Option Str
  deriving DecidableEq, Repr

structure Route where
  ns : Str
  name : Str
  age : Int
  parents : List Parent
  hostnames : List Str
  rules : List Rule
  /-- the route is accepted (L7Route.Valid): an invalid route attaches but configures nothing -/
  valid : Bool
  deriving DecidableEq, Repr

structure Scenario where
  cls : Str
  ctlr : Str
  classes : List GwClass
  gateways : List Gateway
  routes : List Route
  deriving Repr

/-! ### abstract NGINX configuration -/

inductive Act
  /-- `proxy_pass` to an upstream / split_clients variable: (upstream name, hundredths of a percent) -/
  | proxy (dist : List (Str × Nat))
  /-- `return code "scheme://host[:port]$request_uri"`; `none` = `$scheme` / `$host` / no port -/
  | redirect (code : Nat) (scheme : Option Str) (host : Option Str) (port : Option Nat)
  | status (code : Nat)
  deriving DecidableEq, Repr

abbrev NjsMatch := NGF.NginxEval.Njs.Match

inductive LocAct
  | direct (a : Act)
  /-- `js_content httpmatches.redirect`: the match list in order, each with the action of its internal location -/
  | njs (ms : List (NjsMatch × Act))

structure CLoc where
  exact : Bool
  path : Str
  act : LocAct

structure CServer where
  port : Nat
  name : Str
  locs : List CLoc

structure Conf where
  /-- ports with a default server (`listen p default_server; return 404;`) -/
  ports : List Nat
  servers : List CServer

/-! ### graph: which Gateway is served, where a route attaches -/

def bytes (s : Str) : List Nat := s.map Char.toNat

/-- `ngfsort.LessClientObject` on (creationTimestamp, namespace, name) -/
def olderGw (a b : Gateway) : Bool :=
  if a.age == b.age then
    if a.ns == b.ns then Precedence.lexLt (bytes a.name) (bytes b.name) else Precedence.lexLt (bytes a.ns) (bytes b.ns)
  else a.age < b.age

/-- `processGatewayClasses`: the configured class exists and names our controller -/
def classOurs (s : Scenario) : Bool := s.classes.any fun c => c.name == s.cls && c.ctlr == s.ctlr

def oldest : List Gateway → Option Gateway
  | [] => none
  | g :: gs =>
    match oldest gs with
    | none => some g
    | some b => if olderGw b g then some b else some g

/-- `processGateways`: the oldest Gateway of the configured class -/
def winner (s : Scenario) : Option Gateway :=
  if classOurs s then oldest (s.gateways.filter (·.cls == s.cls)) else none

/-- validateParentRef + findAttachableListeners: some parentRef names this gateway and this listener -/
def refersTo (g : Gateway) (l : Listener) (r : Route) : Bool :=
  r.parents.any fun p => p.ns == g.ns && p.name == g.name &&
    (match p.sectionName with | none => true | some sn => sn == l.name)

/-- isRouteNamespaceAllowedByListener for From=All / Same -/
def nsAllowed (g : Gateway) (l : Listener) (r : Route) : Bool := l.fromAll || r.ns == g.ns

/-- accepted hostnames of route `r` at listener `l` ([] = not attached) -/
def acceptedAt (g : Gateway) (l : Listener) (r : Route) : List Str :=
  if refersTo g l r && nsAllowed g l r then Hostname.accepted l.host r.hostnames else []

/-! ### dataplane: match rules per (hostname, path, type) -/

structure Entry where
  port : Nat
  host : Str
  m : Match
  key : Precedence.MatchKey
  action : Action
  deriving Repr

def keyOf (r : Route) (m : Match) : Precedence.MatchKey :=
  { hasMethod := !m.method.isEmpty, nHeaders := m.headers.length, nQuery := m.query.length,
    age := r.age, ns := bytes r.ns, name := bytes r.name }

/-- upsertRoute: for every rule, accepted hostname and match one MatchRule -/
def routeEntries (port : Nat) (hosts : List Str) (r : Route) : List Entry :=
  r.rules.flatMap fun rule => hosts.flatMap fun h => rule.ms.map fun m =>
    { port := port, host := h, m := m, key := keyOf r m, action := rule.action }

/-- upsertListener over the listeners in order: only valid routes configure rules -/
def entries (g : Gateway) (routes : List Route) : List Entry :=
  g.listeners.flatMap fun l => routes.flatMap fun r =>
    if r.valid then routeEntries l.port (acceptedAt g l r) r else []

/-- `rulesPerHost[h]` exists for every accepted hostname of a valid attached route (even without rules) -/
def hostsOf (g : Gateway) (routes : List Route) : List (Nat × Str) :=
  (g.listeners.flatMap fun l => routes.flatMap fun r =>
    if r.valid then (acceptedAt g l r).map fun h => (l.port, h) else []).eraseDups

/-- sortMatchRules: stable sort by higherPriority -/
def sortEntries (es : List Entry) : List Entry := es.mergeSort fun a b => Precedence.le a.key b.key

/-! ### config: locations -/

def isPathOnly (m : Match) : Bool := m.method.isEmpty && m.headers.isEmpty && m.query.isEmpty

def lower (s : Str) : Str := s.map Char.toLower

/-- createRouteMatch: only the first entry of a header name (case-insensitive) is configured -/
def dedupHeaders : List (Str × Str) → List Str → List (Str × Str)
  | [], _ => []
  | h :: hs, seen => if seen.contains (lower h.1) then dedupHeaders hs seen else h :: dedupHeaders hs (lower h.1 :: seen)

def njsMatchOf (m : Match) : NjsMatch :=
  if isPathOnly m then { any := true }
  else { method := m.method, headers := (dedupHeaders m.headers []).map fun h => h.1 ++ [':'] ++ h.2,
         params := m.query.map fun q => q.1 ++ ['='] ++ q.2 }

def invalidBackendRef : Str := "invalid-backend-ref".toList

def valueOf (b : Backend) : Str := if b.valid then b.target else invalidBackendRef

def zipDist : List Backend → List Nat → List (Str × Nat)
  | b :: bs, c :: cs => (valueOf b, c) :: zipDist bs cs
  | _, _ => []

/-- backendGroupName + createSplitClientDistributions -/
def distOf (bs : List Backend) : List (Str × Nat) :=
  match bs with
  | [] => [(invalidBackendRef, 10000)]
  | [b] => if b.weight == 0 || !b.valid then [(invalidBackendRef, 10000)] else [(b.target, 10000)]
  | _ =>
    let ws := bs.map (·.weight)
    if ws.sum == 0 then [(invalidBackendRef, 10000)] else zipDist bs (NGF.SplitClients.intCents ws)

def wellKnown (scheme : Str) (port : Nat) : Bool :=
  (port == 80 && scheme == "http".toList) || (port == 443 && scheme == "https".toList)

/-- createReturnAndRewriteConfigForRedirectFilter (no path modifier): which port the Location shows -/
def shownPort (listenerPort : Nat) (scheme : Option Str) (port : Option Nat) : Option Nat :=
  match scheme with
  | none => some (port.getD listenerPort)
  | some sch =>
    match port with
    | none => none
    | some p => if wellKnown sch p then none else some p

def actOf (listenerPort : Nat) : Action → Act
  | .redirect code scheme host port => .redirect code scheme host (shownPort listenerPort scheme port)
  | .forward bs => .proxy (distOf bs)

/-- createLocations for one path rule: path-only single match → the location itself; otherwise njs + internal -/
def ruleAct (port : Nat) (mrs : List Entry) : LocAct :=
  match mrs with
  | [e] => if isPathOnly e.m then .direct (actOf port e.action) else .njs [(njsMatchOf e.m, actOf port e.action)]
  | _ => .njs (mrs.map fun e => (njsMatchOf e.m, actOf port e.action))

def pathKey (e : Entry) : Bool × Str := (e.m.exact, e.m.path)

/-- one server: path rules = distinct (type, path) of its entries; locations by the external location scheme -/
def serverOf (es : List Entry) (port : Nat) (h : Str) : CServer :=
  let mine := es.filter fun e => e.port == port && e.host == h
  let keys := (mine.map pathKey).eraseDups
  let rules : List Precedence.PathRule := keys.map fun k => ⟨k.2, !k.1⟩
  let locs := (Precedence.genLocs rules).map fun gl =>
    match keys[gl.rule]? with
    | some k => { exact := gl.exact, path := gl.path,
                  act := ruleAct port (sortEntries (mine.filter fun e => pathKey e == k)) : CLoc }
    | none => { exact := gl.exact, path := gl.path, act := .direct (.status 404) }
  { port := port, name := h, locs := locs }

/-- the generated configuration -/
def gen (s : Scenario) : Conf :=
  match winner s with
  | none => { ports := [], servers := [] }
  | some g =>
    let es := entries g s.routes
    { ports := (g.listeners.map (·.port)).eraseDups
      servers := (hostsOf g s.routes).map fun ph => serverOf es ph.1 ph.2 }

/-! ### NGINX on a `Conf` -/

structure Req where
  port : Nat
  host : Str
  path : Str
  method : Str
  headers : List (Str × Str)
  query : List (Str × Str)
  deriving Repr

inductive Outcome
  | refused
  | status (code : Nat)
  /-- code, scheme, host and the effective port of the Location (the default port of the scheme when none is shown) -/
  | redirect (code : Nat) (scheme : Str) (host : Str) (port : Nat)
  | proxy (dist : List (Str × Nat))
  deriving DecidableEq, Repr

def defaultPort (scheme : Str) : Nat := if scheme == "https".toList then 443 else 80

/-- `return`: `$scheme` is http on an HTTP listener, `$host` the request host -/
def evalAct (q : Req) : Act → Outcome
  | .proxy d => .proxy d
  | .status c => .status c
  | .redirect code scheme host port =>
    let sch := scheme.getD "http".toList
    .redirect code sch (host.getD q.host) (port.getD (defaultPort sch))

def njsReq (q : Req) : NGF.NginxEval.Njs.Req := { method := q.method, headers := q.headers, args := q.query }

/-- `findWinningMatch` with the action of the internal location carried along -/
def findWinningP (r : NGF.NginxEval.Njs.Req) : List (NjsMatch × Act) → Option (Option Act)
  | [] => some none
  | p :: ps =>
    match NGF.NginxEval.Njs.testMatch r p.1 with
    | .throw => none
    | .ok true => some (some p.2)
    | .ok false => findWinningP r ps

def evalLocAct (q : Req) : LocAct → Outcome
  | .direct a => evalAct q a
  | .njs ms =>
    match findWinningP (njsReq q) ms with
    | none => .status 500
    | some none => .status 404
    | some (some a) => evalAct q a

def toLoc (l : CLoc) : NGF.NginxEval.Loc :=
  { exact := l.exact, path := l.path,
    passes := match l.act with | .direct (.proxy _) => true | _ => false }

def nginxEvalConf (c : Conf) (q : Req) : Outcome :=
  if !c.ports.contains q.port then .refused
  else
    let srvs := c.servers.filter (·.port == q.port)
    match NGF.NginxEval.selectName (srvs.map (·.name)) q.host with
    | none => .status 404
    | some n =>
      match srvs.find? (·.name == n) with
      | none => .status 404
      | some sv =>
        match NGF.NginxEval.selectLoc (sv.locs.map toLoc) q.path with
        | .loc l =>
          match sv.locs.find? (fun cl => cl.exact == l.exact && cl.path == l.path) with
          | some cl => evalLocAct q cl.act
          | none => .status 404
        | .autoRedirect _ => .status 301
        | .none => .status 404

/-! ### the Gateway API specification for the fragment (independent of `gen`) -/

def isWild (h : Str) : Bool := h.take 2 == ['*', '.']

/-- does the hostname pattern (`[]` = all, exact, `*.suffix`) stand for the request host? -/
def covers (p q : Str) : Bool := p.isEmpty || p == q || (isWild p && (p.drop 1).isSuffixOf q)

/-- specificity: exact names first, then wildcards by length, "all" last -/
def specificity (h : Str) : Nat := if h.isEmpty then 0 else if isWild h then 1 + h.length else 100000 + h.length

/-- a candidate: one match of one rule of a route attached to a listener, under one route hostname -/
structure Cand where
  lhost : Str
  rhost : Str
  m : Match
  age : Int
  ns : Str
  name : Str
  ruleIdx : Nat
  matchIdx : Nat
  action : Action
  deriving Repr

def enumFrom {α} : Nat → List α → List (Nat × α)
  | _, [] => []
  | i, x :: xs => (i, x) :: enumFrom (i + 1) xs

def specCands (g : Gateway) (routes : List Route) (port : Nat) : List Cand :=
  g.listeners.flatMap fun l =>
    if l.port != port then [] else
    routes.flatMap fun r =>
      if !(r.valid && refersTo g l r && nsAllowed g l r) then [] else
      (if r.hostnames.isEmpty then [[]] else r.hostnames).flatMap fun rh =>
        (enumFrom 0 r.rules).flatMap fun (i, rule) =>
          (enumFrom 0 rule.ms).map fun (j, m) =>
            { lhost := l.host, rhost := rh, m := m, age := r.age, ns := r.ns, name := r.name,
              ruleIdx := i, matchIdx := j, action := rule.action }

/-- the hostname a candidate is accepted under stands for `q` iff both the listener's and the route's do -/
def candCovers (c : Cand) (q : Str) : Bool := covers c.lhost q && covers c.rhost q

/-- specificity of the intersection = of the more specific of the two -/
def candSpec (c : Cand) : Nat := max (specificity c.lhost) (specificity c.rhost)

/-- PathPrefix, element-wise (the fragment has no prefix value ending in `/` except `/`) -/
def prefixHit (p q : Str) : Bool := p == ['/'] || p == q || (p ++ ['/']).isPrefixOf q

def pathHit (m : Match) (q : Str) : Bool := if m.exact then m.path == q else prefixHit m.path q

def headerHit (q : Req) (h : Str × Str) : Bool := q.headers.any fun r => lower r.1 == lower h.1 && r.2 == h.2

def queryHit (q : Req) (p : Str × Str) : Bool :=
  match q.query.find? (·.1 == p.1) with
  | some kv => kv.2 == p.2
  | none => false

def condsHit (m : Match) (q : Req) : Bool :=
  (m.method.isEmpty || m.method == q.method) && (dedupHeaders m.headers []).all (headerHit q) && m.query.all (queryHit q)

/-- precedence of HTTPRouteRule.matches: does `a` beat `b`? -/
def beats (a b : Cand) : Bool :=
  if a.m.exact != b.m.exact then a.m.exact
  else if a.m.path.length != b.m.path.length then a.m.path.length > b.m.path.length
  else if (!a.m.method.isEmpty) != (!b.m.method.isEmpty) then !a.m.method.isEmpty
  else if a.m.headers.length != b.m.headers.length then a.m.headers.length > b.m.headers.length
  else if a.m.query.length != b.m.query.length then a.m.query.length > b.m.query.length
  else if a.age != b.age then a.age < b.age
  else if a.ns != b.ns then Precedence.lexLt (bytes a.ns) (bytes b.ns)
  else if a.name != b.name then Precedence.lexLt (bytes a.name) (bytes b.name)
  else if a.ruleIdx != b.ruleIdx then a.ruleIdx < b.ruleIdx
  else a.matchIdx < b.matchIdx

def best : List Cand → Option Cand
  | [] => none
  | c :: cs =>
    match best cs with
    | none => some c
    | some b => if beats b c then some b else some c

/-- the redirect Gateway API prescribes (HTTPRequestRedirectFilter docs): scheme defaults to the request's, host to
the request's; port = the filter's, else the well-known port of a given scheme, else the listener port -/
def specAction (q : Req) : Action → Outcome
  | .forward bs => .proxy (distOf bs)
  | .redirect code scheme host port =>
    let sch := scheme.getD "http".toList
    let p := match port with
      | some p => p
      | none => match scheme with
        | some s => defaultPort s
        | none => q.port
    .redirect code sch (host.getD q.host) p

def routeF (s : Scenario) (q : Req) : Outcome :=
  match winner s with
  | none => .refused
  | some g =>
    if !(g.listeners.any (·.port == q.port)) then .refused
    else
      let covering := (specCands g s.routes q.port).filter (candCovers · q.host)
      let top := covering.foldl (fun acc c => max acc (candSpec c)) 0
      let pool := covering.filter fun c => candSpec c == top
      let hit := pool.filter fun c => pathHit c.m q.path && condsHit c.m q
      match best hit with
      | some c => specAction q c.action
      | none => .status 404

/-! ### the fragment, as a decidable predicate -/

/-- a well-formed hostname pattern: non-empty, no leading dot, `*` only as the leading wildcard label -/
def hostOK (h : Str) : Bool :=
  !h.isEmpty && h.head? != some '.' && (if isWild h then !(h.drop 1).contains '*' else !h.contains '*')

/-- header parts go into `name:value` strings for njs -/
def njsPartOK (x : Str) : Bool := !x.isEmpty && !x.contains ':'

def matchOK (m : Match) : Bool :=
  m.path.head? == some '/' &&
  -- a PathPrefix value ending in `/` (other than `/` itself) is outside the fragment (known finding)
  (m.exact || m.path == ['/'] || m.path.getLast? != some '/') &&
  (m.headers.all fun h => njsPartOK h.1 && njsPartOK h.2) &&
  (m.query.all fun q => !q.1.isEmpty && !q.1.contains '=' && !q.2.isEmpty)

def nodup {α} [BEq α] (l : List α) : Bool := l.eraseDups.length == l.length

def routeOK (r : Route) : Bool :=
  r.hostnames.all hostOK && nodup r.parents && r.rules.all fun rule => rule.ms.all matchOK

def gatewayOK (g : Gateway) : Bool :=
  nodup (g.listeners.map (·.name)) && nodup (g.listeners.map fun l => (l.port, l.host)) &&
  g.listeners.all fun l => l.host.isEmpty || hostOK l.host

def inFragment (s : Scenario) : Bool :=
  nodup (s.routes.map fun r => (r.ns, r.name)) && s.routes.all routeOK &&
  match winner s with
  | none => true
  | some g => gatewayOK g

/-- no path rule consists of conditional matches only: a request that reaches the njs matcher always finds a match
(excludes the known finding "no fallback to a less specific path when conditions fail") -/
def noShadow (c : Conf) : Bool :=
  c.servers.all fun sv => sv.locs.all fun l =>
    match l.act with
    | .njs ms => ms.any fun p => p.1.any
    | .direct _ => true

end NGF.Pipeline
