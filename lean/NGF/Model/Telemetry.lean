/-
C19 — model of `internal/mode/static/telemetry/collector.go`
(`parseSnippetValueIntoDirectives` + `unescapeNginxWord`, `collectSnippetsFilterDirectives`,
`parseDirectiveContextMapIntoLists`, `collectGraphResourceCount`, `computeRouteCount`) and of
`cmd/gateway/commands.go: parseFlags`.  Strings are `List Char` (Go strings that arrive through the
Kubernetes API are valid UTF-8; `for _, ch := range s` then yields the code points; byte-wise `<` on UTF-8
equals code-point order).

PRIMARY model = the current code (since fix c8088bb): `parseSnippet` is the one-pass tokenizer of
`parseSnippetValueIntoDirectives` (`tokStep`/`tokRun`), state for state.  The model says what the code DOES;
that it extracts exactly the NGINX directive names is a theorem (`tokenizer_eq_lexer`, Props/C19), not a definition.

PRE-FIX variant (`…Split`): the old code split on ";" and " ".  Kept with its witnesses and `_partial` theorem
so that a regression to that behaviour is recognised (`Props/C19` §7, driver output `sdirs`/`scounts`).
-/
import NGF.Model.SnippetLex

namespace NGF.Telemetry
open NGF.SnippetLex (isNgxSpace)

abbrev Str := List Char

/-! ### PRE-FIX `parseSnippetValueIntoDirectives` (before c8088bb): split on ";" and " " -/

/-- Go `unicode.IsSpace` (what `strings.TrimSpace` removes) -/
def isGoSpace (c : Char) : Bool :=
  c == ' ' || c == '\t' || c == '\n' || c == '\x0b' || c == '\x0c' || c == '\r' ||
  c.toNat == 0x85 || c.toNat == 0xA0 || c.toNat == 0x1680 ||
  (0x2000 ≤ c.toNat && c.toNat ≤ 0x200A) ||
  c.toNat == 0x2028 || c.toNat == 0x2029 || c.toNat == 0x202F || c.toNat == 0x205F ||
  c.toNat == 0x3000

/-- `strings.Split(s, string sep)` for a one-character separator -/
def splitOn (sep : Char) : List Char → List Str
  | [] => [[]]
  | c :: cs =>
    if c == sep then [] :: splitOn sep cs
    else match splitOn sep cs with
      | h :: t => (c :: h) :: t
      | [] => [[c]]

def trimLeft (l : Str) : Str := l.dropWhile isGoSpace

def trimRight : Str → Str
  | [] => []
  | c :: cs =>
    match trimRight cs with
    | [] => if isGoSpace c then [] else [c]
    | r => c :: r

/-- `strings.TrimSpace` -/
def trimSpace (l : Str) : Str := trimRight (trimLeft l)

/-- `strings.Split(x, " ")[0]` -/
def firstField (l : Str) : Str := l.takeWhile (· != ' ')

/-- the loop body: `directive = strings.Split(strings.TrimSpace(directive), " ")[0]` -/
def chunkDirective (chunk : Str) : Str := firstField (trimSpace chunk)

/-- `parseSnippetValueIntoDirectives` -/
def parseSnippetSplit (s : Str) : List Str :=
  ((splitOn ';' s).map chunkDirective).filter (· != [])

/-! ### tidy snippets: the region on which the PRE-FIX collector was right (`Props/C19` §7) -/

/-- characters of a tidy directive name or argument word: no whitespace (Go's or NGINX's), none of
`; { } " ' # \ $` -/
def plainChar (c : Char) : Bool :=
  !isGoSpace c && c != ';' && c != '{' && c != '}' && c != '"' && c != '\'' && c != '#' &&
  c != '\\' && c != '$'

/-- characters of the argument part of a tidy statement: plain words, `$variables`, any NGINX whitespace -/
def argChar (c : Char) : Bool := plainChar c || c == '$' || isNgxSpace c

/-- `indentation name argument-part`; the argument part is empty or starts with a SPACE -/
structure TidyStmt where
  lead : Str
  name : Str
  rest : Str
  deriving DecidableEq, Repr

def TidyStmt.ok (t : TidyStmt) : Bool :=
  t.lead.all isNgxSpace && !t.name.isEmpty && t.name.all plainChar &&
  (t.rest.isEmpty || t.rest.head? == some ' ') && t.rest.all argChar

def TidyStmt.render (t : TidyStmt) : Str := t.lead ++ (t.name ++ t.rest)

/-- cut the text between two `;` into indentation, name and argument part -/
def tidyChunk (c : Str) : TidyStmt :=
  let r := c.dropWhile isNgxSpace
  ⟨c.takeWhile isNgxSpace, r.takeWhile plainChar, r.dropWhile plainChar⟩

def tidyChunksOk : List Str → Bool
  | [] => false
  | [last] => last.all isNgxSpace || (tidyChunk last).ok
  | c :: cs => (tidyChunk c).ok && tidyChunksOk cs

/-- decidable "tidy": every `;`-terminated chunk is `indentation name( args)` with a space right after
the name, the text after the last `;` is whitespace or one more such statement; no quotes, comments,
blocks, escapes anywhere.  Tabs/newlines are allowed as indentation and between arguments. -/
def isTidy (s : Str) : Bool := tidyChunksOk (splitOn ';' s)

/-! ### `parseSnippetValueIntoDirectives` (current code): one-pass tokenizer

Go state: `state` (gap/comment/bare/dquoted/squoted), `depth`, `escaped`, `variable`, `atStart`, `word`, `directives`.
`escaped`/`variable`/`word` are only read in the bare/quoted states and are (re)initialised on entering them
(`word` is emptied by every `endWord`, the only exit from those states), so they live in those constructors. -/

inductive TokSt
  | gap
  | comment
  | bare (word : Str) (escaped isVar : Bool)
  | quoted (dq : Bool) (word : Str) (escaped : Bool)
  deriving DecidableEq, Repr

structure TokState where
  st : TokSt
  depth : Nat
  atStart : Bool
  directives : List Str
  deriving DecidableEq, Repr

/-- `unescapeNginxWord` (same equations as the lexer's `unescape`: `\"` `\'` `\\` → the character,
`\t` `\r` `\n` → the control character, any other `\x` and a trailing `\` stay) -/
def unescapeWord (w : Str) : Str := NGF.SnippetLex.unescape w

/-- the closure `endWord` -/
def endWord (s : TokState) (word : Str) : TokState :=
  { s with st := .gap, atStart := false,
           directives := if s.depth == 0 && s.atStart then s.directives ++ [unescapeWord word] else s.directives }

/-- the closure `punct` -/
def punct (s : TokState) (ch : Char) : TokState :=
  { s with st := .gap, atStart := true,
           depth := if ch == '{' then s.depth + 1 else if ch == '}' then s.depth - 1 else s.depth }

/-- the closure `isSpace` -/
def tokSpace (ch : Char) : Bool := ch == ' ' || ch == '\t' || ch == '\r' || ch == '\n'

/-- body of `for _, ch := range snippetValue` -/
def tokStep (s : TokState) (ch : Char) : TokState :=
  match s.st with
  | .gap =>
    if tokSpace ch then s
    else if ch == ';' || ch == '{' || ch == '}' then punct s ch
    else if ch == '#' then { s with st := .comment }
    else if ch == '"' then { s with st := .quoted true [] false }
    else if ch == '\'' then { s with st := .quoted false [] false }
    else { s with st := .bare [ch] (ch == '\\') (ch == '$') }
  | .comment => if ch == '\n' then { s with st := .gap } else s
  | .bare word escaped isVar =>
    if escaped then { s with st := .bare (word ++ [ch]) false isVar }
    else if ch == '{' && isVar then { s with st := .bare (word ++ [ch]) false isVar }
    else if ch == '\\' then { s with st := .bare (word ++ [ch]) true false }
    else if ch == '$' then { s with st := .bare (word ++ [ch]) false true }
    else if tokSpace ch then endWord s word
    else if ch == ';' || ch == '{' then punct (endWord s word) ch
    else { s with st := .bare (word ++ [ch]) false false }
  | .quoted dq word escaped =>
    if escaped then { s with st := .quoted dq (word ++ [ch]) false }
    else if ch == '\\' then { s with st := .quoted dq (word ++ [ch]) true }
    else if (dq && ch == '"') || (!dq && ch == '\'') then endWord s word
    else { s with st := .quoted dq (word ++ [ch]) false }

/-- the loop, then `if state == bare || state == dquoted || state == squoted { endWord() }` -/
def tokRun : TokState → Str → TokState
  | s, [] =>
    match s.st with
    | .bare word _ _ => endWord s word
    | .quoted _ word _ => endWord s word
    | _ => s
  | s, c :: cs => tokRun (tokStep s c) cs

def tokInit : TokState := { st := .gap, depth := 0, atStart := true, directives := [] }

/-- `parseSnippetValueIntoDirectives` -/
def parseSnippet (s : Str) : List Str := (tokRun tokInit s).directives

/-! ### collectSnippetsFilterDirectives -/

/-- one entry of `SnippetsFilter.Snippets` (key = NginxContext string, value = snippet text) -/
structure Snippet where
  ctx : Str
  text : Str
  deriving DecidableEq, Repr

/-- a `*graph.SnippetsFilter` of `g.SnippetsFilters`: `none` = nil pointer; the entries of the
`Snippets` map in the iteration order of this run (keys distinct; an invalid filter has no entries) -/
abbrev Filter := Option (List Snippet)

/-- the `switch nginxContext` -/
def ctxName (k : Str) : Str :=
  if k == "main".toList then "main".toList
  else if k == "http".toList then "http".toList
  else if k == "http.server".toList then "server".toList
  else if k == "http.server.location".toList then "location".toList
  else "unknown".toList

/-- `sfDirectiveContext` -/
structure Key where
  directive : Str
  context : Str
  deriving DecidableEq, Repr

def snippetKeys (s : Snippet) : List Key :=
  (parseSnippet s.text).map fun d => { directive := d, context := ctxName s.ctx }

def filterKeys : Filter → List Key
  | none => []
  | some ss => ss.flatMap snippetKeys

/-- all increments `directiveContextMap[k]++` in execution order -/
def allKeys (fs : List Filter) : List Key := fs.flatMap filterKeys

/-- `m[k]++` on an association list with distinct keys -/
def bump (k : Key) : List (Key × Nat) → List (Key × Nat)
  | [] => [(k, 1)]
  | (k', n) :: rest => if k' = k then (k', n + 1) :: rest else (k', n) :: bump k rest

def countMap (ks : List Key) : List (Key × Nat) := ks.foldl (fun m k => bump k m) []

/-! ### parseDirectiveContextMapIntoLists -/

/-- Go string `<` (lexicographic by code point) as `≤` -/
def strLe : Str → Str → Bool
  | [], _ => true
  | _ :: _, [] => false
  | a :: as, b :: bs => a.toNat < b.toNat || (a == b && strLe as bs)

/-- "not after" in the order of the `sort.Slice` less function: count descending, then context,
then directive.  On distinct keys it is a strict total order, so every correct sort yields the same
list (Go's `sort.Slice` is not stable; stability is irrelevant here). -/
def entryLe (a b : Key × Nat) : Bool :=
  if a.2 == b.2 then
    if a.1.context == b.1.context then strLe a.1.directive b.1.directive
    else strLe a.1.context b.1.context
  else a.2 > b.2

def insertSorted (x : Key × Nat) : List (Key × Nat) → List (Key × Nat)
  | [] => [x]
  | y :: ys => if entryLe x y then x :: y :: ys else y :: insertSorted x ys

def sortEntries : List (Key × Nat) → List (Key × Nat)
  | [] => []
  | x :: xs => insertSorted x (sortEntries xs)

def renderKey (k : Key) : Str := k.directive ++ '-' :: k.context

def mapToLists (m : List (Key × Nat)) : List Str × List Nat :=
  let s := sortEntries m
  (s.map (renderKey ·.1), s.map (·.2))

/-- `collectSnippetsFilterDirectives`: (SnippetsFiltersDirectives, SnippetsFiltersDirectivesCount) -/
def collectDirectives (fs : List Filter) : List Str × List Nat := mapToLists (countMap (allKeys fs))

/-! ### PRE-FIX collector (split-based extraction, same counting and sorting) -/

def snippetKeysSplit (s : Snippet) : List Key :=
  (parseSnippetSplit s.text).map fun d => { directive := d, context := ctxName s.ctx }

def filterKeysSplit : Filter → List Key
  | none => []
  | some ss => ss.flatMap snippetKeysSplit

def allKeysSplit (fs : List Filter) : List Key := fs.flatMap filterKeysSplit

def collectDirectivesSplit (fs : List Filter) : List Str × List Nat := mapToLists (countMap (allKeysSplit fs))

/-! ### collectGraphResourceCount over an abstract graph summary -/

inductive RouteType | http | grpc | other
  deriving DecidableEq, Repr

inductive PolicyKind | clientSettings | observability | upstreamSettings | other
  deriving DecidableEq, Repr

/-- `g.NGFPolicies` entry: kind of the key's GVK, and for each targetRef whether its kind is Gateway -/
structure PolicySummary where
  kind : PolicyKind
  targetIsGateway : List Bool
  deriving DecidableEq, Repr

/-- `cfg.Upstreams` entry -/
structure UpstreamSummary where
  hasError : Bool
  endpoints : Nat
  deriving DecidableEq, Repr

/-- what `collectGraphResourceCount` reads of `graph.Graph` and `dataplane.Configuration` -/
structure Summary where
  hasGatewayClass : Bool
  ignoredGatewayClasses : Nat
  hasGateway : Bool
  ignoredGateways : Nat
  routes : List RouteType
  l4Routes : Nat
  secrets : Nat
  services : Nat
  upstreams : List UpstreamSummary
  backendTLSPolicies : Nat
  policies : List PolicySummary
  hasNginxProxy : Bool
  snippetsFilters : List Filter
  deriving Repr

structure Counts where
  gatewayClass : Nat := 0
  gateway : Nat := 0
  httpRoute : Nat := 0
  grpcRoute : Nat := 0
  tlsRoute : Nat := 0
  secret : Nat := 0
  service : Nat := 0
  endpoint : Nat := 0
  backendTLSPolicy : Nat := 0
  gwClientSettings : Nat := 0
  routeClientSettings : Nat := 0
  observability : Nat := 0
  upstreamSettings : Nat := 0
  nginxProxy : Nat := 0
  snippetsFilter : Nat := 0
  deriving DecidableEq, Repr

/-- the `for _, r := range routes` loop of `computeRouteCount` (accumulators http, grpc) -/
def routeLoop : List RouteType → Nat × Nat → Nat × Nat
  | [], acc => acc
  | r :: rs, (h, g) =>
    let h := if r = .http then h + 1 else h
    let g := if r = .grpc then g + 1 else g
    routeLoop rs (h, g)

/-- the `for _, upstream := range cfg.Upstreams` loop -/
def endpointLoop : List UpstreamSummary → Nat → Nat
  | [], acc => acc
  | u :: us, acc => endpointLoop us (if u.hasError then acc else acc + u.endpoints)

/-- the `for policyKey, policy := range g.NGFPolicies` loop -/
def policyLoop : List PolicySummary → Counts → Counts
  | [], c => c
  | p :: ps, c =>
    match p.kind with
    | .clientSettings =>
      match p.targetIsGateway with
      | [] => policyLoop ps c
      | true :: _ => policyLoop ps { c with gwClientSettings := c.gwClientSettings + 1 }
      | false :: _ => policyLoop ps { c with routeClientSettings := c.routeClientSettings + 1 }
    | .observability => policyLoop ps { c with observability := c.observability + 1 }
    | .upstreamSettings => policyLoop ps { c with upstreamSettings := c.upstreamSettings + 1 }
    | .other => policyLoop ps c

def b2n (b : Bool) : Nat := if b then 1 else 0

/-- `collectGraphResourceCount` -/
def countResources (s : Summary) : Counts :=
  let rc := routeLoop s.routes (0, 0)
  let c : Counts :=
    { gatewayClass := s.ignoredGatewayClasses + b2n s.hasGatewayClass
      gateway := s.ignoredGateways + b2n s.hasGateway
      httpRoute := rc.1
      grpcRoute := rc.2
      tlsRoute := s.l4Routes
      secret := s.secrets
      service := s.services
      endpoint := endpointLoop s.upstreams 0
      backendTLSPolicy := s.backendTLSPolicies }
  let c := policyLoop s.policies c
  { c with nginxProxy := b2n s.hasNginxProxy, snippetsFilter := s.snippetsFilters.length }

/-! ### parseFlags -/

/-- a `pflag.Flag` as `parseFlags` sees it: `Type()=="bool"` flags are pflag's own `boolValue`
(`String()` = `strconv.FormatBool`); every other flag has `Value.String()` and `DefValue` -/
inductive FlagVal
  | bool (b : Bool)
  | other (cur def_ : Str)
  deriving DecidableEq, Repr

def reduceFlag : FlagVal → Str
  | .bool true => "true".toList
  | .bool false => "false".toList
  | .other cur d => if cur == d then "default".toList else "user-defined".toList

/-- `parseFlags`: (names, values) -/
def parseFlags (fs : List (Str × FlagVal)) : List Str × List Str :=
  (fs.map (·.1), fs.map (reduceFlag ·.2))

def flagWords : List Str := ["true".toList, "false".toList, "default".toList, "user-defined".toList]

end NGF.Telemetry
