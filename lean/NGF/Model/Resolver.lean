/-
C13 — model of endpoint resolution and of the way the resolved endpoints reach NGINX.

Modelled code (all in /repo/internal):
* `framework/controller/index/endpointslice.go`   `ServiceNameIndexFunc`, `GetServiceNameFromEndpointSlice`
* `mode/static/state/resolver/resolver.go`        `Resolve`, `resolveEndpoints`, `filterEndpointSliceList`,
                                                  `ignoreEndpointSlice`, `findPort`, `getDefaultPort`, `endpointReady`
* `mode/static/state/dataplane/configuration.go`  `getAllowedAddressType`
* `mode/static/nginx/config/upstreams.go`         `createUpstream`, `createStreamUpstreams`, `createStreamUpstream`
  (+ the `state` / `server` alternative of `upstreams_template.go`)
* `mode/static/nginx/config/convert.go`           `ConvertEndpoints`, `ConvertStreamEndpoints`, `getPortAndIPFormat`
* `mode/static/handler.go`                        `updateUpstreamServers`, `serversEqual`, Plus branch of `updateNginxConf`

Environment (trusted, see notes/C13.md): the controller-runtime client `List` with
`MatchingFields{k8sServiceName: name}, InNamespace(ns)` returns exactly the slices of that namespace whose
index value is `name`; the NGINX Plus API `UpdateHTTPServers`/`UpdateStreamServers` makes the server set of
an existing upstream equal to the given list; an upstream that is loaded from a `state` file comes up
with the servers that the API held for it before the reload (none when it is new).

Go maps are modelled as duplicate-free lists; the order of a result is never part of a statement.
-/
namespace NGF.Resolver

/-! ### Kubernetes objects (only the fields the code reads) -/

inductive AddrType | ipv4 | ipv6 | fqdn | other
  deriving DecidableEq, Repr

structure EndpointPort where
  name : Option String
  port : Option Nat
  deriving DecidableEq, Repr

structure Endpoint where
  addresses : List String
  ready     : Option Bool          -- `Conditions.Ready` (*bool)
  deriving DecidableEq, Repr

structure Slice where
  ns        : String
  svcLabel  : Option String        -- value of label `kubernetes.io/service-name`, `none` when absent
  addrType  : AddrType
  ports     : List EndpointPort
  endpoints : List Endpoint
  deriving DecidableEq, Repr

inductive TargetPort | int (n : Nat) | str (s : String)
  deriving DecidableEq, Repr

structure SvcPort where
  name       : String
  port       : Nat
  targetPort : TargetPort
  deriving DecidableEq, Repr

inductive IPFamily | ipv4 | ipv6 | dual | other
  deriving DecidableEq, Repr

/-- `resolver.Endpoint` -/
structure Ep where
  address : String
  port    : Nat
  ipv6    : Bool
  deriving DecidableEq, Repr

/-! ### index + list -/

/-- `ServiceNameIndexFunc`: the index value of a slice (`nil` for a missing or empty label). -/
def indexKey (s : Slice) : Option String :=
  match s.svcLabel with
  | none => none
  | some v => if v = "" then none else some v

/-- What `client.List(…, MatchingFields{k8sServiceName: name}, InNamespace(ns))` returns. -/
def listSlices (all : List Slice) (ns name : String) : List Slice :=
  all.filter fun s => decide (s.ns = ns) && decide (indexKey s = some name)

/-! ### resolver.go -/

def getAllowedAddressType : IPFamily → List AddrType
  | .ipv4 => [.ipv4]
  | .ipv6 => [.ipv6]
  | .dual => [.ipv4, .ipv6]
  | .other => []

def getDefaultPort (sp : SvcPort) : Nat :=
  match sp.targetPort with
  | .int n => if n ≠ 0 then n else sp.port
  | .str _ => sp.port

/-- `findPort`: first entry that has a nil port (→ default port) or the ServicePort's name (→ its port). -/
def findPort : List EndpointPort → SvcPort → Nat
  | [], _ => 0
  | p :: ps, sp =>
    match p.port with
    | none => getDefaultPort sp
    | some n => if p.name = some sp.name then n else findPort ps sp

def endpointReady (e : Endpoint) : Bool := e.ready == some true

def ignoreEndpointSlice (s : Slice) (sp : SvcPort) (allowed : List AddrType) : Bool :=
  if s.addrType = .fqdn then true
  else if ¬ s.addrType ∈ allowed then true
  else findPort s.ports sp == 0

def filterEndpointSliceList (l : List Slice) (sp : SvcPort) (allowed : List AddrType) : List Slice :=
  l.filter fun s => !ignoreEndpointSlice s sp allowed

/-- set insertion order is irrelevant; keeps the last occurrence -/
def dedup {α} [DecidableEq α] : List α → List α
  | [] => []
  | a :: l => if a ∈ dedup l then dedup l else a :: dedup l

/-- the endpoints one slice contributes -/
def sliceEndpoints (s : Slice) (sp : SvcPort) : List Ep :=
  let port := findPort s.ports sp
  let v6 := decide (s.addrType = .ipv6)
  (s.endpoints.filter endpointReady).flatMap fun e => e.addresses.map fun a => ⟨a, port, v6⟩

/-- the body of `resolveEndpoints` after filtering: all endpoints of the kept slices, as a set -/
def collect (filtered : List Slice) (sp : SvcPort) : List Ep :=
  dedup (filtered.flatMap fun s => sliceEndpoints s sp)

inductive Res
  | panic                      -- Port == 0 or empty name/namespace
  | errNoEndpoints             -- "no endpoints found for Service …"
  | errNoValid                 -- "no valid endpoints found for Service … and port …"
  | ok (eps : List Ep)
  deriving DecidableEq, Repr

def Res.eps : Res → List Ep
  | .ok l => l
  | _ => []

def resolveEndpoints (listed : List Slice) (sp : SvcPort) (allowed : List AddrType) : Res :=
  let f := filterEndpointSliceList listed sp allowed
  if f.isEmpty then .errNoValid else .ok (collect f sp)

/-- `ServiceResolverImpl.Resolve` over a cluster holding the slices `all`. -/
def resolve (all : List Slice) (ns name : String) (sp : SvcPort) (allowed : List AddrType) : Res :=
  if sp.port = 0 ∨ name = "" ∨ ns = "" then .panic
  else
    let listed := listSlices all ns name
    if listed.isEmpty then .errNoEndpoints else resolveEndpoints listed sp allowed

/-- what `buildUpstreams` stores in `Upstream.Endpoints` (nil on error) -/
def upstreamEndpoints (all : List Slice) (ns name : String) (sp : SvcPort) (fam : IPFamily) : List Ep :=
  (resolve all ns name sp (getAllowedAddressType fam)).eps

/-! ### upstreams.go / convert.go -/

def nginx503Server : String := "unix:/var/run/nginx/nginx-503-server.sock"
def stateDir : String := "/var/lib/nginx/state"
def ossZoneSize : String := "512k"
def plusZoneSize : String := "1m"
def ossZoneSizeStream : String := "512k"
def plusZoneSizeStream : String := "1m"

/-- `fmt.Sprintf("%s:%d" | "[%s]:%d", ep.Address, ep.Port)` -/
def serverAddress (e : Ep) : String :=
  if e.ipv6 then "[" ++ e.address ++ "]:" ++ toString e.port
  else e.address ++ ":" ++ toString e.port

/-- `ConvertEndpoints` / `ConvertStreamEndpoints`: like `serverAddress`, but port 0 is omitted -/
def convertEndpoint (e : Ep) : String :=
  let port := if e.port ≠ 0 then ":" ++ toString e.port else ""
  if e.ipv6 then "[" ++ e.address ++ "]" ++ port else e.address ++ port

def convertEndpoints (eps : List Ep) : List String := eps.map convertEndpoint

structure Up where             -- dataplane.Upstream
  name : String
  eps  : List Ep
  deriving DecidableEq, Repr

structure NgxUpstream where    -- http.Upstream / stream.Upstream
  name      : String
  zoneSize  : String
  stateFile : String
  servers   : List String
  deriving DecidableEq, Repr

def createUpstream (plus : Bool) (u : Up) : NgxUpstream :=
  { name := u.name
    zoneSize := if plus then plusZoneSize else ossZoneSize
    stateFile := if plus then stateDir ++ "/" ++ u.name ++ ".conf" else ""
    servers := if u.eps.isEmpty then [nginx503Server] else u.eps.map serverAddress }

def createStreamUpstreams (plus : Bool) (ups : List Up) : List NgxUpstream :=
  (ups.filter fun u => !u.eps.isEmpty).map fun u =>
    { name := u.name
      zoneSize := if plus then plusZoneSizeStream else ossZoneSizeStream
      stateFile := if plus then stateDir ++ "/" ++ u.name ++ ".conf" else ""
      servers := u.eps.map serverAddress }

/-- The template: `state F;` when a state file is set, otherwise one `server A;` per server. -/
def configServers (u : NgxUpstream) : List String :=
  if u.stateFile ≠ "" then [] else u.servers

/-! ### NGINX Plus API state and handler.go -/

abbrev Table := List (String × List String)   -- upstream name ↦ servers held by NGINX (`Peers`)

def Table.get (t : Table) (n : String) : Option (List String) :=
  match t with
  | [] => none
  | (k, v) :: r => if k = n then some v else Table.get r n

def Table.keys (t : Table) : List String := t.map (·.1)

/-- the servers NGINX balances across for upstream `n` (none when the upstream does not exist) -/
def Table.servers (t : Table) (n : String) : List String := (t.get n).getD []

/-- API `UpdateHTTPServers(n, servers)`: the server set of the existing upstream becomes `servers`. -/
def Table.set (t : Table) (n : String) (v : List String) : Table :=
  match t with
  | [] => []
  | (k, old) :: r => if k = n then (k, dedup v) :: Table.set r n v else (k, old) :: Table.set r n v

structure Api where
  http   : Table
  stream : Table
  deriving Repr

structure Conf where           -- the two fields of dataplane.Configuration that matter here
  http   : List Up
  stream : List Up
  deriving Repr

/-- `serversEqual(newServers, oldServers)` -/
def serversEqual (new old : List String) : Bool :=
  new.length == old.length && old.all fun s => decide (s ∈ new)

/-- first loop of `updateUpstreamServers`: the upstreams that exist in NGINX and differ -/
def pending (ups : List Up) (prev : Table) : List (String × List String) :=
  ups.filterMap fun u =>
    let servers := convertEndpoints u.eps
    match prev.get u.name with
    | some peers => if serversEqual servers peers then none else some (u.name, servers)
    | none => none

def applyAll (t : Table) : List (String × List String) → Table
  | [] => t
  | (n, v) :: r => applyAll (t.set n v) r

/-- `updateUpstreamServers` with `plus = true` and an API that does not fail. -/
def updateUpstreamServers (c : Conf) (a : Api) : Api :=
  { http := applyAll a.http (pending c.http a.http)
    stream := applyAll a.stream (pending c.stream a.stream) }

/-- NGINX (Plus) loads a configuration generated from `c`: the upstreams are those of the files
(every http upstream; the stream upstreams that have endpoints), each with the servers of its state file. -/
def reloadTable (names : List String) (old : Table) : Table :=
  (dedup names).map fun n => (n, old.servers n)

def reloadNginx (c : Conf) (a : Api) : Api :=
  { http := reloadTable (c.http.map (·.name)) a.http
    stream := reloadTable ((c.stream.filter fun u => !u.eps.isEmpty).map (·.name)) a.stream }

inductive Op
  | reload (c : Conf)          -- `updateNginxConf`: write files, reload, then `updateUpstreamServers`
  | endpoints (c : Conf)       -- `EndpointsOnlyChange` with Plus: `updateUpstreamServers` only
  deriving Repr

def Op.conf : Op → Conf
  | .reload c => c
  | .endpoints c => c

def step (a : Api) : Op → Api
  | .reload c => updateUpstreamServers c (reloadNginx c a)
  | .endpoints c => updateUpstreamServers c a

def run (a : Api) : List Op → Api
  | [] => a
  | o :: os => run (step a o) os

/-! ### repaired variant for known finding `C13:plus_empty_no_503` (NOT what the current code does)

A repaired `updateUpstreamServers` sends the 503 placeholder server for an http upstream without endpoints.
Its effect on the API state is the current effect followed by "set every empty http upstream that exists to
[placeholder]".  The correspondence accepts either variant, so that such a repair in /repo turns the
KNOWN-FINDING line off instead of raising a false alarm. -/

def fix503 (ups : List Up) : List (String × List String) :=
  ups.filterMap fun u => if u.eps.isEmpty then some (u.name, [nginx503Server]) else none

def updateUpstreamServersFixed (c : Conf) (a : Api) : Api :=
  let b := updateUpstreamServers c a
  { b with http := applyAll b.http (fix503 c.http) }

def stepFixed (a : Api) : Op → Api
  | .reload c => updateUpstreamServersFixed c (reloadNginx c a)
  | .endpoints c => updateUpstreamServersFixed c a

/-! ### repaired variant for known finding `C13:plus_stream_upstream_absent` (NOT what the current code does)

A repaired endpoints-only path reloads when the configuration has a stream upstream with endpoints that the
running NGINX does not have (such upstreams are not generated while they have no endpoints). -/

def needsReload (c : Conf) (a : Api) : Bool :=
  c.stream.any fun u => !u.eps.isEmpty && !decide (u.name ∈ a.stream.keys)

def stepB (a : Api) : Op → Api
  | .reload c => step a (.reload c)
  | .endpoints c => if needsReload c a then step a (.reload c) else step a (.endpoints c)

/-- all four combinations, for the correspondence -/
def stepV (fixA fixB : Bool) (a : Api) : Op → Api
  | .reload c => (if fixA then stepFixed else step) a (.reload c)
  | .endpoints c =>
    (if fixA then stepFixed else step) a (if fixB && needsReload c a then .reload c else .endpoints c)

end NGF.Resolver
