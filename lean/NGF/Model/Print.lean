/-
C04, text step: printing a directive tree (`NGF.Nginx.Dir`, what Model/Render produces for the fragment) as the TEXT the Go
templates write, so that "the text NGF writes is read back by NGINX's tokeniser as exactly the intended directives" can be
stated and proved (Props/C04Print.lean, helpers Proofs/PrintLex.lean).

How the templates of the fragment write a directive (nginx/config/servers_template.go, split_clients_template.go):

    name arg arg … ;                     `listen {{ $s.Listen }};`  `server_name {{ $s.ServerName }};`  `proxy_pass {{ $l.ProxyPass }};`
    name arg … {  children  }            `location {{ $l.Path }} {`  `split_clients $request_id ${{ $sc.VariableName }} {`  `server {`
    quoted holes in double quotes        `return {{ $l.Return.Code }} "{{ $l.Return.Body }}";`  `proxy_set_header {{ $h.Name }} "{{ $h.Value }}";`
    every other hole bare (verbatim)     `{{ $d.Percent }}% {{ $d.Value }};`  `set $match_key {{ $l.HTTPMatchKey }};`

i.e. words are separated by one space, the `;` follows the last word directly, a block opens with ` {` (a space before the
brace: it matters for a bare word that ends in a backslash). Indentation and blank lines of the templates are white space
between statements and produce no token; `printDirs` writes one statement per line without indentation.
`dirsToks` is the intended token stream of a tree. `argOK`/`dirsOK` is the lexical safety of the words of a tree.
Core-only.
-/
import NGF.Model.NginxParse

namespace NGF.Print
open NGF.Nginx

abbrev Arg := List Char × Bool

/-- a bare hole is written verbatim, a quoted one between double quotes (the templates never escape) -/
def printArg (a : Arg) : List Char := if a.2 then '"' :: (a.1 ++ ['"']) else a.1

/-- the words of one statement separated by single spaces, then `term` (`;` … or ` {` …) -/
def printWords : List Arg → List Char → List Char
  | [], term => term
  | a :: as, term => printArg a ++ (if as.isEmpty then term else ' ' :: printWords as term)

mutual
/-- one directive as the templates write it -/
def printDir : Dir → List Char
  | .mk n args none => printWords ((n, false) :: args) [';', '\n']
  | .mk n args (some ch) => printWords ((n, false) :: args) (' ' :: '{' :: '\n' :: (printDirs ch ++ ['}', '\n']))
def printDirs : List Dir → List Char
  | [] => []
  | d :: ds => printDir d ++ printDirs ds
end

def printString (ds : List Dir) : String := String.ofList (printDirs ds)

/-! ### the intended token stream -/

def argTok (a : Arg) : Tok := .word a.1 a.2

mutual
def dirToks : Dir → List Tok
  | .mk n args none => (Tok.word n false :: args.map argTok) ++ [.semi]
  | .mk n args (some ch) => (Tok.word n false :: args.map argTok) ++ .open :: (dirsToks ch ++ [.close])
def dirsToks : List Dir → List Tok
  | [] => []
  | d :: ds => dirToks d ++ dirsToks ds
end

/-- the skeleton of a token stream: which positions are argument words (quoted or not), which are `;` `{` `}`;
the contents of the words are erased -/
def Tok.shape : Tok → Tok
  | .word _ q => .word [] q
  | t => t

def skeleton (ts : List Tok) : List Tok := ts.map Tok.shape

/-! ### lexical safety of the words of a tree (executable) -/

/-- may occur after the first character of a bare word: not white space, `;`, `{`, and no backslash -/
def tailChar (c : Char) : Bool := !(isWs c || c == ';' || c == '{' || c == '\\')

/-- may start a bare word -/
def headChar (c : Char) : Bool :=
  !(isWs c || c == ';' || c == '{' || c == '}' || c == '#' || c == '\\' || c == '"' || c == '\'')

/-- a bare word that NGINX reads back as itself: non-empty, starts a token, no terminator, no backslash -/
def bareOK : List Char → Bool
  | [] => false
  | c :: t => headChar c && t.all tailChar

/-- the content of a `"…"` hole that NGINX reads back as itself: no double quote, no backslash -/
def dqOK (s : List Char) : Bool := s.all fun c => !(c == '"' || c == '\\')

def argOK (a : Arg) : Bool := if a.2 then dqOK a.1 else bareOK a.1

mutual
def dirOK : Dir → Bool
  | .mk n args none => bareOK n && args.all argOK
  | .mk n args (some ch) => bareOK n && args.all argOK && dirsOK ch
def dirsOK : List Dir → Bool
  | [] => true
  | d :: ds => dirOK d && dirsOK ds
end

/-! ### shape of a tree: everything but the contents of the words -/

def sameArgs (a b : List Arg) : Bool := a.map (·.2) == b.map (·.2)

mutual
def sameShape : Dir → Dir → Bool
  | .mk _ a none, .mk _ b none => sameArgs a b
  | .mk _ a (some c), .mk _ b (some d) => sameArgs a b && sameShapes c d
  | _, _ => false
def sameShapes : List Dir → List Dir → Bool
  | [], [] => true
  | x :: xs, y :: ys => sameShape x y && sameShapes xs ys
  | _, _ => false
end

/-! ### `$`: which arguments may carry a variable reference -/

/-- the variables the templates of the fragment write (`$group_…` is the prefix of the split_clients variables) -/
def tmplVars : List (List Char) :=
  ["scheme", "host", "request_uri", "group_", "gw_api_compliant_host", "proxy_add_x_forwarded_for", "remote_addr",
   "server_port", "http_upgrade", "connection_upgrade", "match_key", "request_id"].map String.toList

/-- every `$` of the word starts one of the template's variables -/
def tmplDollar : List Char → Bool
  | [] => true
  | c :: t => (c != '$' || tmplVars.any (·.isPrefixOf t)) && tmplDollar t

/-- the arguments of one directive: `location` is not interpolated by NGINX (a match path may contain `$`);
`server_name` must not contain `$` at all; everywhere else a `$` must come from the template -/
def argsDollarOK (n : List Char) (args : List Arg) : Bool :=
  if n == "location".toList then true
  else if n == "server_name".toList then args.all fun a => !a.1.contains '$'
  else args.all fun a => tmplDollar a.1

mutual
def dollarOK : Dir → Bool
  | .mk n args none => argsDollarOK n args
  | .mk n args (some ch) => argsDollarOK n args && dollarsOK ch
def dollarsOK : List Dir → Bool
  | [] => true
  | d :: ds => dollarOK d && dollarsOK ds
end

/-! ### all directives of a tree (pre-order), to quantify over them -/

mutual
def flatDir : Dir → List Dir
  | .mk n args none => [.mk n args none]
  | .mk n args (some ch) => .mk n args (some ch) :: flatDirs ch
def flatDirs : List Dir → List Dir
  | [] => []
  | d :: ds => flatDir d ++ flatDirs ds
end

end NGF.Print
