/-
C08 — model of the status setters (`internal/mode/static/status/status_setters.go`), the equality
helpers (`routeStatusEqual`, `policyStatusEqual`, `snippetsFilterStatusEqual`, `gwStatusEqual`,
`framework/status.ConditionsEqual`) and the retry function (`framework/status.NewRetryUpdateFunc`
driven by `wait.ExponentialBackoffWithContext` with `Steps` attempts).

A status is a list of entries.  For the merging kinds an entry is one `RouteParentStatus`,
`PolicyAncestorStatus` or `ControllerStatus`; `ref` holds the six `ParentReference` fields
(group, kind, namespace, name, sectionName, port; "~" = nil pointer).  For the kinds whose status is
replaced as a whole (Gateway, GatewayClass, NginxGateway) the status is flattened into entries
(entry 0: top-level conditions + flattened addresses; one entry per listener).

The Go setters are closures over a `status` variable. Since commit 4e76cf1 the merging setters merge
the foreign entries into a LOCAL copy (`newStatus`), so the captured variable `Setter.cap` never
changes: that is `Setter.invoke`, the primary model which the driver runs and the correspondence
compares with the code. `Setter.invokeMutating` is the PRE-FIX behaviour
(`status.Parents = append(status.Parents, os)`, `status.Ancestors = ancestors`: the merged status was
stored in the captured variable, so a re-invocation by the retry loop appended the foreign entries
again); it is kept as a regression detector: a tree that matches only this variant is reported with the
old signature `C08:retry-duplicates-foreign:<Kind>`.
-/
namespace NGF.StatusWrite

structure Cond where
  type    : String
  status  : String
  reason  : String
  message : String
  gen     : Int
  time    : Nat
  deriving DecidableEq, Repr

structure Entry where
  ctlr  : String
  ref   : List String
  conds : List Cond
  deriving DecidableEq, Repr

abbrev Status := List Entry

/-- `slices.EqualFunc` -/
def eqFunc {α : Type} (f : α → α → Bool) : List α → List α → Bool
  | [], [] => true
  | a :: as, b :: bs => f a b && eqFunc f as bs
  | _, _ => false

/-- the closure inside `ConditionsEqual`: every field but `LastTransitionTime` -/
def condEq (a b : Cond) : Bool :=
  if a.gen != b.gen then false
  else if a.type != b.type then false
  else if a.status != b.status then false
  else if a.message != b.message then false
  else a.reason == b.reason

/-- `ConditionsEqual` -/
def condsEq (a b : List Cond) : Bool := eqFunc condEq a b

/-- `helpers.EqualPointers` treats nil and the zero value alike -/
def norm (s : String) : String := if s == "~" then "" else s

/-- the reference fields an equality helper looks at -/
def pick (idx : List Nat) (ref : List String) : List String :=
  idx.map fun i => norm (ref.getD i "~")

inductive Mode
  | ownFirst      -- route setters: `status.Parents = append(status.Parents, foreign…)`
  | foreignFirst  -- policy / snippets setters: `status.X = foreign… ++ status.X`
  | whole         -- Gateway, GatewayClass, NginxGateway: whole status replaced
  deriving DecidableEq, Repr

structure Kind where
  mode : Mode
  idx  : List Nat     -- compared `ParentReference` fields (merging kinds only)
  deriving DecidableEq, Repr

/-- `routeParentStatusEqual`: Name, Namespace, SectionName; Group/Kind/Port are ignored -/
def routeKind : Kind := ⟨.ownFirst, [3, 2, 4]⟩
/-- `ancestorStatusEqual`: Name, Namespace, Group, Kind; SectionName/Port are ignored -/
def policyKind : Kind := ⟨.foreignFirst, [3, 2, 0, 1]⟩
/-- `snippetsStatusEqual`: controller name and conditions only -/
def snippetsKind : Kind := ⟨.foreignFirst, []⟩
def wholeKind : Kind := ⟨.whole, []⟩

def kindOf (name : String) : Option Kind :=
  if name == "HTTPRoute" || name == "GRPCRoute" || name == "TLSRoute" then some routeKind
  else if name == "NGFPolicy" || name == "BackendTLSPolicy" then some policyKind
  else if name == "SnippetsFilter" then some snippetsKind
  else if name == "Gateway" || name == "GatewayClass" || name == "NginxGateway" then some wholeKind
  else none

/-- `routeParentStatusEqual` / `ancestorStatusEqual` / `snippetsStatusEqual` -/
def entryEq (k : Kind) (a b : Entry) : Bool :=
  if a.ctlr != b.ctlr then false
  else if pick k.idx a.ref != pick k.idx b.ref then false
  else condsEq a.conds b.conds

/-- `routeStatusEqual` / `policyStatusEqual` / `snippetsFilterStatusEqual`: set-like, own entries of
`prev` must occur in `cur`, every entry of `cur` must occur in `prev`. -/
def statusEq (k : Kind) (ctlr : String) (prev cur : Status) : Bool :=
  prev.all (fun p => p.ctlr != ctlr || cur.any (fun c => entryEq k p c)) &&
  cur.all (fun c => prev.any (fun p => entryEq k c p))

/-- `gwStatusEqual` on the flattened status (also `ConditionsEqual` for GatewayClass/NginxGateway) -/
def wholeEntryEq (a b : Entry) : Bool :=
  a.ref.map norm == b.ref.map norm && condsEq a.conds b.conds

def wholeEq (prev cur : Status) : Bool := eqFunc wholeEntryEq prev cur

def foreign (ctlr : String) (l : Status) : Status := l.filter fun e => e.ctlr != ctlr
def own (ctlr : String) (l : Status) : Status := l.filter fun e => e.ctlr == ctlr

/-- A setter closure: `cap` is the captured (and, for the merging kinds, mutated) `status`. -/
structure Setter where
  kind : Kind
  ctlr : String
  cap  : Status
  deriving DecidableEq, Repr

/-- The merged status the closure computes when it sees `prev`. -/
def merged (s : Setter) (prev : Status) : Status :=
  match s.kind.mode with
  | .ownFirst     => s.cap ++ foreign s.ctlr prev
  | .foreignFirst => foreign s.ctlr prev ++ s.cap
  | .whole        => s.cap

def equalCheck (s : Setter) (prev cur : Status) : Bool :=
  match s.kind.mode with
  | .whole => wholeEq prev cur
  | _      => statusEq s.kind s.ctlr prev cur

/-- One invocation of the Go closure on a fetched object with status `prev`:
(closure state afterwards, status of the object afterwards, wasSet). The merged status is a local
value; the closure state is untouched. -/
def Setter.invoke (s : Setter) (prev : Status) : Setter × Status × Bool :=
  let cur := merged s prev
  if equalCheck s prev cur then (s, prev, false) else (s, cur, true)

/-- PRE-FIX variant (before 4e76cf1): the merged status is assigned to the captured variable. -/
def Setter.invokeMutating (s : Setter) (prev : Status) : Setter × Status × Bool :=
  let cur := merged s prev
  let s' := { s with cap := cur }
  if equalCheck s prev cur then (s', prev, false) else (s', cur, true)

/-! ### Retry loop -/

/-- What the environment does to one attempt of `NewRetryUpdateFunc`. -/
inductive Op
  | getErr                          -- Get fails (not NotFound): the attempt ends, retry
  | notFound                        -- Get says NotFound: done
  | updFail (poke : Option Status)  -- Update fails; `some st`: a conflict, somebody else stored `st`
  | ok                              -- Get and Update succeed
  deriving DecidableEq, Repr

/-- Calls observed on the API client. -/
inductive Call
  | get (ok : Bool)
  | update (prev sub : Status) (ok : Bool)
  deriving DecidableEq, Repr

structure Run where
  setter : Setter
  store  : Status
  calls  : List Call
  writes : Nat
  invocations : Nat
  deriving DecidableEq, Repr

abbrev Invoke := Setter → Status → Setter × Status × Bool

/-- One attempt; returns the new state and whether the condition function reported "done". -/
def attempt (inv : Invoke) (r : Run) (op : Op) : Run × Bool :=
  match op with
  | .getErr   => ({ r with calls := r.calls ++ [.get false] }, false)
  | .notFound => ({ r with calls := r.calls ++ [.get false] }, true)
  | .updFail poke =>
    let (s', out, wasSet) := inv r.setter r.store
    let r1 := { r with setter := s', calls := r.calls ++ [.get true], invocations := r.invocations + 1 }
    if wasSet then
      ({ r1 with calls := r1.calls ++ [.update r.store out false],
                 store := poke.getD r.store }, false)
    else (r1, true)
  | .ok =>
    let (s', out, wasSet) := inv r.setter r.store
    let r1 := { r with setter := s', calls := r.calls ++ [.get true], invocations := r.invocations + 1 }
    if wasSet then
      ({ r1 with calls := r1.calls ++ [.update r.store out true], store := out,
                 writes := r1.writes + 1 }, true)
    else (r1, true)

/-- `wait.ExponentialBackoffWithContext` with `steps` steps: at most `steps` attempts, stop at the
first "done". A schedule shorter than the number of attempts continues with `ok`. -/
def runRetry (inv : Invoke) : Nat → Run → List Op → Run
  | 0, r, _ => r
  | n + 1, r, sched =>
    let op := sched.headD .ok
    let (r', done) := attempt inv r op
    if done then r' else runRetry inv n r' sched.tail

def Run.init (s : Setter) (store : Status) : Run :=
  { setter := s, store := store, calls := [], writes := 0, invocations := 0 }

end NGF.StatusWrite
