/-
C07 — which reload result reaches status preparation: model of the tail of
`eventHandlerImpl.HandleEventBatch` (internal/mode/static/handler.go) for the three change types, with the
environment (did NGINX take the files / the reload / the Plus API update) as explicit outcome flags.

Mirrored Go:
  `updateUpstreamServers`  ↦ `upstreamsErr`   (no-op unless Plus; fails when the Plus API fails)
  `if h.cfg.plus && h.latestReloadResult.Error == nil` (c94173a) ↦ `apiOnly`
  `updateNginxConf`        ↦ `nginxConfErr`   (ReplaceFiles, then Reload, then updateUpstreamServers)
  the `switch changeType` + `h.latestReloadResult = nginxReloadRes` + `h.updateStatuses` ↦ `step`
The environment part of the state (`stale`, `lastFail`) is what the harness records from its stubs; it is the
truth the judge holds the statuses against. Core Lean only.
-/
namespace NGF.HandlerStatus

inductive ChangeType where
  | noChange | endpointsOnly | clusterState
  deriving DecidableEq, Repr

/-- what the environment does with this batch's apply -/
structure Outcome where
  writeOk : Bool
  reloadOk : Bool
  apiOk : Bool
  deriving DecidableEq, Repr

structure HState where
  /-- `h.version` -/
  version : Nat
  /-- `h.latestReloadResult.Error != nil` -/
  latestErr : Bool
  /-- environment: the last full apply (files + reload) failed, NGINX does not run the latest configuration -/
  stale : Bool
  /-- environment: the last apply of any kind failed -/
  lastFail : Bool
  deriving DecidableEq, Repr

def init : HState := ⟨0, false, false, false⟩

/-- `updateUpstreamServers` -/
def upstreamsErr (plus : Bool) (o : Outcome) : Bool := plus && !o.apiOk

/-- `updateNginxConf` -/
def nginxConfErr (plus : Bool) (o : Outcome) : Bool :=
  !o.writeOk || (!o.reloadOk || upstreamsErr plus o)

/-- `h.cfg.plus && h.latestReloadResult.Error == nil` (since /repo c94173a): an EndpointsOnlyChange goes through the NGINX Plus
API alone only while the remembered result is "no error"; `prevErr` = `h.latestReloadResult.Error != nil` before the batch -/
def apiOnly (plus prevErr : Bool) : Bool := plus && !prevErr

/-- does the batch apply the whole configuration (files + reload)? -/
def fullApply (plus prevErr : Bool) : ChangeType → Bool
  | .noChange => false
  | .endpointsOnly => !apiOnly plus prevErr
  | .clusterState => true

/-- the `err` of the `switch changeType` in HandleEventBatch -/
def applyErr (plus prevErr : Bool) (ct : ChangeType) (o : Outcome) : Bool :=
  match ct with
  | .noChange => false
  | .endpointsOnly => if apiOnly plus prevErr then upstreamsErr plus o else nginxConfErr plus o
  | .clusterState => nginxConfErr plus o

/-- one HandleEventBatch with the remembered result the EndpointsOnlyChange arm consults given explicitly -/
def stepWith (plus prevErr : Bool) (s : HState) (ct : ChangeType) (o : Outcome) : HState × Option Bool :=
  match ct with
  | .noChange => (s, none)
  | _ =>
    let err := applyErr plus prevErr ct o
    ({ version := s.version + 1, latestErr := err,
       stale := if fullApply plus prevErr ct then (!o.writeOk || !o.reloadOk) else s.stale,
       lastFail := err }, some err)

/-- one HandleEventBatch: new state and the reload result handed to `updateStatuses` (`none`: NoChange returns
before any status update) -/
def step (plus : Bool) (s : HState) (ct : ChangeType) (o : Outcome) : HState × Option Bool :=
  stepWith plus s.latestErr s ct o

def run (plus : Bool) : HState → List (ChangeType × Outcome) → HState
  | s, [] => s
  | s, (ct, o) :: rest => run plus (step plus s ct o).1 rest

/-- PRE-FIX VARIANT (before /repo c94173a; regression detector, see `prefix_plus_reports_success_while_stale`): the
EndpointsOnlyChange arm tested `h.cfg.plus` only, so with NGINX Plus it used the API alone even after a failed write / reload -/
def stepPreFix (plus : Bool) (s : HState) (ct : ChangeType) (o : Outcome) : HState × Option Bool :=
  stepWith plus false s ct o

def runPreFix (plus : Bool) : HState → List (ChangeType × Outcome) → HState
  | s, [] => s
  | s, (ct, o) :: rest => runPreFix plus (stepPreFix plus s ct o).1 rest

/-- the truth: NGINX failed to take the last applied configuration -/
def HState.failed (s : HState) : Bool := s.stale || s.lastFail

/-! ### Gateway status writes OUTSIDE batch processing

`parseAndCaptureEvent` runs the object filter of the Service that fronts NGF (`nginxGatewayServiceUpsert` /
`nginxGatewayServiceDelete`) for an upsert / delete event of that Service, BEFORE `Process()`: the Gateway statuses are
rewritten (`PrepareGatewayRequests`) from the latest graph with the REMEMBERED result `h.latestReloadResult`. -/

/-- the reload result an out-of-batch Gateway status write uses in state `s` -/
def outOfBatchWrite (s : HState) : Bool := s.latestErr

/-- one HandleEventBatch whose events may contain an upsert/delete of the NGF front Service (`svc`):
(new state, result used by the out-of-batch write — `none` without such an event —, result handed to `updateStatuses`) -/
def stepSvc (plus : Bool) (s : HState) (svc : Bool) (ct : ChangeType) (o : Outcome) : HState × Option Bool × Option Bool :=
  ((step plus s ct o).1, (if svc then some (outOfBatchWrite s) else none), (step plus s ct o).2)

/-- the reload result behind the Gateway status as it stands after the batch (`none`: the batch wrote none): the batch's own
`updateStatuses` comes last; a NoChange batch leaves what the callback wrote -/
def lastGatewayWrite (plus : Bool) (s : HState) (svc : Bool) (ct : ChangeType) (o : Outcome) : Option Bool :=
  match (stepSvc plus s svc ct o).2.2 with
  | some e => some e
  | none => (stepSvc plus s svc ct o).2.1

/-- VARIANT (refuted, see `by_value_before_error_refuted`): the result is remembered from the by-value struct BEFORE the
error is recorded in it (`h.latestReloadResult = nginxReloadRes` moved above `if err != nil`), the batch's own statuses get
the result as a parameter — so the remembered result is always "no error" -/
def stepStoreBeforeError (plus : Bool) (s : HState) (ct : ChangeType) (o : Outcome) : HState × Option Bool :=
  match ct with
  | .noChange => (s, none)
  | _ => ({ (step plus s ct o).1 with latestErr := false }, (step plus s ct o).2)

/-- VARIANT (refuted, see `sticky_error_refuted`; seeded change C01-r4m3): a failure is written into
`h.latestReloadResult.Error` directly and the field is never overwritten after a successful batch — the remembered result can
only turn to "failed", never back; every status (the batch's own and the out-of-batch ones) reads the remembered field -/
def stepStickyError (plus : Bool) (s : HState) (ct : ChangeType) (o : Outcome) : HState × Option Bool :=
  match ct with
  | .noChange => (s, none)
  | _ =>
    let e := s.latestErr || applyErr plus s.latestErr ct o
    ({ (step plus s ct o).1 with latestErr := e }, some e)

end NGF.HandlerStatus
