/-
C07 over the TLS layer of the pipeline model: listener / Gateway / route statuses computed from the SAME `PipelineTls.ScenarioT`
that `PipelineTls.genT` turns into the configuration (HTTP servers, SSL servers, key pairs).

Go functions mirrored (file: function → here):
  graph/gateway_listener.go: listenerConfigurator.configure (validators; then — only when they passed — the port conflict resolver and the
      Secret resolver, BOTH run even if the first invalidated the listener) → `listenerConds`, `validL`;
      createHTTPSListenerValidator (certificateRefs part) → `invalidCertificateRef` for `cert = none`;
      createPortConflictResolver → `protocolConflict` when `PipelineTls.conflicted`;
      createExternalReferencesForTLSSecretsResolver → `secretConds (PipelineTls.resolution …)`
  graph/route_common.go: findAttachableListeners (every listener of this model is attachable, valid or not), bind (`l.Routes[rk] = route`
      whatever `l.Valid`), tryToAttachL7RouteToListeners (attached only to invalid listeners ⇒ InvalidListener, appended to the ROUTE-wide
      conditions by bindL7RouteToListeners) → `PipelineStatus.attachment` over ALL listeners (`gAll`), `onlyInvalid`, `routeCondsT`
  status/prepare_requests.go: prepareGatewayRequest (valid listener ⇒ default conditions, invalid ⇒ `l.Conditions`;
      attachedRoutes = len(l.Routes)) → `listenerStatusesT` through `StatusPrep.prepareGateway`; prepareRouteStatus → `parentStatusT`
The (type, status) of every listener condition is determined; the REASON of Accepted=False depends on the order in which the resolvers ran
(the conflict may be detected before or after the Secret was looked up) and, for `cert = none`, on why the validator rejected the references
(which also decides whether ResolvedRefs=False is present): the correspondence compares (type, status) and masks ResolvedRefs for `cert = none`.
Core-only. Theorems: NGF/Props/C07Tls.lean.
-/
import NGF.Model.PipelineTls
import NGF.Model.PipelineStatus

namespace NGF.PipelineStatusTls
open NGF.Pipeline NGF.PipelineTls NGF.PipelineStatus
open NGF.StatusPrep (Cond ParentStatus ListenerStatus GatewayStatus)

/-! ### listener validity and conditions -/

/-- `l.Valid` -/
def validL (s : ScenarioT) (g : GatewayT) (l : ListenerT) : Bool := validHttp g l || validHttps s g l

/-- `NewListenerInvalidCertificateRef` -/
def invalidCertificateRef : List Cond :=
  [⟨"Accepted", "False", "InvalidCertificateRef"⟩, ⟨"ResolvedRefs", "False", "InvalidCertificateRef"⟩, ⟨"Programmed", "False", "Invalid"⟩]
/-- `NewListenerRefNotPermitted` -/
def refNotPermitted : List Cond :=
  [⟨"Accepted", "False", "RefNotPermitted"⟩, ⟨"ResolvedRefs", "False", "RefNotPermitted"⟩, ⟨"Programmed", "False", "Invalid"⟩]
/-- `NewListenerProtocolConflict` -/
def protocolConflict : List Cond :=
  [⟨"Accepted", "False", "ProtocolConflict"⟩, ⟨"Conflicted", "True", "ProtocolConflict"⟩, ⟨"Programmed", "False", "Invalid"⟩]

/-- what createExternalReferencesForTLSSecretsResolver appends -/
def secretConds : Tls.SecretRes → List Cond
  | .ok => []
  | .notPermitted => refNotPermitted
  | _ => invalidCertificateRef

/-- `Listener.Conditions` (empty ⇔ valid) -/
def listenerConds (s : ScenarioT) (g : GatewayT) (l : ListenerT) : List Cond :=
  if !l.fieldsOK then invalidCertificateRef
  else (if conflicted g l then protocolConflict else []) ++ (if l.https then secretConds (resolution s g l) else [])

/-! ### binding over ALL listeners (invalid listeners are attachable) -/

/-- the winning Gateway with every listener, as binding sees it -/
def gAll (g : GatewayT) : Gateway := projGw (fun _ _ => true) g

/-- is the listener with these Pipeline fields valid? -/
def validBase (s : ScenarioT) (g : GatewayT) (b : Listener) : Bool := g.listeners.any fun l => l.base == b && validL s g l

/-- tryToAttachL7RouteToListeners: attached, but `attachedToAtLeastOneValidListener` is false -/
def onlyInvalid (s : ScenarioT) (g : GatewayT) (r : Route) (p : Parent) : Bool :=
  let bs := boundListeners (gAll g) true r p
  !bs.isEmpty && bs.all fun b => !validBase s g b

/-- `L7Route.Conditions`: rule validation, then one InvalidListener per parentRef that attached to invalid listeners only, then backendRefs -/
def routeCondsT (s : ScenarioT) (g : GatewayT) (r : Route) : List Cond :=
  let leak := ((r.parents.filter (namesOurs (allPart s))).filter (onlyInvalid s g r)).map fun _ => invalidListener
  if r.valid then leak ++ routeConds r else routeConds r ++ leak

/-- the status entry of parentRef `p` (served Gateway `g`, valid) -/
def parentStatusT (s : ScenarioT) (g : GatewayT) (reloadErr : Bool) (gen : Int) (r : Route) (p : Parent) : ParentStatus :=
  NGF.StatusPrep.prepareParent (str s.ctlr) (routeCondsT s g r) reloadErr gen (toPrepRef (gAll g) true r p)

def routeParentStatusesT (s : ScenarioT) (reloadErr : Bool) (gen : Int) (r : Route) : Option (List ParentStatus) :=
  match classState (allPart s), winnerT s with
  | .ours, some g =>
    match sectionNameRefs (allPart s) r with
    | none => some []
    | some [] => none
    | some refs => some (refs.map (parentStatusT s g reloadErr gen r))
  | _, _ => none

/-! ### listener statuses -/

/-- `graph.Listener` as status preparation reads it -/
def toPrepListener (s : ScenarioT) (g : GatewayT) (l : ListenerT) : NGF.StatusPrep.Listener :=
  { name := str l.base.name, valid := validL s g l, conds := listenerConds s g l,
    routes := (listenerRoutes (allPart s) (gAll g) l.base).map routeKeyStr, l4routes := [] }

def toPrepGatewayT (s : ScenarioT) (g : GatewayT) (gen : Int) : NGF.StatusPrep.Gateway :=
  { ns := str g.ns, name := str g.name, gen := gen, valid := true, conds := [], listeners := g.listeners.map (toPrepListener s g) }

/-- the status of the served Gateway (class ours) -/
def gatewayStatusT (s : ScenarioT) (reloadErr : Bool) (gen : Int) : Option GatewayStatus :=
  match classState (allPart s), winnerT s with
  | .ours, some g => some (NGF.StatusPrep.prepareGateway (toPrepGatewayT s g gen) reloadErr)
  | _, _ => none

def listenerStatusT (s : ScenarioT) (g : GatewayT) (reloadErr : Bool) (gen : Int) (l : ListenerT) : ListenerStatus :=
  NGF.StatusPrep.prepareListener gen reloadErr (toPrepListener s g l)

def programmedTrue (ls : ListenerStatus) : Bool := NGF.StatusPrep.hasCond ls.conds "Programmed" "True"

end NGF.PipelineStatusTls
