/-
C01 — model of the change-tracking store and the batch processor
(`internal/mode/static/state/store.go`: `changeTrackingUpdater.upsert/delete/setChangeType/
getAndResetChangedStatus`; `change_processor.go`: `ChangeProcessorImpl.Process`;
`handler.go`: the dispatch of `HandleEventBatch` on the change type).

Everything is parameterised by
  * `C`     the processor's view of the cluster: the persisted store (clusterState maps) together with
            the informer cache that `BuildConfiguration` reads through the ServiceResolver
            (EndpointSlices are not persisted, they are read from the cache at build time);
  * `G`     what one rebuild derives (graph ⇒ configuration ⇒ files and statuses);
  * `build` `BuildGraph` + `BuildConfiguration` + `Generate` + `Prepare*Requests`;
  * `rel`   the per-kind `stateChangedPredicate`, evaluated against the LATEST graph; it receives the stored
            (old) object and the event (`funcPredicate.upsert(old,new) = stateChanged(new) || stateChanged(old)`,
            `delete` judges the stored object).
Core Lean only.
-/
namespace NGF.Store

/-- `state.ChangeType` (iota order). -/
inductive ChangeType | none | endpoints | cluster
  deriving DecidableEq, Repr, Inhabited

def ChangeType.toNat : ChangeType → Nat
  | .none => 0 | .endpoints => 1 | .cluster => 2

/-- `changeTrackingUpdater.setChangeType`. -/
def setCT (ct : ChangeType) (isEndpointSlice changed : Bool) : ChangeType :=
  if changed && ct != .cluster then
    (if isEndpointSlice then .endpoints else .cluster)
  else ct

/-- An event as the change processor receives it. `obj = some o`: UpsertEvent with the full object;
`obj = none`: DeleteEvent — the registered (bare) type and the name, nothing else.
`oracle` is only used by the trace instance of the driver (the verdict observed from the real predicate). -/
structure Event (K Key Obj : Type) where
  kind   : K
  key    : Key
  obj    : Option Obj
  oracle : Bool := false

/-- The per-kind configuration of `NewChangeProcessorImpl` and the primitive effects on `C`. -/
structure Ops (K Key Obj C : Type) where
  /-- `cfg.store != nil` -/
  persisted  : K → Bool
  /-- `cfg.predicate != nil` -/
  hasPred    : K → Bool
  /-- `obj.(*discoveryV1.EndpointSlice)` in `setChangeType` -/
  isEndpoints : K → Bool
  /-- `store.get` -/
  get   : C → K → Key → Option Obj
  /-- `store.upsert` / `store.delete` on the persisted part (only called for persisted kinds) -/
  store : Event K Key Obj → C → C
  /-- what the cluster mutation does to the informer-cache part that `build` reads directly -/
  cache : Event K Key Obj → C → C
  /-- `delete` hands the stored object to the predicate (`subject = old`, since /repo ecaa5d2);
  `false` reproduces the pre-fix code, where the predicate saw the bare registered type only -/
  delSeesOld : Bool := true

/-- `ChangeProcessorImpl` + `changeTrackingUpdater` state. -/
structure Proc (C G : Type) where
  store  : C
  latest : Option G
  ct     : ChangeType

variable {K Key Obj C G : Type}

/-- The `changed` result of `changeTrackingUpdater.upsert` / `.delete` in store `s` (before the
event is stored) against the latest graph. -/
def verdict (O : Ops K Key Obj C) (rel : Option G → Option Obj → Event K Key Obj → Bool)
    (latest : Option G) (s : C) (e : Event K Key Obj) : Bool :=
  let old := if O.persisted e.kind then O.get s e.kind e.key else none
  match e.obj with
  | some _ =>
      -- upsert: store, then `if !ok { return true }; return stateChanged.upsert(oldObj, obj)`
      if O.hasPred e.kind then rel latest old e else true
  | none =>
      -- delete: `old := s.store.get(...); if old == nil { return false }`, delete, then the predicate on
      -- `subject` (= the stored object for persisted kinds; the bare type otherwise / before ecaa5d2)
      if O.persisted e.kind && old.isNone then false
      else if O.hasPred e.kind then rel latest (if O.delSeesOld then old else none) e else true

/-- The store after `upsert` / `delete` (persisted kinds only; a delete of an absent object returns early). -/
def storeAfter (O : Ops K Key Obj C) (s : C) (e : Event K Key Obj) : C :=
  if O.persisted e.kind then
    match e.obj with
    | some _ => O.store e s
    | none => if (O.get s e.kind e.key).isNone then s else O.store e s
  else s

/-- `CaptureUpsertChange` / `CaptureDeleteChange`: store first, then the predicate, then `setChangeType`. -/
def capture (O : Ops K Key Obj C) (rel : Option G → Option Obj → Event K Key Obj → Bool)
    (p : Proc C G) (e : Event K Key Obj) : Proc C G :=
  { p with store := storeAfter O p.store e,
           ct := setCT p.ct (O.isEndpoints e.kind) (verdict O rel p.latest p.store e) }

/-- `Process`: `getAndResetChangedStatus`; NoChange ⇒ nothing; otherwise rebuild from the store. -/
def process (build : C → G) (p : Proc C G) : Proc C G × ChangeType × Option G :=
  if p.ct = .none then (p, .none, none)
  else
    let g := build p.store
    ({ p with latest := some g, ct := .none }, p.ct, some g)

/-! ### The controller in its environment -/

/-- One step of a history. -/
inductive Step (K Key Obj : Type)
  | mutate (e : Event K Key Obj)   -- a cluster mutation (create/update = `obj := some`, delete = `none`)
  | cut                          -- the event loop hands the pending batch to the handler
  | restart                      -- the controller is restarted: start-up listing of the current cluster

/-- `world`: the cluster (what a listing returns, including the cache part); `applied`: the output of
the last rebuild that was handed to the file manager / status updater. -/
structure Sim (C G : Type) where
  world   : C
  proc    : Proc C G
  applied : Option G

/-- The cluster after a mutation: cache part and persisted part both follow. -/
def applyW (O : Ops K Key Obj C) (e : Event K Key Obj) (t : C) : C := O.store e (O.cache e t)

/-- Start-up: the first batch lists the whole cluster; it is processed at once (ClusterStateChange). -/
def start (build : C → G) (w : C) : Sim C G :=
  let g := build w
  { world := w, proc := { store := w, latest := some g, ct := .none }, applied := some g }

/-- `watch t e`: do the watch predicates of the controller let the mutation through (world before it). -/
def step (O : Ops K Key Obj C) (build : C → G)
    (rel : Option G → Option Obj → Event K Key Obj → Bool) (watch : C → Event K Key Obj → Bool)
    (σ : Sim C G) : Step K Key Obj → Sim C G
  | .mutate e =>
      let p1 := { σ.proc with store := O.cache e σ.proc.store }   -- the cache follows the cluster at once
      let p2 := if watch σ.world e then capture O rel p1 e else p1
      { σ with world := applyW O e σ.world, proc := p2 }
  | .cut =>
      let (p', _, out) := process build σ.proc
      { σ with proc := p', applied := match out with | some g => some g | none => σ.applied }
  | .restart => start build σ.world

def run (O : Ops K Key Obj C) (build : C → G)
    (rel : Option G → Option Obj → Event K Key Obj → Bool) (watch : C → Event K Key Obj → Bool)
    (σ : Sim C G) : List (Step K Key Obj) → Sim C G
  | [] => σ
  | s :: ss => run O build rel watch (step O build rel watch σ s) ss

/-- The cluster a history ends in. -/
def finalWorld (O : Ops K Key Obj C) (w : C) : List (Step K Key Obj) → C
  | [] => w
  | .mutate e :: ss => finalWorld O (applyW O e w) ss
  | _ :: ss => finalWorld O w ss

/-- What a freshly started controller derives. -/
def fresh (build : C → G) (w : C) : Option G := (start build w).applied

end NGF.Store

/-! ### The kind table of `NewChangeProcessorImpl` as modelled (pinned to the regenerated facts by
`NGF.Props.C01.store_table_as_modelled`) and the trace instance run by the driver. -/
namespace NGF.Store

/-- kinds with `store != nil` (every registered kind since ecaa5d2: EndpointSlices are kept too, so that
update/delete events can be judged by the previous owner label; `build` still reads them from the cache) -/
def persistedKinds : List String :=
  ["GatewayClass", "Gateway", "HTTPRoute", "ReferenceGrant", "BackendTLSPolicy", "GRPCRoute", "Namespace",
   "Service", "EndpointSlice", "Secret", "ConfigMap", "CustomResourceDefinition", "NginxProxy",
   "ClientSettingsPolicy", "ObservabilityPolicy", "UpstreamSettingsPolicy", "TLSRoute", "SnippetsFilter"]

/-- kinds with `predicate != nil` -/
def predKinds : List String :=
  ["Namespace", "Service", "EndpointSlice", "Secret", "ConfigMap", "CustomResourceDefinition", "NginxProxy",
   "ClientSettingsPolicy", "ObservabilityPolicy", "UpstreamSettingsPolicy"]

/-- all registered kinds -/
def allKinds : List String := persistedKinds

abbrev TEvent := Event String Nat Unit
abbrev TStore := List (String × Nat)

/-- Trace instance: the store is the set of (kind, key) present; the relevance verdicts are the ones
observed from the real predicates (`oracle`). -/
def traceOps : Ops String Nat Unit TStore where
  persisted k := persistedKinds.contains k
  hasPred k := predKinds.contains k
  isEndpoints k := k == "EndpointSlice"
  get s k key := if s.contains (k, key) then some () else none
  store e s := match e.obj with
    | some _ => if s.contains (e.kind, e.key) then s else (e.kind, e.key) :: s
    | none => s.filter (· != (e.kind, e.key))
  cache _ s := s

def traceRel : Option Unit → Option Unit → TEvent → Bool := fun _ _ e => e.oracle

abbrev TProc := Proc TStore Unit

def traceInit : TProc := { store := [], latest := none, ct := .none }

/-- Replays one batch; returns the processor, the pending change type after each event, the store
column (0 = kind not persisted, 1 = persisted and absent, 2 = persisted and present, before the event)
and the change type `Process` returns. -/
def traceBatch (p : TProc) : List TEvent → List Nat → List Nat → TProc × List Nat × List Nat × Nat
  | [], pend, col =>
      let (p', ct, _) := process (fun _ => ()) p
      (p', pend.reverse, col.reverse, ct.toNat)
  | e :: es, pend, col =>
      let c := if traceOps.persisted e.kind then
                 (if (traceOps.get p.store e.kind e.key).isSome then 2 else 1) else 0
      let p' := capture traceOps traceRel p e
      traceBatch p' es (p'.ct.toNat :: pend) (c :: col)

end NGF.Store
