/-
C04: arguments that NGF composes in Go before they reach a template hole (nginx/config/servers.go).

* `mainRewrite` mirrors createMainRewriteForFilters: the text put into `rewrite {{ $r }};`
  (RequestRedirect) and, followed by ` break`, into the same hole for URLRewrite
  (createRewritesValForRewriteFilter).
* `redirectBody` mirrors the `return` body of createReturnAndRewriteConfigForRedirectFilter, put into
  `return {{ code }} "{{ body }}";`.
The harness runs the real Go functions on generated inputs and the driver these models (correspondence).
Core Lean only.
-/
namespace NGF.Inj

inductive PathMod
  | full (replacement : List Char)      -- ReplaceFullPath
  | pfx (replacement : List Char)       -- ReplacePrefixMatch
  deriving Repr, DecidableEq

def endsSlash (s : List Char) : Bool := s.getLast? == some '/'

/-- an empty replacement is rendered as `/` (both path modifier types; for ReplaceFullPath since b4791fc) -/
def effectiveReplacement (r : List Char) : List Char := if r.isEmpty then ['/'] else r

/-- regex and replacement of the prefix-match rewrite -/
def prefixRewriteArgs (replacement path : List Char) : List Char × List Char :=
  let fp := effectiveReplacement replacement
  let regex :=
    if endsSlash fp && !endsSlash path then "^".toList ++ path ++ "(?:/([^?]*))?".toList
    else "^".toList ++ path ++ "([^?]*)?".toList
  let repl :=
    if endsSlash path && !endsSlash fp then fp ++ "/$1?$args?".toList
    else fp ++ "$1?$args?".toList
  (regex, repl)

/-- createMainRewriteForFilters -/
def mainRewrite (m : PathMod) (path : List Char) : List Char :=
  match m with
  | .full r => "^ ".toList ++ effectiveReplacement r
  | .pfx r => let a := prefixRewriteArgs r path; a.1 ++ [' '] ++ a.2

/-- createMainRewriteForFilters before commit b4791fc (empty full-path replacement rendered as nothing): kept
for the regression witnesses -/
def mainRewritePreFix (m : PathMod) (path : List Char) : List Char :=
  match m with
  | .full r => "^ ".toList ++ r
  | .pfx r => let a := prefixRewriteArgs r path; a.1 ++ [' '] ++ a.2

/-- createRewritesValForRewriteFilter: MainRewrite of a URLRewrite filter -/
def rewriteFilterMain (m : PathMod) (path : List Char) : List Char := mainRewrite m path ++ " break".toList

def natDigits (n : Nat) : List Char := (toString n).toList

def sHttp : List Char := ['h', 't', 't', 'p']
def sHttps : List Char := ['h', 't', 't', 'p', 's']

/-- `hostnamePort` of createReturnAndRewriteConfigForRedirectFilter: the port is left out for the well-known
port of a well-known scheme, and for http/https when the filter sets no port -/
def redirectHostPort (scheme : Option (List Char)) (host : List Char) (port : Option Nat) (listenerPort : Nat) :
    List Char :=
  let p := port.getD listenerPort
  match scheme with
  | none => host ++ [':'] ++ natDigits p
  | some s =>
    if port.isNone && (s == sHttp || s == sHttps) then host
    else if (p == 80 && s == sHttp) || (p == 443 && s == sHttps) then host
    else host ++ [':'] ++ natDigits p

def redirectTail (hasPath : Bool) : List Char :=
  if hasPath then ['$', 'u', 'r', 'i', '$', 'i', 's', '_', 'a', 'r', 'g', 's', '$', 'a', 'r', 'g', 's']
  else ['$', 'r', 'e', 'q', 'u', 'e', 's', 't', '_', 'u', 'r', 'i']

/-- the body of `return <code> "<body>"` built by createReturnAndRewriteConfigForRedirectFilter -/
def redirectBody (scheme hostname : Option (List Char)) (port : Option Nat) (hasPath : Bool) (listenerPort : Nat) :
    List Char :=
  scheme.getD ['$', 's', 'c', 'h', 'e', 'm', 'e'] ++ [':', '/', '/'] ++
    redirectHostPort scheme (hostname.getD ['$', 'h', 'o', 's', 't']) port listenerPort ++ redirectTail hasPath

end NGF.Inj
