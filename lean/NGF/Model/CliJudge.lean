/-
C20 — the PROPERTY side: what the help texts document as valid (must be accepted), what is safe
(every accepted value must be in it), and the environment model of NGINX needed to say "safe to embed
verbatim in the generated configuration": the tokenizer `ngx_conf_read_token` and the address
syntax of `ngx_parse_url` (used by the `resolver` directive of the mgmt block).

The constants here are the documented ones (ports 1..65535, flag ports 1024..65535, domain
gateway.nginx.org); they do not come from the sources.  The judge applies these predicates to the
verdicts of the REAL validators and to the text rendered by the REAL mgmt template.
-/
import NGF.Model.Cli

namespace NGF.CliSpec
open NGF.Cli

/-! ### documented values -/

/-- canonical decimal spelling of a number in [lo, hi] -/
def isDecimalIn (lo hi : Nat) (p : Str) : Bool :=
  match p with
  | [] => false
  | c :: cs => p.all isDigit && (cs.isEmpty || c != '0') &&
      (match digitsVal p 0 with | some v => lo ≤ v && v ≤ hi | none => false)

def isPortDecimal (p : Str) : Bool := isDecimalIn 1 65535 p

def lowerByte (c : Char) : Char := if isUpper c then Char.ofNat (c.toNat + 32) else c

def hasUnixPrefix (s : Str) : Bool := (s.take 5).map lowerByte == "unix:".toList

/-- `<host>:<port>`: host a dotted IPv4 address or a DNS-1123 subdomain, or `[<IPv6>]:<port>` -/
def docEndpoint (s : Str) : Bool :=
  match s with
  | [] => false
  | c :: rest =>
    if c == '[' then
      match splitFirst ']' rest with
      | some (h, a :: p) => a == ':' && isV6 h && isPortDecimal p
      | _ => false
    else
      match splitLast ':' s with
      | some (h, p) => (isV4 h || isDNS1123Subdomain h) && isPortDecimal p
      | none => false

/-- the optional-port flags also take a bare IPv4 address, DNS name or IPv6 address; `unix:<port>` is
excluded on purpose (NGINX reads it as a unix socket) -/
def docEndpointOpt (s : Str) : Bool :=
  (docEndpoint s && !hasUnixPrefix s) || isV4 s || isDNS1123Subdomain s || (s.contains ':' && isV6 s)

def documentedDomain : Str := "gateway.nginx.org".toList

/-- `DOMAIN/PATH` with the controller's domain and a non-empty path over the Gateway API alphabet -/
def docCtlrName (s : Str) : Bool :=
  match splitFirst '/' s with
  | some (d, path) => d == documentedDomain && !path.isEmpty && path.all isCtlrPathChar
  | none => false

def docNamespacedName (s : Str) : Bool :=
  match splitFirst '/' s with
  | some (ns, name) => isDNS1123Label ns && isDNS1123Subdomain name
  | none => false

/-! ### safe values -/

/-- bytes that are ordinary inside a bare NGINX argument: printable, no white space, none of
`; { } " ' $ # \` -/
def isSafeArgChar (c : Char) : Bool :=
  33 ≤ c.toNat && c.toNat ≤ 126 && !(";{}\"'$#\\".toList.contains c)

def safeBareArg (s : Str) : Bool := !s.isEmpty && s.all isSafeArgChar

/-- `ngx_atoi` of the port text followed by the range test of `ngx_parse_url` -/
def ngxPortOK (p : Str) : Bool :=
  !p.isEmpty && p.all isDigit &&
    (match digitsVal p 0 with | some v => 1 ≤ v && v ≤ 65535 | none => false)

/-- `ngx_parse_inet_url` without `listen`/`uri_part`: `host[:port]`, the port starts after the FIRST ':' -/
def ngxInetUrl (s : Str) : Bool :=
  if s.contains '/' || s.contains '?' then false
  else match splitFirst ':' s with
    | some (h, p) => !h.isEmpty && ngxPortOK p
    | none => !s.isEmpty

/-- `ngx_parse_inet6_url` on the text after '[': `<IPv6>]` or `<IPv6>]:<port>` -/
def ngxInet6Url (rest : Str) : Bool :=
  match splitFirst ']' rest with
  | none => false
  | some (h, after) =>
    (match after with
      | [] => true
      | a :: p => a == ':' && ngxPortOK p) && isV6 h

/-- the value is an `address[:port]` in the sense of `ngx_parse_url` (what `resolver` requires) -/
def nginxAddrOk (s : Str) : Bool :=
  if hasUnixPrefix s then false
  else match s with
    | [] => false
    | c :: rest => if c == '[' then ngxInet6Url rest else ngxInetUrl s

/-- a bare IPv6 address between brackets (what the generator does since 15df172) -/
def bracketV6 (v : Str) : Str := nginxAddr v

/-- the classes of accepted optional-port values that are not NGINX addresses (the known findings);
`none` = the value is in none of them -/
def addrDefect (s : Str) : Option String :=
  if s.contains ':' && parseIP s then some "bare-ipv6"
  else match splitHostPort s with
    | .ok (h, p) =>
      if p.isEmpty then some "empty-port"
      else if p.head? == some '+' then some "signed-port"
      else if s.head? == some '[' && !isV6 h then some "bracketed-non-ipv6"
      else if hasUnixPrefix s then some "unix-prefix"
      else none
    | .error _ => none

/-- the repo's documented port range of an endpoint: the text after the last ':' outside brackets -/
def endpointWellFormed (s : Str) : Bool :=
  match splitHostPort s with
  | .ok (h, p) =>
    !h.isEmpty && (parseIP h || isDNS1123Subdomain h) &&
      (match parseInt 64 p with | some v => 1 ≤ v && v ≤ 65535 | none => false)
  | .error _ => false

/-! ### ngx_conf_read_token -/

inductive Tok | word (s : Str) | semi | lbrace | rbrace
  deriving DecidableEq, Repr

inductive Mode
  | space                    -- between tokens
  | bare (acc : Str)         -- inside an unquoted token (acc reversed)
  | bareEsc (acc : Str)      -- after a backslash inside an unquoted token
  | bareVar (acc : Str)      -- right after '$' inside an unquoted token (`${` does not open a block)
  | quoted (q : Char) (acc : Str)
  | quotedEsc (q : Char) (acc : Str)
  | afterQuote               -- a closing quote must be followed by white space, ';' or '{'
  | comment
  | error
  deriving DecidableEq, Repr

def isWs (c : Char) : Bool := c == ' ' || c == '\t' || c == '\r' || c == '\n'

structure Lex where
  toks : List Tok   -- reversed
  mode : Mode
  deriving Repr

def emit (l : Lex) (t : Tok) (m : Mode) : Lex := { toks := t :: l.toks, mode := m }

/-- what ends an unquoted token: white space, ';' or '{' (not '}', not quotes, not '#') -/
def endBare (l : Lex) (acc : Str) (c : Char) : Option Lex :=
  if isWs c then some (emit l (.word acc.reverse) .space)
  else if c == ';' then some { toks := .semi :: .word acc.reverse :: l.toks, mode := .space }
  else if c == '{' then some { toks := .lbrace :: .word acc.reverse :: l.toks, mode := .space }
  else none

def step (l : Lex) (c : Char) : Lex :=
  match l.mode with
  | .error => l
  | .comment => if c == '\n' then { l with mode := .space } else l
  | .space =>
    if isWs c then l
    else if c == ';' then emit l .semi .space
    else if c == '{' then emit l .lbrace .space
    else if c == '}' then emit l .rbrace .space
    else if c == '#' then { l with mode := .comment }
    else if c == '"' || c == '\'' then { l with mode := .quoted c [] }
    else if c == '\\' then { l with mode := .bareEsc [c] }
    else if c == '$' then { l with mode := .bareVar [c] }
    else { l with mode := .bare [c] }
  | .bare acc =>
    match endBare l acc c with
    | some l' => l'
    | none =>
      if c == '\\' then { l with mode := .bareEsc (c :: acc) }
      else if c == '$' then { l with mode := .bareVar (c :: acc) }
      else { l with mode := .bare (c :: acc) }
  | .bareVar acc =>
    if c == '{' then { l with mode := .bare (c :: acc) }
    else match endBare l acc c with
      | some l' => l'
      | none =>
        if c == '\\' then { l with mode := .bareEsc (c :: acc) }
        else if c == '$' then { l with mode := .bareVar (c :: acc) }
        else { l with mode := .bare (c :: acc) }
  | .bareEsc acc => { l with mode := .bare (c :: acc) }
  | .quoted q acc =>
    if c == '\\' then { l with mode := .quotedEsc q acc }
    else if c == q then emit l (.word acc.reverse) .afterQuote
    else { l with mode := .quoted q (c :: acc) }
  | .quotedEsc q acc => { l with mode := .quoted q (c :: acc) }
  | .afterQuote =>
    if isWs c then { l with mode := .space }
    else if c == ';' then emit l .semi .space
    else if c == '{' then emit l .lbrace .space
    else { l with mode := .error }

def lexFrom (l : Lex) (s : Str) : Lex := s.foldl step l

/-- the token list of a complete file, `none` on a lexical error or an unterminated token -/
def tokens (s : Str) : Option (List Tok) :=
  let l := lexFrom { toks := [], mode := .space } s
  match l.mode with
  | .space | .comment | .afterQuote => some l.toks.reverse
  | _ => none

/-- a directive: its arguments and how it ends (`;`, `{`) or a lone `}` -/
inductive Dir | simple (args : List Str) | block (args : List Str) | close
  deriving DecidableEq, Repr

def directives : List Tok → List Str → Option (List Dir)
  | [], [] => some []
  | [], _ :: _ => none
  | .word w :: ts, acc => directives ts (acc ++ [w])
  | .semi :: ts, acc => if acc.isEmpty then none else (directives ts []).map (Dir.simple acc :: ·)
  | .lbrace :: ts, acc => (directives ts []).map (Dir.block acc :: ·)
  | .rbrace :: ts, acc => if acc.isEmpty then (directives ts []).map (Dir.close :: ·) else none

def parseConf (s : Str) : Option (List Dir) := (tokens s).bind (directives · [])

/-- The rendered mgmt.conf embeds the two flag values verbatim and nothing else changed:
the mgmt block contains exactly one `usage_report endpoint=<ep>` iff ep is set, exactly one
`resolver <res>` iff res is set, and otherwise only the fixed single-argument directives. -/
def mgmtConfOK (text ep res : Str) : Bool :=
  match parseConf text with
  | none => false
  | some ds =>
    let fixed := ["license_token", "deployment_context", "ssl_verify", "ssl_trusted_certificate",
                  "ssl_certificate", "ssl_certificate_key"].map String.toList
    let isFixed (d : Dir) : Bool :=
      match d with | .simple [n, _] => fixed.contains n | _ => false
    let expectEp := if ep.isEmpty then [] else [Dir.simple ["usage_report".toList, "endpoint=".toList ++ ep]]
    let expectRes := if res.isEmpty then [] else [Dir.simple ["resolver".toList, res]]
    match ds with
    | .block [m] :: body =>
      m == "mgmt".toList && body.getLast? == some Dir.close &&
        (let inner := body.dropLast
         inner.filter (!isFixed ·) == expectEp ++ expectRes && (inner.filter isFixed).length ≥ 2)
    | _ => false

end NGF.CliSpec
