/-
Translation validation for the TLS layer of the pipeline model (C16): the REAL http.conf, parsed by NGF.Nginx.parse, is
abstracted to (plain-HTTP `Pipeline.Conf`, SSL servers with their `ssl_certificate` path, SSL default ports) and the
REAL files of the secrets folder are read; both must equal what `PipelineTls.genT` of the fragment view of the same
cluster state says (order normalised). Core-only; not itself subject of theorems.
-/
import NGF.Model.PipelineTls
import NGF.Model.PipelineTie

namespace NGF.PipelineTlsTie
open NGF.Pipeline NGF.PipelineTls
abbrev SScenario := NGF.Spec.GatewayAPI.Scenario

/-! ### scenario → fragment view -/

/-- an HTTPS listener as `PipelineTie.toFragment` wants to see a listener (the TLS fields are read separately) -/
def asHTTP (l : NGF.Spec.GatewayAPI.Listener) : NGF.Spec.GatewayAPI.Listener :=
  if l.proto == "HTTPS" then { l with proto := "HTTP", hasTls := false, tlsMode := "", tlsOpts := 0, certs := [] } else l

def certOf (gwNs : String) (l : NGF.Spec.GatewayAPI.Listener) : Option (Str × Str) :=
  match l.certs with
  | [c] =>
    if (c.kind == "Secret" || c.kind == "") && c.group == "" then
      some ((if c.hasNs then c.ns else gwNs).toList, c.name.toList)
    else none
  | _ => none

def toGrant (g : NGF.Spec.GatewayAPI.Grant) : Tls.Grant :=
  { ns := g.ns.toList,
    froms := g.«from».map fun f => ⟨f.group.toList, f.kind.toList, f.ns.toList⟩,
    tos := g.to.map fun t => ⟨t.group.toList, t.kind.toList, if t.hasName then t.name.toList else []⟩ }

/-- the fragment view of a cluster state, or why it is outside the fragment. The HTTP view (routes, matches, backends,
Gateways, classes) is `PipelineTie.toFragment` on the state whose HTTPS listeners are relabelled HTTP. -/
def toFragmentT (s : SScenario) (secrets : List Tls.SecretObj) : Except String ScenarioT := do
  for g in s.gws do
    if g.cls == s.cls then
      for l in g.listeners do
        if l.proto == "HTTPS" then
          -- everything createHTTPSListenerValidator checks besides the certificate references is inside the fragment
          if !(l.hasTls && l.tlsMode == "Terminate" && l.tlsOpts == 0) then throw "https listener: tls mode/options"
  let s' : SScenario := { s with gws := s.gws.map fun g => { g with listeners := g.listeners.map asHTTP } }
  let fs ← NGF.PipelineTie.toFragment s'
  if fs.gateways.length != s.gws.length then throw "internal: gateways"
  let gws ← (s.gws.zip fs.gateways).mapM fun (g, fg) => do
    if g.cls != s.cls then
      pure ({ ns := fg.ns, name := fg.name, cls := fg.cls, age := fg.age, listeners := [] } : GatewayT)
    else
      if fg.listeners.length != g.listeners.length then throw "internal: listeners"
      let ls := (g.listeners.zip fg.listeners).map fun (l, fl) =>
        ({ base := fl, https := l.proto == "HTTPS", cert := if l.proto == "HTTPS" then certOf g.ns l else none } : ListenerT)
      pure { ns := fg.ns, name := fg.name, cls := fg.cls, age := fg.age, listeners := ls }
  pure { cls := fs.cls, ctlr := fs.ctlr, classes := fs.classes, gateways := gws, routes := fs.routes,
         secrets := secrets, grants := s.grants.map toGrant }

/-! ### real configuration → abstract form -/

structure RealT where
  http : Conf
  /-- SSL servers with the argument of `ssl_certificate` -/
  ssl : List (CServer × Option String)
  sslPorts : List Nat

def portOf (sv : NGF.NginxEval.Server) : Except String Nat :=
  match sv.listens.findSome? (fun l => l.head? >>= String.toNat?) with
  | some p => .ok p
  | none => .error "listen"

/-- one named server → `CServer` (the body of `PipelineTie.abstractConf`, which refuses SSL servers) -/
def absServer (cfg : NGF.NginxEval.Config) (sv : NGF.NginxEval.Server) : Except String CServer := do
  let port ← portOf sv
  let name ← match sv.names with | [n] => pure n | _ => throw "server_name"
  let locDirs := NGF.NginxEval.findDirs "location" sv.body
  let internalBody (path : Str) : Except String (List NGF.Nginx.Dir) :=
    match locDirs.find? (fun d => NGF.NginxEval.Dir.argS d == [String.ofList path]) with
    | some d => .ok (d.block.getD [])
    | none => .error ("internal location " ++ String.ofList path)
  let locs ← locDirs.filterMapM fun d => do
    let b := d.block.getD []
    if !(NGF.NginxEval.findDirs "internal" b).isEmpty then pure none else
    let (exact, path) ← match NGF.NginxEval.Dir.argS d with
      | [p] => pure (false, p)
      | ["=", p] => pure (true, p)
      | _ => throw "location modifier"
    if !(NGF.NginxEval.findDirs "rewrite" b).isEmpty then throw "rewrite in location"
    if !(NGF.NginxEval.findDirs "js_content" b).isEmpty then
      let key ← match (NGF.NginxEval.findDirs "set" b).head?.map NGF.NginxEval.Dir.argS with
        | some ["$match_key", k] => pure k
        | _ => throw "match key"
      match cfg.matchTab.lookup key with
      | some (some ms) =>
        let pairs ← ms.mapM fun m => do
          let ib ← internalBody m.redirectPath
          if !(NGF.NginxEval.findDirs "rewrite" ib).isEmpty then throw "rewrite in internal location"
          let a ← NGF.PipelineTie.actOfBody cfg ib
          pure ({ m with redirectPath := [] }, a)
        pure (some ({ exact := exact, path := path.toList, act := .njs pairs } : CLoc))
      | _ => throw ("matches.json key " ++ key)
    else
      let a ← NGF.PipelineTie.actOfBody cfg b
      pure (some ({ exact := exact, path := path.toList, act := .direct a } : CLoc))
  pure ({ port := port, name := name, locs := locs } : CServer)

def isSSL (sv : NGF.NginxEval.Server) : Bool := sv.listens.any (·.contains "ssl")

def abstractConfT (cfg : NGF.NginxEval.Config) : Except String RealT := do
  let srvs := (NGF.NginxEval.serversOf cfg.http).filter fun sv =>
    sv.listens.any fun l => (l.head?.map fun a => !a.startsWith "unix:" && !a.startsWith "[").getD false
  let defaults := srvs.filter fun sv => sv.listens.any (·.contains "default_server")
  let named := srvs.filter fun sv => !(sv.listens.any (·.contains "default_server"))
  -- every listen line of a server is of one kind
  for sv in srvs do
    if isSSL sv && !(sv.listens.all (·.contains "ssl")) then throw "server with ssl and plain listen"
  let ports ← (defaults.filter (!isSSL ·)).mapM portOf
  let sslPorts ← (defaults.filter isSSL).mapM fun sv => do
    -- the SSL default server must reject the handshake and carry no certificate
    if (NGF.NginxEval.findDirs "ssl_reject_handshake" sv.body).map NGF.NginxEval.Dir.argS != [["on"]] then
      throw "ssl default server without ssl_reject_handshake on"
    if !(NGF.NginxEval.findDirs "ssl_certificate" sv.body).isEmpty then throw "ssl default server with certificate"
    portOf sv
  let http ← (named.filter (!isSSL ·)).mapM fun sv => do
    if !(NGF.NginxEval.findDirs "ssl_certificate" sv.body).isEmpty then throw "plain server with ssl_certificate"
    absServer cfg sv
  let ssl ← (named.filter isSSL).mapM fun sv => do
    let c ← absServer cfg sv
    let cert := (NGF.NginxEval.findDirs "ssl_certificate" sv.body).map NGF.NginxEval.Dir.argS
    let key := (NGF.NginxEval.findDirs "ssl_certificate_key" sv.body).map NGF.NginxEval.Dir.argS
    match cert, key with
    | [[cp]], [[kp]] => if cp == kp then pure (c, some cp) else throw "ssl_certificate and ssl_certificate_key differ"
    | [], [] => pure (c, none)
    | _, _ => throw "ssl_certificate shape"
  pure { http := { ports := ports, servers := http }, ssl := ssl, sslPorts := sslPorts }

/-! ### normal form for comparison -/

def showSrv (sv : CServer) : String :=
  s!"{sv.port} {String.ofList sv.name}: " ++ " | ".intercalate (NGF.PipelineTie.sortStrs (sv.locs.map NGF.PipelineTie.showLoc))

def showSSL (ssl : List (CServer × Option String)) (ports : List Nat) : List String :=
  [s!"ssl default ports {(ports.mergeSort fun a b => a ≤ b)}"] ++
  NGF.PipelineTie.sortStrs (ssl.map fun p => s!"ssl server cert={p.2.getD "-"} " ++ showSrv p.1)

def certPath (kp : Option (List Char)) : Option String := kp.map fun id => String.ofList (Tls.pemFileName id)

def showModel (c : ConfT) : List String :=
  NGF.PipelineTie.showConf c.http ++ showSSL (c.ssl.map fun p => (p.1, certPath p.2)) c.sslPorts

def showReal (r : RealT) : List String := NGF.PipelineTie.showConf r.http ++ showSSL r.ssl r.sslPorts

def firstDiff (x y : List String) : Option String :=
  if x == y then none
  else
    match (x.zip y).find? (fun p => p.1 != p.2) with
    | some p => some s!"real: {p.1} ### model: {p.2}"
    | none => some s!"real has {x.length} lines, model {y.length}"

/-- the key-pair files the model expects: path and content -/
def modelFiles (c : ConfT) : List (String × String) :=
  c.keyPairs.map fun k => (String.ofList (Tls.pemFileName k.id), String.ofList (Tls.pem k.cert k.key))

def sortFiles (l : List (String × String)) : List (String × String) := l.mergeSort fun a b => a.1 ≤ b.1

def filesDiff (real model : List (String × String)) : Option String :=
  let r := sortFiles real
  let m := sortFiles model
  if r == m then none
  else if r.map (·.1) != m.map (·.1) then some s!"secret files real={r.map (·.1)} model={m.map (·.1)}"
  else
    match (r.zip m).find? (fun p => p.1 != p.2) with
    | some p => some s!"content of {p.1.1} differs from the Secret's certificate, newline, key"
    | none => some "secret files differ"

/-! ### the tie -/

structure Stats where
  httpListeners : Nat := 0
  httpsListeners : Nat := 0
  validHttps : Nat := 0
  badRef : Nat := 0
  conflictedL : Nat := 0
  resKinds : List String := []
  sslServers : Nat := 0
  listenerOnlyServers : Nat := 0
  sslLocs : Nat := 0
  keyPairs : Nat := 0
  sharedPorts : Nat := 0
  /-- SSL servers whose owner was chosen among ≥ 2 valid listeners carrying the name -/
  contested : Nat := 0

structure TieResult where
  inFragment : Bool := false
  why : String := ""
  served : Bool := false
  confEqual : Bool := false
  confDiff : String := ""
  filesEqual : Bool := false
  filesDiff : String := ""
  /-- the theorems' conclusions evaluated on this scenario (executable forms), first failure -/
  thmFail : String := ""
  thmChecks : Nat := 0
  stats : Stats := {}

def resName : Tls.SecretRes → String
  | .ok => "ok" | .missing => "missing" | .wrongType => "wrongType" | .malformed => "malformed"
  | .notPermitted => "notPermitted" | .badRef => "badRef"

/-- executable forms of the theorems of Props/C16Pipeline on one scenario (a failure here is a broken obligation made
visible, never a finding) -/
def thmCheck (s : ScenarioT) (c : ConfT) : Nat × Option String :=
  match winnerT s with
  | none => (1, if c.ssl.isEmpty && c.sslPorts.isEmpty && c.keyPairs.isEmpty then none else some "no winner but ssl output")
  | some gT =>
    let vs := sslListeners s gT
    let g := projGw (validHttps s) gT
    -- ssl_server_cert_is_attaching_listeners_secret
    let f1 := c.ssl.findSome? fun (sv, kp) =>
      let ok := vs.any fun l => l.base.port == sv.port && kpOf l == kp && kp.isSome &&
        ((accHosts g s.routes l.base).contains sv.name ||
          (sv.name == serverName l.base.host && (nroutes g s.routes l.base == 0 || l.base.host.isEmpty))) &&
        (c.keyPairs.any fun k => some k.id == kp &&
          match l.cert.bind fun cr => Tls.findSecret s.secrets cr.1 cr.2 with
          | some sec => k.cert == sec.cert && k.key == sec.key
          | none => false)
      if ok then none else some s!"ssl server {sv.port}/{String.ofList sv.name}: no attaching valid listener with this key pair"
    -- keypairs_exact
    let f2 := c.keyPairs.findSome? fun k =>
      if vs.any fun l => kpOf l == some k.id then none else some s!"key pair {String.ofList k.id} of no valid listener"
    let f3 := vs.findSome? fun l =>
      if c.keyPairs.any fun k => some k.id == kpOf l then none else some s!"valid listener {String.ofList l.base.name} without key pair"
    -- invalid_secret_no_ssl_server: ports
    let f4 := c.sslPorts.findSome? fun p =>
      if vs.any (·.base.port == p) then none else some s!"ssl port {p} without valid https listener"
    let f5 := c.ssl.findSome? fun (sv, _) => if c.sslPorts.contains sv.port then none else some s!"ssl server on port {sv.port} without default server"
    -- unresolved_listeners_contribute_nothing / ssl_part_ignores_free_http_listeners / http_part_ignores_tls_objects
    let sslText (x : ConfT) : List String :=
      showSSL (x.ssl.map fun p => (p.1, certPath p.2)) x.sslPorts ++ (sortFiles (modelFiles x)).map (·.1)
    let f6 := if sslText (genT (dropUnresolved s)) == sslText c then none else some "dropUnresolved changes the SSL part"
    let f7 := if sslText (genT (dropFreeHttp s)) == sslText c then none else some "dropFreeHttp changes the SSL part"
    let f8 := if NGF.PipelineTie.showConf (genT (eraseTls s)).http == NGF.PipelineTie.showConf c.http then none
              else some "eraseTls changes the plain-HTTP part"
    -- presented_cert_covers_sni / uncovered_sni_rejected on the names of the scenario
    let names := ((c.ssl.map (·.1.name)) ++ (gT.listeners.map (·.base.host))).eraseDups.filter fun n =>
      !n.isEmpty && !NGF.NginxEval.isWildName n && n != NGF.NginxEval.catchAll
    let ports := (gT.listeners.map (·.base.port)).eraseDups
    let f9 := ports.findSome? fun p => names.findSome? fun n =>
      match presented c p n with
      | some (some kp) =>
        if vs.any fun l => l.base.port == p && kpOf l == some kp && NGF.Hostname.covers l.base.host n then none
        else some s!"presented {p}/{String.ofList n}: key pair of no valid listener covering the name"
      | some none => none
      | none => if c.sslPorts.contains p then some "presented none on an ssl port" else none
    -- port_conflict_resolver_exact
    let inv := (pcRun gT.listeners).invalid
    let f10 := gT.listeners.findSome? fun l =>
      if !l.fieldsOK || inv.contains l == conflicted gT l then none
      else some s!"pcRun and conflicted disagree on listener {String.ofList l.base.name}"
    (c.ssl.length + c.keyPairs.length + vs.length + c.sslPorts.length + c.ssl.length + 3 + ports.length * names.length + gT.listeners.length,
      f1 <|> f2 <|> f3 <|> f4 <|> f5 <|> f6 <|> f7 <|> f8 <|> f9 <|> f10)

def statsOf (s : ScenarioT) (c : ConfT) : Stats :=
  match winnerT s with
  | none => {}
  | some gT =>
    let vs := sslListeners s gT
    let g := projGw (validHttps s) gT
    let https := gT.listeners.filter (·.https)
    let lo := listenerOnly g s.routes vs
    { httpListeners := (gT.listeners.filter (!·.https)).length
      httpsListeners := https.length
      validHttps := vs.length
      badRef := (https.filter (·.cert.isNone)).length
      conflictedL := (gT.listeners.filter fun l => l.fieldsOK && conflicted gT l).length
      resKinds := (https.map fun l => resName (resolution s gT l)).eraseDups
      sslServers := c.ssl.length
      listenerOnlyServers := lo.length
      sslLocs := (c.ssl.map fun p => p.1.locs.length).sum
      keyPairs := c.keyPairs.length
      sharedPorts := ((vs.map (·.base.port)).eraseDups.filter fun p => (vs.filter (·.base.port == p)).length ≥ 2).length
      contested := (c.ssl.filter fun p =>
        ((vs.filter fun l => l.base.port == p.1.port && (accHosts g s.routes l.base).contains p.1.name).length ≥ 2)).length }

def tieT (cfg : NGF.NginxEval.Config) (s : SScenario) (secrets : List Tls.SecretObj) (files : List (String × String)) : TieResult :=
  match toFragmentT s secrets with
  | .error e => { why := e }
  | .ok fs =>
    if !inFragmentT fs then { why := "inFragmentT (well-formedness / certificate namespace with '_')" }
    else
      let model := genT fs
      let (eq, diff) := match abstractConfT cfg with
        | .error e => (false, "real configuration not abstractable: " ++ e)
        | .ok real => match firstDiff (showReal real) (showModel model) with
          | none => (true, "")
          | some d => (false, d)
      let pems := files.filter fun f => f.1.startsWith "/etc/nginx/secrets/"
      let fd := filesDiff pems (modelFiles model)
      let (n, tf) := thmCheck fs model
      { inFragment := true, served := (winnerT fs).isSome, confEqual := eq, confDiff := diff,
        filesEqual := fd.isNone, filesDiff := fd.getD "", thmFail := tf.getD "", thmChecks := n, stats := statsOf fs model }

end NGF.PipelineTlsTie
