/-
Line-protocol helpers shared by the driver entry points (core-only: no Mathlib, no `import Lean`).
Fields are separated by single spaces inside a line; lists by ','; nested lists by '|'.
"-" denotes the empty list, "~" the empty list of lists. Undecodable input is reported as `bad-op`, never defaulted.
-/
namespace NGF.Proto

def splitOn (s : String) (sep : String) : List String := s.splitOn sep

def parseNatList (s : String) : Option (List Nat) :=
  if s == "-" || s == "" then some []
  else (s.splitOn ",").mapM String.toNat?

def showNatList (l : List Nat) : String :=
  if l.isEmpty then "-" else ",".intercalate (l.map toString)

def showNatLists (l : List (List Nat)) : String :=
  if l.isEmpty then "~" else "|".intercalate (l.map showNatList)

def parseNatLists (s : String) : Option (List (List Nat)) :=
  if s == "~" then some []
  else (s.splitOn "|").mapM parseNatList

/-- `key=value` lookup in a list of fields. -/
def field (fs : List String) (k : String) : Option String :=
  fs.findSome? fun f =>
    if f.startsWith (k ++ "=") then some ((f.drop (k.length + 1)).toString) else none

partial def forEachLine (h : IO.FS.Stream) (f : String → IO Unit) : IO Unit := do
  let line ← h.getLine
  if line.isEmpty then return ()
  let l := if line.back == '\n' then (line.dropEnd 1).toString else line
  f l
  forEachLine h f

end NGF.Proto
