/-
C02 on HTTPS listeners (pipeline level): the NGINX meaning of a `PipelineTls.ConfT` for a request that may arrive over
TLS (`nginxEvalConfT`), the Gateway API specification for such requests written independently of `genT` (`routeT`),
and the decidable side conditions of the refinement theorem `route_refines_spec_https` (Props/C02.lean).

NGINX (nginx/config/servers_template.go, `serversTemplateText`):
  * `listen p ssl default_server; ssl_reject_handshake on;` — one per port with a valid HTTPS listener (`ConfT.sslPorts`):
    the handshake is rejected when no `server_name` of the port stands for the SNI name (or no SNI is sent);
  * every server WITH `$s.SSL` carries `if ($ssl_server_name != $host) { return 421; }` — the default SSL server has
    neither that `if` nor a location;
  * the server is chosen by SNI for the handshake and by Host for the request (`selectName`, first of equal names);
    then locations exactly as for plain HTTP (`serverEval` = the tail of `Pipeline.nginxEvalConf`);
  * TLS to a plain port / plain HTTP to an SSL port: 400.
Specification (`routeT`; the decisions N1–N5 of Spec/GatewayAPI.lean): the single served Gateway (N1); a listener is valid
when its fields are, no listener of the other protocol group shares its port, and — HTTPS — its certificate reference
resolves (N2); nothing valid on the port: refused; the handshake fails without SNI or when no valid HTTPS listener of the
port covers the SNI name (N5); SNI ≠ Host: 421; otherwise the HTTP routing of `Pipeline.routeF` over the valid HTTPS
listeners. `hostDNS` mirrors graph/validation.go `validateHostname` (DNS-1123 subdomain, optional leading `*.`).
Core-only. Theorems: NGF/Props/C02.lean (helpers NGF/Proofs/PipelineTlsRefine.lean).
-/
import NGF.Model.PipelineTls
import NGF.Model.PipelineHyp

namespace NGF.PipelineTls
open NGF.Pipeline

/-! ### requests and outcomes -/

structure ReqT where
  tls : Bool
  /-- server name of the TLS handshake (`[]` = none sent) -/
  sni : Str
  req : Req
  deriving Repr

inductive OutcomeT
  /-- TLS handshake rejected -/
  | closed
  | plain (o : Outcome)
  deriving DecidableEq, Repr

/-! ### NGINX on a `ConfT` -/

/-- what a chosen server does with the request: the tail of `Pipeline.nginxEvalConf` -/
def serverEval (sv : CServer) (q : Req) : Outcome :=
  match NGF.NginxEval.selectLoc (sv.locs.map toLoc) q.path with
  | .loc l =>
    match sv.locs.find? (fun cl => cl.exact == l.exact && cl.path == l.path) with
    | some cl => evalLocAct q cl.act
    | none => .status 404
  | .autoRedirect _ => .status 301
  | .none => .status 404

/-- `$scheme` on a TLS connection is `https`: a `return … $scheme://…` of the generated configuration, evaluated for an
HTTPS request (`Pipeline.evalAct` reads `$scheme` as `http`, which is right for the plain-HTTP servers only) -/
def schemeAct : Act → Act
  | .redirect c none h p => .redirect c (some "https".toList) h p
  | a => a

def schemeLocAct : LocAct → LocAct
  | .direct a => .direct (schemeAct a)
  | .njs ms => .njs (ms.map fun p => (p.1, schemeAct p.2))

def schemeServer (sv : CServer) : CServer :=
  { sv with locs := sv.locs.map fun l => { l with act := schemeLocAct l.act } }

def sslServers (c : ConfT) (p : Nat) : List (CServer × Option (List Char)) := c.ssl.filter (·.1.port == p)

def sslNames (c : ConfT) (p : Nat) : List Str := (sslServers c p).map (·.1.name)

def nginxEvalConfT (c : ConfT) (q : ReqT) : OutcomeT :=
  if !q.tls then
    if c.sslPorts.contains q.req.port then .plain (.status 400) else .plain (nginxEvalConf c.http q.req)
  else if !c.sslPorts.contains q.req.port then
    if c.http.ports.contains q.req.port then .plain (.status 400) else .plain .refused
  else if q.sni.isEmpty then .closed                    -- no SNI: the default SSL server, `ssl_reject_handshake on`
  else
    match NGF.NginxEval.selectName (sslNames c q.req.port) q.sni with
    | none => .closed                                   -- default SSL server
    | some n =>
      match (sslServers c q.req.port).find? (·.1.name == n) with
      | none => .closed
      | some hs =>
        if hs.2.isNone then .closed                     -- a server without certificate cannot complete the handshake
        else
          match NGF.NginxEval.selectName (sslNames c q.req.port) q.req.host with
          | none => .plain (.status 404)                -- default SSL server: no `if`, no location
          | some m =>
            match (sslServers c q.req.port).find? (·.1.name == m) with
            | none => .plain (.status 404)
            | some sv =>
              if sv.2.isSome && q.sni != q.req.host then .plain (.status 421)
              else .plain (serverEval (schemeServer sv.1) q.req)

/-! ### the specification -/

/-- N2, fields: an HTTPS listener needs well-formed certificate references -/
def specFieldsOK (l : ListenerT) : Bool := !l.https || l.cert.isSome

/-- N2, protocol groups: a listener (with valid fields) of the other protocol on the same port -/
def specGroupConflict (g : GatewayT) (l : ListenerT) : Bool :=
  g.listeners.any fun o => specFieldsOK o && o.base.port == l.base.port && o.https != l.https

/-- N2, secret: the certificate reference resolves (ReferenceGrant, existence, type, key pair) -/
def specSecretOK (s : ScenarioT) (g : GatewayT) (l : ListenerT) : Bool :=
  decide (Tls.resolveRef s.grants s.secrets g.ns (certRefOf l) = .ok)

def specValid (s : ScenarioT) (g : GatewayT) (l : ListenerT) : Bool :=
  specFieldsOK l && !specGroupConflict g l && (!l.https || specSecretOK s g l)

/-- the cluster state restricted to the valid listeners of one protocol -/
def specScenario (https : Bool) (s : ScenarioT) : Scenario :=
  { cls := s.cls, ctlr := s.ctlr, classes := s.classes, routes := s.routes
    gateways := s.gateways.map fun g =>
      { ns := g.ns, name := g.name, cls := g.cls, age := g.age
        listeners := (g.listeners.filter fun l => l.https == https && specValid s g l).map (·.base) } }

/-- HTTPRequestRedirectFilter on an HTTPS listener: an empty scheme means the scheme of the request (`https`), and then
an empty port means the Gateway Listener port (`Pipeline.specAction` reads an empty scheme as `http`) -/
def tlsAction (listenerPort : Nat) : Action → Action
  | .redirect c none h p => .redirect c (some "https".toList) h (some (p.getD listenerPort))
  | a => a

def tlsRoutes (listenerPort : Nat) (routes : List Route) : List Route :=
  routes.map fun r => { r with rules := r.rules.map fun rule => { rule with action := tlsAction listenerPort rule.action } }

def routeT (s : ScenarioT) (q : ReqT) : OutcomeT :=
  match winnerT s with
  | none => .plain .refused
  | some g =>
    let valid := g.listeners.filter fun l => specValid s g l && l.base.port == q.req.port
    if valid.isEmpty then .plain .refused
    -- protocol mismatch (not a Gateway API matter; the full oracle calls these probes out of scope): 400
    else if valid.any (·.https) != q.tls then .plain (.status 400)
    else if !q.tls then .plain (routeF (specScenario false s) q.req)
    else if q.sni.isEmpty then .closed
    else if !(valid.any fun l => covers l.base.host q.sni) then .closed
    else if q.sni != q.req.host then .plain (.status 421)
    else .plain (routeF { specScenario true s with routes := tlsRoutes q.req.port s.routes } q.req)

/-! ### hostnames as the real validator accepts them -/

def alnumLower (c : Char) : Bool := c.isLower || c.isDigit

/-- `dns1123LabelFmt = [a-z0-9]([-a-z0-9]*[a-z0-9])?` -/
def labelOK (l : Str) : Bool :=
  !l.isEmpty && l.all (fun c => alnumLower c || c == '-') && (l.head?.map alnumLower).getD false &&
  (l.getLast?.map alnumLower).getD false

def splitDots : Str → List Str
  | [] => [[]]
  | c :: cs =>
    match splitDots cs with
    | [] => [[]]
    | h :: t => if c == '.' then [] :: h :: t else (c :: h) :: t

/-- `IsDNS1123Subdomain`: at most 253 characters, labels separated by dots -/
def subdomainOK (h : Str) : Bool := decide (h.length ≤ 253) && (splitDots h).all labelOK

/-- `validateHostname`: non-empty; `*.` + subdomain (IsWildcardDNS1123Subdomain, 253 in all) or a subdomain -/
def hostDNS (h : Str) : Bool :=
  !h.isEmpty && (if h.take 2 == ['*', '.'] then decide (h.length ≤ 253) && subdomainOK (h.drop 2) else subdomainOK h)

/-- every listener hostname (when present) and every route hostname passes `validateHostname` -/
def hostsDNS (s : Scenario) : Bool :=
  (s.routes.all fun r => r.hostnames.all hostDNS) &&
  s.gateways.all fun g => g.listeners.all fun l => l.host.isEmpty || hostDNS l.host

/-- the fragment with hostnames as the real validator accepts them: makes `namesPlain` redundant -/
def inFragmentDNS (s : Scenario) : Bool := inFragment s && hostsDNS s

/-! ### the side conditions of `route_refines_spec_https` -/

/-- excludes the known finding `C02:https-sni-covered-by-listener-but-no-server-closed`: when a valid HTTPS listener of
the port covers the SNI name, some generated SSL server name of the port stands for it -/
def sniServed (s : ScenarioT) (q : ReqT) : Bool :=
  match winnerT s with
  | none => true
  | some g =>
    !(g.listeners.any fun l => specValid s g l && l.https && l.base.port == q.req.port && covers l.base.host q.sni) ||
    (sslNames (genT s) q.req.port).any fun n => n == NGF.NginxEval.catchAll || n == q.sni || NGF.NginxEval.wildCovers n q.sni

/-- Listener Isolation (a SHOULD of Gateway.spec.listeners; the full oracle accepts both outcomes): the 404 server NGF
emits for an HTTPS listener WITHOUT routes isolates that listener's hostname from the routes of less specific listeners.
`routeT` is the non-isolated reading (as NGF implements it everywhere else), so the theorem excludes the requests on
which that server is selected although a routed server name also stands for the host. -/
def noRoutelessShadow (s : ScenarioT) (q : ReqT) : Bool :=
  let routed := ((gen (httpsPart s)).servers.filter (·.port == q.req.port)).map (·.name)
  match NGF.NginxEval.selectName (sslNames (genT s) q.req.port) q.req.host with
  | none => true
  | some n => routed.contains n ||
      !(routed.any fun m => m == NGF.NginxEval.catchAll || m == q.req.host || NGF.NginxEval.wildCovers m q.req.host)

/-- everything `route_refines_spec_https` asks of the scenario -/
def refineOKT (s : ScenarioT) : Bool :=
  inFragmentT s && hostsDNS (allPart s) && routesHaveRules (allPart s) &&
  noShadow (gen (httpPart s)) && noShadow (gen (httpsPart s))

/-- … and of the request -/
def reqOKT (s : ScenarioT) (q : ReqT) : Bool :=
  reqOK q.req && (!q.tls || (sniServed s q && noRoutelessShadow s q))

end NGF.PipelineTls
