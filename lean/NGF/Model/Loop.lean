/-
C10 — model of `internal/framework/events/loop.go` (`EventLoop.Start`, `swapBatches`).

The Go code has three parties: the loop goroutine (always parked at the `select`, because every
arm is non-blocking), one handler goroutine per started batch (`running`, then blocked on the
unbuffered `handlingDone <-` = `returned`), and producers (a send on the unbuffered `eventCh`
completes exactly when the loop takes the `case e := <-el.eventCh` arm).

State follows the Go variables one to one: the two backing arrays are two cells indexed by `cur`
(so that "the handler's slice is overwritten while it runs" is expressible), `handling` is the Go
local, `phase` says where the loop goroutine is (`select`, blocked in `<-handlingDone` after
`ctx.Done()`, or returned).  `log`, `seen`, `overlap` are ghost history.
-/
namespace NGF.Loop

abbrev Ev := Nat

inductive HState | idle | running | returned
  deriving DecidableEq, Repr

inductive Phase | select | draining | stopped
  deriving DecidableEq, Repr

structure Loop where
  cellF    : List Ev          -- backing array `false`
  cellT    : List Ev          -- backing array `true`
  cur      : Bool             -- which cell is `el.currentBatch`
  h        : HState
  handling : Bool
  phase    : Phase
  log      : List (List Ev)   -- ghost: batches handed to HandleEventBatch, oldest first
  seen     : List Ev          -- ghost: events received from eventCh, oldest first
  overlap  : Bool             -- ghost: a handler was started while another one had not finished
  deriving Repr

def Loop.cell (s : Loop) (b : Bool) : List Ev := if b then s.cellT else s.cellF
def Loop.current (s : Loop) : List Ev := s.cell s.cur
def Loop.next (s : Loop) : List Ev := s.cell (!s.cur)

def Loop.setCell (s : Loop) (b : Bool) (v : List Ev) : Loop :=
  if b then { s with cellT := v } else { s with cellF := v }

inductive Act
  | recv (e : Ev)   -- loop takes the eventCh arm
  | hreturn         -- HandleEventBatch returns; goroutine now blocked on `handlingDone <-`
  | ack             -- loop takes the handlingDone arm of the select
  | cancel          -- loop takes the ctx.Done() arm
  | drainack        -- loop, blocked in `<-handlingDone` after cancel, receives
  deriving DecidableEq, Repr

def init (first : List Ev) : Loop :=
  { cellF := first, cellT := [], cur := false, h := .running, handling := true,
    phase := .select, log := [first], seen := [], overlap := false }

/-- `swapBatches`: exchange the two slices, then truncate the new `nextBatch` to length 0. -/
def swap (s : Loop) : Loop :=
  let s1 := { s with cur := !s.cur }
  s1.setCell (!s1.cur) []

/-- `handleBatch` + `handling = true`: the goroutine is started with the *value* of currentBatch. -/
def start (s : Loop) : Loop :=
  { s with h := .running, handling := true, log := s.log ++ [s.current],
           overlap := s.overlap || (s.h != .idle) }

def swapAndHandle (s : Loop) : Loop := start (swap s)

def enabled (s : Loop) : Act → Bool
  | .recv _   => s.phase == .select
  | .hreturn  => s.h == .running
  | .ack      => s.phase == .select && s.h == .returned
  | .cancel   => s.phase == .select
  | .drainack => s.phase == .draining && s.h == .returned

def step (s : Loop) : Act → Loop
  | .recv e =>
      let s1 := (s.setCell (!s.cur) (s.next ++ [e]))
      let s2 := { s1 with seen := s1.seen ++ [e] }
      if s2.handling then s2 else swapAndHandle s2
  | .hreturn => { s with h := .returned }
  | .ack =>
      let s1 := { s with handling := false, h := .idle }
      if s1.next.length > 0 then swapAndHandle s1 else s1
  | .cancel =>
      if s.handling then { s with phase := .draining } else { s with phase := .stopped }
  | .drainack => { s with h := .idle, phase := .stopped }

/-- Run a schedule, skipping actions that are not enabled (a disabled action cannot happen). -/
def run (s : Loop) : List Act → Loop
  | [] => s
  | a :: as => if enabled s a then run (step s a) as else run s as

/-- A schedule is legal when each action is enabled where it is taken. -/
def Legal (s : Loop) : List Act → Prop
  | [] => True
  | a :: as => enabled s a = true ∧ Legal (step s a) as

end NGF.Loop
