/-
C04, field guards of the fragment: which predicate the REAL code enforces on every string of a `Pipeline.Scenario` that
flows into `Render.render (Render.genR s order)` (http.conf) or `Render.matchesOf` (matches.json), as executable Booleans over
the GENERATED validator regexes (Model/InjGuards: regenerated from /repo on every check, tied to the Go validators by the
`regex` correspondence stream).

field of the scenario            → where it is rendered                         Go validator (call site in state/graph)
  Listener.host                  → `server_name`                                validateHostname ← validateListenerHostname (gateway_listener.go)
  Route.hostnames                → `server_name`                                validateHostname ← validateHostnames ← buildHTTPRoute (route_common.go / httproute.go)
  Match.path                     → `location [=] <path>[/]`                     HTTPNJSMatchValidator.ValidatePathInMatch ← validatePathMatch ← validateMatch (httproute.go)
  Match.method/headers/query     → matches.json ONLY (never http.conf:           ValidateMethodInMatch / ValidateHeaderNameInMatch / ValidateHeaderValueInMatch /
                                   `render_ignores_conditions`)                  ValidateQueryParamNameInMatch / ValidateQueryParamValueInMatch ← validateMatch
  redirect scheme                → `return 30x "<scheme>://…"`                  HTTPRedirectValidator.ValidateRedirectScheme ← validateFilterRedirect (httproute.go)
  redirect hostname              → `return 30x "…://<host>…"`                   HTTPRedirectValidator.ValidateHostname (= validateEscapedStringNoVarExpansion) ← validateFilterRedirect
  Route.ns / Route.name          → `$group_<ns>__<name>_rule<i>` (split_clients, proxy_pass)
                                                                                 metadata.name/namespace: DNS-1123, enforced by the API server (NOT by NGF: assumption of C04)
  Backend.target                 → `proxy_pass http://<target>…`, split_clients  `<ns>_<service>_<port>` built by ServicePortReference from API-server validated names

`fieldsOK` is what the validators give; `noBackslash` is the additional region in which the printed word is read back
IDENTICALLY (ValidatePathInMatch and the redirect hostname validator accept backslashes: the directive structure is still
safe — Props/C04 `path_hole_safe`, `dquoted_hole_safe` — but the word NGINX sees is the unescaped one). `fieldsSafe` is the
purely lexical predicate (Model/Print `bareOK`/`dqOK`) the dataflow proof (Proofs/PrintFields) works with.
Core-only.
-/
import NGF.Model.Render
import NGF.Model.Print
import NGF.Model.InjGuards

namespace NGF.PrintGuards
open NGF.Pipeline NGF.Inj NGF.Print

/-- metadata.name / metadata.namespace as the API server accepts them (IsDNS1123Subdomain; a namespace is a DNS-1123
label, which is a subdomain) -/
def k8sNameOK (n : Str) : Bool := G.dnsSubdomainRe.test n

/-- an upstream name `<ns>_<service>_<port>`: the alphabet of DNS-1123 names, the `_` separators and the decimal port -/
def upstreamOK (t : Str) : Bool :=
  !t.isEmpty && t.all fun c => ('a' ≤ c && c ≤ 'z') || ('0' ≤ c && c ≤ '9') || c == '-' || c == '.' || c == '_'

def listenerOK (l : Listener) : Bool := l.host.isEmpty || validateHostname l.host

def actionOK : Action → Bool
  | .redirect _ scheme host _ => scheme.all validateRedirectScheme && host.all validateEscapedStringNoVarExpansion
  | .forward bs => bs.all fun b => !b.valid || upstreamOK b.target

def ruleOK (r : Rule) : Bool := (r.ms.all fun m => validatePathInMatch m.path) && actionOK r.action

/-- a route that configures anything (`valid`) has passed the validators -/
def routeOK (r : Route) : Bool :=
  !r.valid || (k8sNameOK r.ns && k8sNameOK r.name && r.hostnames.all validateHostname && r.rules.all ruleOK)

/-- every string that flows into http.conf satisfies the predicate its validator enforces -/
def fieldsOK (s : Scenario) : Bool :=
  (s.gateways.all fun g => g.listeners.all listenerOK) && s.routes.all routeOK

/-- the conditions of a match (they flow into matches.json only) -/
def condsOK (m : Match) : Bool :=
  (m.method.isEmpty || validateMethod m.method) &&
  (m.headers.all fun h => validateHeaderNameInMatch h.1 && validateNJSHeaderPart h.2) &&
  (m.query.all fun q => validateCommonNJSMatchPart q.1 && validateCommonNJSMatchPart q.2)

def matchCondsOK (s : Scenario) : Bool :=
  s.routes.all fun r => !r.valid || r.rules.all fun rule => rule.ms.all condsOK

def actionNoBackslash : Action → Bool
  | .redirect _ _ (some h) _ => !h.contains '\\'
  | _ => true

/-- no match path and no redirect hostname contains a backslash -/
def noBackslash (s : Scenario) : Bool :=
  s.routes.all fun r => !r.valid || r.rules.all fun rule =>
    (rule.ms.all fun m => !m.path.contains '\\') && actionNoBackslash rule.action

/-! ### the lexical form -/

def actionSafe : Action → Bool
  | .redirect _ scheme host _ => scheme.all dqOK && host.all dqOK
  | .forward bs => bs.all fun b => !b.valid || bareOK b.target

def ruleSafe (r : Rule) : Bool := (r.ms.all fun m => bareOK m.path) && actionSafe r.action

def routeSafe (r : Route) : Bool :=
  !r.valid || (r.ns.all tailChar && r.name.all tailChar && r.hostnames.all bareOK && r.rules.all ruleSafe)

def listenerSafe (l : Listener) : Bool := l.host.isEmpty || bareOK l.host

def fieldsSafe (s : Scenario) : Bool :=
  (s.gateways.all fun g => g.listeners.all listenerSafe) && s.routes.all routeSafe

/-! ### `$`: which scenario strings may carry one -/

def actionNoDollar : Action → Bool
  | .redirect _ scheme host _ => (scheme.all fun x => !x.contains '$') && (host.all fun x => !x.contains '$')
  | .forward bs => bs.all fun b => !b.valid || !b.target.contains '$'

/-- no guarded string except a match path contains `$` -/
def noDollarOutsidePaths (s : Scenario) : Bool :=
  (s.gateways.all fun g => g.listeners.all fun l => !l.host.contains '$') &&
  s.routes.all fun r => !r.valid ||
    (!r.ns.contains '$' && !r.name.contains '$' && (r.hostnames.all fun h => !h.contains '$') &&
     r.rules.all fun rule => actionNoDollar rule.action)

end NGF.PrintGuards
