/-
C07, fragment stage: route / Gateway status computed from the SAME `Pipeline.Scenario` that `Pipeline.gen` turns into
the NGINX configuration, following the Go code step by step, and handed to the existing model of status preparation
(`Model/StatusPrep`).

Go functions mirrored (file: function → here):
  graph/graph.go: BuildGraph (class exists but is not ours ⇒ empty graph; class missing ⇒ Gateway invalid) → `classState`, `graphGateway`
  graph/gateway.go: processGateways / GetAllNsNames → `ours` (+ `Pipeline.oldest`); buildGateway / validateGateway → `graphGateway`, `gatewayInvalid`
  graph/route_common.go: findGatewayForParentRef → `namesOurs`; buildSectionNameRefs → `sectionNameRefs`;
      findAttachableListeners → `attachable`; tryToAttachL7RouteToListeners (bind) → `bindOne`, `tryAttach`;
      validateParentRef + bindL7RouteToListeners → `attachment`, `boundListeners`
  graph/httproute.go: buildHTTPRoute / processHTTPRouteRules (all rules invalid ⇒ Accepted=False/UnsupportedValue) and
      graph/backend_refs.go: addBackendRefsToRules (one ResolvedRefs=False per invalid backendRef of a valid route) → `routeConds`
  status/prepare_requests.go: PrepareRouteRequests / prepareRouteStatus → `routeParentStatuses` (through `StatusPrep.prepareRouteStatus`);
      PrepareGatewayRequests / prepareGatewayRequest → `gatewayStatus`, `listenerStatuses`, `ignoredStatuses` (through `StatusPrep.prepareGateway`)
Fragment = that of Model/Pipeline (HTTP listeners, all valid and attachable, allowedRoutes Same/All without kinds; HTTPRoutes whose
hostnames are valid; parentRefs of kind Gateway without port). The reason of a ResolvedRefs=False condition depends on WHY a
backendRef is invalid (C06); `Pipeline.Backend` only has `valid`, so the model writes the reason `refsReason` and the
correspondence masks the reason of real ResolvedRefs=False conditions.
Core-only. Theorems: NGF/Props/C07Fragment.lean (helpers NGF/Proofs/PipelineStatus.lean).
-/
import NGF.Model.Pipeline
import NGF.Model.StatusPrep

namespace NGF.PipelineStatus
open NGF.Pipeline
open NGF.StatusPrep (Cond ApiCond Attachment ParentStatus GatewayStatus ListenerStatus)

/-! ### condition constructors used by binding (pinned to the source by `NGF.Generated.ConditionFacts`, see Props) -/

/-- `NewRouteNoMatchingParent` -/
def noMatchingParent : Cond := ⟨"Accepted", "False", "NoMatchingParent"⟩
/-- `NewRouteNotAcceptedGatewayIgnored` -/
def gatewayIgnored : Cond := ⟨"Accepted", "False", "GatewayIgnored"⟩
/-- `NewRouteInvalidGateway` -/
def invalidGateway : Cond := ⟨"Accepted", "False", "InvalidGateway"⟩
/-- `NewRouteInvalidListener` -/
def invalidListener : Cond := ⟨"Accepted", "False", "InvalidListener"⟩
/-- `NewRouteNotAllowedByListeners` -/
def notAllowedByListeners : Cond := ⟨"Accepted", "False", "NotAllowedByListeners"⟩
/-- `NewRouteNoMatchingListenerHostname` -/
def noMatchingListenerHostname : Cond := ⟨"Accepted", "False", "NoMatchingListenerHostname"⟩
/-- `NewRouteUnsupportedValue` -/
def routeUnsupportedValue : Cond := ⟨"Accepted", "False", "UnsupportedValue"⟩
/-- the reason written for an invalid backendRef (BackendNotFound / RefNotPermitted / InvalidKind / UnsupportedValue in the
code; not determined by `Backend.valid`) -/
def refsReason : String := "*"
/-- `NewRouteBackendRef…` -/
def refsUnresolved : Cond := ⟨"ResolvedRefs", "False", refsReason⟩
/-- `NewGatewayInvalid` -/
def gatewayInvalid : List Cond := [⟨"Accepted", "False", "Invalid"⟩, ⟨"Programmed", "False", "Invalid"⟩]
/-- the zero `conditions.Condition{}` of a successful attachment -/
def noCond : Cond := ⟨"", "", ""⟩

/-! ### which Gateway the graph is built for -/

/-- how the configured GatewayClass stands: `processGatewayClasses` returns (Winner, gcExists) -/
inductive ClassState
  /-- the class exists and names our controller -/
  | ours
  /-- the class exists but names another controller: `BuildGraph` returns the empty graph -/
  | foreign
  /-- no class of that name: the graph is built, the winning Gateway is invalid ("GatewayClass doesn't exist") -/
  | missing
  deriving DecidableEq, Repr

def classState (s : Scenario) : ClassState :=
  if classOurs s then .ours else if s.classes.any (·.name == s.cls) then .foreign else .missing

/-- `processGateways`: the Gateways whose `gatewayClassName` is the configured class (winner + ignored = `GetAllNsNames`) -/
def ours (s : Scenario) : List Gateway := s.gateways.filter (·.cls == s.cls)

/-- `graph.Gateway` as binding reads it: the winning Gateway and its `Valid` flag; `none` = no Gateway in the graph -/
def graphGateway (s : Scenario) : Option (Gateway × Bool) :=
  match classState s with
  | .foreign => none
  | .ours => (oldest (ours s)).map fun g => (g, true)
  | .missing => (oldest (ours s)).map fun g => (g, false)

/-- `Gateway.Listeners` of the graph: an invalid Gateway has none -/
def graphListeners (gw : Gateway) (gwValid : Bool) : List Listener := if gwValid then gw.listeners else []

/-! ### buildSectionNameRefs -/

def names (g : Gateway) (p : Parent) : Bool := p.ns == g.ns && p.name == g.name

/-- `findGatewayForParentRef`: the parentRef names one of the Gateways of our class -/
def namesOurs (s : Scenario) (p : Parent) : Bool := (ours s).any fun g => names g p

/-- `getSectionName`: nil ↦ "" -/
def secKey (p : Parent) : Str := p.sectionName.getD []

def dupFree {α} [BEq α] : List α → Bool
  | [] => true
  | x :: xs => !xs.contains x && dupFree xs

/-- `buildSectionNameRefs`: the parentRefs that name one of our Gateways, in parentRef order;
`none` = the error "duplicate section name" (two such parentRefs with the same Gateway and section name) -/
def sectionNameRefs (s : Scenario) (r : Route) : Option (List Parent) :=
  let refs := r.parents.filter (namesOurs s)
  if dupFree (refs.map fun p => (p.ns, p.name, secKey p)) then some refs else none

/-! ### binding one parentRef -/

/-- `findAttachableListeners` (every listener of the fragment is attachable): the listeners the parentRef selects and
whether the named listener exists -/
def attachable (ls : List Listener) (p : Parent) : List Listener × Bool :=
  if (secKey p).isEmpty then (ls, true)
  else
    match ls.find? (·.name == secKey p) with
    | some l => ([l], true)
    | none => ([], false)

/-- the closure `bind` of `tryToAttachL7RouteToListeners`: (allowed, attached). An HTTP listener without
`allowedRoutes.kinds` allows HTTPRoutes. -/
def bindOne (g : Gateway) (r : Route) (l : Listener) : Bool × Bool :=
  if !nsAllowed g l r then (false, false)
  else if (Hostname.accepted l.host r.hostnames).isEmpty then (true, false)
  else (true, true)

/-- `tryToAttachL7RouteToListeners`: (condition, attached); every listener of the fragment is valid, so a successful
attachment carries no condition -/
def tryAttach (g : Gateway) (r : Route) (ls : List Listener) : Cond × Bool :=
  if ls.isEmpty then (invalidListener, false)
  else
    let allowed := ls.any fun l => (bindOne g r l).1
    let attached := ls.any fun l => (bindOne g r l).2
    if !attached then
      if !allowed then (notAllowedByListeners, false) else (noMatchingListenerHostname, false)
    else (noCond, true)

/-- `validateParentRef` followed by the loop body of `bindL7RouteToListeners` (the route is attachable) -/
def attachment (gw : Gateway) (gwValid : Bool) (r : Route) (p : Parent) : Attachment :=
  let a := attachable (graphListeners gw gwValid) p
  if !a.2 then ⟨false, noMatchingParent⟩
  else if !names gw p then ⟨false, gatewayIgnored⟩
  else if !gwValid then ⟨false, invalidGateway⟩
  else
    let t := tryAttach gw r a.1
    ⟨t.2, t.1⟩

/-- the listeners whose `Routes` map receives the route through this parentRef (`l.Routes[rk] = route` in `bind`) -/
def boundListeners (gw : Gateway) (gwValid : Bool) (r : Route) (p : Parent) : List Listener :=
  let a := attachable (graphListeners gw gwValid) p
  if a.2 && names gw p && gwValid then a.1.filter fun l => (bindOne gw r l).2 else []

/-! ### route conditions -/

/-- `L7Route.Conditions` inside the fragment: an invalid route (all rules invalid) carries Accepted=False/UnsupportedValue and its
backendRefs are not looked at; a valid route gets one ResolvedRefs=False per invalid backendRef, in rule / ref order -/
def routeConds (r : Route) : List Cond :=
  if !r.valid then [routeUnsupportedValue]
  else r.rules.flatMap fun rule =>
    match rule.action with
    | .forward bs => (bs.filter fun b => !b.valid).map fun _ => refsUnresolved
    | .redirect _ _ _ _ => []

/-! ### route statuses -/

def str (x : Str) : String := String.ofList x

/-- `graph.ParentRef` with its attachment, as status preparation reads it -/
def toPrepRef (gw : Gateway) (gwValid : Bool) (r : Route) (p : Parent) : NGF.StatusPrep.ParentRef :=
  { gwNs := str p.ns, gwName := str p.name, sectionName := p.sectionName.map str,
    attachment := some (attachment gw gwValid r p) }

/-- the status entry of one parentRef -/
def parentStatus (s : Scenario) (gw : Gateway) (gwValid reloadErr : Bool) (gen : Int) (r : Route) (p : Parent) : ParentStatus :=
  NGF.StatusPrep.prepareParent (str s.ctlr) (routeConds r) reloadErr gen (toPrepRef gw gwValid r p)

/-- `RouteStatus.Parents` written for route `r` (`none` = no status request: the route is not in the graph).
`gen` is the route's `metadata.generation`. -/
def routeParentStatuses (s : Scenario) (reloadErr : Bool) (gen : Int) (r : Route) : Option (List ParentStatus) :=
  match graphGateway s with
  | none => none
  | some (gw, gwValid) =>
    match sectionNameRefs s r with
    -- "duplicate section name": the route stays in the graph without ParentRefs and without conditions
    | none => some []
    -- the route names none of our Gateways
    | some [] => none
    | some refs =>
      some (NGF.StatusPrep.prepareRouteStatus (str s.ctlr) (refs.map (toPrepRef gw gwValid r)) (routeConds r) reloadErr gen)

/-- reading an entry -/
def acceptedTrue (e : ParentStatus) : Bool := NGF.StatusPrep.hasCond e.conds "Accepted" "True"
def resolvedFalse (e : ParentStatus) : Bool := NGF.StatusPrep.hasCond e.conds "ResolvedRefs" "False"

/-! ### Gateway / listener statuses -/

/-- the routes in `Listener.Routes` of listener `l` (the scenario's routes have distinct keys, so this is the key set) -/
def listenerRoutes (s : Scenario) (gw : Gateway) (l : Listener) : List Route :=
  s.routes.filter fun r =>
    match sectionNameRefs s r with
    | some refs => refs.any fun p => (boundListeners gw true r p).any (· == l)
    | none => false

def routeKeyStr (r : Route) : String := "HTTPRoute/" ++ str r.ns ++ "/" ++ str r.name

/-- `graph.Gateway` as status preparation reads it; `gen` is the Gateway's generation -/
def toPrepGateway (s : Scenario) (gw : Gateway) (gwValid : Bool) (gen : Int) : NGF.StatusPrep.Gateway :=
  { ns := str gw.ns, name := str gw.name, gen := gen, valid := gwValid,
    conds := if gwValid then [] else gatewayInvalid,
    listeners := (graphListeners gw gwValid).map fun l =>
      { name := str l.name, valid := true, conds := [], routes := (listenerRoutes s gw l).map routeKeyStr, l4routes := [] } }

/-- the status of the winning Gateway -/
def gatewayStatus (s : Scenario) (reloadErr : Bool) (gen : Int) : Option GatewayStatus :=
  (graphGateway s).map fun gg => NGF.StatusPrep.prepareGateway (toPrepGateway s gg.1 gg.2 gen) reloadErr

def listenerStatuses (s : Scenario) (reloadErr : Bool) (gen : Int) : List ListenerStatus :=
  match gatewayStatus s reloadErr gen with
  | some g => g.listeners
  | none => []

/-- the Gateways of our class that lost (`processedGateways.Ignored`): they get Accepted/Programmed=False/GatewayConflict -/
def ignoredGateways (s : Scenario) : List Gateway :=
  match graphGateway s with
  | none => []
  | some (gw, _) => (ours s).filter fun g => !(g.ns == gw.ns && g.name == gw.name)

/-! ### what the correspondence and the theorems assume of a scenario beyond `Pipeline.inFragment` -/

/-- admissibility: a section name is never the empty string (CRD: minLength 1) -/
def parentsOK (r : Route) : Bool := r.parents.all fun p => p.sectionName != some []

/-- the known finding "duplicate parentRef" is excluded: among the parentRefs that name one of our Gateways no
(Gateway, section name) pair repeats (`buildSectionNameRefs` succeeds) -/
def noDupRefs (s : Scenario) (r : Route) : Bool := (sectionNameRefs s r).isSome

def statusOK (s : Scenario) : Bool := s.routes.all fun r => parentsOK r && noDupRefs s r

end NGF.PipelineStatus
