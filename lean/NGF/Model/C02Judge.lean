/-
The C02 judge: the property itself, evaluated on the REAL generated files.
  for every probe request q of a scenario s:   NginxEval (files) q  ≃  Spec.GatewayAPI.route strict s q
plus the probe-set construction (every hostname / path / condition mentioned and its near misses) and the
classification of a disagreement into a specific signature. Core-only (the JSON decoding is in the driver).
-/
import NGF.Model.NginxEval
import NGF.Spec.GatewayAPI

namespace NGF.C02
open NGF.Spec
abbrev S := NGF.Spec.GatewayAPI.Scenario
abbrev NOut := NGF.NginxEval.Outcome
abbrev SOut := NGF.Spec.GatewayAPI.Outcome
abbrev Req := NGF.Spec.GatewayAPI.Request

def toNReq (r : Req) : NGF.NginxEval.Request :=
  { port := r.port, tls := r.tls, sni := r.sni, host := r.host, path := r.path, method := r.method,
    headers := r.headers, query := r.query }

/-! ### comparison -/

/-- drop the default port of the scheme from a URL -/
def normURL (u : String) : String :=
  match u.splitOn "://" with
  | [scheme, rest] =>
    let authority := String.ofList (rest.toList.takeWhile (· != '/'))
    let tail := String.ofList (rest.toList.dropWhile (· != '/'))
    let a := if scheme == "http" && authority.endsWith ":80" then (authority.dropEnd 3).toString
             else if scheme == "https" && authority.endsWith ":443" then (authority.dropEnd 4).toString else authority
    scheme ++ "://" ++ a ++ tail
  | _ => u

/-- status a pure 100% `!code` distribution stands for -/
def pureStatus (d : List (String × Nat)) : Option Nat :=
  match d with
  | [(t, _)] => if t.startsWith "!" then (t.drop 1).toString.toNat? else none
  | _ => none

def sumFor (t : String) (d : List (String × Nat × Nat)) : Nat := (d.filter (·.1 == t)).foldl (fun a x => a + x.2.1) 0

/-- nginx shares (hundredths of a percent) against exact weights: every target within
`(#backends) × 0.01` percentage points (the floor-then-remainder rounding of split_clients, C15) -/
def distAgree (n : List (String × Nat)) (o : List (String × Nat × Nat)) : Bool :=
  let total := (o.head?.map (·.2.2)).getD 1
  let k := o.length + 1
  let targets := ((n.map (·.1)) ++ (o.map (·.1))).eraseDups
  targets.all fun t =>
    let nv := ((n.filter (·.1 == t)).foldl (fun a x => a + x.2) 0) * total
    let ov := 10000 * sumFor t o
    (if nv ≥ ov then nv - ov else ov - nv) ≤ k * total

def agree (n : NOut) (o : SOut) : Bool :=
  match n, o with
  | .refused, .refused => true
  | .closed, .closed => true
  | .status a, .status b => a == b
  | .redirect a u, .redirect b v => a == b && normURL u == normURL v
  | .passthrough a, .passthrough b => a == b
  | .proxy p d u, .proxy q e v =>
    -- gRPC requests carry no query string; the upstream URI of grpc_pass is not compared
    (p == q && (u == v || p == "grpc" || p == "grpcs") && distAgree d e) ||
    -- both are a plain status (500/503 helper upstreams)
    (match pureStatus d, e with
     | some c, [(t, _, _)] => t == "!" ++ toString c
     | _, _ => false)
  | .proxy _ d _, .status c => pureStatus d == some c
  | .status c, .proxy _ e _ => (match e with | [(t, _, _)] => t == "!" ++ toString c | _ => false)
  | _, _ => false

def nClass : NOut → String
  | .refused => "refused" | .closed => "closed" | .status c => "status" ++ toString c
  | .redirect c _ => "redirect" ++ toString c | .proxy p _ _ => "proxy-" ++ p | .passthrough _ => "passthrough"
  | .confError _ => "conferror"

def sClass : SOut → String
  | .refused => "refused" | .closed => "closed" | .status c => "status" ++ toString c
  | .redirect c _ => "redirect" ++ toString c | .proxy p _ _ => "proxy-" ++ p | .passthrough _ => "passthrough"
  | .outOfScope _ => "outofscope"

/-! ### probes -/

def dedup (l : List String) : List String := l.eraseDups

def hostProbes (h : String) : List String :=
  if h == "" then []
  else if h.startsWith "*." then
    let tail := (h.drop 2).toString         -- example.com
    ["a." ++ tail, "a.b." ++ tail, tail, "a" ++ tail]
  else
    let labels := h.splitOn "."
    let parent := ".".intercalate (labels.drop 1)
    [h, "x." ++ h, parent, "zz." ++ parent]

def pathProbes (p : String) : List String :=
  let base := if p.endsWith "/" && p != "/" then (p.dropEnd 1).toString else p
  [p, base, base ++ "/", base ++ "/x", base ++ "x"]

structure Combo where
  method : String
  headers : List (String × String)
  query : List (String × String)
  deriving BEq, Repr

def upper (x : String) : String := x.toUpper

def removeAt {α} (l : List α) (i : Nat) : List α := l.take i ++ l.drop (i + 1)

/-- requests around one match: all conditions satisfied, then one condition broken at a time, plus the
spelling variants the statement lists (header name case, duplicate header lines, repeated / reordered / case-changed
query parameters) -/
def combosOfMatch (kind : String) (m : GatewayAPI.Match) : List Combo :=
  let hs := m.headers.map fun h => (h.name, h.value)
  let qs := if kind == "GRPCRoute" then [] else m.query.map fun q => (q.name, q.value)
  let me := if kind == "GRPCRoute" then "POST" else if m.method == "" then "GET" else m.method
  let full : Combo := ⟨me, hs, qs⟩
  let other := if me == "GET" then "POST" else "GET"
  [full, ⟨other, hs, qs⟩] ++
  ((List.range hs.length).flatMap fun i =>
    let h := hs.getD i ("", "")
    [ ⟨me, removeAt hs i, qs⟩,
      ⟨me, (removeAt hs i) ++ [(upper h.1, h.2)], qs⟩,
      ⟨me, (removeAt hs i) ++ [(h.1, h.2 ++ "x")], qs⟩,
      ⟨me, (removeAt hs i) ++ [(h.1, upper h.2)], qs⟩,
      ⟨me, (removeAt hs i) ++ [(h.1, "zz"), (h.1, h.2)], qs⟩ ]) ++
  ((List.range qs.length).flatMap fun i =>
    let q := qs.getD i ("", "")
    [ ⟨me, hs, removeAt qs i⟩,
      ⟨me, hs, (removeAt qs i) ++ [(q.1, q.2 ++ "9")]⟩,
      ⟨me, hs, (removeAt qs i) ++ [(upper q.1, q.2)]⟩,
      ⟨me, hs, [(q.1, "zz")] ++ qs⟩,
      ⟨me, hs, [("other", "1")] ++ qs ++ [(q.1, "zz")]⟩ ])

def thin {α} (l : List α) (cap : Nat) : List α :=
  if l.length ≤ cap || cap == 0 then l
  else
    let stride := (l.length + cap - 1) / cap
    ((List.range l.length).zip l).filterMap fun (i, x) => if i % stride == 0 then some x else none

structure Probe where
  req : Req
  deriving Repr

def probes (s : S) (cap : Nat) : List Req :=
  let ourGws : List GatewayAPI.Gateway := s.gws.filter (·.cls == s.cls)
  let ports := ((ourGws.flatMap fun (g : GatewayAPI.Gateway) => g.listeners.map (fun (l : GatewayAPI.Listener) => l.port)) ++ [81]).eraseDups
  let hostsMentioned := dedup ((s.gws.flatMap fun (g : GatewayAPI.Gateway) => g.listeners.filterMap fun (l : GatewayAPI.Listener) => if l.hasHost then some l.host else none) ++
      (s.routes.flatMap (·.hostnames)))
  let hosts := dedup ((hostsMentioned.flatMap hostProbes) ++ ["unknown.test"])
  let httpRoutes := s.routes.filter fun r => r.kind != "TLSRoute"
  let pathsMentioned := dedup (httpRoutes.flatMap fun r => r.rules.flatMap fun ru => ru.matches_.flatMap fun m =>
      if r.kind == "GRPCRoute" then (if m.hasGm then ["/" ++ m.service ++ "/" ++ m.gmethod] else []) else [m.pvalue])
  let paths := dedup (["/", "/zzz"] ++ pathsMentioned.flatMap pathProbes)
  let allMatches : List GatewayAPI.Match := httpRoutes.flatMap fun r => if r.kind == "GRPCRoute" then [] else r.rules.flatMap (·.matches_)
  -- per path: the union of the conditions of all matches on it, under every method mentioned there (requests
  -- that satisfy several competing matches at once, so that only the precedence order decides)
  let unionCombos : List Combo := pathsMentioned.flatMap fun pa =>
    let ms := allMatches.filter (·.pvalue == pa)
    let hs := GatewayAPI.dedupHeaders (ms.flatMap fun m => m.headers.map fun h => (h.name, h.value))
    let qs := (ms.flatMap fun m => m.query.map fun q => (q.name, q.value)).foldl
      (fun (acc : List (String × String)) q => if acc.any (·.1 == q.1) then acc else acc ++ [q]) []
    let meths := ((ms.map (·.method)).filter (· != "") ++ ["GET"]).eraseDups
    meths.flatMap fun me => [⟨me, hs, qs⟩, ⟨me, hs, []⟩, ⟨me, [], qs⟩]
  let combos : List Combo := ((httpRoutes.flatMap fun r => r.rules.flatMap fun ru => ru.matches_.flatMap (combosOfMatch r.kind)) ++ unionCombos).eraseDups
  let base : Combo := ⟨"GET", [], []⟩
  let mk (port : Nat) (tls : Bool) (sni host path : String) (c : Combo) : Req :=
    { port := port, tls := tls, sni := sni, host := host, path := path, method := c.method, headers := c.headers, query := c.query }
  -- is the port a TLS port? (any secure listener of our gateways on it)
  let tlsPort (p : Nat) : Bool := ourGws.any fun g => g.listeners.any fun l => l.port == p && (l.proto == "HTTPS" || l.proto == "TLS")
  let plain := ports.flatMap fun p =>
    let tls := tlsPort p
    (hosts.flatMap fun h => paths.map fun pa => mk p tls (if tls then h else "") h pa base)
  let cond := ports.flatMap fun p =>
    let tls := tlsPort p
    (thin hosts 10).flatMap fun h => (pathsMentioned ++ pathsMentioned.map (· ++ "/x")).flatMap fun pa =>
      combos.map fun c => mk p tls (if tls then h else "") h pa c
  let sniMismatch := ports.flatMap fun p =>
    if tlsPort p then (thin hosts 6).flatMap fun h => [mk p true h "unknown.test" "/" base, mk p true "" h "/" base]
    else []
  thin plain (cap / 2) ++ thin cond (cap / 2) ++ sniMismatch

/-! ### judging one case -/

structure Failure where
  signature : String
  detail : String

def showReq (r : Req) : String :=
  s!"port={r.port} tls={r.tls} sni={r.sni} host={r.host} {r.method} {r.path} headers={r.headers} query={r.query}"

def candDesc (c : GatewayAPI.Cand) : String :=
  s!"{c.kind} {c.ns}/{c.name} rule{c.ruleIdx} match{c.matchIdx} host={c.host} {if c.exact then "Exact" else "Prefix"} {c.path}"

/-- what the strict reading selects (for the detail text and the classification) -/
def strictWinner (s : S) (r : Req) : Option GatewayAPI.Cand :=
  match GatewayAPI.winner s with
  | none => none
  | some g => (GatewayAPI.selectCand GatewayAPI.strict (GatewayAPI.portCands s g r.port) r).1

/-- the overlap test of the listener conflict resolver with the `*.` stripped before the suffix test
(`*.example.com` "overlaps" `example.com` and `badexample.com`) -/
def looseOverlap (a b : String) : Bool :=
  a == "" || b == "" || a == b || (a.startsWith "*." && b.endsWith (a.drop 2).toString) || (b.startsWith "*." && a.endsWith (b.drop 2).toString)

/-- a valid HTTPS/TLS listener of the request's port has a sibling of the other secure protocol whose hostname
overlaps only under the loose test -/
def looseOverlapOnPort (s : S) (port : Nat) : Bool :=
  match GatewayAPI.winner s with
  | none => false
  | some g =>
    let p1 := g.listeners.filter (GatewayAPI.listenerFieldsOK s)
    p1.any fun a => a.port == port && p1.any fun b =>
      b.port == port && a.proto != b.proto && GatewayAPI.secure a.proto && GatewayAPI.secure b.proto &&
      looseOverlap (GatewayAPI.hostOf a) (GatewayAPI.hostOf b) && !GatewayAPI.hostsOverlap (GatewayAPI.hostOf a) (GatewayAPI.hostOf b)

/-- the configuration with the gRPC rewrite `rewrite ^ $request_uri break;` removed from every location that does
not `grpc_pass` (what servers.go would emit if `initializeInternalLocation` received `rule.GRPC`) -/
partial def dropGrpcRewrite (ds : List NGF.Nginx.Dir) : List NGF.Nginx.Dir :=
  ds.map fun d =>
    match d with
    | .mk name args (some block) =>
      let isLoc := String.ofList name == "location"
      let hasGrpc := block.any fun x => String.ofList x.name == "grpc_pass"
      let block' := if isLoc && !hasGrpc then
          block.filter fun x => !(String.ofList x.name == "rewrite" && NGF.NginxEval.Dir.argS x == ["^", "$request_uri", "break"])
        else block
      .mk name args (some (dropGrpcRewrite block'))
    | x => x

def classify (cfg : NGF.NginxEval.Config) (s : S) (r : Req) (n0 : NOut) (o : SOut) : String :=
  -- the outcome with the gRPC rewrite taken out of the non-gRPC locations (servers.go passes the server-accumulated
  -- grpc flag to initializeInternalLocation); equal to `n0` when the configuration has no such location. If the
  -- disagreement disappears it is that defect; if another one remains it is classified on the repaired outcome.
  let n := NGF.NginxEval.evalRequest { cfg with http := dropGrpcRewrite cfg.http } (toNReq r)
  let _ := n0
  let lostInGrpcInternal : Bool := agree n o
  let w := strictWinner s r
  let viaReading (rd : GatewayAPI.Reading) : Bool := agree n (GatewayAPI.route rd s r).outcome
  let slashCase := match w with
    | some c => !c.exact && c.path.endsWith "/" && c.path == r.path ++ "/"
    | none => false
  let _ := cfg
  let internalLeak : Bool := match n with
    | .redirect _ u => decide ((u.splitOn "/_ngf-internal").length > 1)
    | _ => false
  -- the winner's (hostname, path, type) is shared with a rule of the other route kind
  let sharedPathOtherKind := match w, GatewayAPI.winner s with
    | some c, some g => (GatewayAPI.portCands s g r.port).any fun x =>
        x.host == c.host && x.path == c.path && x.exact == c.exact && x.kind != c.kind
    | _, _ => false
  -- a route that configures no rule (no rules at all, or only rules with unsupported matches) still gets `server` blocks
  -- for its accepted hostnames (`upsertRoute` creates `rulesPerHost[h]` before it looks at the rules): a request for such
  -- a hostname that a route with a LESS specific hostname serves is answered 404 by the empty server
  let rulelessCapture : Bool := match n, w, GatewayAPI.winner s with
    | .status 404, some c, some g =>
      (GatewayAPI.validListeners s g).any fun l => l.port == r.port && s.routes.any fun x =>
        (x.kind == "HTTPRoute" || x.kind == "GRPCRoute") && GatewayAPI.routeAccepted x &&
        !(x.rules.any (GatewayAPI.ruleMatchesOK x.kind)) &&
        (GatewayAPI.attachedHosts s g l x).any fun h =>
          GatewayAPI.covers h r.host && GatewayAPI.specificity h > GatewayAPI.specificity c.host
    | _, _, _ => false
  -- httpmatches.js compares a header match value with the comma-separated PIECES of the request header value, so a
  -- match value that itself contains a comma is never matched — not even by the identical header line
  let commaHeaderValue : Bool := match w with
    | some c => (GatewayAPI.dedupHeaders c.headers).any fun h => h.2.contains ','
    | none => false
  if looseOverlapOnPort s r.port then "C02:https-tls-listener-conflict-on-bare-suffix-overlap"
  else if lostInGrpcInternal then "C02:http-rule-in-server-with-grpc-rule-gets-grpc-internal-location"
  else if internalLeak then "C02:redirect-replace-prefix-in-internal-location-leaks-internal-uri"
  else if slashCase then "C02:prefix-with-trailing-slash-misses-bare-path"
  else if rulelessCapture then "C02:route-without-configured-rule-captures-its-hostnames"
  else if commaHeaderValue then "C02:header-match-value-with-comma-never-matches"
  else if viaReading { pathFirst := true } then "C02:no-fallback-to-less-specific-path-when-conditions-fail"
  else if viaReading { pathFirst := true, strictSlash := true } then "C02:no-fallback-to-less-specific-path-when-conditions-fail"
  else if viaReading { strictSlash := true } then "C02:prefix-with-trailing-slash-misses-bare-path"
  else
    let sameNameOtherKind := match w with
      | some c => s.routes.any fun x => x.ns == c.ns && x.name == c.name && x.kind != c.kind && x.kind != "TLSRoute"
      | none => false
    match n, o with
    | .proxy p _ u, .proxy q _ v =>
      if sameNameOtherKind && (u == v || p == "grpc") then "C02:http-grpc-same-name-share-backend-group"
      else if p != q then (if sharedPathOtherKind then "C02:http-and-grpc-rules-on-one-path-share-the-grpc-flag" else "C02:proxy-protocol-mismatch")
      else if u != v then "C02:upstream-uri-mismatch"
      else "C02:backend-distribution-mismatch"
    | .closed, .status 404 => if r.tls then "C02:https-sni-covered-by-listener-but-no-server-closed" else "C02:route-mismatch/status404->closed"
    | .closed, .status 421 => if r.tls then "C02:https-sni-covered-by-listener-but-no-server-closed" else "C02:route-mismatch/status421->closed"
    | _, _ => "C02:route-mismatch/" ++ sClass o ++ "->" ++ nClass n

structure Tally where
  probes : Nat := 0
  agreeN : Nat := 0
  ambiguous : Nat := 0
  outOfScope : Nat := 0
  confError : Nat := 0
  confErrorMsg : String := ""
  /-- probes on which the two hostname readings of DESIGN §8 differ -/
  hostReadingDiff : Nat := 0
  /-- outcome-class histogram of the oracle -/
  classes : List (String × Nat) := []
  failures : List Failure := []

def bump (h : List (String × Nat)) (k : String) : List (String × Nat) :=
  if h.any (·.1 == k) then h.map fun x => if x.1 == k then (x.1, x.2 + 1) else x else h ++ [(k, 1)]

def judgeCase (cfg : NGF.NginxEval.Config) (s : S) (cap : Nat) : Tally :=
  (probes s cap).foldl (fun (t : Tally) r =>
    let v := GatewayAPI.route GatewayAPI.strict s r
    let n := NGF.NginxEval.evalRequest cfg (toNReq r)
    let t := { t with probes := t.probes + 1, classes := bump t.classes (sClass v.outcome) }
    let alt := GatewayAPI.route { hostAsTiebreak := true } s r
    let t := if alt.outcome != v.outcome then { t with hostReadingDiff := t.hostReadingDiff + 1 } else t
    match n, v.outcome with
    | .confError m, _ =>
      -- an HTTPRoute and a GRPCRoute of one namespace/name share the backend-group key: the surviving group may not
      -- define the split_clients variable the other route's proxy_pass uses (NGINX then rejects the file)
      let sameName := s.routes.any fun a => a.kind == "HTTPRoute" && s.routes.any fun b => b.kind == "GRPCRoute" && a.ns == b.ns && a.name == b.name
      let sig := "C02:http-grpc-same-name-share-backend-group"
      if m.startsWith "variable $group_" && sameName then
        if t.failures.any (·.signature == sig) then t
        else { t with failures := t.failures ++ [⟨sig, s!"{showReq r} :: nginx={m} :: gateway-api={repr v.outcome}"⟩] }
      else { t with confError := t.confError + 1, confErrorMsg := m }
    | _, .outOfScope _ => { t with outOfScope := t.outOfScope + 1 }
    | _, _ =>
      if agree n v.outcome || v.alt.any (agree n) then { t with agreeN := t.agreeN + 1 }
      else if v.ambiguous then { t with ambiguous := t.ambiguous + 1 }
      else
        let sig := classify cfg s r n v.outcome
        if t.failures.any (·.signature == sig) then t
        else
          let w := match strictWinner s r with | some c => candDesc c | none => "none"
          { t with failures := t.failures ++ [⟨sig, s!"{showReq r} :: nginx={repr n} :: gateway-api={repr v.outcome} :: winner={w}"⟩] })
    {}

/-- a proxy whose whole distribution is one helper status is that status -/
def normN (n : NOut) : NOut :=
  match n with
  | .proxy _ d _ => (match pureStatus d with | some c => .status c | none => n)
  | _ => n

/-- metamorphic: the same probes on two configurations must give the same NGINX outcome -/
def judgeMeta (a b : NGF.NginxEval.Config) (s : S) (cap : Nat) : Nat × List Failure :=
  (probes s cap).foldl (fun (acc : Nat × List Failure) r =>
    let x := normN (NGF.NginxEval.evalRequest a (toNReq r))
    let y := normN (NGF.NginxEval.evalRequest b (toNReq r))
    if x == y then (acc.1 + 1, acc.2)
    else
      -- a difference between two runs that one of the order-dependent defects explains is reported under that
      -- defect's signature: at least one of the two configurations then disagrees with the oracle in that way
      let v := GatewayAPI.route GatewayAPI.strict s r
      let o := v.outcome
      let okx := agree x o || v.alt.any (agree x)
      let oky := agree y o || v.alt.any (agree y)
      let sx := if okx then "" else classify a s r x o
      let sy := if oky then "" else classify b s r y o
      -- both allowed by the specification (with / without Listener Isolation) but different: on an HTTPS port the
      -- flip is made by the listener's own 404 server, which exists only while no route is attached to the listener
      let isolationFlip : Bool := okx && oky && r.tls
      let orderDependent := ["C02:http-and-grpc-rules-on-one-path-share-the-grpc-flag", "C02:http-grpc-same-name-share-backend-group",
        "C02:http-rule-in-server-with-grpc-rule-gets-grpc-internal-location",
        -- an attached route without a configured rule removes the listener's 404 server (len(l.Routes) != 0)
        "C02:https-sni-covered-by-listener-but-no-server-closed"]
      -- the two runs differ only in proxy_pass vs grpc_pass and an HTTPRoute and a GRPCRoute rule share a path rule of
      -- a hostname covering the request: the map-order dependent flag
      let flagOnly : Bool := (match x, y with
        | .proxy p d _, .proxy q e _ => p != q && d == e
        | _, _ => false) &&
        (match GatewayAPI.winner s with
         | some g =>
           let cs := (GatewayAPI.portCands s g r.port).filter fun c => GatewayAPI.covers c.host r.host
           cs.any fun a => cs.any fun b => a.kind != b.kind && a.host == b.host && a.path == b.path && a.exact == b.exact
         | none => false)
      let sameName := s.routes.any fun a => a.kind == "HTTPRoute" && s.routes.any fun b => b.kind == "GRPCRoute" && a.ns == b.ns && a.name == b.name
      let groupVar (o : NOut) : Bool := match o with
        | .confError m => m.startsWith "variable $group_"
        | _ => false
      -- the difference disappears when the gRPC rewrite is taken out of the non-gRPC locations of both
      let xR := normN (NGF.NginxEval.evalRequest { a with http := dropGrpcRewrite a.http } (toNReq r))
      let yR := normN (NGF.NginxEval.evalRequest { b with http := dropGrpcRewrite b.http } (toNReq r))
      let sig := if xR == yR then "C02:http-rule-in-server-with-grpc-rule-gets-grpc-internal-location"
        else if isolationFlip then "C02:https-sni-covered-by-listener-but-no-server-closed"
        else if sameName && (groupVar x || groupVar y) then "C02:http-grpc-same-name-share-backend-group"
        else if flagOnly then "C02:http-and-grpc-rules-on-one-path-share-the-grpc-flag"
        else if orderDependent.contains sx then sx else if orderDependent.contains sy then sy else "C02:noise-changes-outcome"
      if acc.2.any (·.signature == sig) then (acc.1 + 1, acc.2)
      else (acc.1 + 1, acc.2 ++ [⟨sig, s!"{showReq r} :: without={repr x} :: with={repr y}"⟩])) (0, [])

end NGF.C02
