/-
C06 — model of ReferenceGrant resolution and of the places of the pipeline that consult it.

Modelled code (all in /repo/internal/mode/static):
* `state/graph/reference_grant.go`   `newReferenceGrantResolver`, `refAllowed`, `refAllowedFrom`,
                                     `toSecret`, `toService`, `fromGateway`, `fromHTTPRoute`, `fromGRPCRoute`, `fromTLSRoute`
* `state/graph/backend_refs.go`      `validateBackendRef`, `validateRouteBackendRef`, `validateWeight`,
                                     `getRefGrantFromResourceForRoute`, the `Valid` bit of `createBackendRef`,
                                     `BackendRef.ServicePortReference`
* `state/graph/tlsroute.go`          `validateBackendRefTLSRoute` (its call of `validateBackendRef`)
* `state/graph/gateway_listener.go`  `createExternalReferencesForTLSSecretsResolver` (namespace / grant part)
* `state/dataplane/configuration.go` `buildSSLKeyPairs` (which listeners contribute a key pair), `newBackendGroup`
* `nginx/config/split_clients.go`    `backendGroupName`, `getSplitClientValue`
* `state/store.go`, `change_processor.go`  what a ReferenceGrant event does to the change tracker and `Process`

The Go map `allowed map[allowedReference]struct{}` is modelled as the list of its keys; only membership
is ever used (`refAllowed_congr` in Props shows the answer depends on nothing else, hence not on the
iteration order of `refGrants`).
-/
namespace NGF.RefGrant

/-! ### Kubernetes objects (only the fields the code reads) -/

/-- `v1beta1.ReferenceGrantFrom` -/
structure GrantFrom where
  group : String
  kind  : String
  ns    : String
  deriving DecidableEq, Repr

/-- `v1beta1.ReferenceGrantTo`; `name = none` is the nil pointer -/
structure GrantTo where
  group : String
  kind  : String
  name  : Option String
  deriving DecidableEq, Repr

/-- `v1beta1.ReferenceGrant` -/
structure Grant where
  ns    : String
  name  : String
  froms : List GrantFrom
  tos   : List GrantTo
  deriving DecidableEq, Repr

/-! ### reference_grant.go -/

/-- `toResource` -/
structure ToRes where
  group : String
  kind  : String
  name  : String
  ns    : String
  deriving DecidableEq, Repr

/-- `fromResource` -/
structure FromRes where
  group : String
  kind  : String
  ns    : String
  deriving DecidableEq, Repr

/-- `allowedReference`: the key type of the map -/
structure AllowedRef where
  to  : ToRes
  frm : FromRes
  deriving DecidableEq, Repr

/-- `v1.GroupName` (pinned to the source by `NGF.Generated.RefGrantFacts`) -/
def gatewayGroup : String := "gateway.networking.k8s.io"

def toSecret (ns name : String) : ToRes := { group := "", kind := "Secret", name := name, ns := ns }
def toService (ns name : String) : ToRes := { group := "", kind := "Service", name := name, ns := ns }
def fromGateway (ns : String) : FromRes := { group := gatewayGroup, kind := "Gateway", ns := ns }
def fromHTTPRoute (ns : String) : FromRes := { group := gatewayGroup, kind := "HTTPRoute", ns := ns }
def fromGRPCRoute (ns : String) : FromRes := { group := gatewayGroup, kind := "GRPCRoute", ns := ns }
def fromTLSRoute (ns : String) : FromRes := { group := gatewayGroup, kind := "TLSRoute", ns := ns }

/-- `toGroup := string(to.Group); if toGroup == "core" { toGroup = "" }` -/
def normGroup (g : String) : String := if g = "core" then "" else g

/-- `toName := ""; if to.Name != nil { toName = string(*to.Name) }` -/
def toName (t : GrantTo) : String := t.name.getD ""

/-- the key built in the innermost loop of `newReferenceGrantResolver` -/
def keyOf (grantNs : String) (t : GrantTo) (f : GrantFrom) : AllowedRef :=
  { to  := { group := normGroup t.group, kind := t.kind, name := toName t, ns := grantNs }
    frm := { group := f.group, kind := f.kind, ns := f.ns } }

/-- keys contributed by one grant: `for to in Spec.To { for from in Spec.From { … } }` -/
def grantKeys (g : Grant) : List AllowedRef :=
  g.tos.flatMap fun t => g.froms.map fun f => keyOf g.ns t f

/-- `newReferenceGrantResolver`: the key set of `allowed` -/
def newResolver (gs : List Grant) : List AllowedRef := gs.flatMap grantKeys

/-- `refAllowed`: the specific key, then the key with group and name dropped -/
def refAllowed (allowed : List AllowedRef) (to : ToRes) (frm : FromRes) : Bool :=
  let specificKey : AllowedRef := { to := to, frm := frm }
  let allInNamespaceKey : AllowedRef :=
    { to := { group := "", kind := to.kind, name := "", ns := to.ns }, frm := frm }
  [specificKey, allInNamespaceKey].any fun k => allowed.contains k

/-- `refAllowedFrom` -/
def refAllowedFrom (allowed : List AllowedRef) (frm : FromRes) : ToRes → Bool :=
  fun to => refAllowed allowed to frm

/-! ### The declarative specification (what the property statement says) -/

/-- A `to` entry of a grant covers a target of the core group: group `""` or `"core"`, the
target's kind, and no name (nil or empty) or exactly the target's name. -/
def toCovers (t : GrantTo) (kind name : String) : Prop :=
  (t.group = "" ∨ t.group = "core") ∧ t.kind = kind ∧ (t.name = none ∨ t.name = some "" ∨ t.name = some name)

instance (t : GrantTo) (kind name : String) : Decidable (toCovers t kind name) := by
  unfold toCovers; exact inferInstance

/-- A `from` entry names the referrer: group, kind and namespace, all verbatim. -/
def fromNames (f : GrantFrom) (frm : FromRes) : Prop :=
  f.group = frm.group ∧ f.kind = frm.kind ∧ f.ns = frm.ns

instance (f : GrantFrom) (frm : FromRes) : Decidable (fromNames f frm) := by
  unfold fromNames; exact inferInstance

/-- SPEC: a reference from `frm` to the core-group object `(kind, ns, name)` is permitted iff some
ReferenceGrant *in the target's namespace* has a `from` naming the referrer and a `to` covering the target. -/
def Permitted (gs : List Grant) (kind ns name : String) (frm : FromRes) : Prop :=
  ∃ g ∈ gs, g.ns = ns ∧ (∃ f ∈ g.froms, fromNames f frm) ∧ (∃ t ∈ g.tos, toCovers t kind name)

/-- executable form of `Permitted`, used by the judge -/
def permittedB (gs : List Grant) (kind ns name : String) (frm : FromRes) : Bool :=
  gs.any fun g => decide (g.ns = ns) && g.froms.any (fun f => decide (fromNames f frm)) &&
    g.tos.any (fun t => decide (toCovers t kind name))

/-! ### backend_refs.go -/

/-- `gatewayv1.BackendRef` + `len(RouteBackendRef.Filters)` -/
structure BackendRef where
  group    : Option String
  kind     : Option String
  ns       : Option String
  name     : String
  port     : Option Nat
  weight   : Option Int
  nfilters : Nat
  deriving DecidableEq, Repr

/-- outcome of `validateBackendRef` / `validateRouteBackendRef`: valid, or the reason of the condition -/
inductive Verdict
  | ok | invalidKind | refNotPermitted | unsupportedValue
  deriving DecidableEq, Repr

def Verdict.reason : Verdict → String
  | .ok => "" | .invalidKind => "InvalidKind" | .refNotPermitted => "RefNotPermitted"
  | .unsupportedValue => "UnsupportedValue"

/-- `validateWeight` -/
def weightOK (w : Int) : Bool := decide (0 ≤ w) && decide (w ≤ 1000000)

/-- `validateBackendRef` (same order of checks) -/
def validateBackendRef (ref : BackendRef) (routeNs : String) (allowed : ToRes → Bool) : Verdict :=
  if (match ref.group with | some g => !(g == "core" || g == "") | none => false) then .invalidKind
  else if (match ref.kind with | some k => k != "Service" | none => false) then .invalidKind
  else if (match ref.ns with
           | some n => n != routeNs && !allowed (toService n ref.name)
           | none => false) then .refNotPermitted
  else if ref.port.isNone then .unsupportedValue
  else if (match ref.weight with | some w => !weightOK w | none => false) then .unsupportedValue
  else .ok

/-- `validateRouteBackendRef` -/
def validateRouteBackendRef (ref : BackendRef) (routeNs : String) (allowed : ToRes → Bool) : Verdict :=
  if ref.nfilters > 0 then .unsupportedValue else validateBackendRef ref routeNs allowed

inductive RouteKind | http | grpc | tls
  deriving DecidableEq, Repr

/-- `getRefGrantFromResourceForRoute` (HTTP, GRPC) and the `fromTLSRoute` of `buildL4RoutesForGateways` -/
def fromRoute : RouteKind → String → FromRes
  | .http, ns => fromHTTPRoute ns
  | .grpc, ns => fromGRPCRoute ns
  | .tls,  ns => fromTLSRoute ns

/-- the first decision of `createBackendRef` (L7) / `validateBackendRefTLSRoute` (L4): what the
validators say about a backendRef of a route of `kind` in `routeNs`, given the grants of the store. -/
def routeRefVerdict (gs : List Grant) (kind : RouteKind) (routeNs : String) (ref : BackendRef) : Verdict :=
  let f := refAllowedFrom (newResolver gs) (fromRoute kind routeNs)
  match kind with
  | .tls => validateBackendRef ref routeNs f
  | _    => validateRouteBackendRef ref routeNs f

/-- the namespace the backend is looked up in (`createBackendRef`: `ns := sourceNamespace; if ref.Namespace != nil …`) -/
def refNs (ref : BackendRef) (routeNs : String) : String := ref.ns.getD routeNs

/-- `graph.BackendRef` as far as the data plane reads it -/
structure GBackendRef where
  valid  : Bool
  svcNs  : String
  svcName : String
  port   : Nat
  weight : Int
  deriving DecidableEq, Repr

/-- `BackendRef.ServicePortReference` -/
def servicePortReference (b : GBackendRef) : String :=
  if !b.valid then "" else s!"{b.svcNs}_{b.svcName}_{b.port}"

/-- `createBackendRef`, as far as it depends on the reference check: an invalid verdict yields an
invalid `BackendRef`; a valid one yields a ref whose validity is decided by the later stages
(service lookup, IP family, BackendTLSPolicy), represented by `later`. -/
def createBackendRef (gs : List Grant) (kind : RouteKind) (routeNs : String) (ref : BackendRef)
    (later : Bool) (svcPort : Nat) (weight : Int) : GBackendRef :=
  match routeRefVerdict gs kind routeNs ref with
  | .ok => { valid := later, svcNs := refNs ref routeNs, svcName := ref.name, port := svcPort, weight := weight }
  | _   => { valid := false, svcNs := "", svcName := "", port := 0, weight := weight }

/-! ### dataplane + nginx/config: where an invalid backend ends up -/

/-- `nginx/config/upstreams.go: invalidBackendRef` (pinned by the generated facts) -/
def invalidBackendRef : String := "invalid-backend-ref"

/-- `dataplane.Backend` -/
structure Backend where
  upstream : String
  valid    : Bool
  weight   : Int
  deriving DecidableEq, Repr

/-- element of `newBackendGroup` -/
def toBackend (b : GBackendRef) : Backend :=
  { upstream := servicePortReference b, valid := b.valid, weight := b.weight }

/-- `backendGroupName` -/
def backendGroupName (groupName : String) : List Backend → String
  | [] => invalidBackendRef
  | [b] => if b.weight == 0 || !b.valid then invalidBackendRef else b.upstream
  | _ => groupName

/-- `getSplitClientValue` -/
def splitClientValue (b : Backend) : String := if b.valid then b.upstream else invalidBackendRef

/-- every upstream name a location of this backend group can send traffic to -/
def groupTargets (groupName : String) (bs : List Backend) : List String :=
  match bs with
  | [] | [_] => [backendGroupName groupName bs]
  | _ => bs.map splitClientValue

/-! ### gateway_listener.go: certificate references -/

/-- `gatewayv1.SecretObjectReference` (namespace and name; kind/group are checked by a validator before) -/
structure CertRef where
  ns   : Option String
  name : String
  deriving DecidableEq, Repr

inductive CertVerdict
  | refNotPermitted                    -- listener invalid, RefNotPermitted conditions, no secret lookup
  | resolve (ns name : String)         -- permitted: the secret resolver is asked for ns/name
  deriving DecidableEq, Repr

/-- the namespace / grant part of `createExternalReferencesForTLSSecretsResolver` (first certificateRef) -/
def certRefVerdict (gs : List Grant) (gwNs : String) (c : CertRef) : CertVerdict :=
  let certRefNs := c.ns.getD gwNs
  if certRefNs != gwNs && !refAllowed (newResolver gs) (toSecret certRefNs c.name) (fromGateway gwNs)
  then .refNotPermitted else .resolve certRefNs c.name

/-- `graph.Listener` as far as `buildSSLKeyPairs` reads it -/
structure GListener where
  valid  : Bool
  secret : Option (String × String)
  deriving DecidableEq, Repr

/-- the listener produced by the external-reference resolver; `otherValid` = verdict of the other
validators / conflict resolvers, `secretOK` = the secret resolver accepted ns/name -/
def resolveListener (gs : List Grant) (gwNs : String) (c : CertRef) (otherValid secretOK : Bool) : GListener :=
  match certRefVerdict gs gwNs c with
  | .refNotPermitted => { valid := false, secret := none }
  | .resolve ns name => if secretOK then { valid := otherValid, secret := some (ns, name) }
                        else { valid := false, secret := none }

/-- `buildSSLKeyPairs`: the secrets whose bytes reach the data plane -/
def sslKeyPairs (ls : List GListener) : List (String × String) :=
  ls.filterMap fun l => if l.valid then l.secret else none

/-! ### store.go / change_processor.go: ReferenceGrant events -/

inductive ChangeType | noChange | endpointsOnly | clusterState
  deriving DecidableEq, Repr

/-- events as the change processor sees them; everything that is not a ReferenceGrant is abstracted
to what it does to the tracker (`changed` = result of its predicate, `endpoints` = it is an EndpointSlice) -/
inductive Ev
  | upsertGrant (g : Grant)
  | deleteGrant (ns name : String)
  | other (changed endpoints : Bool)
  | process
  deriving DecidableEq, Repr

structure Store where
  grants     : List Grant          -- clusterState.ReferenceGrants (unique by ns/name)
  changeType : ChangeType
  graphGrants : Option (List Grant) -- the grants the latest graph was built from (`none`: no graph yet)
  deriving DecidableEq, Repr

def Store.init : Store := { grants := [], changeType := .noChange, graphGrants := none }

def sameKey (ns name : String) (g : Grant) : Bool := decide (g.ns = ns) && decide (g.name = name)

/-- `setChangeType` -/
def setChangeType (c : ChangeType) (changed endpoints : Bool) : ChangeType :=
  if changed && c != .clusterState then (if endpoints then .endpointsOnly else .clusterState) else c

/-- `changeTrackingUpdater.Upsert/Delete` for the ReferenceGrant kind (persisted, no predicate) and
`ChangeProcessorImpl.Process` (rebuilds unless `NoChange`; `BuildGraph` makes a fresh resolver). -/
def stepStore (s : Store) : Ev → Store
  | .upsertGrant g =>
    { s with grants := g :: s.grants.filter (fun x => !sameKey g.ns g.name x)
             changeType := setChangeType s.changeType true false }
  | .deleteGrant ns name =>
    if s.grants.any (sameKey ns name) then
      { s with grants := s.grants.filter (fun x => !sameKey ns name x)
               changeType := setChangeType s.changeType true false }
    else { s with changeType := setChangeType s.changeType false false }
  | .other changed endpoints => { s with changeType := setChangeType s.changeType changed endpoints }
  | .process =>
    if s.changeType = .noChange then s
    else { s with changeType := .noChange, graphGrants := some s.grants }

def runStore (s : Store) : List Ev → Store
  | [] => s
  | e :: es => runStore (stepStore s e) es

/-- the answer the latest graph's resolver gives (what the served configuration was built with) -/
def graphAllows (s : Store) (to : ToRes) (frm : FromRes) : Bool :=
  match s.graphGrants with
  | none => false
  | some gs => refAllowed (newResolver gs) to frm

end NGF.RefGrant
