/-
C06 (deepening round) — backend reference resolution and ReferenceGrants INSIDE the pipeline model.

`ScenarioR` is the fragment scenario of `NGF.Pipeline` (Model/Pipeline.lean) whose rules carry the backendRefs as
written in the HTTPRoute (`RefGrant.BackendRef`: group?, kind?, namespace?, name, port?, weight?, #filters) together with
the cluster's Services (namespace, name, `spec.ports[].port` in order) and ReferenceGrants (`RefGrant.Grant`).
`resolve : ScenarioR → Pipeline.Scenario` follows

  graph/backend_refs.go: addBackendRefsToRouteRules / addBackendRefsToRules   → `resolveRoute`, `resolveAction`
                         createBackendRef (weight; validateRouteBackendRef → validateBackendRef with
                         `refGrantResolver.refAllowedFrom(fromHTTPRoute(routeNs))`; namespace defaulting;
                         getIPFamilyAndPortFromRef → services[svcNsName], getServicePort)          → `resolveRef`
                         BackendRef.ServicePortReference                                           → `RefGrant.servicePortReference`
  dataplane/configuration.go: newBackendGroup (UpstreamName, Weight, Valid)                        → `toPBackend`

so that `Pipeline.gen (resolve c)` is the abstract NGINX configuration of the cluster `c`. The resolver, the
validators and `createBackendRef`'s validity bit are the ones of Model/RefGrant.lean (`routeRefVerdict`,
`createBackendRef`), not a copy.

OUTSIDE the model (absent from the fragment, stated as such): BackendTLSPolicy lookup and
`validateBackendTLSPolicyMatchingAllBackends`, the Service appProtocol, `verifyIPFamily` (no NginxProxy in the fragment ⇒
it returns nil), GRPCRoutes/TLSRoutes (the fragment has HTTPRoutes only), rules with both a RequestRedirect filter and
backendRefs. Core-only. Theorems: NGF/Props/C06.lean §8, NGF/Props/C01Refs.lean (helpers NGF/Proofs/PipelineRefs.lean).
-/
import NGF.Model.Pipeline
import NGF.Model.RefGrant

namespace NGF.PipelineRefs
open NGF.Pipeline
open NGF.RefGrant (Grant BackendRef GBackendRef)

/-! ### cluster objects -/

/-- a `v1.Service` as far as `getIPFamilyAndPortFromRef` / `getServicePort` read it in the fragment -/
structure Service where
  ns : String
  name : String
  /-- `spec.ports[i].port`, in order -/
  ports : List Nat
  deriving DecidableEq, Repr

inductive ActionR
  /-- RequestRedirect filter (no backendRefs) -/
  | redirect (code : Nat) (scheme : Option Str) (host : Option Str) (port : Option Nat)
  /-- `rule.RouteBackendRefs` -/
  | forward (refs : List BackendRef)
  deriving DecidableEq, Repr

structure RuleR where
  ms : List Match
  action : ActionR
  deriving DecidableEq, Repr

structure RouteR where
  ns : String
  name : String
  age : Int
  parents : List Parent
  hostnames : List Str
  rules : List RuleR
  valid : Bool
  deriving DecidableEq, Repr

structure ScenarioR where
  cls : Str
  ctlr : Str
  classes : List GwClass
  gateways : List Gateway
  routes : List RouteR
  /-- `clusterState.Services` (a map: at most one entry per namespace/name is ever looked at — the first) -/
  services : List Service
  /-- `clusterState.ReferenceGrants` -/
  grants : List Grant
  deriving Repr

/-! ### graph: createBackendRef -/

/-- `weight := int32(1); if ref.Weight != nil { if validateWeight(*ref.Weight) != nil { weight = 0 } else { weight = *ref.Weight } }` -/
def refWeight (ref : BackendRef) : Int :=
  match ref.weight with
  | none => 1
  | some w => if RefGrant.weightOK w then w else 0

/-- `services[svcNsName]` -/
def lookupSvc (svcs : List Service) (ns name : String) : Option Service :=
  svcs.find? fun s => s.ns == ns && s.name == name

/-- `getServicePort`: the first `spec.ports` entry with this port number (its `.Port` is the number itself) -/
def getServicePort (svc : Service) (port : Nat) : Option Nat := svc.ports.find? (· == port)

/-- `getIPFamilyAndPortFromRef` (port part): Service lookup in the defaulted namespace, then the port lookup; `none` =
BackendNotFound. (`*ref.Port` is non-nil after `validateBackendRef`.) -/
def findPort (svcs : List Service) (routeNs : String) (ref : BackendRef) : Option Nat :=
  match lookupSvc svcs (RefGrant.refNs ref routeNs) ref.name with
  | none => none
  | some svc =>
    match ref.port with
    | none => none
    | some p => getServicePort svc p

/-- `createBackendRef` for a backendRef of an HTTPRoute in `routeNs`: the reference check of Model/RefGrant
(`routeRefVerdict … .http`) decides first; the later stage (`later`) is the Service/port lookup; on failure the
ServicePort stays the zero value. -/
def resolveRef (gs : List Grant) (svcs : List Service) (routeNs : String) (ref : BackendRef) : GBackendRef :=
  let found := findPort svcs routeNs ref
  RefGrant.createBackendRef gs .http routeNs ref found.isSome (found.getD 0) (refWeight ref)

/-! ### dataplane: newBackendGroup -/

/-- `Backend{UpstreamName: ref.ServicePortReference(), Weight: ref.Weight, Valid: ref.Valid}` -/
def toPBackend (b : GBackendRef) : Backend :=
  { target := (RefGrant.servicePortReference b).toList, weight := b.weight.toNat, valid := b.valid }

def resolveAction (gs : List Grant) (svcs : List Service) (routeNs : String) : ActionR → Action
  | .redirect code scheme host port => .redirect code scheme host port
  | .forward refs => .forward (refs.map fun ref => toPBackend (resolveRef gs svcs routeNs ref))

def resolveRule (gs : List Grant) (svcs : List Service) (routeNs : String) (ru : RuleR) : Rule :=
  { ms := ru.ms, action := resolveAction gs svcs routeNs ru.action }

def resolveRoute (gs : List Grant) (svcs : List Service) (r : RouteR) : Route :=
  { ns := r.ns.toList, name := r.name.toList, age := r.age, parents := r.parents, hostnames := r.hostnames,
    rules := r.rules.map (resolveRule gs svcs r.ns), valid := r.valid }

/-- the graph's view of the cluster: every backendRef resolved -/
def resolve (c : ScenarioR) : Scenario :=
  { cls := c.cls, ctlr := c.ctlr, classes := c.classes, gateways := c.gateways,
    routes := c.routes.map (resolveRoute c.grants c.services) }

/-- the route as the attachment code sees it: nothing of it depends on grants or Services -/
def shell (r : RouteR) : Route := resolveRoute [] [] r

/-- accepted hostnames of the route at a listener (`[]` = not attached there) -/
def acceptedAtR (g : Gateway) (l : Listener) (r : RouteR) : List Str := acceptedAt g l (shell r)

/-- the route is valid and attached to some listener of the Gateway: only such routes configure anything -/
def attached (g : Gateway) (r : RouteR) : Bool := r.valid && g.listeners.any fun l => !(acceptedAtR g l r).isEmpty

/-- the generated (abstract) NGINX configuration of the cluster -/
def genR (c : ScenarioR) : Conf := gen (resolve c)

/-! ### reading a `Conf`: where traffic can go -/

def locActs : LocAct → List Act
  | .direct a => [a]
  | .njs ms => ms.map (·.2)

/-- every action some location (external or internal) of the configuration can take -/
def confActs (c : Conf) : List Act := c.servers.flatMap fun sv => sv.locs.flatMap fun l => locActs l.act

def actTargets : Act → List (Str × Nat)
  | .proxy d => d
  | _ => []

/-- every (upstream name, share in hundredths of a percent) some location proxies to, directly or through split_clients -/
def confTargets (c : Conf) : List (Str × Nat) := (confActs c).flatMap actTargets

/-- the upstream name of a Service port (`ServicePortReference` of a valid ref), as characters -/
def upstreamOf (ns name : String) (port : Nat) : Str :=
  (RefGrant.servicePortReference { valid := true, svcNs := ns, svcName := name, port := port, weight := 1 }).toList

/-! ### graph/service.go: buildReferencedServices (the `Graph.IsReferenced` reading for Services) -/

/-- `belongsToWinningGw`: some parentRef names the winning Gateway (whatever the section) -/
def belongsTo (g : Gateway) (r : RouteR) : Bool := r.parents.any fun p => p.ns == g.ns && p.name == g.name

/-- `SvcNsName` of the graph backendRefs of one route: set once `validateRouteBackendRef` passed (even if the Service
or the port is missing), empty otherwise -/
def routeSvcNames (gs : List Grant) (r : RouteR) : List (String × String) :=
  r.rules.flatMap fun ru =>
    match ru.action with
    | .redirect .. => []
    | .forward refs => refs.filterMap fun ref =>
        if RefGrant.routeRefVerdict gs .http r.ns ref = .ok then some (RefGrant.refNs ref r.ns, ref.name) else none

/-- `buildReferencedServices`: valid routes that belong to the winning Gateway -/
def referencedServices (c : ScenarioR) : List (String × String) :=
  match winner (resolve c) with
  | none => []
  | some g => (c.routes.filter fun r => r.valid && belongsTo g r).flatMap (routeSvcNames c.grants)

/-- the Service store after an upsert / a delete of `ns/name` -/
def upsertSvc (svcs : List Service) (s : Service) : List Service :=
  s :: svcs.filter fun x => !(x.ns == s.ns && x.name == s.name)

def deleteSvc (svcs : List Service) (ns name : String) : List Service :=
  svcs.filter fun x => !(x.ns == ns && x.name == name)

/-! ### specification vocabulary (what the property theorems of Props/C06 §8 say) -/

open NGF.RefGrant (Permitted fromHTTPRoute refNs toCovers fromNames FromRes) in
/-- WHY an upstream name may appear in the configuration of `c`: the served Gateway has a valid attached route with a rule
one of whose backendRefs names a Service (namespace defaulted to the route's) that exists and has that port — and the
reference stays in the route's namespace or is permitted by the declarative spec `RefGrant.Permitted`. -/
def Justified (c : ScenarioR) (t : Str) : Prop :=
  ∃ g, winner (resolve c) = some g ∧ ∃ r ∈ c.routes, attached g r = true ∧ ∃ ru ∈ r.rules, ∃ refs,
    ru.action = .forward refs ∧ ∃ ref ∈ refs, ∃ port,
      t = upstreamOf (refNs ref r.ns) ref.name port ∧ ref.port = some port ∧
      (∃ svc ∈ c.services, svc.ns = refNs ref r.ns ∧ svc.name = ref.name ∧ port ∈ svc.ports) ∧
      (refNs ref r.ns = r.ns ∨ Permitted c.grants "Service" (refNs ref r.ns) ref.name (fromHTTPRoute r.ns))

open NGF.RefGrant (toCovers fromNames FromRes) in
/-- one grant permits the reference -/
def grantPermits (g : Grant) (kind ns name : String) (frm : FromRes) : Bool :=
  decide (g.ns = ns) && g.froms.any (fun f => decide (fromNames f frm)) && g.tos.any (fun t => decide (toCovers t kind name))

/-! ### names -/

/-- Kubernetes names (DNS-1123) contain no `_`: then `ns_name_port` identifies (ns, name) -/
def noUnderscore (s : String) : Bool := !s.toList.contains '_'

/-- every namespace / name that can end up in an upstream name of the cluster's routes is free of `_` -/
def namesOK (c : ScenarioR) : Bool :=
  c.routes.all fun r => noUnderscore r.ns && r.rules.all fun ru =>
    match ru.action with
    | .redirect .. => true
    | .forward refs => refs.all fun ref =>
        noUnderscore ref.name && (match ref.ns with | some n => noUnderscore n | none => true)

end NGF.PipelineRefs
