/-
C17 — ownership core of `graph.BuildGraph` (internal/mode/static/state/graph) and of the status
preparation (`status.Prepare*Requests`, called by `eventHandlerImpl.updateStatuses`).

What is modelled (one Lean function per Go function, same case analysis):
  `processGatewayClasses`  gatewayclass.go  processGatewayClasses   (winner / ignored-of-ours / exists)
  `processGateways`        gateway.go       processGateways         (by class NAME; oldest wins, rest ignored)
  `allNsNames`             gateway.go       processedGateways.GetAllNsNames
  `findGw`                 route_common.go  findGatewayForParentRef
  `sectionRefs`            route_common.go  buildSectionNameRefs    (duplicate (gateway, section) ⇒ error)
  `buildRoute`             httproute.go/grpcroute.go/tlsroute.go  buildHTTPRoute/…: nil unless some parentRef resolves
  `referencedServices`     service.go       buildReferencedServices (valid routes attached to the WINNING gateway)
  `gatewayExists`          graph.go         gatewayExists
  `targetOk`/`processPolicies`  policies.go processPolicies         (kept iff some targetRef is in the graph)
  `btpCandidates`          backend_refs.go  findBackendTLSPolicyForService (upper bound of `IsReferenced`)
  `buildGraph`             graph.go         BuildGraph, including the early `return &Graph{}` when the
                                            configured-name class exists but names another controller
  `targets`                prepare_requests.go  the objects for which an UpdateRequest is issued
  `referencedSnippets`     snippets_filter.go   processSnippetsFilters + getSnippetsFilterResolverForNamespace
                                            (`Referenced`), with the position of the resolver call in
                                            buildHTTPRoute/buildGRPCRoute (`rulesProcessed`)

What is NOT modelled and enters as data attached to a Route (an oracle the theorems quantify over):
  `valid` (L7Route.Valid / L4Route.Valid as decided by rule validation) and `svcs` (the SvcNsName of the
  graph-level BackendRefs). Both are functions of objects that are never "foreign" in the sense of C17
  (the route itself, Services, ReferenceGrants, SnippetsFilters, NginxProxy).
  For the SnippetsFilter `Referenced` flag: `rulesReached` (the route's hostnames validate and, for a GRPCRoute, HTTP/2 is
  not disabled: the real `L7Route.Attachable`) and `sfRefs` (the ExtensionRef filters of the route SPEC that pass
  `validateFilter`) — functions of the route alone.

Go ranges over maps; every result here is a list in input order and is compared as a set with the real
graph's maps by the correspondence run. Kubernetes object keys are unique per kind; where a theorem needs
that it says so explicitly (`KeysUnique`).
Core Lean only.
-/
namespace NGF.Ownership

/-- `types.NamespacedName` -/
structure NN where
  ns : String
  name : String
  deriving DecidableEq, Repr

/-- controller flags: `--gatewayclass` and `--gateway-ctlr-name` -/
structure Cfg where
  gcName : String
  ctlr : String
  deriving Repr

structure GwClass where
  name : String
  ctlr : String            -- Spec.ControllerName
  deriving DecidableEq, Repr

structure Gw where
  nn : NN
  cls : String             -- Spec.GatewayClassName
  age : Nat                -- CreationTimestamp (seconds)
  deriving DecidableEq, Repr

/-- a `v1.ParentReference` of a Route -/
structure PRef where
  group : Option String
  kind : Option String
  ns : Option String
  name : String
  sect : Option String
  deriving DecidableEq, Repr

inductive RKind
  | http | grpc | tls
  deriving DecidableEq, Repr

structure Route where
  kind : RKind
  nn : NN
  parents : List PRef
  valid : Bool             -- oracle, see header
  svcs : List NN           -- oracle, see header
  /-- oracle: the guards between `r.ParentRefs = sectionNameRefs` and `process{HTTP,GRPC}RouteRules` pass
  (hostnames valid; for a GRPCRoute HTTP/2 not disabled) — the real route's `Attachable` -/
  rulesReached : Bool
  /-- the names `resolveExtRefFunc` is called with while the rules are processed: the `ExtensionRef` filters of
  the route rules that pass `validateFilter` (group `gateway.nginx.org`, kind `SnippetsFilter`, non-empty name) -/
  sfRefs : List String
  deriving DecidableEq, Repr

/-- a `LocalPolicyTargetReference` -/
structure TRef where
  group : String
  kind : String
  name : String
  deriving DecidableEq, Repr

/-- an NGF policy (ClientSettingsPolicy, ObservabilityPolicy, UpstreamSettingsPolicy) -/
structure Policy where
  gvk : String             -- Kind of the policy
  nn : NN
  targets : List TRef
  otherAnc : Nat           -- status.ancestors entries whose controllerName is not ours
  deriving DecidableEq, Repr

structure Btp where
  nn : NN
  targets : List String    -- names of the targeted Services (same namespace as the policy)
  full : Bool              -- backendTLSPolicyAncestorsFull (⇒ Ignored)
  deriving DecidableEq, Repr

/-- the part of `graph.ClusterState` that ownership depends on -/
structure State where
  classes : List GwClass
  gws : List Gw
  routes : List Route
  policies : List Policy
  btps : List Btp
  snippets : List NN
  deriving Repr

def gatewayKind : String := "Gateway"
def gatewayGroup : String := "gateway.networking.k8s.io"
def gatewayGroupKind : String := "gateway.networking.k8s.io/Gateway"
def hrGroupKind : String := "gateway.networking.k8s.io/HTTPRoute"
def grpcGroupKind : String := "gateway.networking.k8s.io/GRPCRoute"
def serviceGroupKind : String := "core/Service"
def maxAncestors : Nat := 16

/-! ### processGatewayClasses -/

structure PGC where
  winner : Option GwClass
  ignored : List GwClass
  gcExists : Bool
  deriving DecidableEq, Repr

/-- body of `for _, gc := range gcs` -/
def pgcStep (cfg : Cfg) (acc : PGC) (gc : GwClass) : PGC :=
  if gc.name = cfg.gcName then
    { acc with gcExists := true, winner := if gc.ctlr = cfg.ctlr then some gc else acc.winner }
  else if gc.ctlr = cfg.ctlr then
    { acc with ignored := acc.ignored ++ [gc] }
  else acc

def processGatewayClasses (cfg : Cfg) (gcs : List GwClass) : PGC :=
  gcs.foldl (pgcStep cfg) ⟨none, [], false⟩

/-! ### processGateways -/

/-- `ngfsort.LessClientObject` -/
def gwLess (a b : Gw) : Bool :=
  if a.age = b.age then
    (if a.nn.ns = b.nn.ns then decide (a.nn.name < b.nn.name) else decide (a.nn.ns < b.nn.ns))
  else decide (a.age < b.age)

/-- first element of the sorted slice -/
def minGw : Gw → List Gw → Gw
  | m, [] => m
  | m, g :: gs => minGw (if gwLess g m then g else m) gs

structure PGws where
  winner : Option Gw
  ignored : List Gw
  deriving DecidableEq, Repr

/-- `processGateways` after the class-name filter -/
def pickGateways : List Gw → PGws
  | [] => ⟨none, []⟩
  | g :: gs =>
    let w := minGw g gs
    ⟨some w, (g :: gs).filter (fun x => decide (x.nn ≠ w.nn))⟩

def processGateways (gws : List Gw) (gcName : String) : PGws :=
  pickGateways (gws.filter (fun g => decide (g.cls = gcName)))

/-- `processedGateways.GetAllNsNames` -/
def allNsNames (pg : PGws) : List NN :=
  (match pg.winner with | none => [] | some w => [w.nn]) ++ pg.ignored.map (·.nn)

/-! ### routes -/

def prefKindOk (p : PRef) : Bool :=
  (match p.kind with | none => true | some k => decide (k = gatewayKind)) &&
  (match p.group with | none => true | some g => decide (g = gatewayGroup))

/-- `findGatewayForParentRef` -/
def findGw (p : PRef) (routeNs : String) (gws : List NN) : Option NN :=
  if prefKindOk p then
    gws.find? (fun g => decide (g.ns = p.ns.getD routeNs) && decide (g.name = p.name))
  else none

/-- graph.ParentRef: index into spec.parentRefs, resolved Gateway, sectionName -/
structure PRefG where
  idx : Nat
  gw : NN
  sect : Option String
  deriving DecidableEq, Repr

/-- `buildSectionNameRefs`; `none` = the duplicate-section error -/
def sectionRefs (routeNs : String) (gws : List NN) : List PRef → Nat → List PRefG → Option (List PRefG)
  | [], _, acc => some acc
  | p :: ps, i, acc =>
    match findGw p routeNs gws with
    | none => sectionRefs routeNs gws ps (i + 1) acc
    | some gw =>
      if acc.any (fun a => decide (a.gw = gw) && decide (a.sect.getD "" = p.sect.getD "")) then none
      else sectionRefs routeNs gws ps (i + 1) (acc ++ [⟨i, gw, p.sect⟩])

/-- a Route that is in `Graph.Routes` / `Graph.L4Routes` -/
structure RouteG where
  kind : RKind
  nn : NN
  parents : List PRefG
  valid : Bool
  svcs : List NN
  deriving DecidableEq, Repr

def resolvesSome (gws : List NN) (r : Route) : Bool :=
  r.parents.any (fun p => (findGw p r.nn.ns gws).isSome)

/-- `buildHTTPRoute` / `buildGRPCRoute` / `buildTLSRoute` up to the ownership decision:
`nil` when no parentRef resolves to one of our Gateways; invalid and without parentRefs on the duplicate error. -/
def buildRoute (gws : List NN) (r : Route) : Option RouteG :=
  if resolvesSome gws r then
    match sectionRefs r.nn.ns gws r.parents 0 [] with
    | some refs => some ⟨r.kind, r.nn, refs, r.valid, r.svcs⟩
    | none => some ⟨r.kind, r.nn, [], false, []⟩
  else none

/-- `buildReferencedServices` -/
def referencedServices (winner : Option Gw) (routes : List RouteG) : List NN :=
  match winner with
  | none => []
  | some w =>
    (routes.filter (fun r => r.valid && r.parents.any (fun p => decide (p.gw = w.nn)))).flatMap (·.svcs)

/-! ### SnippetsFilters: the `Referenced` flag (snippets_filter.go)

`processSnippetsFilters` turns every SnippetsFilter of the cluster into a graph node with `Referenced = false`;
the only writer of the flag is the closure returned by `getSnippetsFilterResolverForNamespace(snippetsFilters, ns)`,
and its only caller is `processRouteRuleFilters`, reached from `buildHTTPRoute`/`buildGRPCRoute` AFTER
`buildSectionNameRefs` succeeded with at least one parentRef naming one of our Gateways (and the hostnames
validated). `dataplane.buildSnippetsForContext` emits the main/http snippets of the filters with
`Valid && Referenced`. -/

/-- `process{HTTP,GRPC}RouteRules` is reached for this route -/
def rulesProcessed (gws : List NN) (r : Route) : Bool :=
  decide (r.kind ≠ .tls) && resolvesSome gws r && (sectionRefs r.nn.ns gws r.parents 0 []).isSome && r.rulesReached

/-- building route `r` sets `Referenced` on the SnippetsFilter `sf` (looked up in the ROUTE's namespace) -/
def marksSnippet (gws : List NN) (r : Route) (sf : NN) : Bool :=
  rulesProcessed gws r && decide (r.nn.ns = sf.ns) && r.sfRefs.contains sf.name

/-- the SnippetsFilters whose `Referenced` flag is set when `buildRoutesForGateways` returns -/
def referencedSnippets (gws : List NN) (routes : List Route) (sfs : List NN) : List NN :=
  sfs.filter (fun sf => routes.any (fun r => marksSnippet gws r sf))

/-- REFUTED VARIANT (order of checks, seeded change C17-r3m1): the rules are processed — and the resolver
called — before the route is checked for a parentRef to one of our Gateways. -/
def marksSnippetEarly (r : Route) (sf : NN) : Bool :=
  decide (r.kind ≠ .tls) && decide (r.nn.ns = sf.ns) && r.sfRefs.contains sf.name

def referencedSnippetsEarly (gws : List NN) (routes : List Route) (sfs : List NN) : List NN :=
  if gws.isEmpty then [] else sfs.filter (fun sf => routes.any (fun r => marksSnippetEarly r sf))

/-! ### policies -/

/-- `gatewayExists` -/
def gatewayExists (nn : NN) (pg : PGws) : Bool :=
  match pg.winner with
  | none => false
  | some w => decide (w.nn = nn) || pg.ignored.any (fun g => decide (g.nn = nn))

/-- `refGroupKind` -/
def refGroupKind (t : TRef) : String :=
  (if t.group = "" then "core" else t.group) ++ "/" ++ t.kind

/-- the `switch refGroupKind(ref.Group, ref.Kind)` of `processPolicies` -/
def targetOk (pg : PGws) (routes : List RouteG) (svcs : List NN) (polNs : String) (t : TRef) : Bool :=
  let gk := refGroupKind t
  let nn : NN := ⟨polNs, t.name⟩
  if gk = gatewayGroupKind then gatewayExists nn pg
  else if gk = hrGroupKind then routes.any (fun r => decide (r.kind = .http) && decide (r.nn = nn))
  else if gk = grpcGroupKind then routes.any (fun r => decide (r.kind = .grpc) && decide (r.nn = nn))
  else if gk = serviceGroupKind then svcs.any (fun s => decide (s = nn))
  else false

/-- REFUTED VARIANT (seeded change C17-r4m1): the targetRef is dispatched by KIND (as `attachPolicies` does) and the
group is compared for Gateway/HTTPRoute/GRPCRoute only — a `Service` of ANY API group is looked up among our
referenced core Services. -/
def targetOkKindOnly (pg : PGws) (routes : List RouteG) (svcs : List NN) (polNs : String) (t : TRef) : Bool :=
  let nn : NN := ⟨polNs, t.name⟩
  if t.kind = gatewayKind then decide (t.group = gatewayGroup) && gatewayExists nn pg
  else if t.kind = "HTTPRoute" then
    decide (t.group = gatewayGroup) && routes.any (fun r => decide (r.kind = .http) && decide (r.nn = nn))
  else if t.kind = "GRPCRoute" then
    decide (t.group = gatewayGroup) && routes.any (fun r => decide (r.kind = .grpc) && decide (r.nn = nn))
  else if t.kind = "Service" then svcs.any (fun s => decide (s = nn))
  else false

/-- a Policy that is in `Graph.NGFPolicies` -/
structure PolicyG where
  gvk : String
  nn : NN
  targets : List TRef
  otherAnc : Nat
  deriving DecidableEq, Repr

def processPolicy (pg : PGws) (routes : List RouteG) (svcs : List NN) (p : Policy) : Option PolicyG :=
  let ts := p.targets.filter (targetOk pg routes svcs p.nn.ns)
  if ts.isEmpty then none else some ⟨p.gvk, p.nn, ts, p.otherAnc⟩

/-- `processPolicies` -/
def processPolicies (pols : List Policy) (pg : PGws) (routes : List RouteG) (svcs : List NN) : List PolicyG :=
  if pols.isEmpty || pg.winner.isNone then []
  else pols.filterMap (processPolicy pg routes svcs)

/-- BackendTLSPolicies that can become `IsReferenced && !Ignored`: a Gateway exists and an L7 route of the
graph has a resolved backend Service that the policy targets (upper bound; the real code additionally
needs the Service and its port to exist). -/
def btpCandidates (winner : Option Gw) (routes : List RouteG) (btps : List Btp) : List Btp :=
  match winner with
  | none => []
  | some _ =>
    btps.filter (fun b => !b.full &&
      routes.any (fun r => decide (r.kind ≠ .tls) &&
        b.targets.any (fun t => r.svcs.any (fun s => decide (s = (⟨b.nn.ns, t⟩ : NN))))))

/-! ### BuildGraph -/

/-- the ownership-relevant part of `graph.Graph` -/
structure Core where
  winnerClass : Option String
  ignoredClasses : List String
  winnerGw : Option NN
  ignoredGws : List NN
  routes : List RouteG
  policies : List PolicyG
  refSvcs : List NN
  btps : List NN
  snippets : List NN
  refSnippets : List NN    -- SnippetsFilters with `Referenced == true`
  deriving DecidableEq, Repr

/-- `&Graph{}` -/
def Core.empty : Core := ⟨none, [], none, [], [], [], [], [], [], []⟩

/-- the early-return condition of `BuildGraph`: `gcExists && processedGwClasses.Winner == nil` -/
def disabled (cfg : Cfg) (s : State) : Bool :=
  let pgc := processGatewayClasses cfg s.classes
  pgc.gcExists && pgc.winner.isNone

def buildGraph (cfg : Cfg) (s : State) : Core :=
  let pgc := processGatewayClasses cfg s.classes
  if pgc.gcExists && pgc.winner.isNone then Core.empty
  else
    let pg := processGateways s.gws cfg.gcName
    let routes := s.routes.filterMap (buildRoute (allNsNames pg))
    let svcs := referencedServices pg.winner routes
    { winnerClass := pgc.winner.map (·.name)
      ignoredClasses := pgc.ignored.map (·.name)
      winnerGw := pg.winner.map (·.nn)
      ignoredGws := pg.ignored.map (·.nn)
      routes := routes
      policies := processPolicies s.policies pg routes svcs
      refSvcs := svcs
      btps := (btpCandidates pg.winner routes s.btps).map (·.nn)
      snippets := s.snippets
      refSnippets := referencedSnippets (allNsNames pg) s.routes s.snippets }

/-! ### status requests (`Prepare*Requests`) -/

/-- the object an `UpdateRequest` is addressed to -/
inductive Target
  | cls (name : String)                 -- PrepareGatewayClassRequests
  | gw (nn : NN)                        -- PrepareGatewayRequests
  | route (kind : RKind) (nn : NN)      -- PrepareRouteRequests
  | policy (gvk : String) (nn : NN)     -- PrepareNGFPolicyRequests
  | btp (nn : NN)                       -- PrepareBackendTLSPolicyRequests (upper bound, see `btpCandidates`)
  | snippet (nn : NN)                   -- PrepareSnippetsFilterRequests
  deriving DecidableEq, Repr

/-- a policy of the graph has a non-empty `Ancestors` list after `attachPolicies` iff the ancestors
written by other controllers leave room (`ngfPolicyAncestorsFull`) -/
def PolicyG.hasAncestor (p : PolicyG) : Bool := decide (p.otherAnc < maxAncestors)

def targets (c : Core) : List Target :=
  (match c.winnerClass with | none => [] | some n => [Target.cls n]) ++ c.ignoredClasses.map Target.cls ++
  (match c.winnerGw with | none => [] | some n => [Target.gw n]) ++ c.ignoredGws.map Target.gw ++
  c.routes.map (fun r => Target.route r.kind r.nn) ++
  (c.policies.filter (·.hasAncestor)).map (fun p => Target.policy p.gvk p.nn) ++
  c.btps.map Target.btp ++ c.snippets.map Target.snippet

/-! ### the specification side: which objects are foreign (used by the theorems and by the judge) -/

/-- some parentRef of the route names (kind/group Gateway, namespace defaulted) a Gateway of the configured class -/
def refsOwnGw (cfg : Cfg) (s : State) (r : Route) : Bool :=
  r.parents.any (fun p => prefKindOk p &&
    s.gws.any (fun g => decide (g.cls = cfg.gcName) && decide (g.nn.ns = p.ns.getD r.nn.ns) &&
      decide (g.nn.name = p.name)))

def foreignClass (cfg : Cfg) (c : GwClass) : Bool := decide (c.ctlr ≠ cfg.ctlr)
def foreignGw (cfg : Cfg) (g : Gw) : Bool := decide (g.cls ≠ cfg.gcName)
def foreignRoute (cfg : Cfg) (s : State) (r : Route) : Bool := !refsOwnGw cfg s r

/-- the target names one of our Gateways, a Route referencing one of them, or a Service such a Route resolves to -/
def ownTarget (cfg : Cfg) (s : State) (polNs : String) (t : TRef) : Bool :=
  let gk := refGroupKind t
  let nn : NN := ⟨polNs, t.name⟩
  if gk = gatewayGroupKind then s.gws.any (fun g => decide (g.cls = cfg.gcName) && decide (g.nn = nn))
  else if gk = hrGroupKind then
    s.routes.any (fun r => decide (r.kind = .http) && decide (r.nn = nn) && refsOwnGw cfg s r)
  else if gk = grpcGroupKind then
    s.routes.any (fun r => decide (r.kind = .grpc) && decide (r.nn = nn) && refsOwnGw cfg s r)
  else if gk = serviceGroupKind then
    s.routes.any (fun r => refsOwnGw cfg s r && r.svcs.any (fun x => decide (x = nn)))
  else false

def foreignPolicy (cfg : Cfg) (s : State) (p : Policy) : Bool :=
  !p.targets.any (ownTarget cfg s p.nn.ns)

def foreignBtp (cfg : Cfg) (s : State) (b : Btp) : Bool :=
  !b.targets.any (fun t => s.routes.any (fun r => refsOwnGw cfg s r &&
    r.svcs.any (fun x => decide (x = (⟨b.nn.ns, t⟩ : NN)))))

/-! ### removing objects -/

/-- which objects of a state are kept -/
structure Keep where
  cls : GwClass → Bool
  gw : Gw → Bool
  rt : Route → Bool
  pol : Policy → Bool
  btp : Btp → Bool

def State.restrict (s : State) (k : Keep) : State :=
  { classes := s.classes.filter k.cls
    gws := s.gws.filter k.gw
    routes := s.routes.filter k.rt
    policies := s.policies.filter k.pol
    btps := s.btps.filter k.btp
    snippets := s.snippets }

/-- the target is (the key of) an object of `s` that is NOT foreign -/
def Target.OwnIn (cfg : Cfg) (s : State) : Target → Prop
  | .cls n => ∃ c ∈ s.classes, c.name = n ∧ foreignClass cfg c = false
  | .gw nn => ∃ g ∈ s.gws, g.nn = nn ∧ foreignGw cfg g = false
  | .route k nn => ∃ r ∈ s.routes, r.kind = k ∧ r.nn = nn ∧ foreignRoute cfg s r = false
  | .policy gvk nn => ∃ p ∈ s.policies, p.gvk = gvk ∧ p.nn = nn ∧ foreignPolicy cfg s p = false
  | .btp nn => ∃ b ∈ s.btps, b.nn = nn ∧ foreignBtp cfg s b = false
  | .snippet nn => nn ∈ s.snippets

/-- every removed object is foreign: a GatewayClass of another controller AND another name, a Gateway of
another class, a Route none of whose parentRefs names one of our Gateways, a policy targeting nothing of ours -/
def Droppable (cfg : Cfg) (t : State) (k : Keep) : Prop :=
  (∀ c ∈ t.classes, k.cls c = false → c.name ≠ cfg.gcName ∧ c.ctlr ≠ cfg.ctlr) ∧
  (∀ g ∈ t.gws, k.gw g = false → foreignGw cfg g = true) ∧
  (∀ r ∈ t.routes, k.rt r = false → foreignRoute cfg t r = true) ∧
  (∀ p ∈ t.policies, k.pol p = false → foreignPolicy cfg t p = true) ∧
  (∀ b ∈ t.btps, k.btp b = false → foreignBtp cfg t b = true)

/-- Kubernetes: at most one object per kind and (namespaced) name -/
def KeysUnique (s : State) : Prop :=
  s.classes.Pairwise (fun a b => a.name ≠ b.name) ∧
  s.gws.Pairwise (fun a b => a.nn ≠ b.nn) ∧
  s.routes.Pairwise (fun a b => (a.kind, a.nn) ≠ (b.kind, b.nn)) ∧
  s.policies.Pairwise (fun a b => (a.gvk, a.nn) ≠ (b.gvk, b.nn)) ∧
  s.btps.Pairwise (fun a b => a.nn ≠ b.nn)

/-! ### the GatewayClass events a long-lived controller receives (`predicate.GatewayClassPredicate`)

The watch on GatewayClasses is filtered by `GatewayClassPredicate{ControllerName}` (manager.go), so the
controller's store of classes is not the cluster's: Create/Delete pass only for classes naming our controller,
Update passes when the old or the new object names it. (At start-up the configured-name class is fetched by
name whatever its controller — first event batch.) -/

inductive ClsEv
  | put (c : GwClass)      -- create, or update of the class with that name
  | del (name : String)
  deriving DecidableEq, Repr

def upsertCls (l : List GwClass) (c : GwClass) : List GwClass := c :: l.filter (fun x => decide (x.name ≠ c.name))
def removeCls (l : List GwClass) (n : String) : List GwClass := l.filter (fun x => decide (x.name ≠ n))

/-- what the API server holds after the event -/
def clusterStep (cluster : List GwClass) : ClsEv → List GwClass
  | .put c => upsertCls cluster c
  | .del n => removeCls cluster n

/-- does the predicate let the event through? `old` = the object before the event -/
def delivered (ctlr : String) (cluster : List GwClass) : ClsEv → Bool
  | .put c =>
    match cluster.find? (fun x => decide (x.name = c.name)) with
    | none => decide (c.ctlr = ctlr)                                  -- Create
    | some old => decide (old.ctlr = ctlr) || decide (c.ctlr = ctlr)  -- Update
  | .del n =>
    match cluster.find? (fun x => decide (x.name = n)) with
    | none => false
    | some old => decide (old.ctlr = ctlr)                            -- Delete

/-- the controller's `clusterState.GatewayClasses` after the event -/
def storeStep (ctlr : String) (cluster store : List GwClass) (e : ClsEv) : List GwClass :=
  if delivered ctlr cluster e then
    match e with
    | .put c => upsertCls store c
    | .del n => removeCls store n
  else store

/-- (cluster, store) after a history of events, both starting from the same start-up content -/
def runClasses (ctlr : String) : List GwClass × List GwClass → List ClsEv → List GwClass × List GwClass
  | cs, [] => cs
  | (cluster, store), e :: es => runClasses ctlr (clusterStep cluster e, storeStep ctlr cluster store e) es

end NGF.Ownership
