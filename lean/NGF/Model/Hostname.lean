/-
Hostname matching, intersection and specificity as the graph package computes them
(internal/mode/static/state/graph/route_common.go): `match`, `GetMoreSpecificHostname`,
`findAcceptedHostnames`. Hostnames are `List Char`; "" is the empty list.
Core-only. Theorems: NGF/Props/C02.lean (helpers in NGF/Proofs/Hostname.lean).
-/
namespace NGF.Hostname

abbrev Host := List Char

/-- `strings.HasPrefix(h, "*.")` -/
def isWild (h : Host) : Bool := h.take 2 == ['*', '.']

/-- `strings.TrimPrefix(h, "*")` for a wildcard hostname: ".example.com" -/
def wildTail (h : Host) : Host := h.drop 1

/-- the closure `wildcardMatch(host1, host2)` of `match` -/
def wildcardMatch (h1 h2 : Host) : Bool := isWild h1 && (wildTail h1).isSuffixOf h2

/-- `match(listenerHost, routeHost)` -/
def hmatch (listenerHost routeHost : Host) : Bool :=
  if listenerHost.isEmpty then true
  else if routeHost == listenerHost then true
  else if wildcardMatch listenerHost routeHost then true
  else wildcardMatch routeHost listenerHost

/-- `len(strings.Split(h, "."))` -/
def labels (h : Host) : Nat := (h.filter (· == '.')).length + 1

/-- `GetMoreSpecificHostname(hostname1, hostname2)` -/
def moreSpecific (h1 h2 : Host) : Host :=
  if h1 == h2 then h1
  else if h1.isEmpty then h2
  else if h2.isEmpty then h1
  else if isWild h1 then
    if isWild h2 then (if labels h1 > labels h2 then h1 else h2)
    else h2
  else if isWild h2 then h1
  else []

/-- `wildcardHostname = "~^"` -/
def wildcardHostname : Host := ['~', '^']

/-- `findAcceptedHostnames(listenerHostname, routeHostnames)` (a nil listener hostname is "") -/
def accepted (listenerHost : Host) (routeHosts : List Host) : List Host :=
  if routeHosts.isEmpty then
    if listenerHost.isEmpty then [wildcardHostname] else [listenerHost]
  else
    routeHosts.filterMap fun r => if hmatch listenerHost r then some (moreSpecific listenerHost r) else none

/-- which concrete request hosts a hostname pattern stands for ("" = all, `*.x` = every host ending in `.x`) -/
def covers (p q : Host) : Bool := p.isEmpty || p == q || (isWild p && (wildTail p).isSuffixOf q)

/-- well-formed hostname pattern: non-empty, and `*` only as the leading wildcard label -/
def WF (h : Host) : Prop := h ≠ [] ∧ (if isWild h then '*' ∉ h.drop 1 else '*' ∉ h) ∧ h.head? ≠ some '.'

end NGF.Hostname
