/-
C03, stage 3: rendering of the SSL servers. `PipelineTls.genT` (C16, read-only) says which SSL servers exist and which
key pair each presents; this file enriches it (`genTR`, as `Render.genR` enriches `Pipeline.gen`) and renders what
servers_template.go prints for the whole of `conf.HTTPServers ++ conf.SSLServers`:

    renderT : ConfTR → List Dir          matchesOfT : ConfTR → matches.json

Go functions / template lines mirrored (file: function → here):
  nginx/config/servers.go: createServers (HTTP servers with serverID `<idx>`, then SSL servers with `SSL_<idx>`) →
      `renderT`, `sslKey`; createSSLServer (IsDefault → IsDefaultSSL; ssl_certificate = ssl_certificate_key =
      generatePEMFileName(KeyPairID)) → `renderSsl`, `renderSslDefault`
  nginx/config/servers_template.go: the `IsDefaultSSL` branch (`listen … ssl default_server`, `ssl_reject_handshake on`)
      and the `$s.SSL` branch (`listen … ssl`, ssl_certificate, ssl_certificate_key, `if ($ssl_server_name != $host)
      { return 421; }`, server_name, locations) for the dual IP family; `http2 on;` is NOT in this template (it is a
      top-level directive of the base http config, outside the tie's filter)
  dataplane/configuration.go: hostPathRules.buildServers (the extra 404 server of an HTTPS listener without routes /
      without hostname: no path rules, so only the default root location; all servers of a port sorted by Hostname)
      → `listenerOnlyR`, `sidT`; buildBackendGroups(append(httpServers, sslServers)) → `ConfTR.groups`
The location rendering is `Render`'s (`actDirs`, `locArgs`, `internalLoc`, `rootLoc`, `sortRules`), with the match key
as a parameter (`renderRuleK`). Core-only.
-/
import NGF.Model.Render
import NGF.Model.PipelineTls

namespace NGF.RenderTls
open NGF.Pipeline NGF.PipelineTls NGF.Render NGF.Nginx NGF.Mangle

/-- an SSL server of `conf.SSLServers` -/
structure SslR where
  /-- index in `conf.SSLServers` -/
  sid : Nat
  port : Nat
  name : Str
  /-- `SSL.KeyPairID` (none: the server has no SSL block) -/
  kp : Option (List Char)
  rules : List RRule
  root404 : Bool

structure ConfTR where
  /-- the plain-HTTP half, as `Render.genR` of the HTTP projection -/
  http : ConfR
  ssl : List SslR
  /-- SSL default servers: (port, index in `conf.SSLServers`) -/
  sslDefaults : List (Nat × Nat)
  /-- buildBackendGroups over the servers of BOTH halves -/
  groups : List (Src × List Backend)
  keyPairs : List Tls.KeyPair

def SslR.forget (sv : SslR) : CServer × Option (List Char) :=
  (({ sid := sv.sid, port := sv.port, name := sv.name, rules := sv.rules, root404 := sv.root404 } : RServer).forget, sv.kp)

/-- what `PipelineTls.genT` keeps of it -/
def ConfTR.forget (c : ConfTR) : ConfT :=
  { http := c.http.forget, ssl := c.ssl.map SslR.forget, sslPorts := c.sslDefaults.map (·.1), keyPairs := c.keyPairs }

/-! ### genTR -/

/-- the 404 server of an HTTPS listener without routes / without hostname (`PipelineTls.listenerOnly`) -/
def listenerOnlyR (g : Gateway) (routes : List Route) (ls : List ListenerT) : List (Nat × Str × Option (List Char)) :=
  (ls.filter fun l => nroutes g routes l.base == 0 || serverName l.base.host == Hostname.wildcardHostname).map fun l =>
    (l.base.port, serverName l.base.host, kpOf l)

/-- index in `conf.SSLServers` of the SSL server (port, name): ports in the order `ord`, per port the default server
(hostname "") first, then all servers of the port by hostname. `names` = (port, name) of ALL SSL servers (route servers
and listener servers). Two servers of one port with the same name (the known finding
C03:duplicate-ssl-server-from-listener-404) get the same index here; Go's unstable sort puts them in either order. -/
def sidT (names : List (Nat × Str)) (ord : List Nat) (ph : Nat × Str) : Nat :=
  base names ord ph.1 + 1 + rank nameLt (namesOn names ph.1) ph.2

def genTR (s : ScenarioT) (order orderS : List Nat) : ConfTR :=
  let cH := genR (httpPart s) order
  match winnerT s with
  | none => { http := cH, ssl := [], sslDefaults := [], groups := cH.groups, keyPairs := [] }
  | some gT =>
    let cS := genR (httpsPart s) orderS
    let g := projGw (validHttps s) gT
    let vs := sslListeners s gT
    let extra := listenerOnlyR g s.routes vs
    let names := cS.servers.map (fun sv => (sv.port, sv.name)) ++ extra.map fun e => (e.1, e.2.1)
    let ports := cS.dports.map (·.1)
    let ord := portOrder orderS ports
    { http := cH
      ssl := (cS.servers.map fun sv =>
                { sid := sidT names ord (sv.port, sv.name), port := sv.port, name := sv.name,
                  kp := (ownerOf g s.routes (vs.filter (·.base.port == sv.port)) sv.name).bind kpOf,
                  rules := sv.rules, root404 := sv.root404 }) ++
             extra.map fun e => { sid := sidT names ord (e.1, e.2.1), port := e.1, name := e.2.1, kp := e.2.2, rules := [], root404 := true }
      sslDefaults := ports.map fun p => (p, base names ord p)
      groups := dedupKey (cH.groups ++ cS.groups) []
      keyPairs := keyPairsFrom s.secrets [] vs }

/-! ### rendering -/

/-- httpMatchKey of an SSL server: serverID = `SSL_<idx>` -/
def sslKey (sid idx : Nat) : List Char := "SSL_".toList ++ digits sid ++ '_' :: digits idx

def njsDirsK (key : List Char) : List Dir :=
  [dir "set" [w "$match_key", wl key], dir "js_content" [w "httpmatches.redirect"], httpVersion]

/-- `Render.renderRule` with the match key as a parameter -/
def renderRuleK (key : Nat → List Char) (r : RRule) : List Dir :=
  match r.act with
  | .direct a => r.ext.map fun k => blk "location" (locArgs k) (actDirs a)
  | .njs ms => (r.ext.map fun k => blk "location" (locArgs k) (njsDirsK (key r.idx))) ++ (enumFrom 0 ms).map (internalLoc r.idx)

def sslListens (port : Nat) (extra : List String) : List Dir :=
  [dir "listen" (wl (digits port) :: w "ssl" :: extra.map w), dir "listen" (wl ("[::]:".toList ++ digits port) :: w "ssl" :: extra.map w)]

/-- the `IsDefaultSSL` branch -/
def renderSslDefault (port : Nat) : Dir :=
  blk "server" [] (sslListens port ["default_server"] ++ [dir "ssl_reject_handshake" [w "on"]])

/-- generatePEMFileName -/
def pemFile (id : List Char) : List Char := Tls.pemFileName id

/-- `if ($ssl_server_name != $host) { return 421; }` as the tokeniser reads it -/
def sniGuard : Dir := blk "if" [w "($ssl_server_name", w "!=", w "$host)"] [dir "return" [w "421"]]

/-- the `$s.SSL` branch (and, for a server without SSL block, the plain listens) -/
def renderSsl (sv : SslR) : Dir :=
  blk "server" []
    ((match sv.kp with
      | some id => sslListens sv.port [] ++ [dir "ssl_certificate" [wl (pemFile id)], dir "ssl_certificate_key" [wl (pemFile id)], sniGuard]
      | none => listenDirs sv.port []) ++
     [dir "server_name" [wl sv.name]] ++
     (sortRules sv.rules).flatMap (renderRuleK (sslKey sv.sid)) ++ (if sv.root404 then [rootLoc] else []))

/-- the SSL server blocks in `conf.SSLServers` order -/
def sslDirs (c : ConfTR) : List Dir :=
  (((c.sslDefaults.map fun d => (d.2, renderSslDefault d.1)) ++ (c.ssl.map fun sv => (sv.sid, renderSsl sv))).mergeSort
    fun a b => a.1 ≤ b.1).map (·.2)

/-- what the servers template and the split_clients template print: HTTP servers, SSL servers, the two unix-socket
servers, the split_clients blocks of all BackendGroups -/
def renderT (c : ConfTR) : List Dir :=
  preload :: serverDirs c.http ++ sslDirs c ++ tailServers ++ (c.groups.filter needsSplit).map splitBlock

def ruleMatchesK (key : Nat → List Char) (r : RRule) : List (List Char × List NjsMatch) :=
  match r.act with
  | .direct _ => []
  | .njs ms => if r.ext.isEmpty then [] else [(key r.idx, (enumFrom 0 ms).map (withPath r.idx))]

def matchesOfT (c : ConfTR) : List (List Char × List NjsMatch) :=
  matchesOf c.http ++ c.ssl.flatMap fun sv => sv.rules.flatMap (ruleMatchesK (sslKey sv.sid))

def matchKeysOfT (c : ConfTR) : List (List Char × List (List Char)) :=
  (matchesOfT c).map fun km => (km.1, km.2.map (·.redirectPath))

/-- the certificate files a configuration refers to: arguments of `ssl_certificate` / `ssl_certificate_key` of all servers -/
def certRefs (ds : List Dir) : List (List Char) :=
  (blocksNamed "server" ds).flatMap fun s => ((named "ssl_certificate" (body s)) ++ (named "ssl_certificate_key" (body s))).map arg0

/-- the key-pair files of the file set -/
def certFiles (c : ConfTR) : List (List Char) := c.keyPairs.map fun k => pemFile k.id

/-! ### hypotheses -/

/-- the region without the known finding C03:duplicate-ssl-server-from-listener-404: on no port two SSL servers (route
servers and the 404 servers of listeners) have the same server name -/
def noDupSsl (c : ConfTR) : Bool := Pipeline.nodup (c.ssl.map fun sv => (sv.port, sv.name))

/-- `Render.portsOK` / `namesSafe` for both halves -/
def portsOKT (s : ScenarioT) : Bool := Render.portsOK (allPart s)

end NGF.RenderTls
