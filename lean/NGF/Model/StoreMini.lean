/-
C01 — a concrete instance of the store model with the dependency edge Route → Service → EndpointSlice
and relevance predicates of the same shape as `Graph.IsReferenced`:
  * Route         persisted, `predicate: nil`                       (every event is a change)
  * Service       persisted, `funcPredicate{isReferenced}`          (ReferencedServices of the LATEST graph)
  * EndpointSlice `funcPredicate{isReferenced}` (owner = service-name label)
`opsR`/`relR` follow the code in the tree (since /repo ecaa5d2): slices are persisted too, `funcPredicate`
judges the stored object as well as the new one, `delete` hands the stored object to the predicate.
`ops`/`rel` are the PRE-FIX code (slices only in the cache; the predicate saw the new object / the bare type of a
delete event, which carries no label). They are kept as a regression detector: the two witness theorems of
`NGF.Props.C01` show what a revert of ecaa5d2 brings back.
-/
import NGF.Model.Store

namespace NGF.Store.Mini

inductive Kind | route | svc | slice
  deriving DecidableEq, Repr

/-- route: `ref` = key of the Service it points to; svc: `val` = what the build reads of the Service;
slice: `ref` = owner Service (the service-name label), `val` = the endpoint address. -/
structure Obj where
  ref : Nat
  val : Nat
  deriving DecidableEq, Repr

abbrev Ev := Event Kind Nat Obj

structure Cl where
  routes : List (Nat × Nat)          -- route key ↦ service key
  svcs   : Nat → Option Nat
  slices : Nat → Option (Nat × Nat)  -- slice key ↦ (owner, address)

/-- What a rebuild derives. -/
structure Gr where
  /-- per route: the Service it resolves to and what was read of it (status + upstream port) -/
  rv   : Nat → Option (Nat × Option Nat)
  /-- per route and slice: the upstream server the slice contributes -/
  ep   : Nat → Nat → Option Nat
  /-- `ReferencedServices` -/
  refd : Nat → Bool

def upd {β : Type} (f : Nat → Option β) (k : Nat) (v : Option β) : Nat → Option β :=
  fun j => if j = k then v else f j

def putRoute (rs : List (Nat × Nat)) (r k : Nat) : List (Nat × Nat) := (r, k) :: rs.filter (·.1 != r)
def delRoute (rs : List (Nat × Nat)) (r : Nat) : List (Nat × Nat) := rs.filter (·.1 != r)

/-- the upstream server a slice contributes to a route: only if the route's Service owns the slice -/
def epOf : Option Nat → Option (Nat × Nat) → Option Nat
  | some k, some (owner, a) => if owner = k then some a else none
  | _, _ => none

def build (c : Cl) : Gr where
  rv r := (c.routes.lookup r).map fun k => (k, c.svcs k)
  ep r sl := epOf (c.routes.lookup r) (c.slices sl)
  refd k := c.routes.any (·.2 == k)

def storeRS (e : Ev) (c : Cl) : Cl :=
  match e.kind, e.obj with
  | .route, some o => { c with routes := putRoute c.routes e.key o.ref }
  | .route, none   => { c with routes := delRoute c.routes e.key }
  | .svc, some o   => { c with svcs := upd c.svcs e.key (some o.val) }
  | .svc, none     => { c with svcs := upd c.svcs e.key none }
  | .slice, _      => c

def sliceApply (e : Ev) (c : Cl) : Cl :=
  match e.kind with
  | .slice => { c with slices := upd c.slices e.key (e.obj.map fun o => (o.ref, o.val)) }
  | _ => c

def getRS (c : Cl) (k : Kind) (key : Nat) : Option Obj :=
  match k with
  | .route => (c.routes.lookup key).map fun s => ⟨s, 0⟩
  | .svc => (c.svcs key).map fun v => ⟨0, v⟩
  | .slice => none

/-- PRE-FIX code (before ecaa5d2): slices live only in the cache, the delete predicate sees the bare type -/
def ops : Ops Kind Nat Obj Cl where
  persisted k := k != .slice
  hasPred k := k != .route
  isEndpoints k := k == .slice
  get := getRS
  store := storeRS
  cache := sliceApply
  delSeesOld := false

/-- PRE-FIX code: `isReferenced` against the latest graph; the EndpointSlice case reads the label of
the object in the event, a delete event has none. -/
def rel (latest : Option Gr) (_old : Option Obj) (e : Ev) : Bool :=
  match latest with
  | none => false
  | some g =>
    match e.kind with
    | .route => true
    | .svc => g.refd e.key
    | .slice => match e.obj with
      | some o => g.refd o.ref
      | none => false

/-- code in the tree: slices are persisted like every other kind (with immediate delivery the store copy and
the cache coincide, so `build` is modelled as reading the stored copy) … -/
def opsR : Ops Kind Nat Obj Cl where
  persisted _ := true
  hasPred k := k != .route
  isEndpoints k := k == .slice
  get c k key := match k with
    | .slice => (c.slices key).map fun (o, a) => ⟨o, a⟩
    | k => getRS c k key
  store e c := sliceApply e (storeRS e c)
  cache _ c := c
  delSeesOld := true

/-- … and the predicate asks for the stored object as well as for the new one (for Service the two have the
same name, so `refd new || refd old` is `refd e.key`). -/
def relR (latest : Option Gr) (old : Option Obj) (e : Ev) : Bool :=
  match latest with
  | none => false
  | some g =>
    match e.kind with
    | .route => true
    | .svc => g.refd e.key
    | .slice => (match e.obj with | some o => g.refd o.ref | none => false) ||
                (match old with | some o => g.refd o.ref | none => false)

def watchAll : Cl → Ev → Bool := fun _ _ => true

/-- The mutations for which the PRE-FIX predicates are sound: an existing slice keeps its owner
unless that owner is unreferenced (in particular: no delete of a slice of a referenced Service). -/
def adm (t : Cl) (e : Ev) : Bool :=
  match e.kind with
  | .slice =>
    match t.slices e.key with
    | none => true
    | some (owner, _) => (e.obj.map (·.ref) == some owner) || !((build t).refd owner)
  | _ => true

def empty : Cl := { routes := [], svcs := fun _ => none, slices := fun _ => none }

end NGF.Store.Mini
