/-
Block structure of an NGINX configuration: token list → directive tree.
Trusted base together with NginxLex (what "nests correctly" means).
-/
import NGF.Model.NginxLex

namespace NGF.Nginx

/-! ### Block structure -/

/-- A parsed directive: name, arguments (with quotedness) and, for blocks, the children. -/
inductive Dir
  | mk (name : List Char) (args : List (List Char × Bool)) (block : Option (List Dir))
  deriving Repr

def Dir.name : Dir → List Char | .mk n _ _ => n
def Dir.args : Dir → List (List Char × Bool) | .mk _ a _ => a
def Dir.block : Dir → Option (List Dir) | .mk _ _ b => b
def Dir.argStrings (d : Dir) : List String := d.args.map fun a => String.ofList a.1

inductive ParseErr
  | lex (e : LexErr)
  | unbalancedClose
  | unclosedBlock
  | emptyStatement
  deriving Repr

/-- Parse a token list into directives. `fuel` bounds recursion (token count suffices).
Returns the directives of the current block and the remaining tokens (after the closing `}`
when `depth > 0`). -/
def parseToks : Nat → Nat → List Tok → List (List Char × Bool) → List Dir →
    Except ParseErr (List Dir × List Tok)
  | 0, _, _, _, _ => .error .unclosedBlock
  | _ + 1, depth, [], words, acc =>
    if depth == 0 && words.isEmpty then .ok (acc.reverse, []) else .error .unclosedBlock
  | fuel + 1, depth, t :: ts, words, acc =>
    match t with
    | .word s q => parseToks fuel depth ts (words ++ [(s, q)]) acc
    | .semi =>
      match words with
      | [] => .error .emptyStatement
      | (n, _) :: args => parseToks fuel depth ts [] (Dir.mk n args none :: acc)
    | .open =>
      match words with
      | [] => .error .emptyStatement
      | (n, _) :: args =>
        match parseToks fuel (depth + 1) ts [] [] with
        | .error e => .error e
        | .ok (children, rest) => parseToks fuel depth rest [] (Dir.mk n args (some children) :: acc)
    | .close =>
      if depth == 0 then .error .unbalancedClose
      else if !words.isEmpty then .error .emptyStatement
      else .ok (acc.reverse, ts)

/-- Lex and parse a whole file. -/
def parse (input : List Char) : Except ParseErr (List Dir) :=
  match lex input with
  | .error e => .error (.lex e)
  | .ok ts =>
    match parseToks (ts.length + 1) 0 ts [] [] with
    | .error e => .error e
    | .ok (ds, _) => .ok ds

def parseString (s : String) : Except ParseErr (List Dir) := parse s.toList

/-- All directives of the tree in document order (pre-order), with their ancestor block names
(innermost last). -/
partial def flattenDirs (ctx : List String) : List Dir → List (List String × Dir)
  | [] => []
  | d :: ds =>
    let here := (ctx, d)
    let inner := match d.block with
      | some ch => flattenDirs (ctx ++ [String.ofList d.name]) ch
      | none => []
    here :: inner ++ flattenDirs ctx ds

end NGF.Nginx
