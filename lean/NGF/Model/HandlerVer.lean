/-
C12 — model of the version / readiness / reload-result state of
`internal/mode/static/handler.go` (`eventHandlerImpl.HandleEventBatch`, `updateNginxConf`,
`updateUpstreamServers` as far as its error is concerned), `internal/mode/static/health.go`
(`nginxConfiguredOnStartChecker`) and of how `status/prepare_requests.go` folds a reload error
into Gateway / Listener / Route-parent conditions.

One batch = one `Batch` record: the `ChangeType` returned by `processor.Process()` and what the
environment does during this batch (file write result, the NGINX master as a `Reload.Oracle`,
NGINX Plus API result).  Nothing is assumed about these.
-/
import NGF.Model.Reload

namespace NGF.HandlerVer
open NGF.Reload

inductive ChangeType | noChange | endpointsOnly | clusterState
  deriving DecidableEq, Repr

structure Batch where
  ct      : ChangeType
  writeOk : Bool      -- `nginxFileMgr.ReplaceFiles` returned nil
  oracle  : Oracle    -- the NGINX master during `nginxRuntimeMgr.Reload`
  apiOk   : Bool      -- `updateUpstreamServers` (NGINX Plus API) returned nil
  deriving Repr

/-- Go state: `h.version`, `checker.ready`, `checker.firstBatchError != nil`,
`h.latestReloadResult.Error != nil`; ghost: how often `close(readyCh)` ran. -/
structure H where
  version       : Nat
  ready         : Bool
  firstBatchErr : Bool
  lastErr       : Bool
  closes        : Nat
  deriving DecidableEq, Repr

def H.init : H := ⟨0, false, false, false, 0⟩

/-- what one `HandleEventBatch` did, as visible at the handler's interfaces -/
structure Emit where
  cfgVersion    : Option Nat   -- version given to `BuildConfiguration` (and so to the generator)
  generated     : Bool         -- `Generate` + `ReplaceFiles` were invoked
  reloadVersion : Option Nat   -- `Reload` was invoked with this version
  reload        : Option Out   -- … and did this
  apiCalled     : Bool         -- NGINX Plus API was consulted
  err           : Bool         -- `err != nil` after the switch
  statusUpdated : Bool         -- `updateStatuses` ran (with the new `latestReloadResult`)
  deriving DecidableEq, Repr

def Emit.none : Emit := ⟨Option.none, false, Option.none, Option.none, false, false, false⟩

/-- `nginxConfiguredOnStartChecker.setAsReady` -/
def setAsReady (s : H) : H :=
  { s with ready := true, firstBatchErr := false, closes := s.closes + 1 }

/-- `updateNginxConf(ctx, cfg)`: generate, replace files, reload with `cfg.Version`, then (Plus) API. -/
def updateNginxConf (plus : Bool) (b : Batch) (v : Nat) : Emit :=
  if !b.writeOk then ⟨some v, true, Option.none, Option.none, false, true, true⟩
  else
    let r := reload b.oracle v
    if r.res.isSome then ⟨some v, true, some v, some r, false, true, true⟩
    else if plus then ⟨some v, true, some v, some r, true, !b.apiOk, true⟩
    else ⟨some v, true, some v, some r, false, false, true⟩

/-- the `switch changeType` arms for the two change kinds -/
def apply (plus : Bool) (b : Batch) (v : Nat) : Emit :=
  match b.ct with
  | .noChange => Emit.none
  | .endpointsOnly =>
    if plus then ⟨some v, false, Option.none, Option.none, true, !b.apiOk, true⟩
    else updateNginxConf plus b v
  | .clusterState => updateNginxConf plus b v

/-- the `NoChange` arm: only the readiness latch may move -/
def noChangeStep (s : H) : H :=
  if !s.ready && !s.firstBatchErr then setAsReady s else s

/-- `h.version++` and the code after the switch: `err` decides `firstBatchError` / `setAsReady`
and becomes `latestReloadResult` -/
def advance (s : H) (err : Bool) : H :=
  let s1 := { s with version := s.version + 1 }
  let s2 :=
    if err then
      (if !s1.ready then { s1 with firstBatchErr := true } else s1)
    else
      (if !s1.ready then setAsReady s1 else s1)
  { s2 with lastErr := err }

def hstep (plus : Bool) (s : H) (b : Batch) : H × Emit :=
  match b.ct with
  | .noChange => (noChangeStep s, Emit.none)
  | _ =>
    let e := apply plus b (s.version + 1)
    (advance s e.err, e)

/-- a batch sequence: final state and what each batch did -/
def hrun (plus : Bool) : H → List Batch → H × List Emit
  | s, [] => (s, [])
  | s, b :: bs =>
    let (s1, e) := hstep plus s b
    let (s2, es) := hrun plus s1 bs
    (s2, e :: es)

/-- all intermediate states (after each batch) -/
def hstates (plus : Bool) : H → List Batch → List H
  | _, [] => []
  | s, b :: bs => (hstep plus s b).1 :: hstates plus (hstep plus s b).1 bs

/-! ### Conditions: how a reload error is folded into statuses -/

structure Cond where
  type   : String
  status : String
  reason : String
  deriving DecidableEq, Repr

/-- `conditions.DeduplicateConditions`: per type the LAST condition wins; survivors keep their
relative order. -/
def dedup : List Cond → List Cond
  | [] => []
  | c :: cs => if cs.any (fun d => d.type == c.type) then dedup cs else c :: dedup cs

def lookup (t : String) (cs : List Cond) : Option Cond := cs.find? (fun c => c.type == t)

inductive Target | gateway | listener | routeParent
  deriving DecidableEq, Repr

/-- `NewGatewayNotProgrammedInvalid` / `NewListenerNotProgrammedInvalid` /
`NewRouteGatewayNotProgrammed` -/
def failureCond : Target → Cond
  | .gateway     => ⟨"Programmed", "False", "Invalid"⟩
  | .listener    => ⟨"Programmed", "False", "Invalid"⟩
  | .routeParent => ⟨"Accepted", "False", "GatewayNotProgrammed"⟩

/-- `prepareGatewayRequest` (valid Gateway), per listener, and `prepareRouteStatus` per parent:
`cs` are the conditions collected before the `if nginxReloadRes.Error != nil` block. -/
def fold (t : Target) (reloadErr : Bool) (cs : List Cond) : List Cond :=
  dedup (if reloadErr then cs ++ [failureCond t] else cs)

end NGF.HandlerVer
