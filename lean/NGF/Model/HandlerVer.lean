/-
C12 — model of the version / readiness / reload-result state of
`internal/mode/static/handler.go` (`eventHandlerImpl.HandleEventBatch`, `updateNginxConf`,
`updateUpstreamServers` as far as its error is concerned; state of /repo c94173a), `internal/mode/static/health.go`
(`nginxConfiguredOnStartChecker`) and of how `status/prepare_requests.go` folds a reload error
into Gateway / Listener / Route-parent conditions.

One batch = one `Batch` record: the `ChangeType` returned by `processor.Process()` and what the
environment does during this batch (what `ReplaceFiles` did to the disk and which error VALUE it
returned, the NGINX master as a `Reload.Oracle`, NGINX Plus API result).  Nothing is assumed about
these.

`updateNginxConf` is one transaction `applyTx : FilesOutcome → Oracle → … → ApplyOut`:
write files → reload with that version → (Plus) API; EVERY `ReplaceFiles` error, whatever its class
(`fs.ErrNotExist`-wrapping, `fs.ErrPermission`, EIO, a plain error), returns before `Reload`.
-/
import NGF.Model.Reload

namespace NGF.HandlerVer
open NGF.Reload

inductive ChangeType | noChange | endpointsOnly | clusterState
  deriving DecidableEq, Repr

/-- class of the error VALUE returned by `nginxFileMgr.ReplaceFiles`, as `errors.Is` sees it through
the `%w` chain: `fs.ErrNotExist` (ENOENT), `fs.ErrPermission` (EACCES/EPERM), EIO, anything else. -/
inductive ErrClass | notExist | permission | io | other
  deriving DecidableEq, Repr

/-- what `ReplaceFiles(files)` did: `ok`, or it failed with an error of class `cls` after `written`
leading files of the generated list had been written completely (the next one — if any — was not
created, or is empty / truncated; `written = 0` also covers a failure while the previous generation
was being removed). -/
inductive FilesOutcome
  | ok
  | failed (cls : ErrClass) (written : Nat)
  deriving DecidableEq, Repr

def FilesOutcome.isOk : FilesOutcome → Bool
  | .ok => true
  | .failed _ _ => false

/-- number of files of a generated list of length `n` that are completely on disk afterwards -/
def filesOnDisk (n : Nat) : FilesOutcome → Nat
  | .ok => n
  | .failed _ k => min k n

/-- file number `i` of a generated list of length `n` is completely on disk afterwards -/
def fileOnDisk (n : Nat) (f : FilesOutcome) (i : Nat) : Bool :=
  decide (i < n) && (match f with
    | .ok => true
    | .failed _ k => decide (i < k))

structure Batch where
  ct      : ChangeType
  nfiles  : Nat           -- length of the list returned by `generator.Generate`
  verIdx  : Nat           -- position of `config-version.conf` in it (map iteration: any position)
  files   : FilesOutcome  -- what `nginxFileMgr.ReplaceFiles` did
  oracle  : Oracle        -- the NGINX master during `nginxRuntimeMgr.Reload`
  apiOk   : Bool          -- `updateUpstreamServers` (NGINX Plus API) returned nil
  deriving Repr

/-- `nginxFileMgr.ReplaceFiles` returned nil -/
def Batch.writeOk (b : Batch) : Bool := b.files.isOk

/-- the version file of this batch's configuration is completely on disk -/
def Batch.versionFileOnDisk (b : Batch) : Bool := fileOnDisk b.nfiles b.files b.verIdx

/-- Go state: `h.version`, `checker.ready`, `checker.firstBatchError != nil`,
`h.latestReloadResult.Error != nil`; ghost: how often `close(readyCh)` ran. -/
structure H where
  version       : Nat
  ready         : Bool
  firstBatchErr : Bool
  lastErr       : Bool
  closes        : Nat
  deriving DecidableEq, Repr

def H.init : H := ⟨0, false, false, false, 0⟩

/-- what one `HandleEventBatch` did, as visible at the handler's interfaces -/
structure Emit where
  cfgVersion    : Option Nat   -- version given to `BuildConfiguration` (and so to the generator)
  generated     : Bool         -- `Generate` + `ReplaceFiles` were invoked
  reloadVersion : Option Nat   -- `Reload` was invoked with this version
  reload        : Option Out   -- … and did this
  apiCalled     : Bool         -- NGINX Plus API was consulted
  err           : Bool         -- `err != nil` after the switch
  statusUpdated : Bool         -- `updateStatuses` ran (with the new `latestReloadResult`)
  fileErr       : Option ErrClass  -- the returned error wraps a `ReplaceFiles` error of this class
  written       : Option Nat   -- files of the generated set completely on disk (if `ReplaceFiles` ran)
  deriving DecidableEq, Repr

def Emit.none : Emit :=
  ⟨Option.none, false, Option.none, Option.none, false, false, false, Option.none, Option.none⟩

/-! ### The apply transaction -/

/-- which step of `updateNginxConf` returned the error -/
inductive ApplyErr
  | files (cls : ErrClass)   -- "failed to replace NGINX configuration files: %w"
  | reload (e : Err)         -- "failed to reload NGINX: %w"
  | api                      -- "failed to update upstream servers: %w"
  deriving DecidableEq, Repr

structure ApplyOut where
  res       : Option ApplyErr   -- `none` = nil
  reload    : Option Out        -- what `Reload` did, if it was invoked
  apiCalled : Bool
  deriving DecidableEq, Repr

/-- `updateNginxConf` as a transaction over the environment: the outcome of `ReplaceFiles`, the
master during `Reload(v)`, the Plus API.  A `ReplaceFiles` error of ANY class returns at once. -/
def applyTx (plus : Bool) (f : FilesOutcome) (o : Oracle) (apiOk : Bool) (v : Nat) : ApplyOut :=
  match f with
  | .failed cls _ => ⟨some (.files cls), Option.none, false⟩
  | .ok =>
    let r := reload o v
    match r.res with
    | some e => ⟨some (.reload e), some r, false⟩
    | Option.none =>
      if plus then ⟨if apiOk then Option.none else some .api, some r, true⟩
      else ⟨Option.none, some r, false⟩

/-- NOT the code — the refuted variant "a `ReplaceFiles` error that wraps `fs.ErrNotExist` means the
file is already gone, go on" (seeded change C12-r3m1).  Kept only for the witness
`enoent_benign_refuted`. -/
def applyTxEnoentBenign (plus : Bool) (f : FilesOutcome) (o : Oracle) (apiOk : Bool) (v : Nat) :
    ApplyOut :=
  match f with
  | .failed .notExist _ => applyTx plus .ok o apiOk v
  | f => applyTx plus f o apiOk v

def ApplyErr.fileClass : Option ApplyErr → Option ErrClass
  | some (.files c) => some c
  | _ => Option.none

/-- `nginxConfiguredOnStartChecker.setAsReady` -/
def setAsReady (s : H) : H :=
  { s with ready := true, firstBatchErr := false, closes := s.closes + 1 }

/-- `updateNginxConf(ctx, cfg)`: generate, replace files, reload with `cfg.Version`, then (Plus) API. -/
def updateNginxConf (plus : Bool) (b : Batch) (v : Nat) : Emit :=
  let a := applyTx plus b.files b.oracle b.apiOk v
  { cfgVersion := some v, generated := true,
    reloadVersion := a.reload.map (fun _ => v), reload := a.reload, apiCalled := a.apiCalled,
    err := a.res.isSome, statusUpdated := true,
    fileErr := ApplyErr.fileClass a.res, written := some (filesOnDisk b.nfiles b.files) }

/-- the `EndpointsOnlyChange` arm takes the NGINX Plus API path alone (no files, no reload):
`h.cfg.plus && h.latestReloadResult.Error == nil` (since /repo c94173a; `lastErr` = the remembered
result BEFORE this batch) -/
def apiOnly (plus lastErr : Bool) (b : Batch) : Bool :=
  plus && !lastErr && b.ct == .endpointsOnly

/-- the `switch changeType` arms for the two change kinds -/
def apply (plus lastErr : Bool) (b : Batch) (v : Nat) : Emit :=
  match b.ct with
  | .noChange => Emit.none
  | .endpointsOnly =>
    if plus && !lastErr then ⟨some v, false, Option.none, Option.none, true, !b.apiOk, true, Option.none, Option.none⟩
    else updateNginxConf plus b v
  | .clusterState => updateNginxConf plus b v

/-- PRE-FIX variant (code before /repo c94173a), NOT the code: the endpoints-only arm asked
`h.cfg.plus` only, so after a failed write/reload a successful Plus API call reset the remembered
result.  Kept only for the regression witness `plus_endpoints_only_resets_failed_reload`. -/
def applyPreFix (plus : Bool) (b : Batch) (v : Nat) : Emit := apply plus false b v

/-- the `NoChange` arm: only the readiness latch may move -/
def noChangeStep (s : H) : H :=
  if !s.ready && !s.firstBatchErr then setAsReady s else s

/-- `h.version++` and the code after the switch: `err` decides `firstBatchError` / `setAsReady`
and becomes `latestReloadResult` -/
def advance (s : H) (err : Bool) : H :=
  let s1 := { s with version := s.version + 1 }
  let s2 :=
    if err then
      (if !s1.ready then { s1 with firstBatchErr := true } else s1)
    else
      (if !s1.ready then setAsReady s1 else s1)
  { s2 with lastErr := err }

def hstep (plus : Bool) (s : H) (b : Batch) : H × Emit :=
  match b.ct with
  | .noChange => (noChangeStep s, Emit.none)
  | _ =>
    let e := apply plus s.lastErr b (s.version + 1)
    (advance s e.err, e)

/-- PRE-FIX variant of `hstep` (see `applyPreFix`) -/
def hstepPreFix (plus : Bool) (s : H) (b : Batch) : H × Emit :=
  match b.ct with
  | .noChange => (noChangeStep s, Emit.none)
  | _ =>
    let e := applyPreFix plus b (s.version + 1)
    (advance s e.err, e)

/-- PRE-FIX variant of `hrun` -/
def hrunPreFix (plus : Bool) : H → List Batch → H × List Emit
  | s, [] => (s, [])
  | s, b :: bs =>
    let (s1, e) := hstepPreFix plus s b
    let (s2, es) := hrunPreFix plus s1 bs
    (s2, e :: es)

/-- a batch sequence: final state and what each batch did -/
def hrun (plus : Bool) : H → List Batch → H × List Emit
  | s, [] => (s, [])
  | s, b :: bs =>
    let (s1, e) := hstep plus s b
    let (s2, es) := hrun plus s1 bs
    (s2, e :: es)

/-- all intermediate states (after each batch) -/
def hstates (plus : Bool) : H → List Batch → List H
  | _, [] => []
  | s, b :: bs => (hstep plus s b).1 :: hstates plus (hstep plus s b).1 bs

/-! ### Conditions: how a reload error is folded into statuses -/

structure Cond where
  type   : String
  status : String
  reason : String
  deriving DecidableEq, Repr

/-- `conditions.DeduplicateConditions`: per type the LAST condition wins; survivors keep their
relative order. -/
def dedup : List Cond → List Cond
  | [] => []
  | c :: cs => if cs.any (fun d => d.type == c.type) then dedup cs else c :: dedup cs

def lookup (t : String) (cs : List Cond) : Option Cond := cs.find? (fun c => c.type == t)

inductive Target | gateway | listener | routeParent
  deriving DecidableEq, Repr

/-- `NewGatewayNotProgrammedInvalid` / `NewListenerNotProgrammedInvalid` /
`NewRouteGatewayNotProgrammed` -/
def failureCond : Target → Cond
  | .gateway     => ⟨"Programmed", "False", "Invalid"⟩
  | .listener    => ⟨"Programmed", "False", "Invalid"⟩
  | .routeParent => ⟨"Accepted", "False", "GatewayNotProgrammed"⟩

/-- `prepareGatewayRequest` (valid Gateway), per listener, and `prepareRouteStatus` per parent:
`cs` are the conditions collected before the `if nginxReloadRes.Error != nil` block. -/
def fold (t : Target) (reloadErr : Bool) (cs : List Cond) : List Cond :=
  dedup (if reloadErr then cs ++ [failureCond t] else cs)

/-- the conditions a batch issues for a target whose conditions before the
`if nginxReloadRes.Error != nil` block are `cs`: `updateStatuses` hands the freshly stored
`h.latestReloadResult` (state AFTER the batch) to `Prepare*Requests`. -/
def issued (after : H) (t : Target) (cs : List Cond) : List Cond := fold t after.lastErr cs

/-- the batch goes through `updateNginxConf` (files + reload); `lastErr` = remembered result before it -/
def needsReload (plus lastErr : Bool) (b : Batch) : Bool :=
  b.ct == .clusterState || (b.ct == .endpointsOnly && !(plus && !lastErr))

/-- number of batches that build a configuration (each consumes a version, failed or not) -/
def applies : List Batch → Nat
  | [] => 0
  | b :: bs => (if b.ct = .noChange then 0 else 1) + applies bs

end NGF.HandlerVer
