/-
C20 — executable model of the command-line validation of `cmd/gateway`
(`validation.go`, `validating_types.go`, the `RunE` prologue of `createStaticModeCommand`).

Strings are Go strings, i.e. byte sequences: a `Str` is a `List Char` whose characters are the
bytes (0..255) of the Go string (the driver decodes the hex line protocol that way), so `length` is
Go's `len`.  Everything is structural recursion over lists; no `String` API.

Modelled library code (environment, compared with the real functions by the correspondence run):
`strconv.ParseInt(s, 10, bits)` (result classification), `net.SplitHostPort`, `net.ParseIP`
(netip.ParseAddr without zones: dotted IPv4 without leading zeros, RFC 4291 text forms of IPv6
including the embedded-IPv4 tail), `strings.Split`, `strings.Contains`, the k8s
`IsDNS1123Subdomain`, `IsDNS1123Label`, `IsQualifiedName` and the Gateway API controller-name
regular expression.  The numeric parameters (`ParseInt` bit sizes, port ranges, the controller
domain) come from `Cfg`, which the driver and the theorems instantiate with the constants the
translator reads from the current sources (`NGF.Generated.Cli`).
-/
namespace NGF.Cli

abbrev Str := List Char

/-! ### character classes (on byte values) -/

def isDigit (c : Char) : Bool := 48 ≤ c.toNat && c.toNat ≤ 57
def isLower (c : Char) : Bool := 97 ≤ c.toNat && c.toNat ≤ 122
def isUpper (c : Char) : Bool := 65 ≤ c.toNat && c.toNat ≤ 90
def isHex (c : Char) : Bool :=
  isDigit c || (97 ≤ c.toNat && c.toNat ≤ 102) || (65 ≤ c.toNat && c.toNat ≤ 70)
/-- `[a-z0-9]` -/
def isLowerAlnum (c : Char) : Bool := isLower c || isDigit c
/-- `[-a-z0-9]` -/
def isLabelChar (c : Char) : Bool := isLowerAlnum c || c == '-'
/-- `[A-Za-z0-9]` -/
def isAlnum (c : Char) : Bool := isLower c || isUpper c || isDigit c
/-- `[-A-Za-z0-9_.]` -/
def isQNameChar (c : Char) : Bool := isAlnum c || c == '-' || c == '_' || c == '.'
/-- the class `[A-Za-z0-9\/\-._~%!$&'()*+,;=:]` of the controller-name path -/
def isCtlrPathChar (c : Char) : Bool :=
  isAlnum c || "/-._~%!$&'()*+,;=:".toList.contains c

/-! ### strings.Split / Contains / Index helpers -/

/-- `strings.Split(s, string(c))` -/
def splitOnC (c : Char) : Str → List Str
  | [] => [[]]
  | x :: xs =>
    if x == c then [] :: splitOnC c xs
    else match splitOnC c xs with
      | [] => [[x]]
      | f :: fs => (x :: f) :: fs

/-- `(s[:i], s[i+1:])` for the first index `i` of `c` -/
def splitFirst (c : Char) : Str → Option (Str × Str)
  | [] => none
  | x :: xs =>
    if x == c then some ([], xs)
    else match splitFirst c xs with
      | some (a, b) => some (x :: a, b)
      | none => none

/-- `(s[:i], s[i+1:])` for the last index `i` of `c` -/
def splitLast (c : Char) : Str → Option (Str × Str)
  | [] => none
  | x :: xs =>
    match splitLast c xs with
    | some (a, b) => some (x :: a, b)
    | none => if x == c then some ([], xs) else none

/-- `strings.Contains(s, p)` -/
def hasSub (p : Str) : Str → Bool
  | [] => p.isEmpty
  | x :: xs => p.isPrefixOf (x :: xs) || hasSub p xs

/-! ### strconv.ParseInt(s, 10, bits) -/

/-- value of a string of decimal digits; `none` if some byte is not a digit -/
def digitsVal : Str → Nat → Option Nat
  | [], acc => some acc
  | c :: cs, acc => if isDigit c then digitsVal cs (acc * 10 + (c.toNat - 48)) else none

/-- `some v` iff `strconv.ParseInt(s, 10, bits)` returns `v` with a nil error.
Base 10: an optional single sign, then at least one digit, nothing else (underscores are only
legal with base 0); any number of leading zeros; out of range for `bits` is an error. -/
def parseInt (bits : Nat) (s : Str) : Option Int :=
  match s with
  | [] => none
  | c :: cs =>
    let neg := c == '-'
    let ds := if c == '+' || c == '-' then cs else c :: cs
    if ds.isEmpty then none
    else match digitsVal ds 0 with
      | none => none
      | some n =>
        if !neg && n ≥ 2 ^ (bits - 1) then none
        else if neg && n > 2 ^ (bits - 1) then none
        else some (if neg then -(n : Int) else (n : Int))

/-! ### net.SplitHostPort -/

inductive SHPErr | missingPort | tooManyColons | missingBracket | unexpectedOpen | unexpectedClose
  deriving DecidableEq, Repr

def splitHostPort (s : Str) : Except SHPErr (Str × Str) :=
  if !s.contains ':' then .error .missingPort
  else match s with
    | [] => .error .missingPort
    | c :: rest =>
      if c == '[' then
        match splitFirst ']' rest with
        | none => .error .missingBracket
        | some (host, after) =>
          match after with
          | [] => .error .missingPort
          | a :: port =>
            if a == ':' then
              if port.contains ':' then .error .tooManyColons
              else if rest.contains '[' then .error .unexpectedOpen
              else if after.contains ']' then .error .unexpectedClose
              else .ok (host, port)
            else .error .missingPort
      else
        match splitLast ':' s with
        | none => .error .missingPort
        | some (host, port) =>
          if host.contains ':' then .error .tooManyColons
          else if s.contains '[' then .error .unexpectedOpen
          else if s.contains ']' then .error .unexpectedClose
          else .ok (host, port)

/-! ### net.ParseIP -/

/-- one dotted-quad field: digits, no leading zero unless it is "0", value ≤ 255 -/
def octetOK (f : Str) : Bool :=
  match f with
  | [] => false
  | c :: cs =>
    f.all isDigit && (cs.isEmpty || c != '0') &&
      (match digitsVal f 0 with | some v => v ≤ 255 | none => false)

def isV4 (s : Str) : Bool :=
  let fs := splitOnC '.' s
  fs.length == 4 && fs.all octetOK

/-- 1 to 4 hex digits -/
def hexGroupOK (f : Str) : Bool := !f.isEmpty && f.length ≤ 4 && f.all isHex

/-- a leading "::" shows as two empty fields; keep one (it marks the ellipsis); a single leading ':' is an error -/
def normLead : List Str → Option (List Str)
  | [] :: [] :: rest => some ([] :: rest)
  | [] :: _ => none
  | fs => some fs

/-- same at the end of the address -/
def normTrail (fs : List Str) : Option (List Str) :=
  match fs.reverse with
  | [] :: [] :: rest => some (([] :: rest).reverse)
  | [] :: _ => none
  | _ => some fs

/-- number of 16-bit units of the fields (empty field = the ellipsis = 0 units); only the last
field may be a dotted quad (2 units); `none` if a field is malformed -/
def v6Units : List Str → Option Nat
  | [] => some 0
  | [f] =>
    if f.isEmpty then some 0 else if hexGroupOK f then some 1 else if isV4 f then some 2 else none
  | f :: g :: fs =>
    if f.isEmpty then v6Units (g :: fs)
    else if hexGroupOK f then (v6Units (g :: fs)).map (· + 1) else none

def isV6 (s : Str) : Bool :=
  match (normLead (splitOnC ':' s)).bind normTrail with
  | none => false
  | some fs =>
    match v6Units fs with
    | none => false
    | some u =>
      let e := (fs.filter (·.isEmpty)).length
      (e == 0 && u == 8) || (e == 1 && u ≤ 7)

/-- `net.ParseIP(s) != nil` -/
def parseIP (s : Str) : Bool := if s.contains ':' then isV6 s else isV4 s

/-! ### k8s.io/apimachinery/pkg/util/validation -/

/-- `^[a-z0-9]([-a-z0-9]*[a-z0-9])?$` -/
def labelRe (l : Str) : Bool :=
  match l with
  | [] => false
  | c :: _ => isLowerAlnum c && l.all isLabelChar &&
      (match l.getLast? with | some d => isLowerAlnum d | none => false)

/-- `^label(\.label)*$` -/
def subdomainRe (s : Str) : Bool := (splitOnC '.' s).all labelRe

/-- `len(IsDNS1123Subdomain(s)) == 0` -/
def isDNS1123Subdomain (s : Str) : Bool := s.length ≤ 253 && subdomainRe s

/-- `len(IsDNS1123Label(s)) == 0` -/
def isDNS1123Label (s : Str) : Bool := s.length ≤ 63 && labelRe s

/-- `^([A-Za-z0-9][-A-Za-z0-9_.]*)?[A-Za-z0-9]$` -/
def qnameRe (l : Str) : Bool :=
  match l with
  | [] => false
  | c :: _ => isAlnum c && l.all isQNameChar &&
      (match l.getLast? with | some d => isAlnum d | none => false)

/-- `len(IsQualifiedName(s)) == 0` -/
def isQualifiedName (s : Str) : Bool :=
  match splitOnC '/' s with
  | [name] => name.length ≤ 63 && qnameRe name
  | [pre, name] => !pre.isEmpty && isDNS1123Subdomain pre && name.length ≤ 63 && qnameRe name
  | _ => false

/-! ### cmd/gateway/validation.go -/

/-- constants read from the sources by the translator -/
structure Cfg where
  epBits  : Nat   -- bit size of ParseInt in validateEndpoint
  epLo    : Nat
  epHi    : Nat
  optBits : Nat   -- bit size of ParseInt in validateEndpointOptionalPort
  optLo   : Nat
  optHi   : Nat
  intBits : Nat   -- bit size of ParseInt in intValidatingValue.Set
  portLo  : Nat   -- validatePort
  portHi  : Nat
  domain  : Str
  deriving Repr

/-- result classes of the validators (which `return` statement was taken) -/
inductive Res
  | ok | empty | split | portnum | portrange | host | format | domain | regex | nsname | resname
  | bracket | unix
  deriving DecidableEq, Repr

def Res.isOk : Res → Bool | .ok => true | _ => false

/-- `validateIP(s) == nil` -/
def validateIP (s : Str) : Res :=
  if s.isEmpty then .empty else if parseIP s then .ok else .host

/-- the tail shared by both endpoint validators: host is an IP address or a DNS-1123 subdomain -/
def hostOK (h : Str) : Bool := (validateIP h).isOk || isDNS1123Subdomain h

def portCheck (bits lo hi : Nat) (p : Str) : Res :=
  match parseInt bits p with
  | none => .portnum
  | some v => if v < (lo : Int) || v > (hi : Int) then .portrange else .ok

def validateEndpoint (cfg : Cfg) (s : Str) : Res :=
  match splitHostPort s with
  | .error _ => .split
  | .ok (h, p) =>
    match portCheck cfg.epBits cfg.epLo cfg.epHi p with
    | .ok => if hostOK h then .ok else .host
    | r => r

/-- `strings.Contains(err.Error(), "missing port") || strings.Contains(err.Error(), "too many colons")`
where `err.Error() = "address " + value + ": " + why`: the test also looks into the value itself. -/
def tolerated (k : SHPErr) (value : Str) : Bool :=
  k == .missingPort || k == .tooManyColons ||
    hasSub "missing port".toList value || hasSub "too many colons".toList value

/-- `validateEndpointOptionalPort` as it is now (after 746dbb2): when SplitHostPort succeeds the port must be
non-empty and unsigned, brackets are only allowed around a host containing ':', and the host `unix` is refused. -/
def validateEndpointOptionalPort (cfg : Cfg) (s : Str) : Res :=
  if s.isEmpty then .empty
  else
    match splitHostPort s with
    | .error k => if tolerated k s then (if hostOK s then .ok else .host) else .split
    | .ok (h, p) =>
      if p.isEmpty || p.head? == some '+' || p.head? == some '-' then .portnum
      else if s.head? == some '[' && !h.contains ':' then .bracket
      else if h == "unix".toList then .unix
      else
        match portCheck cfg.optBits cfg.optLo cfg.optHi p with
        | .ok => if hostOK (if h.isEmpty then s else h) then .ok else .host
        | r => r

/-- PRE-FIX variant (before 746dbb2), kept as a documented regression detector: the port test was skipped
for an empty port, a sign was left to `ParseInt`, brackets and the host `unix` were not looked at. -/
def validateEndpointOptionalPortPreFix (cfg : Cfg) (s : Str) : Res :=
  if s.isEmpty then .empty
  else
    let r := splitHostPort s
    match r with
    | .error k => if tolerated k s then (if hostOK s then .ok else .host) else .split
    | .ok (h, p) =>
      match (if p.isEmpty then Res.ok else portCheck cfg.optBits cfg.optLo cfg.optHi p) with
      | .ok => if hostOK (if h.isEmpty then s else h) then .ok else .host
      | r => r

def validateResourceName (s : Str) : Res :=
  if s.isEmpty then .empty else if isDNS1123Subdomain s then .ok else .format

def validateNamespaceName (s : Str) : Res := if isDNS1123Label s then .ok else .format

def parseNamespacedResourceName (s : Str) : Res :=
  if s.isEmpty then .empty
  else match splitOnC '/' s with
    | [ns, name] =>
      if !(validateNamespaceName ns).isOk then .nsname
      else if !(validateResourceName name).isOk then .resname else .ok
    | _ => .format

def validateQualifiedName (s : Str) : Res :=
  if s.isEmpty then .empty else if isQualifiedName s then .ok else .format

/-- the regular expression `controllerNameRegex`: a DNS subdomain, '/', one or more path bytes -/
def ctlrRe (s : Str) : Bool :=
  match splitFirst '/' s with
  | none => false
  | some (d, path) => subdomainRe d && !path.isEmpty && path.all isCtlrPathChar

def validateGatewayControllerName (cfg : Cfg) (s : Str) : Res :=
  if s.isEmpty then .empty
  else match splitOnC '/' s with
    | [] => .format
    | [_] => .format
    | d :: _ => if d != cfg.domain then .domain else if ctlrRe s then .ok else .regex

/-- `validatePort` -/
def validatePort (cfg : Cfg) (v : Int) : Bool := !(v < (cfg.portLo : Int) || v > (cfg.portHi : Int))

/-- `intValidatingValue{validator: validatePort}.Set(s)`; the stored value on success -/
def intFlagSet (cfg : Cfg) (s : Str) : Option Int :=
  match parseInt cfg.intBits s with
  | none => none
  | some v => if validatePort cfg v then some v else none

/-- `ensureNoPortCollisions(ports...) == nil` -/
def noCollisions : List Int → Bool
  | [] => true
  | p :: ps => !ps.contains p && noCollisions ps

/-! ### the static-mode command: flag parsing followed by the `RunE` prologue -/

inductive Flag
  | ctlrName | gatewayClass | gateway | config | service | leLockName
  | urSecret | urEndpoint | urResolver | urClientSSL | urCA
  | metricsPort | healthPort
  | plus | other   -- `other`: the remaining boolean flags
  deriving DecidableEq, Repr

/-- `strconv.ParseBool` -/
def parseBool (s : Str) : Option Bool :=
  if ["1", "t", "T", "TRUE", "true", "True"].contains (String.ofList s) then some true
  else if ["0", "f", "F", "FALSE", "false", "False"].contains (String.ofList s) then some false
  else none

structure Flags where
  ctlrName   : Option Str := none       -- required
  gatewayClass : Option Str := none     -- required
  gateway    : Option Str := none
  config     : Str := []
  service    : Str := []
  leLockName : Str := "nginx-gateway-leader-election-lock".toList
  urSecret   : Str := "nplus-license".toList
  urEndpoint : Str := []
  urResolver : Str := []
  urClientSSL : Str := []
  urCA       : Str := []
  metricsPort : Int := 9113
  healthPort  : Int := 8081
  plus       : Bool := false
  deriving Repr, DecidableEq

/-- `Value.Set` of the flag; `none` = the validator returned an error -/
def setFlag (cfg : Cfg) (st : Flags) (f : Flag) (v : Str) : Option Flags :=
  let str (r : Res) (g : Flags) : Option Flags := if r.isOk then some g else none
  match f with
  | .ctlrName => str (validateGatewayControllerName cfg v) { st with ctlrName := some v }
  | .gatewayClass => str (validateResourceName v) { st with gatewayClass := some v }
  | .gateway => str (parseNamespacedResourceName v) { st with gateway := some v }
  | .config => str (validateResourceName v) { st with config := v }
  | .service => str (validateResourceName v) { st with service := v }
  | .leLockName => str (validateResourceName v) { st with leLockName := v }
  | .urSecret => str (validateResourceName v) { st with urSecret := v }
  | .urEndpoint => str (validateEndpointOptionalPort cfg v) { st with urEndpoint := v }
  | .urResolver => str (validateEndpointOptionalPort cfg v) { st with urResolver := v }
  | .urClientSSL => str (validateResourceName v) { st with urClientSSL := v }
  | .urCA => str (validateResourceName v) { st with urCA := v }
  | .metricsPort => (intFlagSet cfg v).map fun p => { st with metricsPort := p }
  | .healthPort => (intFlagSet cfg v).map fun p => { st with healthPort := p }
  | .plus => (parseBool v).map fun b => { st with plus := b }
  | .other => (parseBool v).map fun _ => st

inductive CmdRes
  | flagErr (i : Nat)        -- the i-th `--flag=value` was refused by its validator
  | required                 -- a required flag is missing
  | collision                -- ensureNoPortCollisions
  | telemetryEndpoint        -- build-time telemetry endpoint does not validate
  | telemetryBool            -- build-time telemetryEndpointInsecure does not parse
  | plusSecret               -- --nginx-plus without usage-report-secret
  | validated (st : Flags)   -- every check passed; the next statement builds the pod config and starts the manager
  deriving Repr, DecidableEq

/-- pflag: the settings are applied left to right, the first refused one aborts -/
def applyFlags (cfg : Cfg) : Flags → Nat → List (Flag × Str) → Except Nat Flags
  | st, _, [] => .ok st
  | st, i, (f, v) :: rest =>
    match setFlag cfg st f v with
    | none => .error i
    | some st' => applyFlags cfg st' (i + 1) rest

/-- the `RunE` prologue of `createStaticModeCommand`, in source order -/
def runE (cfg : Cfg) (tEndpoint tInsecure : Str) (st : Flags) : CmdRes :=
  if !noCollisions [st.metricsPort, st.healthPort] then .collision
  else if !tEndpoint.isEmpty && !(validateEndpoint cfg tEndpoint).isOk then .telemetryEndpoint
  else if (parseBool tInsecure).isNone then .telemetryBool
  else if st.plus && st.urSecret.isEmpty then .plusSecret
  else .validated st

/-- the flag values before any `Set`: the defaults of `createStaticModeCommand` -/
def initFlags : Flags := {}

def runStatic (cfg : Cfg) (tEndpoint tInsecure : Str) (args : List (Flag × Str)) : CmdRes :=
  match applyFlags cfg initFlags 0 args with
  | .error i => .flagErr i
  | .ok st =>
    if st.ctlrName.isNone || st.gatewayClass.isNone then .required
    else runE cfg tEndpoint tInsecure st

/-! ### the mgmt template for a configuration with only the licence token (what the harness renders) -/

/-- `mgmtConfigTemplateText` executed with Endpoint = ep, Resolver = res, no CA / client certificate,
SkipVerify = false -/
def renderMgmtRaw (ep res : Str) : Str :=
  "\nmgmt {".toList ++
  (if ep.isEmpty then [] else "\n\tusage_report endpoint=".toList ++ ep ++ ";".toList) ++
  (if res.isEmpty then [] else "\n\tresolver ".toList ++ res ++ ";".toList) ++
  "\n\tlicense_token /etc/nginx/secrets/license.jwt;\n\tdeployment_context /etc/nginx/main-includes/deployment_ctx.json;\n}\n".toList

/-- `nginxAddr` of main_config.go (since 15df172): a bare IPv6 address gets brackets -/
def nginxAddr (v : Str) : Str := if v.contains ':' && parseIP v then '[' :: (v ++ [']']) else v

/-- `generateMgmtFiles`: the flag values pass through `nginxAddr` into the template -/
def renderMgmt (ep res : Str) : Str := renderMgmtRaw (nginxAddr ep) (nginxAddr res)

end NGF.Cli
