/-
C04: lexical context of every template hole, computed by running the Lean NGINX lexer over the
template literals (NGF.Generated.Templates, regenerated from /repo on every check).

A template is linearised: literal segments are fed to the lexer character by character, control
actions (`#if`, `#range`, `#else`, `#end`, `#set`) are skipped (all branches are traversed in source
order; every branch of the NGF templates is token-balanced), and a value hole is replaced by the
placeholder character `x`. For every value hole we record the lexer mode in which the value starts and
the template character that follows it.
Core Lean only.
-/
import NGF.Model.NginxLex
import NGF.Generated.Templates

namespace NGF.Inj
open NGF.Nginx

/-- lexical context of a hole -/
inductive HoleCtx
  | argStart     -- the value starts a bare argument
  | argTail      -- the value continues a bare argument that the template started
  | dquoted      -- inside "…"
  | squoted      -- inside '…'
  | comment      -- inside a # comment
  | broken       -- the literal prefix does not lex / unexpected mode
  deriving DecidableEq, Repr

def ctxOfMode : Mode → HoleCtx
  | .space => .argStart
  | .bare => .argTail
  | .dq => .dquoted
  | .sq => .squoted
  | .comment => .comment
  | .needSpace => .broken

structure Hole where
  template : List Char
  expr : List Char
  ctx : HoleCtx
  next : List Char     -- first two characters of the literal that follows ([] if none / not a literal)
  deriving DecidableEq, Repr

def feed (st : Option LexSt) (cs : List Char) : Option LexSt :=
  cs.foldl (fun st c => match st with
    | none => none
    | some s => match step s c with
      | .ok (s', _) => some s'
      | .error _ => none) st

def nextLit : List (Bool × String) → List Char
  | (false, t) :: _ => t.toList.take 2
  | _ => []

def holesGo (name : List Char) : Option LexSt → List (Bool × String) → List Hole
  | _, [] => []
  | st, (false, t) :: rest => holesGo name (feed st t.toList) rest
  | st, (true, e) :: rest =>
    if e.toList.head? == some '#' then holesGo name st rest
    else
      let ctx := match st with | some s => ctxOfMode s.mode | none => .broken
      { template := name, expr := e.toList, ctx := ctx, next := nextLit rest } :: holesGo name (feed st ['x']) rest

def holesOf (name : String) (segs : List (Bool × String)) : List Hole :=
  (holesGo name.toList (some LexSt.init) segs).eraseDups

open NGF.Generated.Templates in
def allTemplates : List (String × List (Bool × String)) :=
  [("servers", servers), ("mainConfig", mainConfig), ("mgmtConfig", mgmtConfig), ("otel", otel),
   ("baseHTTP", baseHTTP), ("maps", maps), ("splitClients", splitClients), ("upstreams", upstreams),
   ("streamUpstreams", streamUpstreams), ("streamServers", streamServers), ("version", version),
   ("obsPolicy", obsPolicy), ("obsPolicyInternal", obsPolicyInternal), ("obsPolicyExtRedirect", obsPolicyExtRedirect),
   ("clientSettings", clientSettings)]

/-- every value hole of every template with its computed context -/
def allHoles : List Hole := (allTemplates.map (fun t => holesOf t.1 t.2)).flatten

end NGF.Inj
