/-
C19 — reference for "NGINX directive name": a small statement lexer after `ngx_conf_read_token`
(src/core/ngx_conf_file.c) and the statement/block structure of `ngx_conf_parse`.

Trusted environment model (DESIGN.md §4): it says what NGINX would read in a snippet; it is NOT a
model of NGF code.  The lexer is *lossless*: every input character belongs to exactly one token
(`lex_lossless` in `NGF.Proofs.SnippetLex`), so token positions are cumulative raw lengths.

ngx_conf_read_token, faithfully:
 * whitespace between tokens is SP, HT, CR, LF;
 * at a token start: `;` `{` `}` are tokens, `#` starts a comment that runs up to (excluding) LF,
   `"` / `'` start a quoted word, `\` escapes the next character, `$` arms the `${` rule;
 * inside a bare word only SP/HT/CR/LF, `;` and `{` end the word (`}` `#` `"` `'` are ordinary there);
   `{` directly after `$` (and while the `variable` flag stays set) does not end the word;
   `\` takes the next character literally;
 * inside a quoted word only the matching unescaped quote ends it.
Leniency (NGINX would reject the file, we keep lexing so that the function is total): after a closing
quote any character may follow (NGINX demands whitespace, `;`, `{` or `)`); an unterminated quote or
word at end of input is a word; `}` at depth 0 is ignored by `names0`; `;`/`{` with no preceding word
form an empty statement.

Statement structure (ngx_conf_parse): a statement is a maximal run of words ended by `;` or `{`;
`{` opens a block (depth+1) that the directive's handler parses recursively, `}` closes it.
DECISION (documented in notes/C19.md): the *directive names of a snippet* are the first words of the
statements at nesting depth 0, including the statement that opens a block (`map`, `location`, `if`) and a
trailing statement that is not terminated; entries inside a nested block are parameters of the block
directive (for `map`/`geo`/`types`/`split_clients` they are user data such as hostnames) or directives
of another context, and are NOT directive names of the snippet's context.
-/
namespace NGF.SnippetLex

/-- `dqOpen`/`sqOpen`: a quoted word that reached the end of the input without its closing quote -/
inductive Quote | none | dq | sq | dqOpen | sqOpen
  deriving DecidableEq, Repr

inductive Tok
  | ws (c : Char)
  | comment (raw : List Char)
  | word (raw : List Char) (q : Quote)
  | semi | lb | rb
  deriving DecidableEq, Repr

def Tok.raw : Tok → List Char
  | .ws c => [c]
  | .comment r => r
  | .word r _ => r
  | .semi => [';']
  | .lb => ['{']
  | .rb => ['}']

def isNgxSpace (c : Char) : Bool := c == ' ' || c == '\t' || c == '\r' || c == '\n'

/-- lexer mode; accumulators are reversed -/
inductive Mode
  | gap
  | comment (acc : List Char)
  | bare (acc : List Char) (esc var : Bool)
  | quoted (dq : Bool) (acc : List Char) (esc : Bool)   -- acc: text after the opening quote
  deriving DecidableEq, Repr

def quoteChar (dq : Bool) : Char := if dq then '"' else '\''

def step : Mode → Char → Mode × List Tok
  | .gap, c =>
    if isNgxSpace c then (.gap, [.ws c])
    else if c == ';' then (.gap, [.semi])
    else if c == '{' then (.gap, [.lb])
    else if c == '}' then (.gap, [.rb])
    else if c == '#' then (.comment [c], [])
    else if c == '"' then (.quoted true [] false, [])
    else if c == '\'' then (.quoted false [] false, [])
    else if c == '\\' then (.bare [c] true false, [])
    else if c == '$' then (.bare [c] false true, [])
    else (.bare [c] false false, [])
  | .comment acc, c =>
    if c == '\n' then (.gap, [.comment acc.reverse, .ws c]) else (.comment (c :: acc), [])
  | .bare acc esc var, c =>
    if esc then (.bare (c :: acc) false var, [])
    else if c == '{' && var then (.bare (c :: acc) false true, [])
    else if c == '\\' then (.bare (c :: acc) true false, [])
    else if c == '$' then (.bare (c :: acc) false true, [])
    else if isNgxSpace c then (.gap, [.word acc.reverse .none, .ws c])
    else if c == ';' then (.gap, [.word acc.reverse .none, .semi])
    else if c == '{' then (.gap, [.word acc.reverse .none, .lb])
    else (.bare (c :: acc) false false, [])
  | .quoted dq acc esc, c =>
    if esc then (.quoted dq (c :: acc) false, [])
    else if c == '\\' then (.quoted dq (c :: acc) true, [])
    else if c == quoteChar dq then
      (.gap, [.word (quoteChar dq :: (c :: acc).reverse) (if dq then .dq else .sq)])
    else (.quoted dq (c :: acc) false, [])

/-- tokens still owed at end of input -/
def flush : Mode → List Tok
  | .gap => []
  | .comment acc => [.comment acc.reverse]
  | .bare acc _ _ => [.word acc.reverse .none]
  | .quoted dq acc _ => [.word (quoteChar dq :: acc.reverse) (if dq then .dqOpen else .sqOpen)]

def run : Mode → List Char → List Tok
  | m, [] => flush m
  | m, c :: cs => (step m c).2 ++ run (step m c).1 cs

def lex (s : List Char) : List Tok := run .gap s

/-- escape processing of ngx_conf_read_token when it copies a word -/
def unescape : List Char → List Char
  | '\\' :: c :: cs =>
    if c == '"' || c == '\'' || c == '\\' then c :: unescape cs
    else if c == 't' then '\t' :: unescape cs
    else if c == 'r' then '\r' :: unescape cs
    else if c == 'n' then '\n' :: unescape cs
    else '\\' :: c :: unescape cs
  | c :: cs => c :: unescape cs
  | [] => []

/-- the word NGINX stores in `cf->args`: quotes stripped, escapes processed -/
def wordValue (raw : List Char) (q : Quote) : List Char :=
  match q with
  | .none => unescape raw
  | .dq | .sq => unescape (raw.drop 1).dropLast
  | .dqOpen | .sqOpen => unescape (raw.drop 1)

/-- first words of the statements at nesting depth 0 (`atStart`: no word of the statement seen yet) -/
def namesFrom : Nat → Bool → List Tok → List (List Char)
  | _, _, [] => []
  | d, st, .ws _ :: ts => namesFrom d st ts
  | d, st, .comment _ :: ts => namesFrom d st ts
  | d, st, .word r q :: ts =>
    if d == 0 && st then wordValue r q :: namesFrom d false ts else namesFrom d false ts
  | d, _, .semi :: ts => namesFrom d true ts
  | d, _, .lb :: ts => namesFrom (d + 1) true ts
  | d, _, .rb :: ts => namesFrom (d - 1) true ts

def names0 (ts : List Tok) : List (List Char) := namesFrom 0 true ts

/-- the directive names of a snippet, in order of appearance -/
def directiveNames (s : List Char) : List (List Char) := names0 (lex s)

end NGF.SnippetLex
