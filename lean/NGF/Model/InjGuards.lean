/-
C04: Lean models of the string validators that guard the template holes of nginx-gateway-fabric,
built from the GENERATED regexes (NGF.Generated.Regexes, re-extracted from /repo on every check).

Mirrors (internal/mode/static/nginx/config/validation): validatePath, HTTPNJSMatchValidator.*,
validateCommonNJSMatchPart, validateHeaderName, validateEscapedString(NoVarExpansion),
GenericValidator.*; (internal/mode/static/state/graph/validation.go) validateHostname with the
k8s.io/apimachinery regexes it calls. The harness runs the real Go functions on generated and
adversarial strings and the driver runs these models on the same strings (correspondence).
Core Lean only.
-/
import NGF.Model.Regex
import NGF.Generated.Regexes

namespace NGF.Inj
open NGF.Rx

/-- instantiate the Böhm-Berarducci encoding emitted by the translator -/
def inst (f : {R : Type} → (empty eps : R) → (cls : List (Nat × Nat) → R) → (seq alt : R → R → R) →
    (star plus opt : R → R) → (rep : R → Nat → Nat → R) → R) : Regex :=
  f .empty .eps .cls .seq .alt .star .plus .opt .rep

namespace G
open NGF.Generated.Regexes

def pathRe : GoRegex := ⟨pathRegexp_src, inst pathRegexp, pathRegexp_anchoredStart, pathRegexp_anchoredEnd⟩
def escapedRe : GoRegex :=
  ⟨escapedStringsFmtRegexp_src, inst escapedStringsFmtRegexp, escapedStringsFmtRegexp_anchoredStart,
    escapedStringsFmtRegexp_anchoredEnd⟩
def noVarRe : GoRegex :=
  ⟨escapedStringsNoVarExpansionFmtRegexp_src, inst escapedStringsNoVarExpansionFmtRegexp,
    escapedStringsNoVarExpansionFmtRegexp_anchoredStart, escapedStringsNoVarExpansionFmtRegexp_anchoredEnd⟩
def alnumRe : GoRegex :=
  ⟨alphaNumericStringFmtRegexp_src, inst alphaNumericStringFmtRegexp, alphaNumericStringFmtRegexp_anchoredStart,
    alphaNumericStringFmtRegexp_anchoredEnd⟩
def durationRe : GoRegex :=
  ⟨durationStringFmtRegexp_src, inst durationStringFmtRegexp, durationStringFmtRegexp_anchoredStart,
    durationStringFmtRegexp_anchoredEnd⟩
def sizeRe : GoRegex :=
  ⟨sizeStringFmtRegexp_src, inst sizeStringFmtRegexp, sizeStringFmtRegexp_anchoredStart, sizeStringFmtRegexp_anchoredEnd⟩
def endpointRe : GoRegex :=
  ⟨endpointStringFmtRegexp_src, inst endpointStringFmtRegexp, endpointStringFmtRegexp_anchoredStart,
    endpointStringFmtRegexp_anchoredEnd⟩
def dnsLabelRe : GoRegex :=
  ⟨k8s_dns1123Label_src, inst k8s_dns1123Label, k8s_dns1123Label_anchoredStart, k8s_dns1123Label_anchoredEnd⟩
def dnsSubdomainRe : GoRegex :=
  ⟨k8s_dns1123Subdomain_src, inst k8s_dns1123Subdomain, k8s_dns1123Subdomain_anchoredStart,
    k8s_dns1123Subdomain_anchoredEnd⟩
def wildcardRe : GoRegex :=
  ⟨k8s_wildcardDNS1123Subdomain_src, inst k8s_wildcardDNS1123Subdomain, k8s_wildcardDNS1123Subdomain_anchoredStart,
    k8s_wildcardDNS1123Subdomain_anchoredEnd⟩
def headerNameRe : GoRegex :=
  ⟨k8s_httpHeaderName_src, inst k8s_httpHeaderName, k8s_httpHeaderName_anchoredStart, k8s_httpHeaderName_anchoredEnd⟩

end G

open NGF.Generated.Regexes in
/-- the seven regexes of nginx/config/validation by variable name (must cover `repoRegexNames`) -/
def repoRegexTable : List (String × GoRegex) :=
  [("alphaNumericStringFmtRegexp", G.alnumRe), ("durationStringFmtRegexp", G.durationRe),
   ("endpointStringFmtRegexp", G.endpointRe), ("escapedStringsFmtRegexp", G.escapedRe),
   ("escapedStringsNoVarExpansionFmtRegexp", G.noVarRe), ("pathRegexp", G.pathRe),
   ("sizeStringFmtRegexp", G.sizeRe)]

/-- `unicode.IsSpace` -/
def isUnicodeSpace (c : Char) : Bool :=
  let n := c.toNat
  (9 ≤ n && n ≤ 13) || n == 32 || n == 0x85 || n == 0xA0 || n == 0x1680 || (0x2000 ≤ n && n ≤ 0x200A) ||
    n == 0x2028 || n == 0x2029 || n == 0x202F || n == 0x205F || n == 0x3000

def lowerAscii (c : Char) : Char := if 'A' ≤ c && c ≤ 'Z' then Char.ofNat (c.toNat + 32) else c

/-- UTF-8 length in bytes (Go's `len`) -/
def byteLen (s : List Char) : Nat := s.foldl (fun n c => n + c.utf8Size) 0

def startsWith (p s : List Char) : Bool := p.isPrefixOf s

/-- validatePath (filters): empty, or pathRegexp and neither `$` nor a backslash
(`strings.ContainsAny(path, "$\\")`, /repo commit b4791fc) -/
def validatePath (s : List Char) : Bool := s.isEmpty || (G.pathRe.test s && !s.contains '$' && !s.contains '\\')

/-- validatePath as it was before commit b4791fc (backslashes accepted): kept for the regression witnesses -/
def validatePathPreFix (s : List Char) : Bool := s.isEmpty || (G.pathRe.test s && !s.contains '$')

/-- HTTPNJSMatchValidator.ValidatePathInMatch -/
def validatePathInMatch (s : List Char) : Bool := !s.isEmpty && G.pathRe.test s

def validateEscapedString (s : List Char) : Bool := G.escapedRe.test s

def validateEscapedStringNoVarExpansion (s : List Char) : Bool := G.noVarRe.test s

/-- validateCommonNJSMatchPart -/
def validateCommonNJSMatchPart (s : List Char) : Bool :=
  !s.isEmpty && !(s.all isUnicodeSpace) && !s.contains '$'

def validateNJSHeaderPart (s : List Char) : Bool := !s.contains ':' && validateCommonNJSMatchPart s

def validateHeaderNameInMatch (s : List Char) : Bool := G.headerNameRe.test s && validateNJSHeaderPart s

/-- validateHeaderName (filters) -/
def validateHeaderName (s : List Char) : Bool :=
  byteLen s ≤ NGF.Generated.Regexes.maxHeaderLength && G.headerNameRe.test s &&
    !(NGF.Generated.Regexes.invalidHeaders.contains (String.ofList (s.map lowerAscii)))

def validateMethod (s : List Char) : Bool := NGF.Generated.Regexes.supportedMethods.contains (String.ofList s)

def validateRedirectScheme (s : List Char) : Bool :=
  NGF.Generated.Regexes.supportedRedirectSchemes.contains (String.ofList s)

/-- graph.validateHostname (validation.go) over k8s IsDNS1123Subdomain / IsWildcardDNS1123Subdomain -/
def validateHostname (s : List Char) : Bool :=
  if s.isEmpty then false
  else if startsWith ['*', '.'] s then
    byteLen s ≤ NGF.Generated.Regexes.k8s_dns1123SubdomainMaxLength && G.wildcardRe.test s
  else byteLen s ≤ NGF.Generated.Regexes.k8s_dns1123SubdomainMaxLength && G.dnsSubdomainRe.test s

/-- the validators by the name the harness uses -/
def validators : List (String × (List Char → Bool)) :=
  [("ValidatePathInMatch", validatePathInMatch),
   ("ValidatePath", validatePath),
   ("ValidateHeaderNameInMatch", validateHeaderNameInMatch),
   ("ValidateHeaderValueInMatch", validateNJSHeaderPart),
   ("ValidateQueryParamNameInMatch", validateCommonNJSMatchPart),
   ("ValidateQueryParamValueInMatch", validateCommonNJSMatchPart),
   ("ValidateMethodInMatch", validateMethod),
   ("ValidateRedirectScheme", validateRedirectScheme),
   ("ValidateRedirectHostname", validateEscapedStringNoVarExpansion),
   ("ValidateFilterHeaderName", validateHeaderName),
   ("ValidateFilterHeaderValue", validateEscapedStringNoVarExpansion),
   ("ValidateEscapedStringNoVarExpansion", validateEscapedStringNoVarExpansion),
   ("ValidateServiceName", fun s => G.alnumRe.test s),
   ("ValidateNginxDuration", fun s => G.durationRe.test s),
   ("ValidateNginxSize", fun s => G.sizeRe.test s),
   ("ValidateEndpoint", fun s => G.endpointRe.test s),
   ("graph.validateHostname", validateHostname),
   ("regex:escapedStringsFmtRegexp", validateEscapedString)]

end NGF.Inj
