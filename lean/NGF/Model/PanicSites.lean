/-
C05 — `Except`-valued mirrors of the explicit panic sites of the control plane and of the guards that
are meant to keep them unreachable (core Lean only).

Each section names the Go functions it follows.  A mirror returns `.error site` exactly where the Go
code executes `panic(...)` (or, for the two mirrored implicit sites, dereferences a nil pointer).
The functions here are the ones `NGF/Driver/C05.lean` runs on the views extracted from the real
pipeline, and the ones `NGF/Props/C05.lean` proves things about.
-/
namespace NGF.PanicSites

/-- The mirrored sites. -/
inductive Site
  | nsLookup          -- route_common.go isRouteNamespaceAllowedByListener: "route namespace %q not found in map"
                      -- (REMOVED by commit d734bd5; fires only in the pre-fix mirror `nsAllowedPre`)
  | nilFrom           -- same function: `*listener.Source.AllowedRoutes.Namespaces.From` with From == nil (implicit)
  | noListenerForHost -- configuration.go hostPathRules.buildServers: "no listener found for hostname"
  | pathType          -- convert.go convertPathType: "unsupported path type"
  | nilPath           -- configuration.go upsertRoute: `*m.Path.Type` with Path or Type nil (implicit)
  | resolvePre        -- resolver.go Resolve: "expected the following fields to be non-empty"
  | plusField         -- graph.go setPlusSecretContent: "NGINX Plus Secret did not have expected field"
                      -- (REMOVED by commit 02715d5; fires only in the pre-fix mirror `setPlusSecretContentPre`)
  | mgmtToken         -- main_config.go generateMgmtFiles: "nginx plus token not set in expected map"
  | storeGVK          -- store.go assertSupportedGVK: "unsupported GVK"
  | storeFind         -- store.go mustFindStoreForObj: "object store for … not found"
  | routeType         -- route_common.go convertRouteType / backend_refs.go getRefGrantFromResourceForRoute /
                      -- prepare_requests.go PrepareRouteRequests: unknown route type
  | filterType        -- common_filter.go validateFilter: "unexpected filter type"
  | btpCondIndex      -- backend_refs.go findBackendTLSPolicyForService: `beTLSPolicy.Conditions[0]` on an empty
                      -- slice (implicit index panic; GUARDED since commit 72dccd7; fires only in `btpMessagePre`)
  deriving DecidableEq, Repr, BEq

instance {ε α : Type} [DecidableEq ε] [DecidableEq α] : DecidableEq (Except ε α) := fun a b =>
  match a, b with
  | .ok x, .ok y => if h : x = y then isTrue (by rw [h]) else isFalse (fun e => h (by cases e; rfl))
  | .error x, .error y => if h : x = y then isTrue (by rw [h]) else isFalse (fun e => h (by cases e; rfl))
  | .ok _, .error _ => isFalse (fun e => by cases e)
  | .error _, .ok _ => isFalse (fun e => by cases e)

def Site.name : Site → String
  | .nsLookup => "namespace-lookup" | .nilFrom => "nil-from" | .noListenerForHost => "no-listener-for-hostname"
  | .pathType => "path-type" | .nilPath => "nil-path" | .resolvePre => "resolve-precondition"
  | .plusField => "plus-secret-field" | .mgmtToken => "mgmt-token" | .storeGVK => "store-gvk"
  | .storeFind => "store-find" | .routeType => "route-type" | .filterType => "filter-type"
  | .btpCondIndex => "btp-conditions-index"

/-! ## 1. Binding routes to listeners (route_common.go)

`bindRoutesToListeners` → `bindL7RouteToListeners` / `bindL4RouteToListeners` → `validateParentRef`
→ `findAttachableListeners` → `tryToAttachL7RouteToListeners` (`bind` closure) / `bindToListenerL4`
→ `isRouteNamespaceAllowedByListener`. -/

/-- `AllowedRoutes.Namespaces.From` of a listener as the code sees it. -/
inductive From
  | all | same | selector
  | absent      -- AllowedRoutes == nil or AllowedRoutes.Namespaces == nil
  | nilPtr      -- Namespaces != nil but From == nil (not admissible: the CRD defaults From to Same)
  | other       -- any other string: falls through the switch
  deriving DecidableEq, Repr

structure Listener where
  name        : String
  attachable  : Bool
  from_       : From
  hasSelector : Bool          -- AllowedRouteLabelSelector != nil
  deriving Repr

structure ParentRef where
  gwNs    : String
  gwName  : String
  section_ : String            -- "" = no sectionName
  hasPort : Bool
  deriving Repr

structure Route where
  ns         : String
  attachable : Bool
  refs       : List ParentRef
  deriving Repr

structure Gateway where
  ns        : String
  name      : String
  valid     : Bool
  listeners : List Listener
  deriving Repr

structure BindView where
  namespaces : List String      -- names of the Namespace objects in the store
  gw         : Option Gateway   -- the winning Gateway of the graph
  routes     : List Route       -- L7 routes, then L4 routes, of the graph
  deriving Repr

/-- `isRouteNamespaceAllowedByListener` BEFORE commit d734bd5: panics when the Namespace is unknown. -/
def nsAllowedPre (m : String → String → Bool) (l : Listener) (routeNS gwNS : String)
    (namespaces : List String) : Except Site Bool :=
  match l.from_ with
  | .absent => .ok true
  | .nilPtr => .error .nilFrom
  | .all => .ok true
  | .same => .ok (routeNS == gwNS)
  | .selector =>
    if !l.hasSelector then .ok false
    else if namespaces.contains routeNS then .ok (m l.name routeNS)
    else .error .nsLookup
  | .other => .ok true

/-- `findAttachableListeners`. -/
def findAttachable (sectionName : String) (ls : List Listener) : List Listener × Bool :=
  if sectionName != "" then
    match ls.find? (fun l => l.name == sectionName) with
    | some l => if l.attachable then ([l], true) else ([], true)
    | none => ([], false)
  else (ls.filter (·.attachable), true)

/-- `validateParentRef`: `none` when a failed condition is set (the caller `continue`s). -/
def validateParentRef (ref : ParentRef) (gw : Gateway) : Option (List Listener) :=
  let (att, listenerExists) := findAttachable ref.section_ gw.listeners
  if !listenerExists then none
  else if ref.hasPort then none
  else if !(ref.gwNs == gw.ns && ref.gwName == gw.name) then none
  else if !gw.valid then none
  else some att

/-! ### the code as it is since commit d734bd5: a route whose Namespace object is not known (yet) is
simply not allowed by a Selector listener (`return false`); the `…Pre` definitions below mirror the
code BEFORE that commit and are kept as regression detectors. -/

/-- `isRouteNamespaceAllowedByListener` (current code); `m` stands for
`AllowedRouteLabelSelector.Matches(ns.Labels)`. -/
def nsAllowed (m : String → String → Bool) (l : Listener) (routeNS gwNS : String)
    (namespaces : List String) : Except Site Bool :=
  match l.from_ with
  | .absent => .ok true
  | .nilPtr => .error .nilFrom
  | .all => .ok true
  | .same => .ok (routeNS == gwNS)
  | .selector =>
    if !l.hasSelector then .ok false
    else if namespaces.contains routeNS then .ok (m l.name routeNS)
    else .ok false
  | .other => .ok true

def tryAttach (m : String → String → Bool) (routeNS gwNS : String) (namespaces : List String) :
    List Listener → Except Site Unit
  | [] => .ok ()
  | l :: ls =>
    match nsAllowed m l routeNS gwNS namespaces with
    | .error s => .error s
    | .ok _ => tryAttach m routeNS gwNS namespaces ls

def bindRefs (m : String → String → Bool) (gw : Gateway) (namespaces : List String) (routeNS : String) :
    List ParentRef → Except Site Unit
  | [] => .ok ()
  | ref :: rest =>
    match validateParentRef ref gw with
    | none => bindRefs m gw namespaces routeNS rest
    | some att =>
      match tryAttach m routeNS gw.ns namespaces att with
      | .error s => .error s
      | .ok _ => bindRefs m gw namespaces routeNS rest

def bindRoutes (m : String → String → Bool) (gw : Gateway) (namespaces : List String) :
    List Route → Except Site Unit
  | [] => .ok ()
  | r :: rs =>
    match (if !r.attachable then .ok () else bindRefs m gw namespaces r.ns r.refs) with
    | .error s => .error s
    | .ok _ => bindRoutes m gw namespaces rs

def bindAll (m : String → String → Bool) (v : BindView) : Except Site Unit :=
  match v.gw with
  | none => .ok ()
  | some gw => bindRoutes m gw v.namespaces v.routes

/-! ### pre-fix mirrors of the binding (code before commit d734bd5) -/

/-- the loop of `tryToAttachL7RouteToListeners` / `tryToAttachL4RouteToListeners` over the attachable
listeners: the namespace check is the first thing `bind` / `bindToListenerL4` does. -/
def tryAttachPre (m : String → String → Bool) (routeNS gwNS : String) (namespaces : List String) :
    List Listener → Except Site Unit
  | [] => .ok ()
  | l :: ls =>
    match nsAllowedPre m l routeNS gwNS namespaces with
    | .error s => .error s
    | .ok _ => tryAttachPre m routeNS gwNS namespaces ls

/-- the `for i := range route.ParentRefs` loop of `bindL7RouteToListeners` / `bindL4RouteToListeners`. -/
def bindRefsPre (m : String → String → Bool) (gw : Gateway) (namespaces : List String) (routeNS : String) :
    List ParentRef → Except Site Unit
  | [] => .ok ()
  | ref :: rest =>
    match validateParentRef ref gw with
    | none => bindRefsPre m gw namespaces routeNS rest
    | some att =>
      match tryAttachPre m routeNS gw.ns namespaces att with
      | .error s => .error s
      | .ok _ => bindRefsPre m gw namespaces routeNS rest

def bindRoutePre (m : String → String → Bool) (gw : Gateway) (namespaces : List String) (r : Route) :
    Except Site Unit :=
  if !r.attachable then .ok () else bindRefsPre m gw namespaces r.ns r.refs

def bindRoutesPre (m : String → String → Bool) (gw : Gateway) (namespaces : List String) :
    List Route → Except Site Unit
  | [] => .ok ()
  | r :: rs =>
    match bindRoutePre m gw namespaces r with
    | .error s => .error s
    | .ok _ => bindRoutesPre m gw namespaces rs

/-- `bindRoutesToListeners`. -/
def bindAllPre (m : String → String → Bool) (v : BindView) : Except Site Unit :=
  match v.gw with
  | none => .ok ()
  | some gw => bindRoutesPre m gw v.namespaces v.routes

/-! ## 2. Host path rules (dataplane/configuration.go `hostPathRules`)

Only the key sets of `rulesPerHost` and `listenersForHost` matter for the lookup in `buildServers`. -/

structure Hpr where
  rulesPerHost     : List String := []
  listenersForHost : List String := []
  deriving Repr

def addKey (k : String) (l : List String) : List String := if l.contains k then l else l ++ [k]

/-- the first `for _, h := range hostnames` loop of `upsertRoute`: both maps get the key. -/
def Hpr.upsertRoute (s : Hpr) : List String → Hpr
  | [] => s
  | h :: hs =>
    Hpr.upsertRoute { rulesPerHost := addKey h s.rulesPerHost, listenersForHost := addKey h s.listenersForHost } hs

/-- `upsertListener` = one `upsertRoute` per valid route of the listener. -/
def Hpr.upsertAll (s : Hpr) : List (List String) → Hpr
  | [] => s
  | r :: rs => Hpr.upsertAll (s.upsertRoute r) rs

/-- the `for h, rules := range hpr.rulesPerHost` loop of `buildServers`. -/
def lookupAll (listeners : List String) : List String → Except Site Unit
  | [] => .ok ()
  | h :: hs => if listeners.contains h then lookupAll listeners hs else .error .noListenerForHost

def Hpr.buildServers (s : Hpr) : Except Site Unit := lookupAll s.listenersForHost s.rulesPerHost

/-! ## 3. Path types (graph/httproute.go `validatePathMatch`, `processHTTPRouteRule`;
dataplane/convert.go `convertPathType`; configuration.go `upsertRoute` match loop) -/

structure PathMatch where
  type  : Option String
  value : Option String
  deriving Repr

structure Match where
  path      : Option PathMatch
  otherErrs : Nat           -- number of errors from the header / query / method validators
  deriving Repr

def internalPrefix : String := "/_ngf-internal"

/-- `validatePathMatch`: number of errors; `valueOk` is `validator.ValidatePathInMatch`. -/
def validatePathMatch (valueOk : String → Bool) (p : Option PathMatch) : Nat :=
  match p with
  | none => 0
  | some pm =>
    match pm.type, pm.value with
    | none, _ => 1
    | some _, none => 1
    | some t, some v =>
      if v.startsWith internalPrefix then 1
      else (if t != "PathPrefix" && t != "Exact" then 1 else 0) + (if valueOk v then 0 else 1)

/-- `validateMatch`. -/
def validateMatch (valueOk : String → Bool) (m : Match) : Nat :=
  validatePathMatch valueOk m.path + m.otherErrs

/-- `processHTTPRouteRule`: `ValidMatches`. -/
def validMatches (valueOk : String → Bool) (ms : List Match) : Bool :=
  ms.all (fun m => validateMatch valueOk m == 0)

inductive PathType | prefix_ | exact deriving DecidableEq, Repr

/-- `convertPathType`. -/
def convertPathType (t : String) : Except Site PathType :=
  if t == "PathPrefix" then .ok .prefix_
  else if t == "Exact" then .ok .exact
  else .error .pathType

/-- what `upsertRoute` does with one match: `*m.Path.Type` then `convertPathType`. -/
def matchPathType (m : Match) : Except Site PathType :=
  match m.path with
  | none => .error .nilPath
  | some pm =>
    match pm.type with
    | none => .error .nilPath
    | some t => convertPathType t

def rulePathTypes : List Match → Except Site (List PathType)
  | [] => .ok []
  | m :: ms =>
    match matchPathType m with
    | .error s => .error s
    | .ok t =>
      match rulePathTypes ms with
      | .error s => .error s
      | .ok ts => .ok (t :: ts)

/-- the rule loop of `upsertRoute`: rules without `ValidMatches` are skipped. -/
def upsertRule (valueOk : String → Bool) (ms : List Match) : Except Site (List PathType) :=
  if !validMatches valueOk ms then .ok [] else rulePathTypes ms

/-- `ConvertGRPCMatches` as far as the path is concerned: `hasMethod` = method, service and method name
all set. -/
def convertGRPCMatch (hasMethod : Bool) : Match :=
  { path := some { type := some (if hasMethod then "Exact" else "PathPrefix"), value := some "/" }, otherErrs := 0 }

/-! ## 4. Backend references (graph/backend_refs.go `createBackendRef`, `getServicePort`;
resolver.go `Resolve`) -/

structure SvcPort where
  port : Nat
  deriving Repr, DecidableEq

structure Service where
  ns    : String
  name  : String
  ports : List SvcPort
  deriving Repr

structure BackendRefIn where
  name      : String
  nsOpt     : Option String
  port      : Option Nat
  refOk     : Bool          -- the checks of validateBackendRef other than the port (group, kind, grant, weight, filters)
  laterOk   : Bool          -- verifyIPFamily and findBackendTLSPolicyForService succeed
  deriving Repr

structure BackendRef where
  valid : Bool
  ns    : String
  name  : String
  port  : Nat
  deriving Repr

/-- `getServicePort`. -/
def getServicePort (svc : Service) (port : Nat) : Option SvcPort := svc.ports.find? (·.port == port)

/-- `createBackendRef` (`validateRouteBackendRef`, `getIPFamilyAndPortFromRef`). -/
def createBackendRef (ref : BackendRefIn) (routeNs : String) (services : List Service) : BackendRef :=
  if !ref.refOk then { valid := false, ns := "", name := "", port := 0 }
  else
    match ref.port with
    | none => { valid := false, ns := "", name := "", port := 0 }     -- "port cannot be nil"
    | some p =>
      let ns := ref.nsOpt.getD routeNs
      match services.find? (fun s => s.ns == ns && s.name == ref.name) with
      | none => { valid := false, ns := ns, name := ref.name, port := 0 }
      | some svc =>
        match getServicePort svc p with
        | none => { valid := false, ns := ns, name := ref.name, port := 0 }
        | some sp => { valid := ref.laterOk, ns := ns, name := ref.name, port := sp.port }

/-- the precondition check of `Resolve`. -/
def resolvePre (ns name : String) (port : Nat) : Except Site Unit :=
  if port == 0 || name == "" || ns == "" then .error .resolvePre else .ok ()

/-- `buildUpstreams`: `Resolve` is called for the backend refs marked valid. -/
def resolveAll : List BackendRef → Except Site Unit
  | [] => .ok ()
  | b :: bs =>
    if b.valid then
      match resolvePre b.ns b.name b.port with
      | .error s => .error s
      | .ok _ => resolveAll bs
    else resolveAll bs

/-! ## 5. NGINX Plus secrets (graph.go `setPlusSecretContent`, configuration.go
`buildAuxiliarySecrets`, main_config.go `generateMgmtFiles`) -/

structure PlusFile where
  secretPresent : Bool        -- the Secret object is in the store
  fieldPresent  : Bool        -- secret.Data has FieldName
  type          : Nat         -- SecretFileType (0 = PlusReportJWTToken)
  deriving Repr

/-- `setPlusSecretContent` (current code, commit 02715d5): a missing field is skipped (`continue`). -/
def setPlusSecretContent : List PlusFile → Except Site Unit
  | [] => .ok ()
  | f :: fs => if f.secretPresent && !f.fieldPresent then setPlusSecretContent fs else setPlusSecretContent fs

/-- `setPlusSecretContent` BEFORE commit 02715d5: panics on a missing field. -/
def setPlusSecretContentPre : List PlusFile → Except Site Unit
  | [] => .ok ()
  | f :: fs =>
    if f.secretPresent && !f.fieldPresent then .error .plusField else setPlusSecretContentPre fs

/-- `buildAuxiliarySecrets`: the keys of the resulting map. -/
def auxSecretKeys (fs : List PlusFile) : List Nat := fs.map (·.type)

def jwtTokenType : Nat := 0

/-- `generateMgmtFiles`. -/
def generateMgmtFiles (plus : Bool) (fs : List PlusFile) : Except Site Unit :=
  if !plus then .ok ()
  else if (auxSecretKeys fs).contains jwtTokenType then .ok () else .error .mgmtToken

/-! ## 5b. BackendTLSPolicy (graph/backend_tls_policy.go `validateBackendTLSPolicy`;
backend_refs.go `findBackendTLSPolicyForService`) -/

structure Btp where
  ancestorsFull : Bool      -- backendTLSPolicyAncestorsFull(status.ancestors, controller)
  specErrs      : Nat       -- number of validation errors of hostname / CA refs / well-known certs
  deriving Repr

/-- `validateBackendTLSPolicy`: (valid, number of conditions). A full ancestor list makes the policy
invalid WITHOUT adding a condition. -/
def validateBtp (b : Btp) : Bool × Nat := (!b.ancestorsFull && b.specErrs == 0, b.specErrs)

/-- `findBackendTLSPolicyForService` on a policy some backendRef resolves to (current code, commit
72dccd7): the message of the first condition if there is one, a fixed text otherwise. -/
def btpMessage (valid : Bool) (nconds : Nat) : Except Site String :=
  if !valid then .ok (if nconds > 0 then "conditions[0].message" else "its ancestor status list is full")
  else .ok ""

def btpLookup (b : Btp) : Except Site String := btpMessage (validateBtp b).1 (validateBtp b).2

/-- the same BEFORE commit 72dccd7:
`if !beTLSPolicy.Valid { err = fmt.Errorf(…, beTLSPolicy.Conditions[0].Message) }`. -/
def btpMessagePre (valid : Bool) (nconds : Nat) : Except Site Unit :=
  if !valid && nconds == 0 then .error .btpCondIndex else .ok ()

def btpLookupPre (b : Btp) : Except Site Unit := btpMessagePre (validateBtp b).1 (validateBtp b).2

/-- the policies of a step on which the PRE-FIX lookup would panic if a backendRef reaches them -/
def btpMaySitesPre (ps : List (Bool × Nat)) : List Site :=
  if ps.any (fun p => match btpMessagePre p.1 p.2 with | .error _ => true | .ok _ => false) then [.btpCondIndex] else []

/-! ## 6. The object store (state/store.go `newChangeTrackingUpdater`, `Upsert`, `Delete`) -/

structure KindCfg where
  kind     : String
  hasStore : Bool
  deriving Repr

structure Updater where
  supported : List String
  persisted : List String
  stores    : List String
  deriving Repr

/-- `newChangeTrackingUpdater`. -/
def newUpdater : List KindCfg → Updater
  | [] => { supported := [], persisted := [], stores := [] }
  | c :: cs =>
    let u := newUpdater cs
    { supported := c.kind :: u.supported,
      persisted := if c.hasStore then c.kind :: u.persisted else u.persisted,
      stores := if c.hasStore then c.kind :: u.stores else u.stores }

/-- `Upsert` / `Delete` as far as panics are concerned: `assertSupportedGVK`, then
`mustFindStoreForObj` only when `persists` (`upsert`: get + upsert; `delete`, since commit ecaa5d2:
`old := get`, return if nil, `delete`, and the predicate judges `old`; every kind of the table,
EndpointSlice included, now has a store). -/
def Updater.capture (u : Updater) (kind : String) : Except Site Unit :=
  if !u.supported.contains kind then .error .storeGVK
  else if u.persisted.contains kind then
    (if u.stores.contains kind then .ok () else .error .storeFind)
  else .ok ()

def Updater.captureAll (u : Updater) : List String → Except Site Unit
  | [] => .ok ()
  | k :: ks =>
    match u.capture k with
    | .error s => .error s
    | .ok _ => u.captureAll ks

/-! ## 7. Closed enumerations (`RouteType`, `FilterType`) -/

/-- `convertRouteType`, `getRefGrantFromResourceForRoute`, `PrepareRouteRequests`: switch over RouteType. -/
def switchRouteType (t : String) : Except Site Unit :=
  if t == "http" || t == "grpc" then .ok () else .error .routeType

def switchRouteTypes : List String → Except Site Unit
  | [] => .ok ()
  | t :: ts => match switchRouteType t with | .error s => .error s | .ok _ => switchRouteTypes ts

def supportedHTTPFilters : List String :=
  ["ResponseHeaderModifier", "RequestHeaderModifier", "ExtensionRef", "RequestRedirect", "URLRewrite"]
def supportedGRPCFilters : List String := ["ResponseHeaderModifier", "RequestHeaderModifier", "ExtensionRef"]
def filterCases : List String :=
  ["RequestRedirect", "URLRewrite", "RequestHeaderModifier", "ResponseHeaderModifier", "ExtensionRef"]

/-- `validateFilterType`: true = no error. -/
def validateFilterType (grpc : Bool) (t : String) : Bool :=
  if grpc && !supportedGRPCFilters.contains t then false else supportedHTTPFilters.contains t

/-- `validateFilter`: `.ok false` = validation error reported, `.ok true` = dispatched to a validator. -/
def validateFilter (grpc : Bool) (t : String) : Except Site Bool :=
  if !validateFilterType grpc t then .ok false
  else if filterCases.contains t then .ok true else .error .filterType

/-- `processRouteRuleFilters` over the filters of the graph: `(grpc, type)` pairs. -/
def validateFilters : List (Bool × String) → Except Site Unit
  | [] => .ok ()
  | (g, t) :: ts => match validateFilter g t with | .error s => .error s | .ok _ => validateFilters ts

/-! ## 8. One step of the controller as far as the mirrored sites go -/

structure StepView where
  events    : List String        -- kinds of the captured events
  changed   : Bool               -- Process() found a change (the graph is rebuilt)
  bind      : BindView
  plus      : Bool
  plusFiles : List PlusFile
  pathTypes : List String        -- `*m.Path.Type` of every match `upsertRoute` converts ("nil-path"/"nil-type" when nil)
  backends  : List BackendRef    -- the backend refs marked Valid
  hostOps   : List (List (List String))   -- per port: accepted hostnames of every (listener, route) pair
  routeTypes  : List String
  filterTypes : List (Bool × String)   -- (route is a GRPCRoute, filter type)
  btps        : List (Bool × Nat)      -- (valid, number of conditions) of every BackendTLSPolicy of the store
  deriving Repr

def pathTypeOf (t : String) : Except Site PathType :=
  if t == "nil-path" || t == "nil-type" then .error .nilPath else convertPathType t

def convertAll : List String → Except Site Unit
  | [] => .ok ()
  | t :: ts => match pathTypeOf t with | .error s => .error s | .ok _ => convertAll ts

def buildAllServers : List (List (List String)) → Except Site Unit
  | [] => .ok ()
  | ops :: rest =>
    match (Hpr.upsertAll {} ops).buildServers with
    | .error s => .error s
    | .ok _ => buildAllServers rest

/-- Sites that fire in one step, in pipeline order (capture → BuildGraph → BuildConfiguration →
Generate → status). The first one is what the real controller would die of. -/
def stepSites (u : Updater) (m : String → String → Bool) (v : StepView) : List Site :=
  let err : Except Site Unit → List Site := fun e => match e with | .error s => [s] | .ok _ => []
  let capture := err (u.captureAll v.events)
  if !capture.isEmpty then capture
  else if !v.changed then []
  else
    err (validateFilters v.filterTypes) ++ err (bindAll m v.bind) ++ err (switchRouteTypes v.routeTypes)
      ++ err (setPlusSecretContent v.plusFiles)
      ++ err (convertAll v.pathTypes) ++ err (buildAllServers v.hostOps) ++ err (resolveAll v.backends)
      ++ err (generateMgmtFiles v.plus v.plusFiles)

/-- what the PRE-FIX mirrors (code before commits d734bd5 / 02715d5) would do in this step: used to
recognise a regression of one of those repairs by its old input class. -/
def preSites (m : String → String → Bool) (v : StepView) : List Site :=
  let err : Except Site Unit → List Site := fun e => match e with | .error s => [s] | .ok _ => []
  if !v.changed then [] else err (bindAllPre m v.bind) ++ err (setPlusSecretContentPre v.plusFiles)

/-! ## 9. Histories: the store of Namespace objects and the graph inputs change event by event;
`apply` is the end of a batch (`Process()` → `BuildGraph` → `bindRoutesToListeners`). -/

inductive Ev
  | upsertNs (n : String)
  | deleteNs (n : String)
  | setGw (g : Option Gateway)     -- any event after which the graph has this winning Gateway
  | setRoutes (rs : List Route)    -- any event after which the graph has these routes
  | apply
  deriving Repr

structure Ctl where
  view    : BindView
  crashed : Option Site := none
  deriving Repr

def Ctl.init : Ctl := { view := { namespaces := [], gw := none, routes := [] } }

def Ctl.step (bind : BindView → Except Site Unit) (c : Ctl) : Ev → Ctl
  | .upsertNs n => { c with view := { c.view with namespaces := addKey n c.view.namespaces } }
  | .deleteNs n => { c with view := { c.view with namespaces := c.view.namespaces.filter (· != n) } }
  | .setGw g => { c with view := { c.view with gw := g } }
  | .setRoutes rs => { c with view := { c.view with routes := rs } }
  | .apply =>
    match c.crashed with
    | some _ => c
    | none =>
      match bind c.view with
      | .error s => { c with crashed := some s }
      | .ok _ => c

def Ctl.run (bind : BindView → Except Site Unit) (c : Ctl) : List Ev → Ctl
  | [] => c
  | e :: es => Ctl.run bind (c.step bind e) es

/-- one `apply` after every event (one event per batch) -/
def withApplies : List Ev → List Ev
  | [] => []
  | e :: es => e :: .apply :: withApplies es

/-! ## 10. Section-name references (route_common.go `buildSectionNameRefs`) — not a panic site: the
error makes the route invalid WITHOUT a condition, i.e. the inconsistency is not reported. -/

structure SpecRef where
  gw       : String          -- "<ns>/<name>" of the Gateway (only refs that name a Gateway are kept)
  section_ : String          -- "" = none
  port     : Option Nat
  deriving Repr, DecidableEq

/-- `buildSectionNameRefs`: error on a repeated (gateway, sectionName) — the port is not part of the key. -/
def buildSectionNameRefs (seen : List (String × String)) : List SpecRef → Except Unit (List SpecRef)
  | [] => .ok []
  | r :: rs =>
    if seen.contains (r.gw, r.section_) then .error ()
    else
      match buildSectionNameRefs ((r.gw, r.section_) :: seen) rs with
      | .error e => .error e
      | .ok l => .ok (r :: l)

/-- the CEL rules of the CRD on parentRefs of one parent group/kind: two refs to the same parent must each
have a sectionName or a port, and must differ in (sectionName, port). -/
def celParentRefsOK : List SpecRef → Bool
  | [] => true
  | r :: rs =>
    rs.all (fun q => q.gw != r.gw ||
      ((r.section_ != "" || r.port.isSome) && (q.section_ != "" || q.port.isSome)
        && !(q.section_ == r.section_ && q.port == r.port)))
    && celParentRefsOK rs

/-- class of a route that is invalid without any condition -/
def classifySilent (refs : List SpecRef) : String :=
  match buildSectionNameRefs [] refs with
  | .error _ => if celParentRefsOK refs then "parentrefs-same-section-different-port" else "inadmissible-duplicate-parentrefs"
  | .ok _ => "other"

end NGF.PanicSites
