/-
C04, text step, the region WITH backslashes. ValidatePathInMatch accepts backslashes in match paths and the escaped-string
validator accepts `\x` pairs in redirect hostnames; then the word NGINX reads is the unescaped one (Model/Print `dirsOK` does
not hold), but the STRUCTURE of the text is still the intended one. The weaker word predicates of that statement:

  `looseOK`   a bare word whose tail may contain backslashes (anything but white space, `;`, `{`), even a trailing one —
              allowed only as the LAST word of a block head, where the template continues with ` {` (a trailing
              backslash then swallows the space and the word ends at the brace): that is where match paths are written
  `escOK`     the content of a `"…"` hole in escaped-string shape: every backslash is followed by one more character,
              no unescaped double quote
Subject of `print_skeleton` (Props/C04Print.lean, helpers Proofs/PrintLexEsc.lean, Proofs/PrintFieldsEsc.lean). Core-only.
-/
import NGF.Model.Print

namespace NGF.Print
open NGF.Nginx

def looseChar (c : Char) : Bool := !(isWs c || c == ';' || c == '{')

def looseOK : List Char → Bool
  | [] => false
  | c :: t => headChar c && t.all looseChar

def escOK : List Char → Bool
  | [] => true
  | [c] => !(c == '"' || c == '\\')
  | c :: d :: t => if c == '\\' then escOK t else !(c == '"') && escOK (d :: t)

/-- a word that is not the last of a block head: strict bare, or quoted in escaped-string shape -/
def argOKw (a : Arg) : Bool := if a.2 then escOK a.1 else bareOK a.1

/-- the last word of a block head (` {` follows) -/
def lastOKw (a : Arg) : Bool := if a.2 then escOK a.1 else looseOK a.1

/-- the words of a block head -/
def headOKw : List Arg → Bool
  | [] => true
  | [a] => lastOKw a
  | a :: b :: r => argOKw a && headOKw (b :: r)

mutual
def dirOKw : Dir → Bool
  | .mk n args none => bareOK n && args.all argOKw
  | .mk n args (some ch) => bareOK n && headOKw args && dirsOKw ch
def dirsOKw : List Dir → Bool
  | [] => true
  | d :: ds => dirOKw d && dirsOKw ds
end

end NGF.Print
