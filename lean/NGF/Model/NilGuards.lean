/-
C05 (task C05-nil) — `Except`-valued mirrors of the IMPLICIT panic sites whose guard depends on ANOTHER field
(discriminated unions), with the CRD's admissibility predicate beside each.  Core Lean only.

A mirror works on the *shape* of an API object: which optional pointers are set, which discriminator value is
chosen, how long the lists are, and — for the value validators, which are not modelled — one bit "some value is
rejected".  It returns `.error site` exactly where the Go code dereferences a nil pointer / indexes an empty slice,
and otherwise what the Go function reports: does it produce an error / condition (`true`) or not.

  §1 filters:   graph.validateFilter → validateFilterRedirect / validateFilterRewrite / validateFilterHeaderModifier /
                validateFilterResponseHeaderModifier / validateExtensionRefFilter; dataplane.createHTTPFilters →
                convertHTTP*Filter / convertPathModifier  (filter type ↔ filter body, path-modifier type ↔ value)
  §2 listeners: graph.getConfiguratorForListener, createHTTPSListenerValidator, validateTLSFieldOnTLSListener,
                listenerConfigurator.configure, createExternalReferencesForTLSSecretsResolver; dataplane.buildServers
                (protocol ↔ tls, tls mode ↔ certificateRefs / options, validity ↔ protocol map write)
  §3 backendRefs: graph.validateRouteBackendRef / validateBackendRef, getIPFamilyAndPortFromRef (kind / port)
  §4 BackendTLSPolicy: graph.validateBackendTLSPolicy, processBackendTLSPolicies (caCertificateRefs ↔ wellKnown)
  §5 path matches: graph.validatePathMatch, dataplane upsertRoute `*m.Path.Type` (type ↔ value) — the mirror is
                `NGF.PanicSites.validatePathMatch` / `matchPathType`; here only the shape codec and the CEL predicate.

These are the functions `ngfdriver_C05 unit` runs on the shapes the harness feeds to the REAL functions
(harness/c05/unit.go through the overlay accessors), and the ones `NGF/Props/C05Guards.lean` proves total under
the admissibility predicates.
-/
import NGF.Model.PanicSites

namespace NGF.NilGuards

/-- the mirrored implicit sites -/
inductive GSite
  | pathModBody        -- httproute.go validateFilterRedirect / validateFilterRewrite: `*x.Path.ReplaceFullPath` /
                       -- `*x.Path.ReplacePrefixMatch` under `switch x.Path.Type`
  | convertFilterBody  -- dataplane/convert.go convertHTTP{RequestRedirect,URLRewrite,Header}Filter: `filter.X`, filter nil
  | convertPathModBody -- dataplane/convert.go convertPathModifier: `*path.ReplaceFullPath` / `*path.ReplacePrefixMatch`
  | tlsMode            -- gateway_listener.go createHTTPSListenerValidator: `*listener.TLS.Mode`
  | tlsResolveNil      -- gateway_listener.go createExternalReferencesForTLSSecretsResolver: `l.Source.TLS.…`, TLS nil
  | tlsCertIndex       -- same: `l.Source.TLS.CertificateRefs[0]` on an empty list
  | protoMapWrite      -- dataplane/configuration.go buildServers: write into `rulesForProtocol[l.Source.Protocol]` (nil map)
  | backendPort        -- backend_refs.go getIPFamilyAndPortFromRef: `*ref.Port`
  | btpCaIndex         -- backend_tls_policy.go processBackendTLSPolicies: `CACertificateRefs[0]` on an empty non-nil list
                       -- (GUARDED by `len(…) > 0` since commit cc3f1c7; fires only in the pre-fix mirror `processBtpPre`)
  | btpCaValidateIndex -- backend_tls_policy.go validateBackendTLSCACertRef: `CACertificateRefs[0]` (guarded by len != 1)
  | btpWellKnown       -- backend_tls_policy.go validateBackendTLSWellKnownCACerts: `*…WellKnownCACertificates`
  deriving DecidableEq, Repr

def GSite.name : GSite → String
  | .pathModBody => "pathmod-body" | .convertFilterBody => "convert-filter-body"
  | .convertPathModBody => "convert-pathmod-body" | .tlsMode => "tls-mode" | .tlsResolveNil => "tls-resolve-nil"
  | .tlsCertIndex => "tls-cert-index" | .protoMapWrite => "proto-map-write" | .backendPort => "backend-port"
  | .btpCaIndex => "btp-ca-index" | .btpCaValidateIndex => "btp-ca-validate-index" | .btpWellKnown => "btp-wellknown"

/-! ## §1 Filters -/

/-- `HTTPPathModifier`: the discriminator and which of the two members are set -/
structure PathMod where
  type      : String          -- ReplaceFullPath | ReplacePrefixMatch | anything else
  hasFull   : Bool
  hasPrefix : Bool
  deriving DecidableEq, Repr

/-- `HTTPRequestRedirectFilter` / `HTTPURLRewriteFilter` as far as nil-ness goes; `bad` = one of the value
validators (scheme, hostname, port, status code, path) rejects a value that is set -/
structure PathFilter where
  path : Option PathMod
  bad  : Bool
  deriving DecidableEq, Repr

structure Filter where
  grpc     : Bool
  type     : String
  redirect : Option PathFilter
  urlRewrite : Option PathFilter
  reqHdr   : Option Bool        -- body present; the Bool = some header name / value is rejected
  respHdr  : Option Bool
  extRef   : Option Bool        -- body present; the Bool = name empty / group or kind not the SnippetsFilter one
  mirror   : Bool               -- requestMirror body present (never read by NGF)
  deriving DecidableEq, Repr

def fullT : String := "ReplaceFullPath"
def prefixT : String := "ReplacePrefixMatch"

/-- the `if x.Path != nil { switch x.Path.Type … }` block of `validateFilterRedirect` (`stopOnUnknown`: the default
arm returns) and of `validateFilterRewrite` (it does not); result: an error was appended. -/
def validatePathMod (p : Option PathMod) : Except GSite Bool :=
  match p with
  | none => .ok false
  | some pm =>
    if pm.type == fullT then (if pm.hasFull then .ok false else .error .pathModBody)
    else if pm.type == prefixT then (if pm.hasPrefix then .ok false else .error .pathModBody)
    else .ok true

/-- `validateFilterRedirect` / `validateFilterRewrite`: `none` body = "cannot be nil" error -/
def validatePathFilter (f : Option PathFilter) : Except GSite Bool :=
  match f with
  | none => .ok true
  | some b =>
    match validatePathMod b.path with
    | .error s => .error s
    | .ok e => .ok (e || b.bad)

/-- `validateFilterHeaderModifier`, `validateFilterResponseHeaderModifier`, `validateExtensionRefFilter` -/
def validateBody (b : Option Bool) : Bool := match b with | none => true | some bad => bad

/-- `validateFilter`: `.ok true` = the returned error list is non-empty.  The first test is
`NGF.PanicSites.validateFilterType`; the default arm of the switch is the explicit panic already mirrored there
(`Site.filterType`, unreachable by `validateFilter_total`), so it is folded into "error" here. -/
def validateFilter (f : Filter) : Except GSite Bool :=
  if !PanicSites.validateFilterType f.grpc f.type then .ok true
  else if f.type == "RequestRedirect" then validatePathFilter f.redirect
  else if f.type == "URLRewrite" then validatePathFilter f.urlRewrite
  else if f.type == "RequestHeaderModifier" then .ok (validateBody f.reqHdr)
  else if f.type == "ResponseHeaderModifier" then .ok (validateBody f.respHdr)
  else if f.type == "ExtensionRef" then .ok (validateBody f.extRef)
  else .ok true

/-- `convertPathModifier` -/
def convertPathMod (p : Option PathMod) : Except GSite Unit :=
  match p with
  | none => .ok ()
  | some pm =>
    if pm.type == fullT then (if pm.hasFull then .ok () else .error .convertPathModBody)
    else if pm.type == prefixT then (if pm.hasPrefix then .ok () else .error .convertPathModBody)
    else .ok ()

def convertPathFilter (f : Option PathFilter) : Except GSite Unit :=
  match f with
  | none => .error .convertFilterBody
  | some b => convertPathMod b.path

/-- `createHTTPFilters` on one filter (the switch over `f.FilterType`; other types fall through) -/
def convertFilter (f : Filter) : Except GSite Unit :=
  if f.type == "RequestRedirect" then convertPathFilter f.redirect
  else if f.type == "URLRewrite" then convertPathFilter f.urlRewrite
  else if f.type == "RequestHeaderModifier" then (if f.reqHdr.isSome then .ok () else .error .convertFilterBody)
  else if f.type == "ResponseHeaderModifier" then (if f.respHdr.isSome then .ok () else .error .convertFilterBody)
  else .ok ()

/-- `processRouteRuleFilters` + `createHTTPFilters`: conversion only happens for rules whose filters are all
valid (`rule.Filters.Valid`); result = (the filter was reported invalid). -/
def filterPipeline (f : Filter) : Except GSite Bool :=
  match validateFilter f with
  | .error s => .error s
  | .ok true => .ok true
  | .ok false => match convertFilter f with | .error s => .error s | .ok _ => .ok false

/-- the `type` enums of `HTTPRouteFilter` / `GRPCRouteFilter` -/
def httpFilterTypes : List String :=
  ["RequestHeaderModifier", "ResponseHeaderModifier", "RequestMirror", "RequestRedirect", "URLRewrite", "ExtensionRef"]
def grpcFilterTypes : List String :=
  ["ResponseHeaderModifier", "RequestHeaderModifier", "RequestMirror", "ExtensionRef"]

/-- CEL of `HTTPPathModifier`: "replaceFullPath must be specified when type is set to 'ReplaceFullPath'", "type must be
'ReplaceFullPath' when replaceFullPath is set", and the same pair for replacePrefixMatch; `type` is an enum. -/
def PathMod.adm (pm : PathMod) : Bool :=
  (pm.type == fullT || pm.type == prefixT) && (pm.hasFull == (pm.type == fullT)) && (pm.hasPrefix == (pm.type == prefixT))

def PathFilter.adm (b : PathFilter) : Bool := match b.path with | none => true | some pm => pm.adm

/-- CEL of `HTTPRouteFilter` / `GRPCRouteFilter`: "filter.X must be specified for X filter.type" and "filter.X must be
nil if the filter.type is not X", for every member; `type` is an enum; GRPC filters have no redirect / rewrite. -/
def Filter.adm (f : Filter) : Bool :=
  (if f.grpc then grpcFilterTypes.contains f.type && f.redirect.isNone && f.urlRewrite.isNone else httpFilterTypes.contains f.type)
  && (f.redirect.isSome == (f.type == "RequestRedirect")) && (f.urlRewrite.isSome == (f.type == "URLRewrite"))
  && (f.reqHdr.isSome == (f.type == "RequestHeaderModifier")) && (f.respHdr.isSome == (f.type == "ResponseHeaderModifier"))
  && (f.extRef.isSome == (f.type == "ExtensionRef")) && (f.mirror == (f.type == "RequestMirror"))
  && (match f.redirect with | none => true | some b => b.adm) && (match f.urlRewrite with | none => true | some b => b.adm)

/-- admissible values NGF does not implement: they must surface as an error → route condition -/
def Filter.unsupported (f : Filter) : Bool := f.type == "RequestMirror"

/-! ## §2 Listeners -/

structure Tls where
  mode    : Option String       -- nil | Terminate | Passthrough | …   (CRD default: Terminate)
  nCerts  : Nat
  kindOk  : Bool                -- certificateRefs[0].kind nil or "Secret"
  groupOk : Bool                -- certificateRefs[0].group nil or ""
  nOpts   : Nat
  deriving DecidableEq, Repr

structure ListenerIn where
  proto    : String
  tls      : Option Tls
  otherBad : Bool               -- a validator that does not look at tls reports a condition (port, hostname, kinds, selector)
  secretOk : Bool               -- the referenced Secret resolves (exists, TLS type, valid key pair, grant if needed)
  deriving DecidableEq, Repr

/-- `createHTTPSListenerValidator`: number of conditions it appends (0 = none); the early returns are kept -/
def httpsValidate (t : Option Tls) : Except GSite Nat :=
  match t with
  | none => .ok 1
  | some t =>
    match t.mode with
    | none => .error .tlsMode
    | some m =>
      let c1 := if m != "Terminate" then 1 else 0
      let c2 := if t.nOpts > 0 then 1 else 0
      if t.nCerts == 0 then .ok (c1 + c2 + 1)
      else .ok (c1 + c2 + (if t.kindOk then 0 else 1) + (if t.groupOk then 0 else 1) + (if t.nCerts > 1 then 1 else 0))

/-- `validateTLSFieldOnTLSListener` -/
def tlsListenerValidate (t : Option Tls) : Nat :=
  match t with
  | none => 1
  | some t => match t.mode with | none => 1 | some m => if m != "Passthrough" then 1 else 0

/-- `createExternalReferencesForTLSSecretsResolver` -/
def tlsResolve (t : Option Tls) : Except GSite Unit :=
  match t with
  | none => .error .tlsResolveNil
  | some t => if t.nCerts == 0 then .error .tlsCertIndex else .ok ()

structure ListenerOut where
  valid    : Bool
  hasConds : Bool
  deriving DecidableEq, Repr

/-- `getConfiguratorForListener` + `listenerConfigurator.configure` (validators, then — only when no condition was
produced — the external reference resolver of the HTTPS configurator) -/
def otherConds (l : ListenerIn) : Nat := if l.otherBad then 1 else 0

def configure (l : ListenerIn) : Except GSite ListenerOut :=
  let other := otherConds l
  if l.proto == "HTTP" then
    -- createHTTPListenerValidator: "tls is not supported for HTTP listener"
    let n := if l.tls.isSome then 1 else 0
    .ok { valid := other + n == 0, hasConds := other + n != 0 }
  else if l.proto == "HTTPS" then
    match httpsValidate l.tls with
    | .error s => .error s
    | .ok n =>
      if other + n != 0 then .ok { valid := false, hasConds := true }
      else match tlsResolve l.tls with
        | .error s => .error s
        | .ok _ => .ok { valid := l.secretOk, hasConds := !l.secretOk }
  else if l.proto == "TLS" then
    let n := tlsListenerValidate l.tls
    .ok { valid := other + n == 0, hasConds := other + n != 0 }
  else .ok { valid := false, hasConds := true }       -- unsupportedProtocol: always one condition

/-- `buildServers`: the first loop; `rulesForProtocol` has exactly the HTTP and HTTPS keys -/
def protocolMapWrite (proto : String) (valid : Bool) : Except GSite Unit :=
  if proto == "TLS" then .ok ()
  else if !valid then .ok ()
  else if proto == "HTTP" || proto == "HTTPS" then .ok () else .error .protoMapWrite

def listenerPipeline (l : ListenerIn) : Except GSite ListenerOut :=
  match configure l with
  | .error s => .error s
  | .ok o => match protocolMapWrite l.proto o.valid with | .error s => .error s | .ok _ => .ok o

/-- CRD: `protocol` matches a pattern (any of the well-known names or a domain-prefixed one); `tls.mode` is defaulted
to Terminate; CEL on the listener list: "tls must not be specified for protocols ['HTTP', 'TCP', 'UDP']", "tls mode must
be Terminate for protocol HTTPS"; CEL on GatewayTLSConfig: "certificateRefs or options must be specified when mode is
Terminate". -/
def ListenerIn.adm (l : ListenerIn) : Bool :=
  (match l.tls with
   | none => true
   | some t => t.mode.isSome && (l.proto != "HTTP" && l.proto != "TCP" && l.proto != "UDP")
       && (l.proto != "HTTPS" || t.mode == some "Terminate")
       && (t.mode != some "Terminate" || t.nCerts > 0 || t.nOpts > 0))

/-- admissible but not implemented: protocols other than HTTP / HTTPS / TLS, tls options, HTTPS without tls or
without certificateRefs, a certificateRef that is not a core Secret, more than one certificateRef, a TLS listener
that does not pass through -/
def ListenerIn.unsupported (l : ListenerIn) : Bool :=
  (l.proto != "HTTP" && l.proto != "HTTPS" && l.proto != "TLS")
  || (l.proto == "HTTPS" && (match l.tls with
        | none => true
        | some t => t.nOpts > 0 || t.nCerts != 1 || !t.kindOk || !t.groupOk))
  || (l.proto == "TLS" && (match l.tls with | none => true | some t => t.mode != some "Passthrough"))

/-! ## §3 Backend references -/

structure BackendRefShape where
  group     : String          -- "nil" | "empty" | "core" | "other"   (NGF accepts nil, "" and "core")
  kindOk    : Bool            -- kind nil or "Service"
  crossNs   : Bool            -- namespace set and different from the route's
  granted   : Bool            -- a ReferenceGrant permits the cross-namespace reference
  port      : Option Nat
  weightOk  : Bool            -- weight nil or within [0, 1 000 000]
  nFilters  : Nat             -- backendRef-level filters (unsupported)
  svcExists : Bool            -- the Service is in the store (only then `*ref.Port` is reached)
  deriving DecidableEq, Repr

def BackendRefShape.groupOk (r : BackendRefShape) : Bool := r.group != "other"

/-- `validateRouteBackendRef` / `validateBackendRef`: valid? (an invalid ref ALWAYS comes with a condition: the Go
function returns `(false, cond)` in every failing arm) -/
def validateBackendRef (r : BackendRefShape) : Bool :=
  if r.nFilters > 0 then false
  else if !r.groupOk then false
  else if !r.kindOk then false
  else if r.crossNs && !r.granted then false
  else if r.port.isNone then false
  else r.weightOk

/-- `createBackendRef` / `validateBackendRefTLSRoute`: `getIPFamilyAndPortFromRef` is called only for valid refs and
dereferences the port once the Service is found -/
def backendRefPipeline (r : BackendRefShape) : Except GSite Bool :=
  if !validateBackendRef r then .ok false
  else if !r.svcExists then .ok false
  else match r.port with | none => .error .backendPort | some _ => .ok true

/-- CEL of `BackendObjectReference`: "Must have port for Service reference" —
`(size(self.group) == 0 && self.kind == 'Service') ? has(self.port) : true` (group and kind are defaulted to "" and
Service).  Note that a ref with group "core" — which NGF treats as a core Service — is admissible WITHOUT a port. -/
def BackendRefShape.adm (r : BackendRefShape) : Bool :=
  !((r.group == "nil" || r.group == "empty") && r.kindOk) || r.port.isSome

def BackendRefShape.unsupported (r : BackendRefShape) : Bool := !r.groupOk || !r.kindOk || r.nFilters > 0

/-! ## §4 BackendTLSPolicy -/

structure BtpShape where
  ancestorsFull : Bool
  hostOk        : Bool
  caRefs        : Option Nat     -- none = nil slice, some n = non-nil slice of length n (`caCertificateRefs: []` is `some 0`)
  caKindOk      : Bool           -- caCertificateRefs[0] is a core ConfigMap
  caResolves    : Bool           -- the ConfigMap exists and holds a certificate
  wellKnown     : Option String  -- nil | System | …
  deriving DecidableEq, Repr

def caLen (b : BtpShape) : Nat := b.caRefs.getD 0

/-- `validateBackendTLSPolicy`: (valid, ignored, number of conditions) -/
def validateBtp (b : BtpShape) : Except GSite (Bool × Bool × Nat) :=
  let v0 := !b.ancestorsFull
  let c1 := if b.hostOk then 0 else 1
  if caLen b > 0 && b.wellKnown.isSome then .ok (false, b.ancestorsFull, c1 + 1)
  else if caLen b > 0 then
    -- validateBackendTLSCACertRef: len != 1 → error before any index
    let e := if caLen b != 1 then 1 else if !b.caKindOk then 1 else if !b.caResolves then 1 else 0
    .ok (v0 && b.hostOk && e == 0, b.ancestorsFull, c1 + e)
  else match b.wellKnown with
    | some w =>
      let e := if w != "System" then 1 else 0
      .ok (v0 && b.hostOk && e == 0, b.ancestorsFull, c1 + e)
    | none => .ok (false, b.ancestorsFull, c1 + 1)

/-- `processBackendTLSPolicies` (current code, commit cc3f1c7):
`if valid && !ignored && len(CACertificateRefs) > 0 { … CACertificateRefs[0] … }` — the index is behind the length. -/
def processBtp (b : BtpShape) : Except GSite (Bool × Nat) :=
  match validateBtp b with
  | .error s => .error s
  | .ok (valid, ignored, n) =>
    if valid && !ignored && caLen b > 0 then
      (if caLen b == 0 then .error .btpCaIndex else .ok (valid, n))
    else .ok (valid, n)

/-- the same BEFORE commit cc3f1c7: `if valid && !ignored && CACertificateRefs != nil { … CACertificateRefs[0] … }` —
an empty NON-nil list (`caCertificateRefs: []`) reached the index.  Kept as a regression detector. -/
def processBtpPre (b : BtpShape) : Except GSite (Bool × Nat) :=
  match validateBtp b with
  | .error s => .error s
  | .ok (valid, ignored, n) =>
    if valid && !ignored && b.caRefs.isSome then
      (if caLen b == 0 then .error .btpCaIndex else .ok (valid, n))
    else .ok (valid, n)

/-- CEL of `BackendTLSPolicyValidation`: "must not contain both CACertificateRefs and WellKnownCACertificates" and
"must specify either CACertificateRefs or WellKnownCACertificates" — both written with `size(self.caCertificateRefs) > 0`,
so an EMPTY list next to wellKnownCACertificates passes; maxItems 8; wellKnownCACertificates is an enum {System}. -/
def BtpShape.adm (b : BtpShape) : Bool :=
  !(caLen b > 0 && b.wellKnown.isSome) && (caLen b > 0 || b.wellKnown.isSome) && caLen b ≤ 8
    && (b.wellKnown.isNone || b.wellKnown == some "System")

def BtpShape.unsupported (b : BtpShape) : Bool := caLen b > 1 || (caLen b == 1 && !b.caKindOk)

/-! ## §5 Path matches: the shape codec for `NGF.PanicSites.validatePathMatch` / `matchPathType` -/

/-- CRD: `path` is defaulted to {PathPrefix, "/"}, `type` and `value` are defaulted inside it; `type` is an enum
{Exact, PathPrefix, RegularExpression}. -/
def pathMatchAdm (p : Option PanicSites.PathMatch) : Bool :=
  match p with
  | none => false
  | some pm => pm.value.isSome &&
      (pm.type == some "Exact" || pm.type == some "PathPrefix" || pm.type == some "RegularExpression")

def pathMatchUnsupported (p : Option PanicSites.PathMatch) : Bool :=
  match p with | some pm => pm.type == some "RegularExpression" | none => false

/-- `processHTTPRouteRule` + `upsertRoute` on one match: number of validation errors, and the conversion only for
matches without errors -/
def pathMatchPipeline (valueOk : String → Bool) (p : Option PanicSites.PathMatch) : Except PanicSites.Site Nat :=
  let n := PanicSites.validatePathMatch valueOk p
  if n != 0 then .ok n
  else match PanicSites.matchPathType { path := p, otherErrs := 0 } with
    | .error s => .error s
    | .ok _ => .ok 0

end NGF.NilGuards
