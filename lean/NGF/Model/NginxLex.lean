/-
NGINX configuration tokeniser — a model of `ngx_conf_read_token` (src/core/ngx_conf_file.c),
written as a character fold so that statements about `pre ++ v ++ post` compose.

Part of the trusted base (DESIGN.md §4): this is what "how NGINX tokenises the file" MEANS in the
C03/C04 theorems. It is cross-checked against nginx-go-crossplane's lexer on the real generated
files by the C03 check.

Shape: `step : LexSt → Char → Except LexErr (LexSt × List Tok)`; `lexFrom` folds it; `lex` runs
from the initial state and checks the end-of-file condition. Tokens are the *post-processed* words
(escapes resolved exactly as the copy loop of ngx_conf_read_token does) and the three punctuators.
The nginx function returns once per statement and checks "`;`/`{` needs ≥1 word", "`}` needs 0
words"; `pending` counts the words of the current statement to reproduce those errors.
-/
namespace NGF.Nginx

inductive Tok
  | word (s : List Char) (quoted : Bool)   -- one argument; `quoted` = written in '…' or "…"
  | semi                                   -- ;
  | open                                   -- {
  | close                                  -- }
  deriving DecidableEq, Repr

inductive LexErr
  | unexpected (c : Char)        -- "unexpected \"c\""
  | unexpectedEOF                -- "unexpected end of file, expecting \";\" or \"}\""
  deriving DecidableEq, Repr

/-- Where the scanner is inside/between tokens (the C flags `last_space`, `need_space`,
`d_quoted`, `s_quoted`, `sharp_comment`). -/
inductive Mode
  | space          -- last_space = 1: between tokens
  | comment        -- sharp_comment = 1
  | bare           -- inside an unquoted token
  | dq             -- inside "…"
  | sq             -- inside '…'
  | needSpace      -- just closed a quoted token: need_space = 1
  deriving DecidableEq, Repr

structure LexSt where
  mode     : Mode
  esc      : Bool          -- `quoted` flag: previous char was a backslash
  dollar : Bool          -- `variable` flag: previous char was `$`
  cur      : List Char     -- raw characters of the token being read (between `start` and `pos`)
  pending  : Nat           -- number of words already read in the current statement
  deriving DecidableEq, Repr

def LexSt.init : LexSt := { mode := .space, esc := false, dollar := false, cur := [], pending := 0 }

def isWs (c : Char) : Bool := c == ' ' || c == '\t' || c == '\r' || c == '\n'

/-- The copy loop at the end of ngx_conf_read_token: `\"`, `\'`, `\\` drop the backslash;
`\t \r \n` become control characters; any other `\x` is kept verbatim (both characters). -/
def unescape : List Char → List Char
  | [] => []
  | '\\' :: c :: rest =>
      if c == '"' || c == '\'' || c == '\\' then c :: unescape rest
      else if c == 't' then '\t' :: unescape rest
      else if c == 'r' then '\r' :: unescape rest
      else if c == 'n' then '\n' :: unescape rest
      else '\\' :: c :: unescape rest
  | c :: rest => c :: unescape rest

/-- finish the current token -/
def emitWord (s : LexSt) (quoted : Bool) : Tok := .word (unescape s.cur) quoted

/-- One character. Follows the order of tests in ngx_conf_read_token. -/
def step (s : LexSt) (ch : Char) : Except LexErr (LexSt × List Tok) :=
  -- sharp_comment: skip to end of line
  if s.mode == .comment then
    if ch == '\n' then .ok ({ s with mode := .space }, []) else .ok (s, [])
  -- `quoted`: the character after a backslash is taken verbatim
  else if s.esc then
    .ok ({ s with esc := false, cur := s.cur ++ [ch] }, [])
  else match s.mode with
  | .needSpace =>
    if isWs ch then .ok ({ s with mode := .space }, [])
    else if ch == ';' then .ok ({ s with mode := .space, pending := 0 }, [.semi])
    else if ch == '{' then .ok ({ s with mode := .space, pending := 0 }, [.open])
    else if ch == ')' then
      -- falls through to the last_space branch with ch = ')': starts a bare token
      .ok ({ s with mode := .bare, cur := [ch], dollar := false }, [])
    else .error (.unexpected ch)
  | .space =>
    if isWs ch then .ok (s, [])
    else if ch == ';' then
      if s.pending == 0 then .error (.unexpected ch) else .ok ({ s with pending := 0 }, [.semi])
    else if ch == '{' then
      if s.pending == 0 then .error (.unexpected ch) else .ok ({ s with pending := 0 }, [.open])
    else if ch == '}' then
      if s.pending != 0 then .error (.unexpected ch) else .ok (s, [.close])
    else if ch == '#' then .ok ({ s with mode := .comment }, [])
    else if ch == '\\' then .ok ({ s with mode := .bare, esc := true, cur := [ch], dollar := false }, [])
    else if ch == '"' then .ok ({ s with mode := .dq, cur := [], dollar := false }, [])
    else if ch == '\'' then .ok ({ s with mode := .sq, cur := [], dollar := false }, [])
    else if ch == '$' then .ok ({ s with mode := .bare, cur := [ch], dollar := true }, [])
    else .ok ({ s with mode := .bare, cur := [ch], dollar := false }, [])
  | .bare =>
    if ch == '{' && s.dollar then .ok ({ s with cur := s.cur ++ [ch] }, [])   -- `${`
    else if ch == '\\' then .ok ({ s with esc := true, dollar := false, cur := s.cur ++ [ch] }, [])
    else if ch == '$' then .ok ({ s with dollar := true, cur := s.cur ++ [ch] }, [])
    else if isWs ch then
      .ok ({ s with mode := .space, dollar := false, cur := [], pending := s.pending + 1 }, [emitWord s false])
    else if ch == ';' then
      .ok ({ s with mode := .space, dollar := false, cur := [], pending := 0 }, [emitWord s false, .semi])
    else if ch == '{' then
      .ok ({ s with mode := .space, dollar := false, cur := [], pending := 0 }, [emitWord s false, .open])
    else .ok ({ s with dollar := false, cur := s.cur ++ [ch] }, [])
  | .dq =>
    if ch == '{' && s.dollar then .ok ({ s with cur := s.cur ++ [ch] }, [])
    else if ch == '\\' then .ok ({ s with esc := true, dollar := false, cur := s.cur ++ [ch] }, [])
    else if ch == '$' then .ok ({ s with dollar := true, cur := s.cur ++ [ch] }, [])
    else if ch == '"' then
      .ok ({ s with mode := .needSpace, dollar := false, cur := [], pending := s.pending + 1 }, [emitWord s true])
    else .ok ({ s with dollar := false, cur := s.cur ++ [ch] }, [])
  | .sq =>
    if ch == '{' && s.dollar then .ok ({ s with cur := s.cur ++ [ch] }, [])
    else if ch == '\\' then .ok ({ s with esc := true, dollar := false, cur := s.cur ++ [ch] }, [])
    else if ch == '$' then .ok ({ s with dollar := true, cur := s.cur ++ [ch] }, [])
    else if ch == '\'' then
      .ok ({ s with mode := .needSpace, dollar := false, cur := [], pending := s.pending + 1 }, [emitWord s true])
    else .ok ({ s with dollar := false, cur := s.cur ++ [ch] }, [])
  | .comment => .ok (s, [])   -- unreachable (handled above)

/-- Fold `step` over the input, accumulating tokens. -/
def lexFrom (s : LexSt) : List Char → Except LexErr (LexSt × List Tok)
  | [] => .ok (s, [])
  | c :: cs =>
    match step s c with
    | .error e => .error e
    | .ok (s1, t1) =>
      match lexFrom s1 cs with
      | .error e => .error e
      | .ok (s2, t2) => .ok (s2, t1 ++ t2)

/-- End of file is legal only between statements (`last_space` set, no pending words). -/
def atEOF (s : LexSt) : Bool :=
  (s.mode == .space || s.mode == .comment) && s.pending == 0 && !s.esc

/-- Tokenise a whole file. -/
def lex (input : List Char) : Except LexErr (List Tok) :=
  match lexFrom LexSt.init input with
  | .error e => .error e
  | .ok (s, ts) => if atEOF s then .ok ts else .error .unexpectedEOF

def lexString (s : String) : Except LexErr (List Tok) := lex s.toList

/-- Composition: lexing `a ++ b` is lexing `a`, then `b` from the state reached. -/
theorem lexFrom_append (s : LexSt) (a b : List Char) :
    lexFrom s (a ++ b) =
      match lexFrom s a with
      | .error e => .error e
      | .ok (s1, t1) =>
        match lexFrom s1 b with
        | .error e => .error e
        | .ok (s2, t2) => .ok (s2, t1 ++ t2) := by
  induction a generalizing s with
  | nil =>
    simp only [List.nil_append, lexFrom]
    cases lexFrom s b with
    | error e => rfl
    | ok p => cases p; simp
  | cons c cs ih =>
    simp only [List.cons_append, lexFrom]
    cases step s c with
    | error e => rfl
    | ok p =>
      obtain ⟨s1, t1⟩ := p
      simp only [ih s1]
      cases lexFrom s1 cs with
      | error e => rfl
      | ok q =>
        obtain ⟨s2, t2⟩ := q
        simp only
        cases lexFrom s2 b with
        | error e => rfl
        | ok r => obtain ⟨s3, t3⟩ := r; simp [List.append_assoc]

end NGF.Nginx
